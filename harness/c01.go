package main

import (
	"strings"

	"github.com/mmcloughlin/avo/ir"
	"github.com/mmcloughlin/avo/operand"
	"github.com/mmcloughlin/avo/pass"
	"github.com/mmcloughlin/avo/reg"
)

func classifyAllocErr(err error, panicked bool) string {
	if panicked {
		return "panic"
	}
	msg := err.Error()
	switch {
	case strings.Contains(msg, "impossible register allocation"):
		return "impossible"
	case strings.Contains(msg, "failed to allocate"):
		return "failed"
	case strings.Contains(msg, "non physical register"):
		return "nonphysical"
	case strings.Contains(msg, "high-byte register"):
		return "highbyte"
	case strings.Contains(msg, "no allocatable") || strings.Contains(msg, "unknown register family"):
		return "noregs"
	}
	return "other:" + strings.ReplaceAll(msg, " ", "_")
}

// regRoles gives, in Registers() order, "1" for a direct register operand and "0" for an address register.
func regRoles(i *ir.Instruction) []string {
	var roles []string
	for _, op := range i.Operands {
		switch v := op.(type) {
		case reg.Register:
			roles = append(roles, "1")
		case operand.Mem:
			for range operand.Registers(v) {
				roles = append(roles, "0")
			}
		}
	}
	return roles
}

func encAllocation(a reg.Allocation) string {
	ms := reg.MaskSet{}
	for v, p := range a {
		ms[v] = uint16(0) // placeholder to reuse sorting
		_ = p
	}
	ids := make([]int, 0, len(a))
	for v := range a {
		ids = append(ids, int(v))
	}
	sortInts(ids)
	parts := []string{"ok", itoa(len(ids))}
	for _, v := range ids {
		parts = append(parts, itoa(v), itoa(int(a[reg.ID(v)])))
	}
	return strings.Join(parts, " ")
}

func sortInts(xs []int) {
	for i := 1; i < len(xs); i++ {
		for j := i; j > 0 && xs[j-1] > xs[j]; j-- {
			xs[j-1], xs[j] = xs[j], xs[j-1]
		}
	}
}

// allocCase holds everything captured around the real allocation passes.
type allocCase struct {
	allocReq  string // alloc request body
	checkReq  string // accept-alloc request body (use/def/succ/liveIn/liveOut)
	outcome   string // "ok k (v p)*" or "err class"
	bindReq   string // accept-bind body (only when ok)
	encReq    string // accept-enc body (only when ok)
	nVirt     int
	entryVirt bool
	errClass  string
	useDefs   []string // accept-usedef lines: the instruction's declared use/def vs the form's operand actions
}

// c01UseDefDB, when set, makes runAllocPipeline cross-check the use/def sets the allocator relies on against the
// read/write specification derived from the form table's operand actions (C02's instruction-level acceptor):
// the C01 acceptor takes use/def from the implementation, so a wrong use/def extraction would otherwise be invisible here.
var c01UseDefDB *formsDB
var c01UseDefRng *rng

func runAllocPipeline(fn *ir.Function) (c allocCase, ok bool) {
	if !prepLiveness(fn) {
		return c, false
	}
	if c01UseDefDB != nil {
		c.useDefs = append(c.useDefs, "accept-cfg "+encNodes(fn)+" => "+encGraph(fn))
		for _, i := range fn.Instructions() {
			m := matchedForm(c01UseDefDB, i.Opcode, i.Suffixes, i.Operands)
			if m == nil {
				continue
			}
			if m.Features&featCancelling == 0 && !c01UseDefRng.chance(1, 4) {
				continue
			}
			var in, out []reg.Register
			if _, p := safely(func() error { in, out = i.InputRegisters(), i.OutputRegisters(); return nil }); p {
				continue
			}
			c.useDefs = append(c.useDefs, "accept-usedef "+encUseDef(m, i.Operands)+" => "+
				encMaskSet(reg.NewMaskSetFromRegisters(in))+" "+encMaskSet(reg.NewMaskSetFromRegisters(out)))
		}
	}
	if err, _ := safely(func() error { return pass.Liveness(fn) }); err != nil {
		return c, false
	}
	idx := instrIndex(fn)
	is := fn.Instructions()
	a := []string{itoa(len(is))}
	ck := []string{itoa(len(is))}
	orig := make([][]reg.Register, len(is))
	virt := map[reg.ID]bool{}
	for k, i := range is {
		rs := i.Registers()
		orig[k] = rs
		for _, r := range rs {
			if r.ID().IsVirtual() {
				virt[r.ID()] = true
			}
		}
		roles := regRoles(i)
		a = append(a, itoa(len(rs)))
		for j, r := range rs {
			a = append(a, encReg(r), roles[j])
		}
		a = append(a, encRegs(i.OutputRegisters()), encMaskSet(i.LiveOut))
		ck = append(ck, encRegs(i.InputRegisters()), encRegs(i.OutputRegisters()), itoa(len(i.Succ)))
		for _, s := range i.Succ {
			if s == nil {
				ck = append(ck, "-1")
			} else {
				ck = append(ck, itoa(idx[s]))
			}
		}
		ck = append(ck, encMaskSet(i.LiveIn), encMaskSet(i.LiveOut))
	}
	c.allocReq = strings.Join(a, " ")
	c.checkReq = strings.Join(ck, " ")
	c.nVirt = len(virt)
	if len(is) > 0 {
		for id := range is[0].LiveIn {
			if id.IsVirtual() {
				c.entryVirt = true
			}
		}
	}
	err, panicked := safely(func() error {
		if err := pass.AllocateRegisters(fn); err != nil {
			return err
		}
		if err := pass.BindRegisters(fn); err != nil {
			return err
		}
		return pass.VerifyAllocation(fn)
	})
	if err != nil {
		// the property demands an error, not a particular one: only a panic stays distinct
		c.errClass = classifyAllocErr(err, panicked)
		if panicked {
			c.outcome = "err panic"
		} else {
			c.outcome = "err"
		}
		return c, true
	}
	c.outcome = encAllocation(fn.Allocation)
	b := []string{itoa(len(is))}
	e := []string{itoa(len(is))}
	for k, i := range is {
		rs := i.Registers()
		if len(rs) != len(orig[k]) {
			b = append(b, "0")
			e = append(e, "0")
			continue
		}
		roles := regRoles(i)
		b = append(b, itoa(len(rs)))
		e = append(e, itoa(len(rs)))
		for j := range rs {
			b = append(b, encReg(orig[k][j]), encReg(rs[j]))
			e = append(e, encReg(orig[k][j]), encReg(rs[j]), roles[j])
		}
	}
	c.bindReq = strings.Join(b, " ")
	c.encReq = strings.Join(e, " ")
	return c, true
}

func allocGenCfg(r *rng, tier string) genCfg {
	cfg := genCfg{minInstr: 2, maxInstr: 6 + r.intn(50), physPct: r.intn(35), branchPct: r.intn(25),
		randomFormPct: 15, strict: !r.chance(1, 6)}
	cfg.pressureTail = r.chance(1, 3)
	switch r.intn(6) {
	case 0: // GP pressure around and above the register file
		cfg.nGP = 10 + r.intn(12)
		cfg.pressureTail = r.chance(2, 3)
	case 1: // vector / mask pressure
		cfg.nVec, cfg.nK, cfg.nGP = r.intn(40), r.intn(10), 1+r.intn(4)
	case 2: // byte registers incl. high bytes
		cfg.nGP = 3 + r.intn(8)
		cfg.opcodes = []string{"MOVB", "ADDB", "XORB", "MOVBQZX", "MOVBLZX", "XCHGB", "MOVQ", "ADDQ", "SETEQ", "MOVW", "MOVL"}
	default:
		cfg.nGP, cfg.nVec, cfg.nK = 1+r.intn(9), r.intn(6), r.intn(3)
	}
	if tier == "thorough" && r.chance(1, 25) {
		cfg.maxInstr = 100 + r.intn(300)
	}
	return cfg
}

func init() {
	register("c01", "register allocation on generated functions: model comparison + acceptors (C01, C03)", func(args []string) error {
		f := newStdFlags("c01")
		if err := f.fs.Parse(args); err != nil {
			return err
		}
		db, err := loadForms(*f.repo)
		if err != nil {
			return err
		}
		o, err := openOut(f)
		if err != nil {
			return err
		}
		defer o.close()
		r := newRng(*f.seed)
		stats := map[string]int{}
		c01UseDefDB, c01UseDefRng = db, r.fork()
		for k := 0; k < *f.n; k++ {
			g := newFgen(r.fork(), db, allocGenCfg(r, *f.tier))
			fn := g.generate()
			c, ok := runAllocPipeline(fn)
			if !ok {
				stats["cfg_rejected"]++
				continue
			}
			for _, l := range c.useDefs {
				o.emit(l, "ok")
				stats["usedef_crosschecks"]++
			}
			stats["functions"]++
			if c.errClass != "" {
				stats["outcome:err_"+c.errClass]++
			} else {
				stats["outcome:"+strings.Join(strings.Fields(c.outcome)[:min(2, len(strings.Fields(c.outcome)))], "_")]++
			}
			if strings.HasPrefix(c.outcome, "ok") {
				stats["outcome:ok"]++
			}
			stats["virtuals"] += c.nVirt
			if c.entryVirt {
				stats["virtual_live_at_entry"]++
			}
			o.emit("alloc "+c.allocReq, c.outcome)
			o.emit("accept-alloc "+c.checkReq+" => "+c.outcome, "ok")
			if c.bindReq != "" {
				o.emit("accept-bind "+c.bindReq+" => "+strings.TrimPrefix(c.outcome, "ok "), "ok")
				o.emit("accept-enc "+c.encReq, "ok")
			}
		}
		return writeJSON(*f.stats, stats)
	})
}
