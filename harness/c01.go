package main

import (
	"bufio"
	"fmt"
	"os"
	"strings"

	"github.com/mmcloughlin/avo/attr"
	"github.com/mmcloughlin/avo/gotypes"
	"github.com/mmcloughlin/avo/ir"
	"github.com/mmcloughlin/avo/operand"
	"github.com/mmcloughlin/avo/pass"
	"github.com/mmcloughlin/avo/reg"
	"github.com/mmcloughlin/avo/x86"
)

func classifyAllocErr(err error, panicked bool) string {
	if panicked {
		return "panic"
	}
	msg := err.Error()
	switch {
	case strings.Contains(msg, "impossible register allocation"):
		return "impossible"
	case strings.Contains(msg, "failed to allocate"):
		return "failed"
	case strings.Contains(msg, "non physical register"):
		return "nonphysical"
	case strings.Contains(msg, "high-byte register"):
		return "highbyte"
	case strings.Contains(msg, "no allocatable") || strings.Contains(msg, "unknown register family"):
		return "noregs"
	}
	return "other:" + strings.ReplaceAll(msg, " ", "_")
}

// ---------------------------------------------------------------------------
// The registers of an instruction by the harness's OWN traversal of the operand values (a register operand is
// itself; a memory operand contributes its base and its index register, whatever kind the index has).  Nothing
// below asks avo which registers an operand or an instruction mentions: operand.Registers / Instruction.Registers
// are implementation under test and are judged against this traversal by `accept-regs`.
// ---------------------------------------------------------------------------

type c01RoleReg struct {
	r      reg.Register
	direct bool // true: register operand; false: address register of a memory operand
}

func c01OpRegs(op operand.Op) []c01RoleReg {
	switch v := op.(type) {
	case reg.Register:
		if v == nil {
			return nil
		}
		return []c01RoleReg{{v, true}}
	case operand.Mem:
		var rs []c01RoleReg
		if v.Base != nil {
			rs = append(rs, c01RoleReg{v.Base, false})
		}
		if v.Index != nil {
			rs = append(rs, c01RoleReg{v.Index, false})
		}
		return rs
	case *operand.Mem:
		if v != nil {
			return c01OpRegs(*v)
		}
	}
	return nil
}

func c01OpsRegs(ops []operand.Op) []c01RoleReg {
	var rs []c01RoleReg
	for _, op := range ops {
		rs = append(rs, c01OpRegs(op)...)
	}
	return rs
}

func c01EncRole(rs []c01RoleReg) string {
	parts := []string{itoa(len(rs))}
	for _, x := range rs {
		parts = append(parts, encReg(x.r), b01(x.direct))
	}
	return strings.Join(parts, " ")
}

func encAllocation(a reg.Allocation) string {
	ids := make([]int, 0, len(a))
	for v := range a {
		ids = append(ids, int(v))
	}
	sortInts(ids)
	parts := []string{"ok", itoa(len(ids))}
	for _, v := range ids {
		parts = append(parts, itoa(v), itoa(int(a[reg.ID(v)])))
	}
	return strings.Join(parts, " ")
}

func sortInts(xs []int) {
	for i := 1; i < len(xs); i++ {
		for j := i; j > 0 && xs[j-1] > xs[j]; j-- {
			xs[j-1], xs[j] = xs[j], xs[j-1]
		}
	}
}

type c01Line struct{ req, resp string }

// allocCase holds everything captured around the real allocation passes.
type allocCase struct {
	allocReq  string // `alloc` request body: the exact model of the allocator (informational stream)
	checkReq  string // accept-alloc request body (use/def/succ/liveIn/liveOut)
	outcome   string // "ok k (v p)*" or "err" / "err panic"
	bindReq   string // accept-bind body (only when ok)
	encReq    string // accept-enc body (only when ok)
	regsReq   string // accept-regs body
	nVirt     int
	entryVirt bool
	errClass  string
	pre       []c01Line // accept-cfg / accept-usedef / accept-stage lines
	nIOPairs  int
	orig      []c01Snapshot // per instruction: registers of operands / inputs / outputs before allocation (own traversal)
	// input-class counters (own traversal, before allocation): author-written RESTRICTED registers (SP views, K0) next to
	// virtual registers of the same kind, and plain register-to-register moves by the class of their two sides
	nVirtNextToRestricted, nMoveVirtRestricted, nMoveVirtPhys, nMoveVirtVirt int
	// function-level context: the most virtual GP registers live at once (live-out sets before allocation), whether a
	// virtual opmask register occurs, and the context class set by c01Decorate
	maxLiveGP    int
	usesVirtK    bool
	contextClass string
}

type c01Snapshot struct{ ops, ins, outs []c01RoleReg }

// c01UseDefDB, when set, makes runAllocPipeline cross-check the use/def sets the allocator relies on against the
// read/write specification derived from the form table's operand actions (C02's instruction-level acceptor):
// the C01 acceptor takes use/def from the implementation, so a wrong use/def extraction would otherwise be invisible here.
var c01UseDefDB *formsDB
var c01UseDefRng *rng

func c01Stage(stage, outcome string) c01Line {
	return c01Line{"accept-stage " + stage + " " + outcome, "ok"}
}

// runAllocPipeline drives the real passes one by one.  ok=false: the function was rejected with an ERROR before
// allocation (counted by the caller under `why`); a PANIC anywhere is reported as a failing `accept-stage` line.
func c01RunPipeline(fn *ir.Function) (c allocCase, ok bool, why string) {
	err, panicked := safely(func() error {
		if err := pass.LabelTarget(fn); err != nil {
			return err
		}
		if err := pass.CFG(fn); err != nil {
			return err
		}
		for _, i := range fn.Instructions() {
			if err := pass.ZeroExtend32BitOutputs(i); err != nil {
				return err
			}
		}
		return nil
	})
	if panicked {
		c.pre = append(c.pre, c01Stage("prepare", "panic"))
		return c, true, ""
	}
	if err != nil {
		return c, false, "cfg_rejected"
	}
	is := fn.Instructions()
	if c01UseDefDB != nil {
		c.pre = append(c.pre, c01Line{"accept-cfg " + encNodes(fn) + " => " + encGraph(fn), "ok"})
		for _, i := range is {
			m := matchedForm(c01UseDefDB, i.Opcode, i.Suffixes, i.Operands)
			if m == nil {
				continue
			}
			if m.Features&featCancelling == 0 && !c01UseDefRng.chance(1, 4) {
				continue
			}
			var in, out []reg.Register
			if _, p := safely(func() error { in, out = i.InputRegisters(), i.OutputRegisters(); return nil }); p {
				c.pre = append(c.pre, c01Stage("usedef", "panic"))
				continue
			}
			c.pre = append(c.pre, c01Line{"accept-usedef " + encUseDef(m, i.Operands) + " => " +
				encMaskSet(reg.NewMaskSetFromRegisters(in)) + " " + encMaskSet(reg.NewMaskSetFromRegisters(out)), "ok"})
		}
	}
	if err, panicked := safely(func() error { return pass.Liveness(fn) }); panicked {
		c.pre = append(c.pre, c01Stage("liveness", "panic"))
		return c, true, ""
	} else if err != nil {
		return c, false, "liveness_error"
	}
	idx := instrIndex(fn)
	a := []string{itoa(len(is))}
	ck := []string{itoa(len(is))}
	rg := []string{itoa(len(is))}
	orig := make([]c01Snapshot, len(is))
	c.orig = orig
	virt := map[reg.ID]bool{}
	for k, i := range is {
		own := c01OpsRegs(i.Operands)
		orig[k] = c01Snapshot{own, c01OpsRegs(i.Inputs), c01OpsRegs(i.Outputs)}
		for _, x := range own {
			if x.r.ID().IsVirtual() {
				virt[x.r.ID()] = true
			}
		}
		c01CountClasses(&c, i, own)
		liveGP := 0
		for id := range i.LiveOut {
			if id.IsVirtual() && id.Kind() == reg.KindGP {
				liveGP++
			}
		}
		if liveGP > c.maxLiveGP {
			c.maxLiveGP = liveGP
		}
		for _, x := range own {
			if x.r.ID().IsVirtual() && x.r.Kind() == reg.KindOpmask {
				c.usesVirtK = true
			}
		}
		var impl, uses, defs []reg.Register
		if _, p := safely(func() error { impl, uses, defs = i.Registers(), i.InputRegisters(), i.OutputRegisters(); return nil }); p {
			c.pre = append(c.pre, c01Stage("registers", "panic"))
			return c, true, ""
		}
		rg = append(rg, c01EncRole(own), encRegs(impl), encRegs(uses))
		a = append(a, c01EncRole(own), encRegs(defs), encMaskSet(i.LiveOut))
		ck = append(ck, encRegs(uses), encRegs(defs), itoa(len(i.Succ)))
		for _, s := range i.Succ {
			if s == nil {
				ck = append(ck, "-1")
			} else {
				ck = append(ck, itoa(idx[s]))
			}
		}
		ck = append(ck, encMaskSet(i.LiveIn), encMaskSet(i.LiveOut))
	}
	c.regsReq = strings.Join(rg, " ")
	c.allocReq = strings.Join(a, " ")
	c.checkReq = strings.Join(ck, " ")
	c.nVirt = len(virt)
	if len(is) > 0 {
		for id := range is[0].LiveIn {
			if id.IsVirtual() {
				c.entryVirt = true
			}
		}
	}
	err, panicked = safely(func() error {
		if err := pass.AllocateRegisters(fn); err != nil {
			return err
		}
		if err := pass.BindRegisters(fn); err != nil {
			return err
		}
		return pass.VerifyAllocation(fn)
	})
	if err != nil {
		// the property demands an error, not a particular one: only a panic stays distinct
		c.errClass = classifyAllocErr(err, panicked)
		if panicked {
			c.outcome = "err panic"
		} else {
			c.outcome = "err"
		}
		return c, true, ""
	}
	c.outcome = encAllocation(fn.Allocation)
	var shape []c01Line
	c.bindReq, c.encReq, c.nIOPairs, shape = c01BindReqs(orig, is, "bind-shape")
	c.pre = append(c.pre, shape...)
	return c, true, ""
}

// c01Decorate gives a generated function the FUNCTION-LEVEL context a pass may look at besides the instructions: text
// attributes (none, NOSPLIT, NOFRAME, NOSPLIT|NOFRAME, NEEDCTXT, … and arbitrary flag sets), a local frame or none, a
// signature or the void default.  C03 quantifies over all functions: nothing of this may change which registers an
// allocation hands out.  Returns the class name used by the sample floors.
func c01Decorate(fn *ir.Function, r *rng) string {
	type ac struct {
		name string
		a    attr.Attribute
	}
	c := pick(r, []ac{{"none", 0}, {"none", 0}, {"NOSPLIT", attr.NOSPLIT}, {"NOFRAME", attr.NOFRAME}, {"NOFRAME", attr.NOFRAME},
		{"NOSPLIT_NOFRAME", attr.NOSPLIT | attr.NOFRAME}, {"NOSPLIT_NOFRAME", attr.NOSPLIT | attr.NOFRAME}, {"NEEDCTXT", attr.NEEDCTXT},
		{"NOSPLIT_NEEDCTXT_NOFRAME", attr.NOSPLIT | attr.NEEDCTXT | attr.NOFRAME}, {"other", 0}})
	if c.name == "other" {
		c.a = attr.Attribute(r.intn(1 << 12))
		if c.a.NOFRAME() {
			c.name = "other_with_NOFRAME"
		}
	}
	fn.Attributes = c.a
	if r.chance(1, 3) {
		fn.AllocLocal(8 * (1 + r.intn(16)))
	}
	if r.chance(1, 3) {
		if sig, err := gotypes.ParseSignature(pick(r, []string{"func(x *[8]uint64, y uint64) uint64", "func(x, y, z uint64)", "func(b []byte) (n int, ok bool)"})); err == nil {
			fn.SetSignature(sig)
		}
	}
	return c.name
}

// c01ContextStats counts a BOUND function under its context class × what makes a wrong colour set visible.
func c01ContextStats(stats map[string]int, prefix string, c *allocCase) {
	if c.contextClass == "" {
		return
	}
	stats[prefix+"attr:"+c.contextClass]++
	if c.maxLiveGP >= 5 {
		stats[prefix+"attr:"+c.contextClass+":gp_live_ge5"]++
	}
	if c.usesVirtK {
		stats[prefix+"attr:"+c.contextClass+":virt_opmask"]++
	}
}

// c01CountClasses records which input classes one instruction (before allocation) belongs to.
func c01CountClasses(c *allocCase, i *ir.Instruction, own []c01RoleReg) {
	for _, x := range own {
		if !isRestrictedPhys(x.r) {
			continue
		}
		for _, y := range own {
			if y.r.ID().IsVirtual() && y.r.Kind() == x.r.Kind() {
				c.nVirtNextToRestricted++
				break
			}
		}
		break
	}
	if a, b, ok := isPlainRegMove(i); ok {
		av, bv := a.ID().IsVirtual(), b.ID().IsVirtual()
		switch {
		case av && bv:
			c.nMoveVirtVirt++
		case (av && isRestrictedPhys(b)) || (bv && isRestrictedPhys(a)):
			c.nMoveVirtRestricted++
		case av || bv:
			c.nMoveVirtPhys++
		}
	}
}

// c01RestrictedCopy builds the idioms in which a virtual register is a COPY of (or is copied into) the restricted
// register of its kind — "aligned scratch pointer" (MOVQ SP, p; ANDQ $-64, p), save/restore of SP, a 32/16/8-bit view
// of SP, KMOVQ K0, k — under register pressure below, at and above the register file.  In the variants `from`, `into`
// and `both` the restricted register does not interfere with the copy (it is not read after the copy is defined, not
// written while the copy is live), so nothing but the colour set itself keeps it away from the copy; in `interf` it does.
func c01RestrictedCopy(r *rng, stats map[string]int) *ir.Function {
	col := reg.NewCollection()
	fn := ir.NewFunction("rcopy")
	add := func(op string, ops ...operand.Op) {
		if inst, err := x86.VerifBuild(op, nil, ops); err == nil && inst != nil {
			fn.AddInstruction(inst)
		} else {
			stats["rcopy_build_rejected"]++
		}
	}
	variant := pick(r, []string{"from", "from", "into", "both", "interf"})
	stats["rcopy:"+variant]++
	if r.chance(1, 5) {
		// opmask: K0
		np := r.intn(9)
		var ps []reg.Register
		for j := 0; j < np; j++ {
			p := col.K()
			ps = append(ps, p)
			add("KMOVQ", operand.NewParamAddr("x", 8*j), p)
		}
		mov := pick(r, []string{"KMOVQ", "KMOVW", "KMOVD", "KMOVB"})
		k := col.K()
		switch variant {
		case "from", "interf":
			add(mov, reg.K0, k)
			add("KNOTQ", k, k)
			if variant == "interf" {
				add("KORQ", reg.K0, k, k) // K0 read while the copy is live
			}
			add("KMOVQ", k, operand.NewParamAddr("y", 0))
		case "into":
			add("KMOVQ", operand.NewParamAddr("y", 0), k)
			add("KNOTQ", k, k)
			add(mov, k, reg.K0)
		default:
			add(mov, reg.K0, k)
			add("KNOTQ", k, k)
			add(mov, k, reg.K0)
		}
		for j, p := range ps {
			add("KMOVQ", p, operand.NewParamAddr("z", 8*j))
		}
		add("RET")
		stats["rcopy_kind:k"]++
		return fn
	}
	np := pick(r, []int{0, 1, 3, 7, 12, 13, 14, 15, 16})
	if r.chance(1, 2) {
		np = r.intn(14)
	}
	var ps []reg.Register
	for j := 0; j < np; j++ {
		p := col.GP64()
		ps = append(ps, p)
		add("MOVQ", operand.U64(uint64(j)+1<<33), p)
	}
	type w struct {
		s             reg.Spec
		mov, and, add string
		imm           operand.Op
	}
	c := pick(r, []w{{reg.S64, "MOVQ", "ANDQ", "ADDQ", operand.I8(-64)}, {reg.S64, "MOVQ", "ANDQ", "ADDQ", operand.I8(-64)},
		{reg.S32, "MOVL", "ANDL", "ADDL", operand.I8(-16)}, {reg.S16, "MOVW", "ANDW", "ADDW", operand.I8(-8)}, {reg.S8L, "MOVB", "ANDB", "ADDB", operand.U8(0xf0)}})
	var v reg.Register
	switch c.s {
	case reg.S64:
		v = col.GP64()
	case reg.S32:
		v = col.GP32()
	case reg.S16:
		v = col.GP16()
	default:
		v = col.GP8L()
	}
	spv := restrictedPhys(reg.KindGP, c.s)
	store := func() {
		m := operand.NewParamAddr("y", 0)
		if r.chance(1, 2) {
			add(c.mov, v, m)
		} else {
			add(c.add, v, m)
		}
	}
	switch variant {
	case "from":
		add(c.mov, spv, v)
		add(c.and, c.imm, v)
		store()
	case "interf":
		add(c.mov, spv, v)
		add(c.and, c.imm, v)
		if r.chance(1, 2) {
			add("SUBQ", operand.U8(32), reg.RSP) // SP written while the copy is live
		} else {
			add("LEAQ", operand.Mem{Base: reg.RSP, Disp: 8}, reg.RAX) // SP read while the copy is live
		}
		store()
	case "into":
		add(c.mov, operand.NewParamAddr("y", 0), v)
		add(c.and, c.imm, v)
		add(c.mov, v, spv)
	default:
		add(c.mov, spv, v)
		add(c.and, c.imm, v)
		add(c.mov, v, spv)
	}
	for j, p := range ps {
		add("MOVQ", p, operand.NewParamAddr("z", 8*j))
	}
	add("RET")
	stats["rcopy_kind:gp"]++
	return fn
}

// c01BindReqs pairs, instruction by instruction, the registers found before allocation (orig) with those found now
// in the operands, the declared inputs and the declared outputs of `is` (own traversal on both sides).
func c01BindReqs(orig []c01Snapshot, is []*ir.Instruction, stage string) (bindReq, encReq string, nIO int, shape []c01Line) {
	b := []string{itoa(len(is))}
	e := []string{itoa(len(is))}
	for k, i := range is {
		ops, ins, outs := c01OpsRegs(i.Operands), c01OpsRegs(i.Inputs), c01OpsRegs(i.Outputs)
		if len(ops) != len(orig[k].ops) || len(ins) != len(orig[k].ins) || len(outs) != len(orig[k].outs) {
			// binding must not add or drop registers of an operand
			shape = append(shape, c01Stage(stage, fmt.Sprintf("changed:instr=%d", k)))
			b = append(b, "0")
			e = append(e, "0")
			continue
		}
		b = append(b, itoa(len(ops)+len(ins)+len(outs)))
		e = append(e, itoa(len(ops)))
		for j := range ops {
			b = append(b, encReg(orig[k].ops[j].r), encReg(ops[j].r))
			e = append(e, encReg(orig[k].ops[j].r), encReg(ops[j].r), b01(ops[j].direct))
		}
		// the declared inputs and outputs are bound as well (later passes and the printer's users read them)
		for j := range ins {
			b = append(b, encReg(orig[k].ins[j].r), encReg(ins[j].r))
		}
		for j := range outs {
			b = append(b, encReg(orig[k].outs[j].r), encReg(outs[j].r))
		}
		nIO += len(ins) + len(outs)
	}
	return strings.Join(b, " "), strings.Join(e, " "), nIO, shape
}

// c01Twin sends an identical copy of the function through the ENTRY POINT pass.Compile (whole pass list, in the
// library's order) and judges what comes out against the facts established on the pass-by-pass run `c`:
// Compile's allocation must be valid for the (accepted) liveness of the original function, and every register
// found in the compiled instructions must be bound as C03 demands.  A reordered, dropped or short-circuited pass
// in Compile is thereby visible to the acceptors, not only to the CPU run of c01x.
func c01Twin(c allocCase, twin *ir.Function, stats map[string]int) (lines []c01Line) {
	before := twin.Instructions()
	if len(before) != len(c.orig) {
		stats["twin_mismatch"]++
		return nil
	}
	file := ir.NewFile()
	file.AddSection(twin)
	err, panicked := safely(func() error { return pass.Compile.Execute(file) })
	if panicked {
		return []c01Line{c01Stage("compile", "panic")}
	}
	pbp := strings.HasPrefix(c.outcome, "ok")
	if err != nil {
		stats["compile:err"]++
		if pbp {
			stats["compile_differs_from_pass_by_pass"]++ // informational: an error is always allowed
		}
		return nil
	}
	stats["compile:ok"]++
	if !pbp {
		stats["compile_differs_from_pass_by_pass"]++
	}
	out := encAllocation(twin.Allocation)
	lines = append(lines, c01Line{"accept-alloc " + c.checkReq + " => " + out, "ok"})
	bindReq, encReq, _, shape := c01BindReqs(c.orig, before, "compile-shape")
	lines = append(lines, shape...)
	lines = append(lines, c01Line{"accept-bind " + bindReq + " => " + strings.TrimPrefix(out, "ok "), "ok"})
	lines = append(lines, c01Line{"accept-enc " + encReq, "ok"})
	return lines
}

// runAllocPipeline is the two-result form used by other properties' harnesses (C15): ok=false when the function did
// not get as far as allocation.
func runAllocPipeline(fn *ir.Function) (allocCase, bool) {
	c, ok, _ := c01RunPipeline(fn)
	return c, ok && c.checkReq != ""
}

// c01Staircase builds a function whose liveness needs `depth`+1 sweeps of the (reverse-order, in-place) iteration:
// the value `v` is read once near the top; region k ends in a conditional jump back to the START of region k-1, so
// that `v` becomes live in region k only one sweep after it became live in region k-1.  Every region defines and
// reads a temporary of its own, which therefore must not share v's storage.  An analysis that stops early leaves a
// set that is not a post-fixpoint (and may hand v's register to a temporary).
func c01Staircase(r *rng, depth int) *ir.Function {
	col := reg.NewCollection()
	fn := ir.NewFunction("stair")
	add := func(op string, ops ...operand.Op) {
		if inst, err := x86.VerifBuild(op, nil, ops); err == nil && inst != nil {
			fn.AddInstruction(inst)
		}
	}
	v, acc := col.GP64(), col.GP64()
	add("MOVQ", operand.U64(r.u64()), v)
	add("MOVQ", operand.U64(1), acc)
	fn.AddLabel("s0")
	add("NOP")
	add("ADDQ", v, acc)
	for k := 1; k <= depth; k++ {
		fn.AddLabel(ir.Label(fmt.Sprintf("s%d", k)))
		add("NOP")
		for n := 1 + r.intn(3); n > 0; n-- {
			t := col.GP64()
			add("MOVQ", operand.U64(uint64(k)), t)
			add(pick(r, []string{"ADDQ", "XORQ", "SUBQ"}), t, acc)
		}
		add("CMPQ", acc, operand.U32(uint32(r.intn(1000))))
		add(pick(r, []string{"JNE", "JEQ", "JLT", "JCS"}), operand.LabelRef(fmt.Sprintf("s%d", k-1)))
	}
	add("MOVQ", acc, operand.NewParamAddr("x", 0))
	add("RET")
	return fn
}

func allocGenCfg(r *rng, tier string) genCfg {
	cfg := genCfg{minInstr: 2, maxInstr: 6 + r.intn(50), physPct: r.intn(35), branchPct: r.intn(25),
		randomFormPct: 15, strict: !r.chance(1, 6)}
	cfg.pressureTail = r.chance(1, 3)
	switch r.intn(6) {
	case 0: // GP pressure around and above the register file
		cfg.nGP = 10 + r.intn(12)
		cfg.pressureTail = r.chance(2, 3)
	case 1: // vector / mask pressure
		cfg.nVec, cfg.nK, cfg.nGP = r.intn(40), r.intn(10), 1+r.intn(4)
	case 2: // byte registers incl. high bytes
		cfg.nGP = 3 + r.intn(8)
		cfg.opcodes = []string{"MOVB", "ADDB", "XORB", "MOVBQZX", "MOVBLZX", "XCHGB", "MOVQ", "ADDQ", "SETEQ", "MOVW", "MOVL"}
	default:
		cfg.nGP, cfg.nVec, cfg.nK = 1+r.intn(9), r.intn(6), r.intn(3)
	}
	if tier == "thorough" && r.chance(1, 25) {
		cfg.maxInstr = 100 + r.intn(300)
	}
	return cfg
}

// c01GenCfg: allocGenCfg plus a stream of gather / scatter and other memory-heavy forms (vector index registers
// and GP base registers next to vector pressure, four-operand forms).
func c01GenCfg(r *rng, tier string) genCfg {
	cfg := allocGenCfg(r, tier)
	if r.chance(1, 7) {
		cfg.nVec, cfg.nK, cfg.nGP = 2+r.intn(34), 1+r.intn(6), 1+r.intn(6)
		cfg.pressureTail = r.chance(2, 3)
		cfg.opcodes = []string{"VGATHERDPD", "VPGATHERDD", "VPGATHERQQ", "VGATHERQPS", "VPSCATTERDD", "VSCATTERDPD", "VPGATHERDQ",
			"VMOVDQU64", "VPADDD", "VPXORD", "VPADDQ", "LEAQ", "MOVQ", "ADDQ", "KMOVQ", "KORQ", "VPTERNLOGD", "VFMADD231PD", "VPBLENDMD"}
	}
	// author-written RESTRICTED registers (SP in every view, K0) as operands of any opcode next to virtual registers, and
	// plain register-to-register moves between a virtual register and a restricted / other physical / virtual register
	if r.chance(2, 5) {
		cfg.restrictedPct = 3 + r.intn(30)
		cfg.regMovePct = 3 + r.intn(15)
		if cfg.physPct < 8 {
			cfg.physPct += 8
		}
	}
	return cfg
}

func init() {
	register("c01", "register allocation on generated functions: acceptors + informational model comparison (C01, C03)", func(args []string) error {
		f := newStdFlags("c01")
		if err := f.fs.Parse(args); err != nil {
			return err
		}
		db, err := loadForms(*f.repo)
		if err != nil {
			return err
		}
		o, err := openOut(f)
		if err != nil {
			return err
		}
		defer o.close()
		// informational stream: the exact allocation of the implementation next to the request for the exact model.
		// Which colour is chosen is NOT pinned by the property, so these lines are never part of the verdict; the
		// check reports the agreement rate.
		var infoOps, infoImpl *bufio.Writer
		if fo, err := os.Create(*f.ops + ".info"); err == nil {
			defer fo.Close()
			infoOps = bufio.NewWriterSize(fo, 1<<20)
			defer infoOps.Flush()
		}
		if fi, err := os.Create(*f.impl + ".info"); err == nil {
			defer fi.Close()
			infoImpl = bufio.NewWriterSize(fi, 1<<20)
			defer infoImpl.Flush()
		}
		r := newRng(*f.seed)
		stats := map[string]int{}
		c01UseDefDB, c01UseDefRng = db, r.fork()
		for k := 0; k < *f.n; k++ {
			// the shape is drawn from r; the function itself from a forked stream, so that an identical twin can be
			// generated once more for the pass.Compile entry point
			var build func(g *rng) *ir.Function
			rcopy := false
			if k%16 == 7 {
				depth := 2 + r.intn(11)
				if *f.tier == "thorough" && r.chance(1, 4) {
					depth = 12 + r.intn(40)
				}
				build = func(g *rng) *ir.Function { return c01Staircase(g, depth) }
				stats["staircase"]++
				if depth >= 6 {
					stats["staircase_depth_ge6"]++
				}
			} else if k%16 == 11 || k%16 == 3 {
				// stats are counted on the first build only (the twin for pass.Compile is an identical copy)
				first := true
				build = func(g *rng) *ir.Function {
					st := stats
					if !first {
						st = map[string]int{}
					}
					first = false
					return c01RestrictedCopy(g, st)
				}
				rcopy = true
			} else {
				cfg := c01GenCfg(r, *f.tier)
				first := true
				build = func(g *rng) *ir.Function {
					fg := newFgen(g, db, cfg)
					fn := fg.generate()
					if first {
						for _, key := range []string{"regmove_restricted", "regmove_phys", "regmove_virt", "regmove_rejected", "restricted_pick"} {
							if fg.stats[key] > 0 {
								stats["generated:"+key] += fg.stats[key]
							}
						}
					}
					first = false
					return fn
				}
			}
			// function-level context (attributes, locals, signature): the same for the function and its twin
			ds, inner, ctxClass := r.u64(), build, ""
			build = func(g *rng) *ir.Function {
				fn := inner(g)
				ctxClass = c01Decorate(fn, &rng{s: ds})
				return fn
			}
			gs := r.u64()
			fn := build(&rng{s: gs})
			c, ok, why := c01RunPipeline(fn)
			c.contextClass = ctxClass
			if !ok {
				stats[why]++
				continue
			}
			for _, l := range c.pre {
				o.emit(l.req, l.resp)
				switch {
				case strings.HasPrefix(l.req, "accept-stage"):
					stats["stage_failures"]++
				case strings.HasPrefix(l.req, "accept-usedef"):
					stats["usedef_crosschecks"]++
				}
			}
			if c.checkReq == "" {
				continue // a stage panicked: reported above
			}
			stats["functions"]++
			if c.errClass != "" {
				stats["outcome:err_"+c.errClass]++
			} else {
				nv := strings.Fields(c.outcome)[1]
				if len(nv) > 1 {
					nv = nv[:1] + "x"
				}
				stats["outcome:ok_virtuals_"+nv]++
			}
			if strings.HasPrefix(c.outcome, "ok") {
				stats["outcome:ok"]++
			}
			stats["virtuals"] += c.nVirt
			if c.entryVirt {
				stats["virtual_live_at_entry"]++
			}
			o.emit("accept-regs "+c.regsReq, "ok")
			o.emit("accept-alloc "+c.checkReq+" => "+c.outcome, "ok")
			if infoOps != nil && infoImpl != nil {
				infoOps.WriteString("alloc " + c.allocReq + "\n")
				infoImpl.WriteString(c.outcome + "\n")
			}
			if c.bindReq != "" {
				o.emit("accept-bind "+c.bindReq+" => "+strings.TrimPrefix(c.outcome, "ok "), "ok")
				o.emit("accept-enc "+c.encReq, "ok")
				stats["bound_functions"]++
				stats["bound_input_output_pairs"] += c.nIOPairs
				// the classes below count only where binding succeeded: that is where a wrong colour would show
				stats["bound:virt_next_to_restricted_instrs"] += c.nVirtNextToRestricted
				stats["bound:regmove_virt_restricted"] += c.nMoveVirtRestricted
				stats["bound:regmove_virt_phys"] += c.nMoveVirtPhys
				stats["bound:regmove_virt_virt"] += c.nMoveVirtVirt
				if c.nMoveVirtRestricted > 0 {
					stats["bound:functions_with_regmove_virt_restricted"]++
				}
				c01ContextStats(stats, "bound:", &c)
				if rcopy {
					stats["bound:rcopy_functions"]++
				} else {
					// the same classes reached by the form-table driven generator alone
					stats["bound:fgen_regmove_virt_restricted"] += c.nMoveVirtRestricted
					stats["bound:fgen_virt_next_to_restricted_instrs"] += c.nVirtNextToRestricted
				}
			}
			if k%3 == 0 {
				for _, l := range c01Twin(c, build(&rng{s: gs}), stats) {
					o.emit(l.req, l.resp)
					if strings.HasPrefix(l.req, "accept-stage") {
						stats["stage_failures"]++
					}
				}
			}
		}
		return writeJSON(*f.stats, stats)
	})
}
