package main

import (
	"fmt"
	"os"
	"regexp"
	"sort"
	"strings"

	"github.com/mmcloughlin/avo/attr"
	"github.com/mmcloughlin/avo/ir"
	"github.com/mmcloughlin/avo/operand"
	"github.com/mmcloughlin/avo/pass"
	"github.com/mmcloughlin/avo/printer"
	"github.com/mmcloughlin/avo/reg"
	"github.com/mmcloughlin/avo/x86"
)

// ---------------------------------------------------------------------------
// C15, form sweep: EVERY instruction shape of avo's form table that touches a
// view of the base pointer.
//
// The repertoire of "instructions that write BP" is not a hand-picked list: it
// is drawn from the compiled form table on every run.  For every row and every
// explicit general-purpose register position (read, write, read-write) an
// instance with the matching view of BP (BPB/BP/EBP/RBP) in that position is
// built through the real x86 build; in addition
//   - the "looks like a no-op" shapes: BP in ALL register positions at once
//     (MOVL BP, BP; XCHGQ BP, BP; XORL BP, BP; CMOVQEQ BP, BP; MOVLQZX BP, BP),
//     immediates of 0 (ADDQ $0, BP; SHLQ $0, BP), BP as the base of a memory
//     source together with BP as destination (LEAQ (BP), BP; MOVQ (BP), BP);
//   - shapes that only READ BP (source register, base or index of an address):
//     they must not make a NOFRAME function an error;
//   - rows with an implicit operand that is a view of BP (none today: counted).
//
// Whether a shape really changes BP is NOT taken from avo's OutputRegisters:
//   (1) MEASURED: the instruction is executed alone in a hand-framed
//       NOSPLIT|NOFRAME function (printed by avo's printer WITHOUT any pass)
//       through the trampoline, under three flag/operand set-ups; "changed in
//       some run" = the instruction can modify BP;
//   (2) the harness's own reading of the row's operand actions (destination
//       operands by position, straight from the table, not from inst.Outputs).
// The Lean acceptor takes  measured || destination-is-GP5 || output-is-GP5  as
// "the function can modify BP" and judges avo's outcome (pass.Compile on the
// one-instruction function under every attribute set, frame 0 and > 0, and the
// printed TEXT line).  The function avo compiled is executed as well
// (accept-bp-exec: the caller's BP must be unchanged).
// ---------------------------------------------------------------------------

// c15Shape is one instruction instance, reproducible from its key.
type c15Shape struct {
	row   *formRow
	sfx   []string
	ops   []operand.Op
	class string // dst-w, dst-rw, src, self, imm0, membase, membase-dst, memindex, implicit
	view  reg.Spec
	key   string
	mem   bool // has a memory operand
	memW  bool // writes memory
	exec  string
}

var c15FormDeny = []struct {
	re     *regexp.Regexp
	reason string
}{
	{regexp.MustCompile(`^(JMP|CALL|RET|RETF[LQW])$`), "control transfer"},
	{regexp.MustCompile(`^(INT|SYSCALL|UD2)$`), "trap / system call / undefined instruction"},
	{regexp.MustCompile(`^(MONITOR|MWAIT)$`), "privileged or unavailable"},
	{regexp.MustCompile(`^V?LDMXCSR$`), "loads MXCSR"},
	{regexp.MustCompile(`^I?DIV[BWLQ]$`), "faults (#DE) on the divisor values a frame pointer has"},
}

// c15ISAFlag maps avo's ISA names to /proc/cpuinfo flag names (unknown names: not executed, counted).
var c15ISAFlag = map[string]string{
	"ADX": "adx", "AES": "aes", "AVX": "avx", "AVX2": "avx2", "AVX512BITALG": "avx512_bitalg", "AVX512BW": "avx512bw",
	"AVX512CD": "avx512cd", "AVX512DQ": "avx512dq", "AVX512ER": "avx512er", "AVX512F": "avx512f", "AVX512IFMA": "avx512ifma",
	"AVX512VBMI": "avx512vbmi", "AVX512VBMI2": "avx512_vbmi2", "AVX512VL": "avx512vl", "AVX512VNNI": "avx512_vnni",
	"AVX512VPOPCNTDQ": "avx512_vpopcntdq", "BMI": "bmi1", "BMI2": "bmi2", "CLFLUSH": "clflush", "CLFLUSHOPT": "clflushopt",
	"CMOV": "cmov", "CPUID": "cpuid", "F16C": "f16c", "FMA3": "fma", "GFNI": "gfni", "LZCNT": "abm", "MMX+": "sse",
	"MOVBE": "movbe", "PCLMULQDQ": "pclmulqdq", "POPCNT": "popcnt", "RDRAND": "rdrand", "RDSEED": "rdseed",
	"RDTSC": "tsc", "RDTSCP": "rdtscp", "SHA": "sha_ni", "SSE": "sse", "SSE2": "sse2", "SSE3": "pni", "SSE4.1": "sse4_1",
	"SSE4.2": "sse4_2", "SSSE3": "ssse3", "VAES": "vaes", "VPCLMULQDQ": "vpclmulqdq",
}

func c15HostFlags() map[string]bool {
	m := map[string]bool{}
	data, err := os.ReadFile("/proc/cpuinfo")
	if err != nil {
		return m
	}
	for _, l := range strings.Split(string(data), "\n") {
		if strings.HasPrefix(l, "flags") {
			if i := strings.Index(l, ":"); i >= 0 {
				for _, f := range strings.Fields(l[i+1:]) {
					m[f] = true
				}
			}
			break
		}
	}
	return m
}

var c15GPSpecOf = map[string]reg.Spec{"r8": reg.S8L, "r16": reg.S16, "r32": reg.S32, "r64": reg.S64}

// c15ImplicitReg: the register an implicit (or fixed explicit) operand name stands for.
func c15ImplicitReg(name string) reg.Register {
	switch name {
	case "al":
		return reg.AL
	case "cl":
		return reg.CL
	case "ax":
		return reg.AX
	case "eax":
		return reg.EAX
	case "rax":
		return reg.RAX
	case "dx":
		return reg.DX
	case "edx":
		return reg.EDX
	case "rdx":
		return reg.RDX
	case "ebx":
		return reg.EBX
	case "rbx":
		return reg.RBX
	case "ecx":
		return reg.ECX
	case "rcx":
		return reg.RCX
	case "rdi":
		return reg.RDI
	case "rsi":
		return reg.RSI
	case "r11":
		return reg.R11
	case "xmm0":
		return reg.X0
	case "bpl":
		return reg.BPB
	case "bp":
		return reg.BP
	case "ebp":
		return reg.EBP
	case "rbp":
		return reg.RBP
	}
	return nil
}

// the registers given to the positions that do not hold BP: away from the implicit AX/CX/DX
var c15OtherGP = []reg.Register{reg.RBX, reg.RSI, reg.RDI, reg.R8, reg.R9}

func c15IsMemType(t string) bool {
	switch t {
	case "m", "m8", "m16", "m32", "m64", "m128", "m256", "m512":
		return true
	}
	return false
}

// c15ShapeOperand: the default operand for explicit position p of type t.
func c15ShapeOperand(t string, action uint8, k int, imm0 bool) operand.Op {
	switch t {
	case "1":
		return operand.U8(1)
	case "3":
		return operand.U8(3)
	case "imm2u":
		if imm0 {
			return operand.U8(0)
		}
		return operand.U8(1)
	case "imm8":
		if imm0 {
			return operand.U8(0)
		}
		return operand.U8(1)
	case "imm16":
		if imm0 {
			return operand.U16(0)
		}
		return operand.U16(0x1235)
	case "imm32":
		if imm0 {
			return operand.U32(0)
		}
		return operand.U32(0x1234567)
	case "imm64":
		if imm0 {
			return operand.U64(0)
		}
		return operand.U64(0x123456789abcdef1)
	case "al", "cl", "ax", "eax", "rax", "xmm0":
		return c15ImplicitReg(t)
	case "r8", "r16", "r32", "r64":
		return asSpec(c15OtherGP[k%len(c15OtherGP)], c15GPSpecOf[t])
	case "xmm":
		return asSpec(physVec(1+k%4), reg.S128)
	case "ymm":
		return asSpec(physVec(1+k%4), reg.S256)
	case "zmm":
		return asSpec(physVec(1+k%4), reg.S512)
	case "k":
		return reg.Opmask.Registers()[1+k%4]
	}
	if c15IsMemType(t) {
		if action&2 != 0 {
			return operand.Mem{Base: reg.RSP, Disp: -128} // below the stack pointer of a leaf: scratch
		}
		return operand.Mem{Base: reg.RSP} // a leaf's return address and the caller's frame above it: readable, and not BP's value
	}
	return nil
}

func c15OpKey(op operand.Op) string {
	switch o := op.(type) {
	case reg.Register:
		return o.Asm()
	case operand.Mem:
		return strings.ReplaceAll(o.Asm(), " ", "")
	}
	return strings.ReplaceAll(op.Asm(), " ", "")
}

// c15BuildShapeInst builds a FRESH instruction of the shape through the real table (passes mutate instructions).
func (s *c15Shape) inst() *ir.Instruction {
	inst, err := x86.VerifBuild(s.row.Opcode, s.sfx, s.ops)
	if err != nil {
		return nil
	}
	return inst
}

// instWith builds the shape with its "other" general-purpose register operands replaced by sub(view) (a view of a
// virtual register of the function under construction).
func (s *c15Shape) instWith(sub func(reg.Spec) operand.Op) *ir.Instruction {
	ops := make([]operand.Op, len(s.ops))
	for k, op := range s.ops {
		ops[k] = op
		if r, ok := op.(reg.Register); ok && r.Kind() == reg.KindGP && !c15IsHWBP(r) {
			for _, o := range c15OtherGP {
				if o.ID() == r.ID() {
					if x := sub(reg.Spec(r.Mask())); x != nil {
						ops[k] = x
					}
				}
			}
		}
	}
	inst, err := x86.VerifBuild(s.row.Opcode, s.sfx, ops)
	if err != nil {
		return nil
	}
	return inst
}

// c15Pool: the register-only shapes the random generators draw from, chosen by what the sweep MEASURED: `write` = shapes
// that changed BP when executed alone (MOVL BP, BP is one; MOVQ BP, BP, which cannot modify BP, is not: the strict
// streams must not demand a frame for it), `read` = shapes with BP as a source only that left BP alone.
var c15Pool struct{ write, read []*c15Shape }

var c15PushPop = regexp.MustCompile(`^(PUSH|POP)[QWL]$`)

func c15SetPool(runs []*c15ShapeRun) {
	c15Pool.write, c15Pool.read = nil, nil
	for _, ru := range runs {
		s := ru.s
		if s.mem || s.exec != "" || ru.executed < c15NFlagSetups {
			continue
		}
		vecOrMask := false
		for _, op := range s.ops {
			if r, ok := op.(reg.Register); ok && r.Kind() != reg.KindGP {
				vecOrMask = true
			}
		}
		if vecOrMask || c15PushPop.MatchString(s.row.Opcode) {
			continue
		}
		switch s.class {
		case "dst-w", "dst-rw", "self", "imm0":
			if ru.measured {
				c15Pool.write = append(c15Pool.write, s)
			}
		case "src":
			if !ru.measured {
				c15Pool.read = append(c15Pool.read, s)
			}
		}
	}
}

// c15Shapes enumerates the shapes from the form table.  Deterministic: table order.
func c15Shapes(db *formsDB, stats map[string]int) []*c15Shape {
	var shapes []*c15Shape
	seen := map[string]bool{}
	host := c15HostFlags()
	for ri := range db.rows {
		row := &db.rows[ri]
		skip := ""
		var pos []int   // indices into row.Operands of the explicit operands
		var gpPos []int // explicit positions (index into pos) of type r8..r64
		memPos := -1
		hasImm := false
		for i, o := range row.Operands {
			t := row.TypeNames[i]
			if o.Implicit {
				if r := c15ImplicitReg(t); r != nil && c15IsHWBP(r) {
					stats["formsweep:rows_with_implicit_bp"]++
				}
				continue
			}
			pos = append(pos, i)
			switch {
			case t == "rel8" || t == "rel32":
				skip = "branch"
			case strings.HasPrefix(t, "vm"):
				skip = "vector-indexed memory"
			case c15IsMemType(t):
				memPos = len(pos) - 1
			case strings.HasPrefix(t, "imm"):
				hasImm = true
			}
			if _, ok := c15GPSpecOf[t]; ok {
				gpPos = append(gpPos, len(pos)-1)
			}
		}
		if skip != "" {
			continue
		}
		exec := ""
		for _, d := range c15FormDeny {
			if d.re.MatchString(row.Opcode) {
				exec = "denied: " + d.reason
			}
		}
		if exec == "" {
			for _, isa := range row.ISAs {
				if f, ok := c15ISAFlag[isa]; !ok || !host[f] {
					exec = "isa: " + isa
				}
			}
		}
		memReadOnly := memPos >= 0 && row.Operands[pos[memPos]].Action&2 == 0
		// BP as the base of an address: rows whose register operands are all general-purpose (the vector rows with a
		// scalar memory source read the base in exactly the same way; they would only multiply the sample)
		for _, i := range pos {
			switch row.TypeNames[i] {
			case "xmm", "ymm", "zmm", "k", "xmm0":
				memReadOnly = false
			}
		}
		memType := ""
		if memPos >= 0 {
			memType = row.TypeNames[pos[memPos]]
		}
		smallMem := memType == "m" || memType == "m8" || memType == "m16" || memType == "m32" || memType == "m64"
		if len(gpPos) == 0 && !(memReadOnly && smallMem) {
			continue
		}
		stats["formsweep:rows_considered"]++
		// build(bpAt, membase, memindex, imm0)
		build := func(class string, bpAt map[int]bool, membase, memindex, imm0 bool) {
			ops := make([]operand.Op, len(pos))
			view := reg.Spec(0)
			for k, i := range pos {
				t := row.TypeNames[i]
				if bpAt[k] {
					view = c15GPSpecOf[t]
					ops[k] = asSpec(reg.RBP, view)
					continue
				}
				if k == memPos && (membase || memindex) {
					m := operand.Mem{Base: reg.RBP}
					if memindex {
						m = operand.Mem{Base: reg.RBX, Index: reg.RBP, Scale: 2, Disp: 8}
					}
					ops[k] = m
					continue
				}
				ops[k] = c15ShapeOperand(t, row.Operands[i].Action, k, imm0)
				if ops[k] == nil {
					return
				}
			}
			var sfx []string
			var inst *ir.Instruction
			tries := [][]string{nil}
			tries = append(tries, row.Suffixes...)
			for _, sx := range tries {
				if in, err := x86.VerifBuild(row.Opcode, sx, ops); err == nil && in != nil {
					inst, sfx = in, sx
					break
				}
			}
			if inst == nil {
				stats["formsweep:build_rejected"]++
				return
			}
			var ks []string
			for k, op := range ops {
				ks = append(ks, row.TypeNames[pos[k]]+"="+c15OpKey(op))
			}
			key := row.Opcode
			if len(sfx) > 0 {
				key += "." + strings.Join(sfx, ".")
			}
			key += ":" + strings.Join(ks, ",")
			if seen[key] {
				return // the same instance reached through another row / class
			}
			seen[key] = true
			s := &c15Shape{row: row, sfx: sfx, ops: ops, class: class, view: view, key: key, mem: memPos >= 0, exec: exec}
			s.memW = memPos >= 0 && row.Operands[pos[memPos]].Action&2 != 0
			shapes = append(shapes, s)
		}
		for _, k := range gpPos {
			a := row.Operands[pos[k]].Action
			class := "src"
			switch {
			case a&2 != 0 && a&1 != 0:
				class = "dst-rw"
			case a&2 != 0:
				class = "dst-w"
			}
			build(class, map[int]bool{k: true}, false, false, false)
			if hasImm && a&2 != 0 {
				build("imm0", map[int]bool{k: true}, false, false, true)
			}
		}
		if len(gpPos) >= 2 {
			all := map[int]bool{}
			for _, k := range gpPos {
				all[k] = true
			}
			build("self", all, false, false, false)
			if hasImm {
				build("self", all, false, false, true)
			}
		}
		if memReadOnly && smallMem {
			build("membase", nil, true, false, false)
			if memType == "m" {
				build("memindex", nil, false, true, false)
			}
			w := map[int]bool{}
			for _, k := range gpPos {
				if row.Operands[pos[k]].Action&2 != 0 {
					w[k] = true
				}
			}
			if len(w) > 0 {
				build("membase-dst", w, true, false, false)
			}
		}
	}
	for _, s := range shapes {
		stats["formsweep:shapes"]++
		stats["formsweep:class:"+s.class]++
		if s.view != 0 {
			stats[fmt.Sprintf("formsweep:view_mask%d:%s", s.view.Mask(), s.class)]++
		}
		if s.exec != "" {
			stats["formsweep:not_executable:"+strings.SplitN(s.exec, ":", 2)[0]]++
		}
	}
	return shapes
}

// c15ShapeDests: the harness's own reading of the table: the registers in the destination positions (explicit
// operands whose action has the write bit, implicit operands with the write bit), NOT taken from inst.Outputs.
func c15ShapeDests(s *c15Shape) []reg.Register {
	var out []reg.Register
	k := 0
	for i, o := range s.row.Operands {
		if o.Implicit {
			if o.Action&2 != 0 {
				if r := c15ImplicitReg(s.row.TypeNames[i]); r != nil {
					out = append(out, r)
				}
			}
			continue
		}
		if o.Action&2 != 0 {
			if r, ok := s.ops[k].(reg.Register); ok {
				out = append(out, r)
			}
		}
		k++
	}
	return out
}

// c15RebuiltOuts: the destination registers of the function's instructions derived from their OPERANDS as they stand
// (after binding): every instruction is built afresh through the form table from its opcode, suffixes and operands, and
// the outputs of the fresh instruction are taken.  Independent of the instruction's own Inputs/Outputs lists, which a
// pass may have left stale or unbound.  Instructions with an operand that is still virtual contribute nothing.
func c15RebuiltOuts(fn *ir.Function) (outs []reg.Register, complete bool) {
	complete = true
	for _, i := range fn.Instructions() {
		phys := true
		for _, op := range i.Operands {
			switch o := op.(type) {
			case reg.Register:
				phys = phys && reg.ToPhysical(o) != nil
			case operand.Mem:
				phys = phys && (o.Base == nil || o.Base.Kind() == reg.KindPseudo || reg.ToPhysical(o.Base) != nil) &&
					(o.Index == nil || reg.ToPhysical(o.Index) != nil)
			}
		}
		if !phys {
			complete = false
			continue
		}
		var fresh *ir.Instruction
		if err, panicked := safely(func() error {
			var e error
			fresh, e = x86.VerifBuild(i.Opcode, i.Suffixes, i.Operands)
			return e
		}); err != nil || panicked || fresh == nil {
			complete = false
			continue
		}
		outs = append(outs, fresh.OutputRegisters()...)
	}
	return outs, complete
}

// c15ShapeReadsBPOnly: BP appears, but in no destination position.
func c15ShapeTouchesBP(s *c15Shape) (any bool) {
	for _, op := range s.ops {
		switch o := op.(type) {
		case reg.Register:
			any = any || c15IsHWBP(o)
		case operand.Mem:
			any = any || (o.Base != nil && c15IsHWBP(o.Base)) || (o.Index != nil && c15IsHWBP(o.Index))
		}
	}
	return
}

// ---------------------------------------------------------------------------
// Probe functions
// ---------------------------------------------------------------------------

const c15NFlagSetups = 3

// c15Setup: instructions that give the other operands visible values and set the flags (variant v):
//
//	v0: ZF=1 CF=0 SF=0 OF=0 PF=1     v1: CF=1 SF=1 ZF=0 OF=0 PF=1     v2: OF=1 SF=1 ZF=0 CF=0 PF=0
//
// so that every condition code is true in some variant (CMOVcc / SETcc move in some run).
func c15Setup(v int) []*ir.Instruction {
	var is []*ir.Instruction
	mov := func(val uint64, r reg.Register) { is = append(is, c15Inst("MOVQ", operand.U64(val), r)) }
	mov(0x3a5a5a5a5a5aa5a5, reg.RAX)
	mov(0x1122334455667705, reg.RCX) // CL = 5: a shift count that changes the value
	mov(0, reg.RDX)
	mov(0x7b7b7b7b7b7bb7b7, reg.RBX)
	mov(0x6c6c6c6c6c6cc6c7, reg.RSI)
	mov(0x4d4d4d4d4d4dd4d9, reg.RDI)
	mov(0x2e2e2e2e2e2ee2eb, reg.R8)
	mov(0x1f1f1f1f1f1ff1fd, reg.R9)
	// the scratch slot below the stack pointer that memory destinations use: a value of its own (not what the
	// previous probe left there)
	is = append(is, c15Inst("MOVQ", reg.R9, operand.Mem{Base: reg.RSP, Disp: -128}))
	// vector and mask sources: defined, non-zero
	is = append(is, c15Inst("MOVQ", reg.RBX, reg.X1), c15Inst("MOVQ", reg.RSI, reg.X2), c15Inst("MOVQ", reg.RDI, reg.X3), c15Inst("MOVQ", reg.R8, reg.X4))
	switch v {
	case 0:
		is = append(is, c15Inst("CMPQ", reg.RSP, reg.RSP))
	case 1:
		is = append(is, c15Inst("MOVQ", operand.U64(0), reg.R15), c15Inst("SUBQ", operand.U8(1), reg.R15))
	default:
		is = append(is, c15Inst("MOVB", operand.U8(0x7f), reg.R15B), c15Inst("ADDB", operand.U8(1), reg.R15B))
	}
	return is
}

// c15ProbeFn: [setup; instruction; RET] as an ir.Function (not compiled).
func c15ProbeFn(name string, s *c15Shape, v int, a attr.Attribute) *ir.Function {
	fn := ir.NewFunction(name)
	fn.Attributes = a
	for _, i := range c15Setup(v) {
		if i == nil {
			return nil
		}
		fn.AddInstruction(i)
	}
	in := s.inst()
	if in == nil {
		return nil
	}
	// PUSH / POP move the stack pointer: paired with their counterpart of the same width so that the probe returns
	var pre, post *ir.Instruction
	if op := s.row.Opcode; len(op) == 4 && strings.HasPrefix(op, "POP") {
		pre = c15Inst("PUSH"+op[3:], map[byte]reg.Register{'Q': reg.RBX, 'W': reg.BX}[op[3]])
		if pre == nil {
			return nil
		}
		fn.AddInstruction(pre)
	} else if len(op) == 5 && strings.HasPrefix(op, "PUSH") {
		post = c15Inst("POP"+op[4:], map[byte]reg.Register{'Q': reg.RBX, 'W': reg.BX}[op[4]])
		if post == nil {
			return nil
		}
	}
	fn.AddInstruction(in)
	if post != nil {
		fn.AddInstruction(post)
	}
	fn.AddInstruction(c15Inst("RET"))
	return fn
}

// c15PrintFns prints functions with avo's Go assembly printer and returns the text without the file header
// (so that many printed files can be concatenated behind ONE #include).
func c15PrintFns(fns ...*ir.Function) (string, error) {
	file := ir.NewFile()
	for _, fn := range fns {
		file.AddSection(fn)
	}
	var asm []byte
	err, panicked := safely(func() error {
		var e error
		asm, e = printer.NewGoAsm(printer.Config{Name: "avoh", Pkg: "main"}).Print(file)
		return e
	})
	if panicked {
		return "", fmt.Errorf("printer panicked")
	}
	if err != nil {
		return "", err
	}
	text := string(asm)
	i := strings.Index(text, "TEXT ")
	if i < 0 {
		return "", fmt.Errorf("no TEXT line in the printed file")
	}
	// keep the comment line in front of the first TEXT line out: start at the TEXT line
	return text[i:], nil
}

// c15RunAll runs the built probe program, restarting behind every function the child died in.
func c15RunAll(dir string, n int, stats map[string]int) (map[int][2]uint64, map[int]bool) {
	results := map[int][2]uint64{}
	crashed := map[int]bool{}
	for start := 0; start < n; {
		res, _, _ := c15Run(dir, itoa(start))
		last := start - 1
		for i, m := range res {
			results[i] = m
			if i > last {
				last = i
			}
		}
		if last >= n-1 {
			break
		}
		crashed[last+1] = true
		stats["formsweep:exec_crashes"]++
		start = last + 2
	}
	return results, crashed
}

type c15ShapeRun struct {
	s        *c15Shape
	measured bool // executed alone, the caller-visible BP changed in some set-up
	executed int  // set-ups that ran to completion
	variant  int  // the set-up used for the compiled function (one in which BP changed, if any)
}

// c15FormSweep: see the comment at the top of the file.
func c15FormSweep(o *out, r *rng, shapes []*c15Shape, maxExec int, dir string, stats map[string]int) error {
	runs := make([]*c15ShapeRun, len(shapes))
	for i, s := range shapes {
		runs[i] = &c15ShapeRun{s: s}
	}
	// --- which shapes are executed: all the executable ones, or a seeded sample of maxExec of them that always
	// contains every "looks like a no-op" shape
	var execIdx []int
	for i, s := range shapes {
		if s.exec == "" {
			execIdx = append(execIdx, i)
		}
	}
	if maxExec >= 0 && len(execIdx) > maxExec {
		var must, rest []int
		for _, i := range execIdx {
			switch shapes[i].class {
			case "self", "imm0", "membase-dst":
				must = append(must, i)
			default:
				rest = append(rest, i)
			}
		}
		for j := len(rest) - 1; j > 0; j-- {
			k := r.intn(j + 1)
			rest[j], rest[k] = rest[k], rest[j]
		}
		if n := maxExec - len(must); n > 0 && n < len(rest) {
			rest = rest[:n]
		} else if n <= 0 {
			rest = nil
		}
		execIdx = append(must, rest...)
		sort.Ints(execIdx)
	}
	// --- (1) the measurement: every executed shape alone, hand-framed, three set-ups
	var names []string
	var text strings.Builder
	text.WriteString("#include \"textflag.h\"\n\n")
	stubs := "package main\n\n"
	type slot struct{ run, v int }
	var slots []slot
	for _, i := range execIdx {
		for v := 0; v < c15NFlagSetups; v++ {
			name := fmt.Sprintf("c15t%dv%d", i, v)
			fn := c15ProbeFn(name, shapes[i], v, attr.NOSPLIT|attr.NOFRAME)
			if fn == nil {
				continue
			}
			t, err := c15PrintFns(fn)
			if err != nil {
				stats["formsweep:probe_print_error"]++
				continue
			}
			text.WriteString(t + "\n")
			stubs += "func " + name + "()\n"
			names = append(names, name)
			slots = append(slots, slot{i, v})
		}
	}
	if len(names) > 0 {
		// positive and negative control of the measurement
		names = append(names, "c15ctl", "c15ctl0")
		extra := map[string]string{"probe_amd64.s": text.String(), "stubs.go": stubs,
			"ctl_amd64.s": c15GridFn("c15ctl", 4|512, 0, false, true), "ctl.go": "package main\n\nfunc c15ctl()\nfunc c15ctl0()\n",
			"ctl0_amd64.s": c15GridFn("c15ctl0", 4|512, 0, false, false)}
		mdir := dir + "-measure"
		if err := c15WriteModule(mdir, names, extra); err != nil {
			return err
		}
		if outp, err := c15Build(mdir); err != nil {
			return fmt.Errorf("form sweep: the probe functions do not build: %s", c15FirstLine(strings.ReplaceAll(outp, "# c15run\n", "")))
		}
		res, crashed := c15RunAll(mdir, len(names), stats)
		n := len(slots)
		if m, ok := res[n]; !ok || m[0] == m[1] || m[1] != c15Sentinel {
			return fmt.Errorf("form sweep: the positive control (frameless leaf setting BP) was not observed to change BP: %v", res[n])
		}
		if m, ok := res[n+1]; !ok || m[0] != m[1] {
			return fmt.Errorf("form sweep: the negative control (frameless leaf leaving BP alone) was observed to change BP: %v", res[n+1])
		}
		stats["formsweep:measure_controls_ok"]++
		for j, sl := range slots {
			m, ok := res[j]
			if !ok || crashed[j] {
				stats["formsweep:measure_setup_crashed"]++
				stats["formsweep:measure_crashed:"+runs[sl.run].s.key]++
				continue
			}
			ru := runs[sl.run]
			ru.executed++
			if m[0] != m[1] && !ru.measured {
				ru.measured = true
				ru.variant = sl.v
			}
		}
	}
	// --- (2) avo: the one-instruction function through pass.Compile under every attribute set, frame 0 and > 0
	type compiled struct {
		run   int
		name  string
		attrs int
		frame int
		clob  bool
	}
	var comp []compiled
	var ctext strings.Builder
	ctext.WriteString("#include \"textflag.h\"\n\n")
	cstubs := "package main\n\n"
	execSet := map[int]bool{}
	for _, i := range execIdx {
		execSet[i] = true
	}
	for i, ru := range runs {
		s := ru.s
		dests := c15ShapeDests(s)
		declHW := false
		for _, d := range dests {
			declHW = declHW || c15IsHWBP(d)
		}
		class := s.class
		stats["formsweep:judged_shapes"]++
		if ru.executed > 0 {
			stats["formsweep:measured_shapes"]++
			stats["formsweep:measured_shapes:"+class]++
			if ru.measured {
				stats["formsweep:measured_changed"]++
				stats["formsweep:measured_changed:"+class]++
				if s.view != 0 {
					stats[fmt.Sprintf("formsweep:measured_changed:view_mask%d", s.view.Mask())]++
					stats[fmt.Sprintf("formsweep:measured_changed:%s:view_mask%d", class, s.view.Mask())]++
				}
				if !declHW {
					stats["formsweep:measured_changed_but_no_destination_is_bp"]++
				}
			} else if declHW {
				stats["formsweep:destination_is_bp_but_measured_same"]++
			}
		}
		for ai, a := range c15BaseAttrs {
			for _, ls := range []int{0, 24} {
				if ls != 0 && (i+ai)%4 != 0 {
					continue // frames > 0: every fourth combination
				}
				name := fmt.Sprintf("c15a%d", i)
				fn := c15ProbeFn(name, s, ru.variant, a)
				if fn == nil {
					continue
				}
				if ls > 0 {
					fn.AllocLocal(ls)
				}
				file := ir.NewFile()
				file.AddSection(fn)
				err, panicked := safely(func() error { return pass.Compile.Execute(file) })
				head := fmt.Sprintf("accept-bp-form %s %d %d 0 %s %s", s.key, int(a), ls, b01(ru.measured), encRegs(dests))
				if panicked {
					o.emit(head+" 0 => panic", "ok")
					continue
				}
				outs := c15Outs(fn)
				if err != nil {
					// control experiment: is it the NOFRAME bit that makes Compile refuse?  A refusal that persists
					// without it (an indirect jump the CFG pass rejects, …) is not the refusal the property speaks
					// about: nothing is emitted; counted, not judged
					because := false
					if a&attr.NOFRAME != 0 {
						if cfn := c15ProbeFn(name, s, ru.variant, a&^attr.NOFRAME); cfn != nil {
							if ls > 0 {
								cfn.AllocLocal(ls)
							}
							cfile := ir.NewFile()
							cfile.AddSection(cfn)
							cerr, cpanicked := safely(func() error { return pass.Compile.Execute(cfile) })
							because = cerr == nil && !cpanicked
						}
					}
					if !because {
						stats["formsweep:refused_regardless_of_noframe"]++
						continue
					}
					o.emit(head+" "+encRegs(outs)+" => err", "ok")
					stats["formsweep:refused"]++
					continue
				}
				line := head + " " + encRegs(outs) + " => ok " + itoa(fn.LocalSize)
				var t string
				if sizes, _, perr := c15TextSizes(file); perr == nil {
					if tok, ok := sizes[name]; ok {
						line += " " + tok
					}
				}
				o.emit(line, "ok")
				stats["formsweep:accepted"]++
				if fn.LocalSize != ls {
					stats["formsweep:frame_forced"]++
				}
				// the compiled function is executed as well: once per shape, attribute sets 0 / NOSPLIT alternating
				if ls == 0 && execSet[i] && ru.executed > 0 && ai == i%2 {
					var perr error
					t, perr = c15PrintFns(fn)
					if perr != nil {
						continue
					}
					ctext.WriteString(t + "\n")
					cstubs += "func " + name + "()\n"
					clob := declHW || ru.measured
					for _, x := range outs {
						clob = clob || c15IsHWBP(x)
					}
					comp = append(comp, compiled{i, name, int(a), fn.LocalSize, clob})
				}
			}
		}
	}
	c15SetPool(runs)
	stats["formsweep:pool_write"] = len(c15Pool.write)
	stats["formsweep:pool_read"] = len(c15Pool.read)
	for _, s := range c15Pool.write {
		if s.class == "self" {
			stats["formsweep:pool_write_self"]++
		}
	}
	// --- (3) the compiled functions, called
	if len(comp) > 0 {
		var cnames []string
		for _, c := range comp {
			cnames = append(cnames, c.name)
		}
		cnames = append(cnames, "c15ctl")
		extra := map[string]string{"fn_amd64.s": ctext.String(), "stubs.go": cstubs,
			"ctl_amd64.s": c15GridFn("c15ctl", 4|512, 0, false, true), "ctl.go": "package main\n\nfunc c15ctl()\n"}
		cdir := dir + "-compiled"
		if err := c15WriteModule(cdir, cnames, extra); err != nil {
			return err
		}
		if outp, err := c15Build(cdir); err != nil {
			o.emit("accept-bp-exec-build "+hexs(c15FirstLine(strings.ReplaceAll(outp, "# c15run\n", ""))), "ok")
			stats["formsweep:compiled_build_failed"]++
			return nil
		}
		res, crashed := c15RunAll(cdir, len(cnames), stats)
		if m, ok := res[len(comp)]; !ok || m[0] == m[1] || m[1] != c15Sentinel {
			return fmt.Errorf("form sweep: the control of the compiled sample was not observed to change BP: %v", res[len(comp)])
		}
		stats["formsweep:compiled_control_ok"]++
		for j, c := range comp {
			m, ok := res[j]
			if !ok || crashed[j] {
				// the instruction faulted inside the compiled function: nothing returned to the caller (counted)
				stats["formsweep:compiled_crashed"]++
				continue
			}
			verdict := "same"
			if m[0] != m[1] {
				verdict = "changed"
			}
			o.emit(fmt.Sprintf("accept-bp-exec %d %d 0 %s %s", c.attrs, c.frame, b01(c.clob), verdict), "ok")
			stats["formsweep:compiled_executed"]++
			if c.clob {
				stats["formsweep:compiled_executed_clobbering"]++
			}
			if runs[c.run].measured {
				stats["formsweep:compiled_executed_measured_changed"]++
			}
		}
	}
	return nil
}

func init() {
	register("c15shapes", "list the instruction shapes of the C15 form sweep (debugging aid)", func(args []string) error {
		f := newStdFlags("c15shapes")
		if err := f.fs.Parse(args); err != nil {
			return err
		}
		db, err := loadForms(*f.repo)
		if err != nil {
			return err
		}
		stats := map[string]int{}
		for _, s := range c15Shapes(db, stats) {
			fmt.Printf("%-12s %-40s %s\n", s.class, s.key, s.exec)
		}
		var ks []string
		for k := range stats {
			ks = append(ks, k)
		}
		sort.Strings(ks)
		for _, k := range ks {
			fmt.Fprintf(os.Stderr, "%s = %d\n", k, stats[k])
		}
		return nil
	})
}
