package main

import (
	"encoding/hex"
	"fmt"
	"math"
	"math/big"
	"sort"
	"strings"

	"github.com/mmcloughlin/avo/build"
	"github.com/mmcloughlin/avo/ir"
	"github.com/mmcloughlin/avo/operand"
	"github.com/mmcloughlin/avo/reg"
	"github.com/mmcloughlin/avo/x86"
)

// C06 correspondence:
//
//	(i)   operand-class predicates, exhaustively: universe of ~470 operands × every
//	      operand type code (0 … oprndtypemax+1), real x86.VerifMatch vs model; the
//	      suffix sets of every suffix class code (`sfxset`);
//	(ii)  three-layer agreement: x86 constructor, Context method, package-level
//	      function called BY NAME (through zz_c06_wrappers.go, generated from
//	      /repo by cmd/genctors) on matching and near-miss operand tuples; quick
//	      tier: every function outside the V… block, every family with a
//	      fixed-register class, a seeded sample of V families, the rest swept;
//	(iii) purity: accepted operand lists replayed over all suffix variants of the
//	      opcode in shuffled and reversed order (`accept-pure`);
//	(iv)  terminal / branch / conditional flags against the mnemonic (`accept-attrs`);
//	(v)   corpus mode (-replay file of `call NAME operand-token…` lines).
//
// Populated by the generated file zz_c06_wrappers.go; empty when it is absent.
var (
	c06X86         map[string]func([]operand.Op) (*ir.Instruction, error)
	c06X86Arity    map[string]int
	c06Method      map[string]func(*build.Context, []operand.Op)
	c06MethodArity map[string]int
	c06Global      map[string]func([]operand.Op)
	c06GlobalArity map[string]int
)

// ---------------------------------------------------------------- encoding

type c06Foreign struct{} // an operand.Op implementation avo does not know

func (c06Foreign) Asm() string { return "foreign" }

func c06Hex(s string) string {
	if s == "" {
		return "-"
	}
	return hex.EncodeToString([]byte(s))
}

func c06EncReg(r reg.Register, sep string) string {
	if r == nil {
		return "-"
	}
	return strings.Join([]string{itoa(int(r.Kind())), itoa(int(r.Size())), fmt.Sprint(uint32(r.ID())), itoa(int(r.Mask())), c06Hex(r.Asm())}, sep)
}

// c06EncOp renders an operand as one token (see Drv/C06.lean parseOp).
func c06EncOp(op operand.Op) string {
	switch o := op.(type) {
	case nil:
		return "oth:0"
	case reg.Register:
		return "r:" + c06EncReg(o, ":")
	case operand.Mem:
		return fmt.Sprintf("m:%s:%s:%d:%d:%s", c06EncReg(o.Base, "/"), c06EncReg(o.Index, "/"), o.Scale, o.Disp, c06Hex(o.Symbol.String()))
	case operand.U8:
		return fmt.Sprintf("i:0:%d", uint8(o))
	case operand.U16:
		return fmt.Sprintf("i:1:%d", uint16(o))
	case operand.U32:
		return fmt.Sprintf("i:2:%d", uint32(o))
	case operand.U64:
		return fmt.Sprintf("i:3:%d", uint64(o))
	case operand.I8:
		return fmt.Sprintf("i:4:%d", int8(o))
	case operand.I16:
		return fmt.Sprintf("i:5:%d", int16(o))
	case operand.I32:
		return fmt.Sprintf("i:6:%d", int32(o))
	case operand.I64:
		return fmt.Sprintf("i:7:%d", int64(o))
	case operand.F32:
		return fmt.Sprintf("i:8:%d", math.Float32bits(float32(o)))
	case operand.F64:
		return fmt.Sprintf("i:9:%d", math.Float64bits(float64(o)))
	case operand.String:
		return "i:10:" + new(big.Int).SetBytes(append([]byte{1}, []byte(o)...)).String()
	case operand.Rel:
		return fmt.Sprintf("rel:%d", int32(o))
	case operand.LabelRef:
		return "lbl:" + c06Hex(string(o))
	case *operand.Mem:
		return "oth:1"
	default:
		return "oth:2"
	}
}

func c06EncOps(ops []operand.Op) string {
	parts := make([]string, 0, len(ops)+1)
	parts = append(parts, itoa(len(ops)))
	for _, o := range ops {
		parts = append(parts, c06EncOp(o))
	}
	return strings.Join(parts, " ")
}

func c06StrList(xs []string) string {
	return strings.Join(append([]string{itoa(len(xs))}, xs...), " ")
}

// c06EncInstr is the canonical response for an instruction.
func c06EncInstr(i *ir.Instruction) string {
	fl := b01(i.IsTerminal) + b01(i.IsBranch) + b01(i.IsConditional) + b01(i.CancellingInputs)
	return strings.Join([]string{"ok", i.Opcode, c06StrList(i.Suffixes), c06EncOps(i.Operands), c06EncOps(i.Inputs), c06EncOps(i.Outputs), fl, c06StrList(i.ISA)}, " ")
}

// ---------------------------------------------------------------- universe

type c06Universe struct {
	all     []operand.Op
	byClass map[string][]operand.Op // lower-case operand type name → operands that match it
	// derived near misses: (type:kind) pairs of the catalogue present in the universe, operands they added, types
	// without catalogue
	derivedPairs      map[string]int
	derivedPairsTotal int
	derivedAdded      int
	underivable       []string
}

func c06BuildUniverse(t *optabAST) *c06Universe {
	u := &c06Universe{byClass: map[string][]operand.Op{}}
	add := func(ops ...operand.Op) { u.all = append(u.all, ops...) }
	// every physical register of every family (176: 4 pseudo + 72 GP + 96 vector + 8 opmask … as defined)
	for _, f := range reg.Families {
		for _, r := range f.Registers() {
			add(r)
		}
	}
	// the exported wrapped values and converted views
	add(reg.AL, reg.CL, reg.AX, reg.EAX, reg.RAX, reg.X0, reg.RAX.As8L(), reg.RCX.As8L(), reg.RAX.As16(), reg.RAX.As32(), reg.EAX.As64(),
		reg.Y0.AsX(), reg.Z0.AsX(), reg.X0.AsY(), reg.AH, reg.RAX.As8H(), reg.R15, reg.R15B, reg.X31, reg.Y31, reg.Z31, reg.K0, reg.K7)
	// virtual registers of each kind and width, plus ill-sized ones
	col := reg.NewCollection()
	add(col.GP8L(), col.GP8H(), col.GP16(), col.GP32(), col.GP64(), col.XMM(), col.YMM(), col.ZMM(), col.K())
	add(reg.NewVirtual(0, reg.KindGP, reg.S8L), reg.NewVirtual(0, reg.KindVector, reg.S128), reg.NewVirtual(0, reg.KindGP, reg.S0),
		reg.NewVirtual(7, reg.KindGP, reg.S128), reg.NewVirtual(3, reg.KindVector, reg.S64), reg.NewVirtual(1, reg.KindOpmask, reg.S8L),
		reg.NewVirtual(0, reg.KindPseudo, reg.S0), reg.NewVirtual(2, reg.Kind(9), reg.S64), reg.NewVirtual(0, reg.KindVector, reg.S32))
	// memory shapes
	v64, v32, vx, vy, vz, vk := col.GP64(), col.GP32(), col.XMM(), col.YMM(), col.ZMM(), col.K()
	bases := []reg.Register{nil, reg.RAX, reg.EAX, reg.AX, reg.AL, reg.RSP, reg.RBP, reg.R12, reg.R13, reg.FramePointer, reg.StackPointer, reg.StaticBase, reg.ProgramCounter, v64, v32, reg.X1, reg.K1}
	idxs := []reg.Register{nil, reg.RCX, reg.ECX, reg.R15, v64, reg.FramePointer, reg.X2, reg.X31, reg.Y2, reg.Z2, reg.Z31, vx, vy, vz, reg.K2, vk}
	for bi, b := range bases {
		for ii, ix := range idxs {
			// full cross product for the first bases, a diagonal for the rest: ~120 shapes
			if bi > 5 && (bi+ii)%4 != 0 && ix != nil {
				continue
			}
			m := operand.Mem{Base: b, Index: ix, Disp: (bi*7 + ii) % 5 * 8}
			if ix != nil {
				m.Scale = uint8(1 << uint((bi+ii)%4))
			}
			add(m)
		}
	}
	add(operand.NewParamAddr("x", 8), operand.NewStackAddr(16), operand.NewDataAddr(operand.NewStaticSymbol("data"), 4),
		operand.Mem{Base: reg.RAX, Index: reg.RCX, Scale: 0}, operand.Mem{Base: reg.RAX, Index: reg.X3, Scale: 0}, operand.Mem{})
	// shapes the first universe lacked (audit round 1, C06 item 8): a symbol without base register, the stack pointer
	// and 8/16-bit registers as index, virtual registers with identifiers above 7 as base and index, X16+ as vector index
	var hi64 reg.GPVirtual
	for k := 0; k < 10; k++ {
		hi64 = col.GP64()
	}
	hi32 := col.GP32()
	add(operand.Mem{Symbol: operand.NewStaticSymbol("sym")}, operand.Mem{Symbol: operand.NewStaticSymbol("sym"), Disp: 8, Index: reg.RCX, Scale: 2},
		operand.Mem{Base: reg.RAX, Index: reg.RSP, Scale: 1}, operand.Mem{Base: reg.RSP, Index: reg.RSP, Scale: 8},
		operand.Mem{Base: reg.RAX, Index: reg.CX, Scale: 1}, operand.Mem{Base: reg.RAX, Index: reg.CL, Scale: 1}, operand.Mem{Base: reg.RAX, Index: reg.AH, Scale: 1},
		operand.Mem{Base: hi64, Index: v64, Scale: 4}, operand.Mem{Base: v64, Index: hi64, Scale: 8, Disp: -8}, operand.Mem{Base: hi32, Index: hi64, Scale: 1},
		operand.Mem{Base: reg.R15, Index: reg.R14, Scale: 8, Disp: math.MinInt32}, operand.Mem{Base: hi64, Index: reg.X16, Scale: 1}, operand.Mem{Base: hi64, Index: vy, Scale: 2},
		operand.Mem{Base: reg.RAX, Index: reg.Y16, Scale: 4}, operand.Mem{Base: reg.RAX, Index: reg.StackPointer, Scale: 1}, operand.Mem{Base: reg.RAX, Index: reg.RCX, Scale: 3},
		hi64, hi32)
	pm := operand.Mem{Base: reg.RAX}
	add(&pm, c06Foreign{}, nil)
	// constants of every type at boundary values
	for _, v := range []uint8{0, 1, 2, 3, 4, 5, 127, 128, 255} {
		add(operand.U8(v))
	}
	for _, v := range []int8{-128, -1, 0, 1, 3, 4, 127} {
		add(operand.I8(v))
	}
	add(operand.U16(0), operand.U16(1), operand.U16(3), operand.U16(255), operand.U16(256), operand.U16(65535),
		operand.I16(-32768), operand.I16(-1), operand.I16(1), operand.I16(32767),
		operand.U32(0), operand.U32(1), operand.U32(3), operand.U32(65536), operand.U32(1<<31-1), operand.U32(1<<31), operand.U32(math.MaxUint32),
		operand.I32(math.MinInt32), operand.I32(-1), operand.I32(1), operand.I32(3), operand.I32(math.MaxInt32),
		operand.U64(0), operand.U64(1), operand.U64(3), operand.U64(1<<32), operand.U64(1<<63), operand.U64(math.MaxUint64),
		operand.I64(math.MinInt64), operand.I64(-1), operand.I64(1), operand.I64(3), operand.I64(math.MaxInt64),
		operand.F32(1), operand.F32(3), operand.F64(1), operand.F64(3), operand.String("1"), operand.String(""),
		operand.Imm(1), operand.Imm(3), operand.Imm(256), operand.Imm(1<<16), operand.Imm(1<<32))
	// Rel, LabelRef
	for _, v := range []int32{math.MinInt32, -129, -128, -127, -1, 0, 1, 3, 126, 127, 128, 255, 256, math.MaxInt32} {
		add(operand.Rel(v))
	}
	add(operand.LabelRef("loop"), operand.LabelRef(""), operand.LabelRef("1"))
	// systematically derived near misses (round 5): for EVERY operand type a member of the class with every attribute
	// present and every one-attribute change of it (c05derive.go: base / index absent, narrower, of another register
	// kind or width, scale, symbol, displacement; registers of every other width and kind, other views and neighbours
	// of the fixed registers; constants of every other type and just outside the range; branch targets just outside
	// the 8-bit range), once made of physical and once of virtual registers
	u.derivedPairs = map[string]int{}
	have := map[string]bool{}
	for _, op := range u.all {
		have[c06EncOp(op)] = true
	}
	rot := 0
	physOf := func(f *reg.Family, size uint, from int) reg.Register {
		var rs []reg.Register
		for _, p := range f.Registers() {
			if p.Size() == size && p.Mask() != reg.S8H.Mask() && p != reg.Register(reg.RSP) {
				rs = append(rs, p)
			}
		}
		rot++
		return rs[(from+rot*5)%len(rs)]
	}
	physSrc := &c05RegSrc{
		gp:   func(size uint) reg.Register { return physOf(reg.GeneralPurpose, size, 3) },
		gp8h: func() reg.Register { rot++; return []reg.Register{reg.AH, reg.CH, reg.DH, reg.BH}[rot%4] },
		vec:  func(size uint) reg.Register { return physOf(reg.Vector, size, 7) },
		k:    func() reg.Register { return physOf(reg.Opmask, 8, 1) },
	}
	virtSrc := &c05RegSrc{
		gp: func(size uint) reg.Register {
			switch size {
			case 1:
				return col.GP8L()
			case 2:
				return col.GP16()
			case 4:
				return col.GP32()
			}
			return col.GP64()
		},
		gp8h: func() reg.Register { return col.GP8H() },
		vec: func(size uint) reg.Register {
			switch size {
			case 16:
				return col.XMM()
			case 32:
				return col.YMM()
			}
			return col.ZMM()
		},
		k: func() reg.Register { return col.K() },
	}
	for _, n := range t.OprndTypes {
		name := strings.ToLower(strings.TrimPrefix(n, "oprndtype"))
		if c05Family(name) == "" {
			u.underivable = append(u.underivable, name)
			continue
		}
		u.derivedPairsTotal += len(c05DeriveKinds(name))
		for _, src := range []*c05RegSrc{physSrc, virtSrc} {
			good := c05CanonMember(name, src)
			if good == nil {
				continue
			}
			good, muts := c05Derive(name, good, src)
			for _, m := range append([]c05Mutant{{"member", good}}, muts...) {
				if m.what != "member" {
					u.derivedPairs[name+":"+m.what]++
				}
				if tok := c06EncOp(m.op); !have[tok] {
					have[tok] = true
					add(m.op)
					u.derivedAdded++
				}
			}
		}
	}
	// index by class through the REAL predicate (used only to pick samples; the
	// verdict on each sample is made by comparing model and implementation)
	for i, n := range t.OprndTypes {
		name := strings.ToLower(strings.TrimPrefix(n, "oprndtype"))
		for _, op := range u.all {
			if c06Match(uint8(i+1), op) == "1" {
				u.byClass[name] = append(u.byClass[name], op)
			}
		}
	}
	return u
}

// c06DeriveSrc draws the registers of a derived operand from the universe: the members of the register classes
// (physical and virtual alike).
func c06DeriveSrc(r *rng, u *c06Universe) *c05RegSrc {
	gpName := map[uint]string{1: "r8", 2: "r16", 4: "r32", 8: "r64"}
	vecName := map[uint]string{16: "xmm", 32: "ymm", 64: "zmm"}
	fromClass := func(name string, ok func(reg.Register) bool) reg.Register {
		pool := u.byClass[name]
		for tries := 0; tries < 200 && len(pool) > 0; tries++ {
			if x, isReg := pick(r, pool).(reg.Register); isReg && ok(x) {
				return x
			}
		}
		return nil
	}
	any := func(reg.Register) bool { return true }
	return &c05RegSrc{
		gp: func(size uint) reg.Register {
			return fromClass(gpName[size], func(x reg.Register) bool { return x.Mask() != reg.S8H.Mask() || size != 1 })
		},
		gp8h: func() reg.Register { return pick(r, []reg.Register{reg.AH, reg.CH, reg.DH, reg.BH}) },
		vec:  func(size uint) reg.Register { return fromClass(vecName[size], any) },
		k:    func() reg.Register { return fromClass("k", any) },
	}
}

func c06Match(t uint8, op operand.Op) (res string) {
	defer func() {
		if recover() != nil {
			res = "panic"
		}
	}()
	if x86.VerifMatch(t, op) {
		return "1"
	}
	return "0"
}

// ---------------------------------------------------------------- layers

type c06Outcome struct {
	resp          string // "err", "panic", "na" or canonical instruction
	dnodes, derrs int
}

func c06NewCtx() *build.Context {
	c := build.NewContext()
	c.Function("f")
	return c
}

func c06State(c *build.Context) (nodes, errs int, last *ir.Instruction) {
	f, _ := c.Result()
	fns := f.Functions()
	if len(fns) > 0 {
		fn := fns[len(fns)-1]
		nodes = len(fn.Nodes)
		if nodes > 0 {
			last, _ = fn.Nodes[nodes-1].(*ir.Instruction)
		}
	}
	return nodes, c.VerifErrCount(), last
}

func c06CallCtor(name string, ops []operand.Op) (out c06Outcome) {
	f, ok := c06X86[name]
	if !ok {
		return c06Outcome{resp: "missing"}
	}
	if a := c06X86Arity[name]; a >= 0 && a != len(ops) {
		return c06Outcome{resp: "na"}
	}
	defer func() {
		if recover() != nil {
			out = c06Outcome{resp: "panic"}
		}
	}()
	i, err := f(ops)
	if err != nil {
		return c06Outcome{resp: "err"}
	}
	if i == nil {
		return c06Outcome{resp: "nil"}
	}
	return c06Outcome{resp: c06EncInstr(i)}
}

// c06Observe runs call on ctx (a context with an active function that already
// holds `pre` instructions and errors) and reports what was appended.
func c06Observe(ctx *build.Context, call func()) (out c06Outcome) {
	n0, e0, _ := c06State(ctx)
	func() {
		defer func() {
			if recover() != nil {
				out.resp = "panic"
			}
		}()
		call()
	}()
	n1, e1, last := c06State(ctx)
	out.dnodes, out.derrs = n1-n0, e1-e0
	if out.resp == "panic" {
		return out
	}
	switch {
	case out.dnodes == 1 && last != nil:
		out.resp = c06EncInstr(last)
	case out.dnodes == 0:
		out.resp = "err"
	default:
		out.resp = "odd"
	}
	return out
}

func c06CallMethod(ctx *build.Context, name string, ops []operand.Op) c06Outcome {
	f, ok := c06Method[name]
	if !ok {
		return c06Outcome{resp: "missing"}
	}
	if a := c06MethodArity[name]; a >= 0 && a != len(ops) {
		return c06Outcome{resp: "na"}
	}
	return c06Observe(ctx, func() { f(ctx, ops) })
}

func c06CallGlobal(ctx *build.Context, name string, ops []operand.Op) c06Outcome {
	f, ok := c06Global[name]
	if !ok {
		return c06Outcome{resp: "missing"}
	}
	if a := c06GlobalArity[name]; a >= 0 && a != len(ops) {
		return c06Outcome{resp: "na"}
	}
	old := build.VerifSwapContext(ctx)
	defer build.VerifSwapContext(old)
	return c06Observe(ctx, func() { f(ops) })
}

// c06Sibling maps a fixed-register / fixed-value operand class to the broader class of the same kind and width.
var c06Sibling = map[string]string{"al": "r8", "cl": "r8", "ax": "r16", "eax": "r32", "rax": "r64", "xmm0": "xmm",
	"1": "imm8", "3": "imm8", "imm2u": "imm8"}

// c06SameShape: same dynamic Go type and, for registers, physical/virtual alike with the same width.
func c06SameShape(a, b operand.Op) bool {
	if fmt.Sprintf("%T", a) != fmt.Sprintf("%T", b) {
		return false
	}
	ra, oka := a.(reg.Register)
	rb, okb := b.(reg.Register)
	if oka != okb {
		return false
	}
	if oka {
		return ra.Kind() == rb.Kind() && ra.Size() == rb.Size() && ra.ID().IsVirtual() == rb.ID().IsVirtual()
	}
	return true
}

// ---------------------------------------------------------------- suspects

// c06Suspects recomputes, in Go and untrusted, the judgements the Lean table
// theorems make, to FOCUS sampling on rows that look wrong (so that a broken
// table obligation comes with a concrete failing call).  It decides nothing.
func c06Suspects(t *optabAST, cs []ctorAST, ms, gs []wrapAST) map[string]bool {
	sus := map[string]bool{}
	opcIdx := map[string]int{}
	for i, n := range t.Opcs {
		opcIdx[n] = i
	}
	sfxIdx := map[string]int{}
	for i, n := range t.Sffx {
		sfxIdx[n] = i + 1
	}
	sfxStr := map[[2]int][]string{}
	for _, e := range t.SffxsStrings {
		sfxStr[e.Key] = e.Strings
	}
	typeName := func(code int) string {
		if code >= 1 && code <= len(t.OprndTypes) {
			return strings.ToLower(strings.TrimPrefix(t.OprndTypes[code-1], "oprndtype"))
		}
		return "?"
	}
	same := func(a, b []string) bool { return strings.Join(a, "\x00") == strings.Join(b, "\x00") }
	cdoc := map[string][]string{}
	for i := range cs {
		c := &cs[i]
		cdoc[c.Name] = c.Doc
		bad := c.ShapeErr != "" || c.Callee != "build" || c.FormsSel != "Forms" || c.SfxType != "sffxs"
		oi, ok := opcIdx[c.OpcConst]
		if !ok || oi >= len(t.OpcStrings) || oi >= len(t.OpcRanges) {
			sus[c.Name] = true
			continue
		}
		var key [2]int
		for j, s := range c.SfxConsts {
			if j < 2 {
				key[j] = sfxIdx[s]
			}
		}
		strs, ok := sfxStr[key]
		if !ok {
			bad = true
		}
		if c.Name != strings.Join(append([]string{t.OpcStrings[oi]}, strs...), "_") {
			bad = true
		}
		if c.Variadic {
			bad = bad || !c.ArgsIsSlice || !same(c.Args, c.Params)
		} else {
			bad = bad || c.ArgsIsSlice || !same(c.Args, c.Params)
		}
		// documentation rows vs admitted forms
		mn := strings.Join(append([]string{t.OpcStrings[oi]}, strs...), ".")
		var want []string
		r := t.OpcRanges[oi]
		for k := r[0]; k < r[1] && k < len(t.Forms); k++ {
			f := &t.Forms[k]
			adm := false
			if f.Cls >= 1 && f.Cls <= len(t.SffxsClsSets) {
				for _, s := range t.SffxsClsSets[f.Cls-1] {
					if s == key {
						adm = true
					}
				}
			}
			if !adm {
				continue
			}
			row := []string{mn}
			for j := 0; j < f.Arity && j < len(f.Operands); j++ {
				row = append(row, typeName(f.Operands[j].Type))
			}
			want = append(want, strings.Join(row, " "))
		}
		got := append([]string(nil), c.Doc...)
		sort.Strings(got)
		sort.Strings(want)
		if !same(got, want) {
			bad = true
		}
		if bad {
			sus[c.Name] = true
		}
	}
	for _, w := range ms {
		if w.ShapeErr != "" || w.Via != "addinstruction" || w.Pkg != "x86" || w.Callee != w.Name || !same(w.Args, w.Params) || w.Spread != w.Variadic || !same(w.Doc, cdoc[w.Name]) {
			sus[w.Name] = true
		}
	}
	for _, w := range gs {
		if w.ShapeErr != "" || w.Recv != "ctx" || w.Callee != w.Name || !same(w.Args, w.Params) || w.Spread != w.Variadic || !same(w.Doc, cdoc[w.Name]) {
			sus[w.Name] = true
		}
	}
	return sus
}

// ---------------------------------------------------------------- main

func c06FormRow(f *optabForm) string {
	parts := []string{itoa(f.Opc), itoa(f.Cls), itoa(f.Features), itoa(f.Isa), itoa(f.Arity), itoa(len(f.Operands))}
	for _, o := range f.Operands {
		parts = append(parts, itoa(o.Type), b01(o.Implicit), itoa(o.Action))
	}
	return strings.Join(parts, " ")
}

// c06Fn is what the harness knows about one function name before calling it.
type c06Fn struct {
	name     string
	ctor     *ctorAST
	family   string // opcode constant
	sfx      [2]int
	forms    []optabForm // rows of the opcode (opcformstable range)
	formsTok string
	docTok   string
	admitted []int // indices into forms whose suffix class admits sfx
	fixedCls bool  // some admitted form has a fixed-register / fixed-value operand class
}

// c06FixedClasses are the operand classes that name one register or a small set of values.
var c06FixedClasses = map[string]bool{"al": true, "cl": true, "ax": true, "eax": true, "rax": true, "xmm0": true,
	"imm2u": true, "imm16": true, "1": true, "3": true}

func c06SuffixSets(cls uint8) (res string) {
	defer func() {
		if recover() != nil {
			res = "panic"
		}
	}()
	var xs []string
	for _, s := range x86.VerifSuffixSets(cls) {
		j := strings.Join(s, ".")
		if j == "" {
			j = "-"
		}
		xs = append(xs, j)
	}
	sort.Strings(xs)
	return c06StrList(xs)
}

func init() {
	register("c06", "operand classes (exhaustive) and three-layer agreement of all instruction entry points", func(args []string) error {
		f := newStdFlags("c06")
		if err := f.fs.Parse(args); err != nil {
			return err
		}
		t, err := parseOptab(*f.repo)
		if err != nil {
			return err
		}
		if err := crossCheckForms(t); err != nil {
			return err
		}
		cs, err := parseCtors(*f.repo)
		if err != nil {
			return err
		}
		ms, gs, err := parseWrappers(*f.repo)
		if err != nil {
			return err
		}
		if len(c06X86) == 0 || len(c06Method) == 0 || len(c06Global) == 0 {
			return fmt.Errorf("by-name wrappers missing (zz_c06_wrappers.go was not generated): the three API layers cannot be called")
		}
		// corpus mode: a plain-text file of `call NAME optoken…` lines (a JSON replay file written by ./check means
		// "regenerate the recorded run from its seed" and is ignored here)
		var corpus []string
		if *f.replay != "" {
			ls, err := readLines(*f.replay)
			if err != nil {
				return err
			}
			for _, l := range ls {
				if strings.HasPrefix(l, "call ") {
					corpus = append(corpus, l)
				}
			}
		}
		o, err := openOut(f)
		if err != nil {
			return err
		}
		defer o.close()
		r := newRng(*f.seed)
		u := c06BuildUniverse(t)
		stats := map[string]any{}
		thorough := *f.tier == "thorough"

		// (i) operand classes, exhaustive
		if corpus == nil {
			nclass, ntrue := 0, 0
			for tc := 0; tc <= len(t.OprndTypes)+2; tc++ {
				for _, op := range u.all {
					res := c06Match(uint8(tc), op)
					o.emit(fmt.Sprintf("class %d %s", tc, c06EncOp(op)), res)
					nclass++
					if res == "1" {
						ntrue++
					}
				}
			}
			stats["universe_operands"] = len(u.all)
			stats["universe_derived_operands"] = u.derivedAdded
			stats["universe_derived_pairs"] = len(u.derivedPairs)
			stats["universe_derived_pairs_total"] = u.derivedPairsTotal
			stats["universe_types_without_catalogue"] = len(u.underivable)
			stats["class_checks"] = nclass
			stats["class_checks_true"] = ntrue
			// (i') the suffix sets of every suffix class code (0 and the codes past the end included): what
			// `sffxscls.SuffixesSet` and `sffxs.Strings` return, against the model's table
			for cls := 0; cls <= len(t.SffxsCls)+2; cls++ {
				o.emit(fmt.Sprintf("sfxset %d", cls), c06SuffixSets(uint8(cls)))
			}
			stats["suffix_class_codes"] = len(t.SffxsCls) + 3
		}
		empty := []string{}
		for n := range t.OprndTypes {
			name := strings.ToLower(strings.TrimPrefix(t.OprndTypes[n], "oprndtype"))
			if len(u.byClass[name]) == 0 {
				empty = append(empty, name)
			}
		}
		if len(empty) > 0 {
			return fmt.Errorf("universe has no operand for classes %v", empty)
		}

		// (ii) three layers
		opcIdx := map[string]int{}
		for i, n := range t.Opcs {
			opcIdx[n] = i
		}
		sfxIdx := map[string]int{}
		for i, n := range t.Sffx {
			sfxIdx[n] = i + 1
		}
		names := map[string]bool{}
		for i := range cs {
			names[cs[i].Name] = true
		}
		for n := range c06X86 {
			names[n] = true
		}
		for n := range c06Method {
			names[n] = true
		}
		for n := range c06Global {
			names[n] = true
		}
		var all []string
		for n := range names {
			all = append(all, n)
		}
		sort.Strings(all)
		ctorByName := map[string]*ctorAST{}
		for i := range cs {
			if _, dup := ctorByName[cs[i].Name]; !dup {
				ctorByName[cs[i].Name] = &cs[i]
			}
		}
		sus := c06Suspects(t, cs, ms, gs)
		hist := map[string]int{}
		typeName := func(code int) string {
			if code >= 1 && code <= len(t.OprndTypes) {
				return strings.ToLower(strings.TrimPrefix(t.OprndTypes[code-1], "oprndtype"))
			}
			return ""
		}

		// per function: suffixes, forms of its opcode, documentation
		fns := map[string]*c06Fn{}
		family := map[string][]string{}
		for _, name := range all {
			c := ctorByName[name]
			_, hasX := c06X86[name]
			_, hasM := c06Method[name]
			_, hasG := c06Global[name]
			if c == nil || !hasX || !hasM || !hasG {
				// a name that is not present on all three layers: the name sets differ
				o.emit(fmt.Sprintf("accept-names %s %s %s %s", c06Hex(name), b01(hasX), b01(hasM), b01(hasG)), "ok")
				hist["missing-layer"]++
				continue
			}
			if corpus == nil {
				o.emit(fmt.Sprintf("accept-names %s 1 1 1", c06Hex(name)), "ok")
			}
			oi, ok := opcIdx[c.OpcConst]
			if !ok || c.ShapeErr != "" || oi >= len(t.OpcRanges) {
				hist["unrecognised-ctor-body"]++
				continue
			}
			fn := &c06Fn{name: name, ctor: c, family: c.OpcConst}
			for j, s := range c.SfxConsts {
				if j < 2 {
					fn.sfx[j] = sfxIdx[s]
				}
			}
			rg := t.OpcRanges[oi]
			if rg[0] < 0 || rg[1] > len(t.Forms) || rg[0] > rg[1] {
				hist["bad-range"]++
				continue
			}
			fn.forms = t.Forms[rg[0]:rg[1]]
			var rows []string
			for k := range fn.forms {
				rows = append(rows, c06FormRow(&fn.forms[k]))
			}
			fn.formsTok = itoa(len(fn.forms)) + " " + strings.Join(rows, " ")
			if len(fn.forms) == 0 {
				fn.formsTok = "0"
			}
			docTok := []string{itoa(len(c.Doc))}
			for _, row := range c.Doc {
				ws := strings.Fields(row)
				docTok = append(docTok, itoa(len(ws)))
				docTok = append(docTok, ws...)
			}
			fn.docTok = strings.Join(docTok, " ")
			for k := range fn.forms {
				fm := &fn.forms[k]
				if fm.Cls >= 1 && fm.Cls <= len(t.SffxsClsSets) {
					for _, s := range t.SffxsClsSets[fm.Cls-1] {
						if s == fn.sfx {
							fn.admitted = append(fn.admitted, k)
							for j := 0; j < fm.Arity && j < len(fm.Operands); j++ {
								if c06FixedClasses[typeName(fm.Operands[j].Type)] {
									fn.fixedCls = true
								}
							}
							break
						}
					}
				}
			}
			fns[name] = fn
			family[fn.family] = append(family[fn.family], name)
		}

		// ---- selection.  Thorough: everything.  Quick, stratified: (a) every function the Go-side pre-check finds
		// suspicious, (b) every family with a fixed-register / fixed-value operand class (al, cl, ax, eax, rax, xmm0,
		// imm2u, imm16, 1, 3), (c) EVERY family outside the AVX/AVX-512 `V…` block (672 functions with few forms each:
		// MOVQ, ADDQ, JMP, RET, XORQ, LEAQ, SHLQ, … are always called), (d) a seeded sample of whole `V…` families up
		// to the budget.  Whole families always: all suffix variants of an opcode are called together.
		budget := *f.n
		chosen := map[string]bool{}
		addFamily := func(n string) {
			chosen[n] = true
			if fn := fns[n]; fn != nil {
				for _, sib := range family[fn.family] {
					chosen[sib] = true
				}
			}
		}
		for n := range sus {
			chosen[n] = true
		}
		nV, nNonV, nFixed := 0, 0, 0
		for _, n := range all {
			fn := fns[n]
			if fn == nil {
				chosen[n] = true // reported above / below as unrecognised
				continue
			}
			isV := strings.HasPrefix(n, "V")
			if thorough || budget >= len(all) || !isV || fn.fixedCls {
				addFamily(n)
			}
		}
		perm := make([]int, len(all))
		for i := range perm {
			perm[i] = i
		}
		for i := len(perm) - 1; i > 0; i-- {
			j := r.intn(i + 1)
			perm[i], perm[j] = perm[j], perm[i]
		}
		vChosen := 0
		for _, i := range perm {
			if vChosen >= budget {
				break
			}
			if strings.HasPrefix(all[i], "V") && !chosen[all[i]] {
				before := len(chosen)
				addFamily(all[i])
				vChosen += len(chosen) - before
			}
		}
		var sel []string
		for n := range chosen {
			sel = append(sel, n)
		}
		sort.Strings(sel)
		for _, n := range sel {
			if strings.HasPrefix(n, "V") {
				nV++
			} else {
				nNonV++
			}
			if fn := fns[n]; fn != nil && fn.fixedCls {
				nFixed++
			}
		}
		totalNonV := 0
		for _, n := range all {
			if !strings.HasPrefix(n, "V") {
				totalNonV++
			}
		}
		stats["functions_total"] = len(all)
		stats["functions_called"] = len(sel)
		stats["functions_called_V"] = nV
		stats["functions_called_nonV"] = nNonV
		stats["functions_total_nonV"] = totalNonV
		stats["functions_called_with_fixed_class"] = nFixed
		stats["suspect_functions"] = len(sus)
		stats["opcodes_total"] = len(family)

		tuples := 0
		// what every (function, operand list) returned the first time it was called in this process: the constructors
		// are pure, so every later call must return the same
		first := map[string]string{}
		type accT struct {
			ops    []operand.Op
			opsTok string
		}
		accepted := map[string][]accT{} // family -> accepted operand lists of the first pass
		accSeen := map[string]bool{}
		fixedDocRows := 0

		// call: one call of all layers of function fn on ops, with every judgement line.  full=false: the constructor
		// only, judged by the documentation acceptor and the attribute acceptor (the sweep over unselected functions).
		call := func(fn *c06Fn, ops []operand.Op, kind string, full bool) string {
			name := fn.name
			x := c06CallCtor(name, ops)
			if x.resp == "na" {
				hist["arity-not-callable"]++
				return x.resp
			}
			tuples++
			hist[kind]++
			opsTok := c06EncOps(ops)
			key := name + " " + opsTok
			if prev, seen := first[key]; seen {
				// purity: same function, same operands, earlier in this process
				o.emit(fmt.Sprintf("accept-pure %s %s %s", c06Hex(name), c06Hex(prev), c06Hex(x.resp)), "ok")
				hist["pure-checks"]++
			} else {
				first[key] = x.resp
			}
			if full {
				cm := c06NewCtx()
				// a context with history: some nodes and errors already present
				for q := r.intn(5); q > 0; q-- {
					cm.RET()
				}
				if r.chance(1, 3) {
					for q := 1 + r.intn(3); q > 0; q-- {
						cm.ADDQ(operand.U8(1), operand.U8(1)) // earlier errors
					}
				}
				nb, eb, _ := c06State(cm)
				m := c06CallMethod(cm, name, ops)
				cg := c06NewCtx()
				if r.chance(1, 2) {
					cg.RET()
				}
				if r.chance(1, 4) {
					cg.ADDQ(operand.U8(1), operand.U8(1))
				}
				g := c06CallGlobal(cg, name, ops)
				// exact model comparison of the constructor on the forms of its opcode
				o.emit(fmt.Sprintf("instr %d %d %s %s", fn.sfx[0], fn.sfx[1], fn.formsTok, opsTok), x.resp)
				// three layers agree, nodes/errors as addinstruction prescribes
				o.emit(fmt.Sprintf("accept-layers %s %s %s %s %d %d %d %d", c06Hex(name), c06Hex(x.resp), c06Hex(m.resp), c06Hex(g.resp), m.dnodes, m.derrs, g.dnodes, g.derrs), "ok")
				hist["layers-checks"]++
				// addinstruction model on the method's context
				st := "err"
				if strings.HasPrefix(x.resp, "ok") {
					st = "ok"
				}
				if x.resp == "err" || st == "ok" {
					o.emit(fmt.Sprintf("addi %d %d %s", nb, eb, st), fmt.Sprintf("%d %d", nb+m.dnodes, eb+m.derrs))
				}
			}
			// the property itself on the documentation of the function
			o.emit(fmt.Sprintf("accept-doc %s %s %s => %s", c06Hex(name), fn.docTok, opsTok, x.resp), "ok")
			hist["doc-checks"]++
			if fn.fixedCls {
				fixedDocRows++
			}
			if x.resp == "err" {
				hist["rejected"]++
			} else if strings.HasPrefix(x.resp, "ok ") {
				hist["accepted"]++
				// branch / terminal attributes against what the OPCODE says (independent of the table's feature column)
				ws := strings.Fields(x.resp)
				if len(ws) >= 2 {
					fl := c06FlagsOf(x.resp)
					o.emit(fmt.Sprintf("accept-attrs %s %s", ws[1], fl), "ok")
					hist["attr-checks"]++
					if fl != "0000" && fl != "0001" {
						hist["attr-checks-branch-or-terminal"]++
					}
				}
				if k := fn.family + " " + opsTok; !accSeen[k] {
					accSeen[k] = true
					accepted[fn.family] = append(accepted[fn.family], accT{ops, opsTok})
				}
			} else {
				hist["outcome-"+x.resp]++
			}
			return x.resp
		}

		longest := 0
		// callBuild: the table builder itself (x86.VerifBuild = build(opcode.Forms(), suffixes, ops), the body of every
		// generated constructor) on an operand list the fixed-arity constructor cannot be given by name
		callBuild := func(fn *c06Fn, ops []operand.Op, kind string) {
			// opcode and suffix names: the suffix constants of the constructor body without their `sffx` prefix
			// (an unknown name makes VerifBuild return (nil, nil): counted, nothing judged)
			var sfxNames []string
			for _, id := range fn.ctor.SfxConsts {
				sfxNames = append(sfxNames, strings.TrimPrefix(id, "sffx"))
			}
			opcName := fn.name
			if len(sfxNames) > 0 {
				opcName = strings.TrimSuffix(fn.name, "_"+strings.Join(sfxNames, "_"))
			}
			resp := "err"
			func() {
				defer func() {
					if recover() != nil {
						resp = "panic"
					}
				}()
				i, err := x86.VerifBuild(opcName, sfxNames, ops)
				switch {
				case err != nil:
					resp = "err"
				case i == nil:
					resp = "nil"
				default:
					resp = c06EncInstr(i)
				}
			}()
			if resp == "nil" {
				hist["via-build-not-callable"]++
				return
			}
			tuples++
			hist[kind]++
			hist["via-build"]++
			opsTok := c06EncOps(ops)
			o.emit(fmt.Sprintf("instr %d %d %s %s", fn.sfx[0], fn.sfx[1], fn.formsTok, opsTok), resp)
			o.emit(fmt.Sprintf("accept-doc %s %s %s => %s", c06Hex(fn.name), fn.docTok, opsTok, resp), "ok")
			hist["doc-checks"]++
			if resp == "err" {
				hist["rejected"]++
			} else if strings.HasPrefix(resp, "ok ") {
				hist["accepted"]++
			} else {
				hist["outcome-"+resp]++
			}
		}
		derivedCalled := map[string]int{}
		sample := func(fm *optabForm) ([]operand.Op, bool) {
			var ops []operand.Op
			for j := 0; j < fm.Arity && j < len(fm.Operands); j++ {
				pool := u.byClass[typeName(fm.Operands[j].Type)]
				if len(pool) == 0 {
					return nil, false
				}
				ops = append(ops, pick(r, pool))
			}
			return ops, true
		}

		if corpus != nil {
			// replay of hand-picked / minimised call sequences, in file order, in one process
			byTok := map[string]operand.Op{}
			for _, op := range u.all {
				byTok[c06EncOp(op)] = op
			}
			for _, l := range corpus {
				ws := strings.Fields(l)
				fn := fns[ws[1]]
				if fn == nil {
					return fmt.Errorf("corpus: unknown function %q", ws[1])
				}
				var ops []operand.Op
				for _, w := range ws[2:] {
					op, ok := byTok[w]
					if !ok {
						return fmt.Errorf("corpus: operand token %q is not in the universe", w)
					}
					ops = append(ops, op)
				}
				call(fn, ops, "corpus", true)
			}
			stats["operand_tuples"] = tuples
			stats["histogram"] = hist
			return writeJSON(*f.stats, stats)
		}

		// ---- first pass: every selected function, one matching sample per admitted form + near misses
		isAdmitted := func(fn *c06Fn, k int) bool {
			for _, a := range fn.admitted {
				if a == k {
					return true
				}
			}
			return false
		}
		for _, name := range sel {
			fn := fns[name]
			if fn == nil {
				continue
			}
			c := fn.ctor
			called := 0
			for k := range fn.forms {
				fm := &fn.forms[k]
				adm := isAdmitted(fn, k)
				if !adm && !r.chance(1, 8) {
					continue // forms of other suffix classes: probed occasionally (must be rejected)
				}
				ops, okSample := sample(fm)
				if !okSample {
					continue
				}
				kind := "match"
				if !adm {
					kind = "other-suffix-class"
				}
				call(fn, ops, kind, true)
				called++
				// sibling near miss: an operand of a fixed-register / fixed-value class is replaced by another operand
				// of the SAME kind and width that is not in the class (CL -> BL, AX -> CX, X0 -> X5, $1 -> $2): called
				// right after the matching sample, so that a memoised form selection keyed by operand kinds is exposed
				for j := 0; j < fm.Arity && j < len(fm.Operands) && j < len(ops); j++ {
					wide, ok := c06Sibling[typeName(fm.Operands[j].Type)]
					if !ok {
						continue
					}
					var cands []operand.Op
					for _, op := range u.byClass[wide] {
						if c06Match(uint8(fm.Operands[j].Type), op) == "0" && c06SameShape(op, ops[j]) {
							cands = append(cands, op)
						}
					}
					if len(cands) == 0 {
						continue
					}
					mut := append([]operand.Op(nil), ops...)
					mut[j] = pick(r, cands)
					call(fn, mut, "sibling", true)
				}
				// derived near miss: one operand replaced by a one-attribute change of a member of its class (the
				// catalogue of c05derive.go, registers drawn from the universe's sources)
				if len(ops) > 0 {
					j := r.intn(len(ops))
					if j < len(fm.Operands) {
						tn := typeName(fm.Operands[j].Type)
						if _, muts := c05Derive(tn, ops[j], c06DeriveSrc(r, u)); len(muts) > 0 {
							m := pick(r, muts)
							mut := append([]operand.Op(nil), ops...)
							mut[j] = m.op
							call(fn, mut, "derive", true)
							derivedCalled[tn+":"+m.what]++
						}
					}
				}
				// near misses: replace / swap for everybody; drop / extra for variadic functions in both tiers
				nm := 2
				if thorough || c.Variadic {
					nm = 3
				}
				for q := 0; q < nm; q++ {
					mut := append([]operand.Op(nil), ops...)
					kind := "replace"
					switch {
					case len(mut) >= 2 && q == 1:
						a, b := r.intn(len(mut)), r.intn(len(mut)-1)
						if b >= a {
							b++
						}
						mut[a], mut[b] = mut[b], mut[a]
						kind = "swap"
					case c.Variadic && q == 2:
						if len(mut) > 0 && r.chance(1, 2) {
							mut = mut[:len(mut)-1]
							kind = "drop"
						} else {
							mut = append(mut, pick(r, u.all))
							kind = "extra"
						}
					case len(mut) > 0:
						mut[r.intn(len(mut))] = pick(r, u.all)
					default:
						continue
					}
					call(fn, mut, kind, true)
				}
			}
			if len(fn.forms) > 0 && called == 0 {
				hist["no-sample"]++
			}
			// operand-list LENGTHS far from the arity (round 10): a matching sample of an admitted form of arity a,
			// extended to a+1, a+2, 255, 256, 256+a, 257, 512+a and 65536+a operands (an operand count that is narrowed
			// to the table's 8- or 16-bit representation before it is compared wraps there).  Variadic functions take
			// the list on all three layers by name; every other opcode takes it through x86.VerifBuild (what its
			// constructor calls).  Judged like any call: exact model (`instr`), documentation, layers.
			if len(fn.admitted) > 0 {
				// one sample per distinct arity among the admitted forms
				seenAr := map[int]bool{}
				for _, k := range fn.admitted {
					fm := &fn.forms[k]
					if seenAr[fm.Arity] {
						continue
					}
					seenAr[fm.Arity] = true
					ops, ok := sample(fm)
					if !ok {
						continue
					}
					a := len(ops)
					isV := strings.HasPrefix(name, "V")
					for _, lc := range c06LengthClasses {
						n := lc.length(a)
						if n <= a {
							continue
						}
						// budget: the short classes and 256+a for everybody; the other wrap-around lengths for every
						// function outside the V block and a fraction of the V block; the longest for a handful
						switch {
						case lc.name == "len:a+1" || lc.name == "len:a+2" || lc.name == "len:256+a":
						case lc.name == "len:65536+a":
							if longest >= 8 && !(thorough && r.chance(1, 40)) {
								continue
							}
							longest++
						default:
							if isV && !thorough && !r.chance(1, 6) {
								continue
							}
						}
						mut := make([]operand.Op, 0, n)
						mut = append(mut, ops...)
						for len(mut) < n {
							if a > 0 && n < 300 && r.chance(1, 2) {
								mut = append(mut, ops[len(mut)%a]) // copies of the sample
							} else {
								mut = append(mut, operand.U8(1))
							}
						}
						if c.Variadic {
							call(fn, mut, lc.name, true)
							hist["len-by-name"]++
						} else {
							callBuild(fn, mut, lc.name)
						}
					}
				}
			}
		}

		// ---- second pass, purity under other histories: for every family some operand lists the first pass saw
		// accepted (preferring those that most members of the family accept) are given to EVERY member of the family —
		// all suffix variants of the opcode — in a shuffled order and then in the reverse order, back to back.  Every
		// call is judged by the exact model (`instr`), by the documentation acceptor and by `accept-pure` (same
		// function + same operands as earlier in the process ⇒ same result).  A result that depends on what was built
		// before (a memoised form selection, shared mutable state) shows up here.
		var fams []string
		for fam := range accepted {
			fams = append(fams, fam)
		}
		sort.Strings(fams)
		kPer := 4
		if thorough {
			kPer = 10
		}
		for _, fam := range fams {
			var members []*c06Fn
			for _, n := range family[fam] {
				if chosen[n] && fns[n] != nil {
					members = append(members, fns[n])
				}
			}
			if len(members) == 0 {
				continue
			}
			cand := accepted[fam]
			// rank by the number of members accepting the list (probing calls, not judged: selection only)
			type scored struct {
				t     accT
				score int
				tie   int
			}
			var sc []scored
			for _, tpl := range cand {
				n := 0
				for _, m := range members {
					if strings.HasPrefix(c06CallCtor(m.name, tpl.ops).resp, "ok ") {
						n++
					}
				}
				sc = append(sc, scored{tpl, n, r.intn(1 << 30)})
			}
			sort.SliceStable(sc, func(a, b int) bool {
				if sc[a].score != sc[b].score {
					return sc[a].score > sc[b].score
				}
				return sc[a].tie < sc[b].tie
			})
			// half of the picks from the top of the ranking, half anywhere
			var picks []accT
			for i := 0; i < len(sc) && len(picks) < (kPer+1)/2; i++ {
				picks = append(picks, sc[i].t)
			}
			for len(picks) < kPer && len(picks) < len(sc) {
				picks = append(picks, sc[len(picks)+r.intn(len(sc)-len(picks))].t)
			}
			for _, tpl := range picks {
				order := make([]*c06Fn, len(members))
				copy(order, members)
				for i := len(order) - 1; i > 0; i-- {
					j := r.intn(i + 1)
					order[i], order[j] = order[j], order[i]
				}
				for _, m := range order {
					call(m, tpl.ops, "replay", true)
				}
				for i := len(order) - 1; i >= 0; i-- {
					call(order[i], tpl.ops, "replay", true)
				}
			}
		}

		// ---- sweep: every function that was NOT selected is still called once per first and last admitted form
		// through its real constructor and judged by the documentation and attribute acceptors, so that every opcode
		// code and every suffix combination passes through opc.Forms / opc.String / sffxs.Strings at least once
		swept := 0
		for _, name := range all {
			fn := fns[name]
			if fn == nil || chosen[name] || len(fn.admitted) == 0 {
				continue
			}
			idx := []int{fn.admitted[0]}
			if last := fn.admitted[len(fn.admitted)-1]; last != idx[0] {
				idx = append(idx, last)
			}
			for _, k := range idx {
				if ops, ok := sample(&fn.forms[k]); ok {
					call(fn, ops, "sweep", false)
				}
			}
			swept++
		}
		stats["functions_swept"] = swept
		stats["derive_pairs_called"] = len(derivedCalled)
		stats["operand_tuples"] = tuples
		stats["doc_checks_on_functions_with_fixed_class"] = fixedDocRows
		stats["histogram"] = hist
		return writeJSON(*f.stats, stats)
	})
}

// c06LengthClasses: operand-list lengths tried for a matching sample of arity a.
var c06LengthClasses = []struct {
	name   string
	length func(a int) int
}{
	{"len:a+1", func(a int) int { return a + 1 }},
	{"len:a+2", func(a int) int { return a + 2 }},
	{"len:255", func(a int) int { return 255 }},
	{"len:256", func(a int) int { return 256 }},
	{"len:256+a", func(a int) int { return 256 + a }},
	{"len:257", func(a int) int { return 257 }},
	{"len:512+a", func(a int) int { return 512 + a }},
	{"len:65536+a", func(a int) int { return 65536 + a }},
}

// c06FlagsOf extracts the 4-character flag word (terminal, branch, conditional, cancelling) of a canonical response.
func c06FlagsOf(resp string) string {
	ws := strings.Fields(resp)
	// ok OPC <n sfx…> <n ops…> <n in…> <n out…> FLAGS <n isa…>
	p := 2
	for list := 0; list < 4 && p < len(ws); list++ {
		n := 0
		fmt.Sscanf(ws[p], "%d", &n)
		p += 1 + n
	}
	if p < len(ws) {
		return ws[p]
	}
	return "?"
}
