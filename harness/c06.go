package main

import (
	"encoding/hex"
	"fmt"
	"math"
	"math/big"
	"sort"
	"strings"

	"github.com/mmcloughlin/avo/build"
	"github.com/mmcloughlin/avo/ir"
	"github.com/mmcloughlin/avo/operand"
	"github.com/mmcloughlin/avo/reg"
	"github.com/mmcloughlin/avo/x86"
)

// C06 correspondence:
//
//	(i)  operand-class predicates, exhaustively: universe of ~270 operands × every
//	     operand type code (0 … oprndtypemax+1), real x86.VerifMatch vs model;
//	(ii) three-layer agreement: x86 constructor, Context method, package-level
//	     function called BY NAME (through zz_c06_wrappers.go, generated from
//	     /repo by cmd/genctors) on matching and near-miss operand tuples.
//
// Populated by the generated file zz_c06_wrappers.go; empty when it is absent.
var (
	c06X86         map[string]func([]operand.Op) (*ir.Instruction, error)
	c06X86Arity    map[string]int
	c06Method      map[string]func(*build.Context, []operand.Op)
	c06MethodArity map[string]int
	c06Global      map[string]func([]operand.Op)
	c06GlobalArity map[string]int
)

// ---------------------------------------------------------------- encoding

type c06Foreign struct{} // an operand.Op implementation avo does not know

func (c06Foreign) Asm() string { return "foreign" }

func c06Hex(s string) string {
	if s == "" {
		return "-"
	}
	return hex.EncodeToString([]byte(s))
}

func c06EncReg(r reg.Register, sep string) string {
	if r == nil {
		return "-"
	}
	return strings.Join([]string{itoa(int(r.Kind())), itoa(int(r.Size())), fmt.Sprint(uint32(r.ID())), itoa(int(r.Mask())), c06Hex(r.Asm())}, sep)
}

// c06EncOp renders an operand as one token (see Drv/C06.lean parseOp).
func c06EncOp(op operand.Op) string {
	switch o := op.(type) {
	case nil:
		return "oth:0"
	case reg.Register:
		return "r:" + c06EncReg(o, ":")
	case operand.Mem:
		return fmt.Sprintf("m:%s:%s:%d:%d:%s", c06EncReg(o.Base, "/"), c06EncReg(o.Index, "/"), o.Scale, o.Disp, c06Hex(o.Symbol.String()))
	case operand.U8:
		return fmt.Sprintf("i:0:%d", uint8(o))
	case operand.U16:
		return fmt.Sprintf("i:1:%d", uint16(o))
	case operand.U32:
		return fmt.Sprintf("i:2:%d", uint32(o))
	case operand.U64:
		return fmt.Sprintf("i:3:%d", uint64(o))
	case operand.I8:
		return fmt.Sprintf("i:4:%d", int8(o))
	case operand.I16:
		return fmt.Sprintf("i:5:%d", int16(o))
	case operand.I32:
		return fmt.Sprintf("i:6:%d", int32(o))
	case operand.I64:
		return fmt.Sprintf("i:7:%d", int64(o))
	case operand.F32:
		return fmt.Sprintf("i:8:%d", math.Float32bits(float32(o)))
	case operand.F64:
		return fmt.Sprintf("i:9:%d", math.Float64bits(float64(o)))
	case operand.String:
		return "i:10:" + new(big.Int).SetBytes(append([]byte{1}, []byte(o)...)).String()
	case operand.Rel:
		return fmt.Sprintf("rel:%d", int32(o))
	case operand.LabelRef:
		return "lbl:" + c06Hex(string(o))
	case *operand.Mem:
		return "oth:1"
	default:
		return "oth:2"
	}
}

func c06EncOps(ops []operand.Op) string {
	parts := make([]string, 0, len(ops)+1)
	parts = append(parts, itoa(len(ops)))
	for _, o := range ops {
		parts = append(parts, c06EncOp(o))
	}
	return strings.Join(parts, " ")
}

func c06StrList(xs []string) string {
	return strings.Join(append([]string{itoa(len(xs))}, xs...), " ")
}

// c06EncInstr is the canonical response for an instruction.
func c06EncInstr(i *ir.Instruction) string {
	fl := b01(i.IsTerminal) + b01(i.IsBranch) + b01(i.IsConditional) + b01(i.CancellingInputs)
	return strings.Join([]string{"ok", i.Opcode, c06StrList(i.Suffixes), c06EncOps(i.Operands), c06EncOps(i.Inputs), c06EncOps(i.Outputs), fl, c06StrList(i.ISA)}, " ")
}

// ---------------------------------------------------------------- universe

type c06Universe struct {
	all     []operand.Op
	byClass map[string][]operand.Op // lower-case operand type name → operands that match it
}

func c06BuildUniverse(t *optabAST) *c06Universe {
	u := &c06Universe{byClass: map[string][]operand.Op{}}
	add := func(ops ...operand.Op) { u.all = append(u.all, ops...) }
	// every physical register of every family (176: 4 pseudo + 72 GP + 96 vector + 8 opmask … as defined)
	for _, f := range reg.Families {
		for _, r := range f.Registers() {
			add(r)
		}
	}
	// the exported wrapped values and converted views
	add(reg.AL, reg.CL, reg.AX, reg.EAX, reg.RAX, reg.X0, reg.RAX.As8L(), reg.RCX.As8L(), reg.RAX.As16(), reg.RAX.As32(), reg.EAX.As64(),
		reg.Y0.AsX(), reg.Z0.AsX(), reg.X0.AsY(), reg.AH, reg.RAX.As8H(), reg.R15, reg.R15B, reg.X31, reg.Y31, reg.Z31, reg.K0, reg.K7)
	// virtual registers of each kind and width, plus ill-sized ones
	col := reg.NewCollection()
	add(col.GP8L(), col.GP8H(), col.GP16(), col.GP32(), col.GP64(), col.XMM(), col.YMM(), col.ZMM(), col.K())
	add(reg.NewVirtual(0, reg.KindGP, reg.S8L), reg.NewVirtual(0, reg.KindVector, reg.S128), reg.NewVirtual(0, reg.KindGP, reg.S0),
		reg.NewVirtual(7, reg.KindGP, reg.S128), reg.NewVirtual(3, reg.KindVector, reg.S64), reg.NewVirtual(1, reg.KindOpmask, reg.S8L),
		reg.NewVirtual(0, reg.KindPseudo, reg.S0), reg.NewVirtual(2, reg.Kind(9), reg.S64), reg.NewVirtual(0, reg.KindVector, reg.S32))
	// memory shapes
	v64, v32, vx, vy, vz, vk := col.GP64(), col.GP32(), col.XMM(), col.YMM(), col.ZMM(), col.K()
	bases := []reg.Register{nil, reg.RAX, reg.EAX, reg.AX, reg.AL, reg.RSP, reg.RBP, reg.R12, reg.R13, reg.FramePointer, reg.StackPointer, reg.StaticBase, reg.ProgramCounter, v64, v32, reg.X1, reg.K1}
	idxs := []reg.Register{nil, reg.RCX, reg.ECX, reg.R15, v64, reg.FramePointer, reg.X2, reg.X31, reg.Y2, reg.Z2, reg.Z31, vx, vy, vz, reg.K2, vk}
	for bi, b := range bases {
		for ii, ix := range idxs {
			// full cross product for the first bases, a diagonal for the rest: ~120 shapes
			if bi > 5 && (bi+ii)%4 != 0 && ix != nil {
				continue
			}
			m := operand.Mem{Base: b, Index: ix, Disp: (bi*7 + ii) % 5 * 8}
			if ix != nil {
				m.Scale = uint8(1 << uint((bi+ii)%4))
			}
			add(m)
		}
	}
	add(operand.NewParamAddr("x", 8), operand.NewStackAddr(16), operand.NewDataAddr(operand.NewStaticSymbol("data"), 4),
		operand.Mem{Base: reg.RAX, Index: reg.RCX, Scale: 0}, operand.Mem{Base: reg.RAX, Index: reg.X3, Scale: 0}, operand.Mem{})
	pm := operand.Mem{Base: reg.RAX}
	add(&pm, c06Foreign{}, nil)
	// constants of every type at boundary values
	for _, v := range []uint8{0, 1, 2, 3, 4, 5, 127, 128, 255} {
		add(operand.U8(v))
	}
	for _, v := range []int8{-128, -1, 0, 1, 3, 4, 127} {
		add(operand.I8(v))
	}
	add(operand.U16(0), operand.U16(1), operand.U16(3), operand.U16(255), operand.U16(256), operand.U16(65535),
		operand.I16(-32768), operand.I16(-1), operand.I16(1), operand.I16(32767),
		operand.U32(0), operand.U32(1), operand.U32(3), operand.U32(65536), operand.U32(1<<31-1), operand.U32(1<<31), operand.U32(math.MaxUint32),
		operand.I32(math.MinInt32), operand.I32(-1), operand.I32(1), operand.I32(3), operand.I32(math.MaxInt32),
		operand.U64(0), operand.U64(1), operand.U64(3), operand.U64(1<<32), operand.U64(1<<63), operand.U64(math.MaxUint64),
		operand.I64(math.MinInt64), operand.I64(-1), operand.I64(1), operand.I64(3), operand.I64(math.MaxInt64),
		operand.F32(1), operand.F32(3), operand.F64(1), operand.F64(3), operand.String("1"), operand.String(""),
		operand.Imm(1), operand.Imm(3), operand.Imm(256), operand.Imm(1<<16), operand.Imm(1<<32))
	// Rel, LabelRef
	for _, v := range []int32{math.MinInt32, -129, -128, -127, -1, 0, 1, 3, 126, 127, 128, 255, 256, math.MaxInt32} {
		add(operand.Rel(v))
	}
	add(operand.LabelRef("loop"), operand.LabelRef(""), operand.LabelRef("1"))
	// index by class through the REAL predicate (used only to pick samples; the
	// verdict on each sample is made by comparing model and implementation)
	for i, n := range t.OprndTypes {
		name := strings.ToLower(strings.TrimPrefix(n, "oprndtype"))
		for _, op := range u.all {
			if c06Match(uint8(i+1), op) == "1" {
				u.byClass[name] = append(u.byClass[name], op)
			}
		}
	}
	return u
}

func c06Match(t uint8, op operand.Op) (res string) {
	defer func() {
		if recover() != nil {
			res = "panic"
		}
	}()
	if x86.VerifMatch(t, op) {
		return "1"
	}
	return "0"
}

// ---------------------------------------------------------------- layers

type c06Outcome struct {
	resp          string // "err", "panic", "na" or canonical instruction
	dnodes, derrs int
}

func c06NewCtx() *build.Context {
	c := build.NewContext()
	c.Function("f")
	return c
}

func c06State(c *build.Context) (nodes, errs int, last *ir.Instruction) {
	f, _ := c.Result()
	fns := f.Functions()
	if len(fns) > 0 {
		fn := fns[len(fns)-1]
		nodes = len(fn.Nodes)
		if nodes > 0 {
			last, _ = fn.Nodes[nodes-1].(*ir.Instruction)
		}
	}
	return nodes, c.VerifErrCount(), last
}

func c06CallCtor(name string, ops []operand.Op) (out c06Outcome) {
	f, ok := c06X86[name]
	if !ok {
		return c06Outcome{resp: "missing"}
	}
	if a := c06X86Arity[name]; a >= 0 && a != len(ops) {
		return c06Outcome{resp: "na"}
	}
	defer func() {
		if recover() != nil {
			out = c06Outcome{resp: "panic"}
		}
	}()
	i, err := f(ops)
	if err != nil {
		return c06Outcome{resp: "err"}
	}
	if i == nil {
		return c06Outcome{resp: "nil"}
	}
	return c06Outcome{resp: c06EncInstr(i)}
}

// c06Observe runs call on ctx (a context with an active function that already
// holds `pre` instructions and errors) and reports what was appended.
func c06Observe(ctx *build.Context, call func()) (out c06Outcome) {
	n0, e0, _ := c06State(ctx)
	func() {
		defer func() {
			if recover() != nil {
				out.resp = "panic"
			}
		}()
		call()
	}()
	n1, e1, last := c06State(ctx)
	out.dnodes, out.derrs = n1-n0, e1-e0
	if out.resp == "panic" {
		return out
	}
	switch {
	case out.dnodes == 1 && last != nil:
		out.resp = c06EncInstr(last)
	case out.dnodes == 0:
		out.resp = "err"
	default:
		out.resp = "odd"
	}
	return out
}

func c06CallMethod(ctx *build.Context, name string, ops []operand.Op) c06Outcome {
	f, ok := c06Method[name]
	if !ok {
		return c06Outcome{resp: "missing"}
	}
	if a := c06MethodArity[name]; a >= 0 && a != len(ops) {
		return c06Outcome{resp: "na"}
	}
	return c06Observe(ctx, func() { f(ctx, ops) })
}

func c06CallGlobal(ctx *build.Context, name string, ops []operand.Op) c06Outcome {
	f, ok := c06Global[name]
	if !ok {
		return c06Outcome{resp: "missing"}
	}
	if a := c06GlobalArity[name]; a >= 0 && a != len(ops) {
		return c06Outcome{resp: "na"}
	}
	old := build.VerifSwapContext(ctx)
	defer build.VerifSwapContext(old)
	return c06Observe(ctx, func() { f(ops) })
}

// c06Sibling maps a fixed-register / fixed-value operand class to the broader class of the same kind and width.
var c06Sibling = map[string]string{"al": "r8", "cl": "r8", "ax": "r16", "eax": "r32", "rax": "r64", "xmm0": "xmm",
	"1": "imm8", "3": "imm8", "imm2u": "imm8"}

// c06SameShape: same dynamic Go type and, for registers, physical/virtual alike with the same width.
func c06SameShape(a, b operand.Op) bool {
	if fmt.Sprintf("%T", a) != fmt.Sprintf("%T", b) {
		return false
	}
	ra, oka := a.(reg.Register)
	rb, okb := b.(reg.Register)
	if oka != okb {
		return false
	}
	if oka {
		return ra.Kind() == rb.Kind() && ra.Size() == rb.Size() && ra.ID().IsVirtual() == rb.ID().IsVirtual()
	}
	return true
}

// ---------------------------------------------------------------- suspects

// c06Suspects recomputes, in Go and untrusted, the judgements the Lean table
// theorems make, to FOCUS sampling on rows that look wrong (so that a broken
// table obligation comes with a concrete failing call).  It decides nothing.
func c06Suspects(t *optabAST, cs []ctorAST, ms, gs []wrapAST) map[string]bool {
	sus := map[string]bool{}
	opcIdx := map[string]int{}
	for i, n := range t.Opcs {
		opcIdx[n] = i
	}
	sfxIdx := map[string]int{}
	for i, n := range t.Sffx {
		sfxIdx[n] = i + 1
	}
	sfxStr := map[[2]int][]string{}
	for _, e := range t.SffxsStrings {
		sfxStr[e.Key] = e.Strings
	}
	typeName := func(code int) string {
		if code >= 1 && code <= len(t.OprndTypes) {
			return strings.ToLower(strings.TrimPrefix(t.OprndTypes[code-1], "oprndtype"))
		}
		return "?"
	}
	same := func(a, b []string) bool { return strings.Join(a, "\x00") == strings.Join(b, "\x00") }
	cdoc := map[string][]string{}
	for i := range cs {
		c := &cs[i]
		cdoc[c.Name] = c.Doc
		bad := c.ShapeErr != "" || c.Callee != "build" || c.FormsSel != "Forms" || c.SfxType != "sffxs"
		oi, ok := opcIdx[c.OpcConst]
		if !ok || oi >= len(t.OpcStrings) || oi >= len(t.OpcRanges) {
			sus[c.Name] = true
			continue
		}
		var key [2]int
		for j, s := range c.SfxConsts {
			if j < 2 {
				key[j] = sfxIdx[s]
			}
		}
		strs, ok := sfxStr[key]
		if !ok {
			bad = true
		}
		if c.Name != strings.Join(append([]string{t.OpcStrings[oi]}, strs...), "_") {
			bad = true
		}
		if c.Variadic {
			bad = bad || !c.ArgsIsSlice || !same(c.Args, c.Params)
		} else {
			bad = bad || c.ArgsIsSlice || !same(c.Args, c.Params)
		}
		// documentation rows vs admitted forms
		mn := strings.Join(append([]string{t.OpcStrings[oi]}, strs...), ".")
		var want []string
		r := t.OpcRanges[oi]
		for k := r[0]; k < r[1] && k < len(t.Forms); k++ {
			f := &t.Forms[k]
			adm := false
			if f.Cls >= 1 && f.Cls <= len(t.SffxsClsSets) {
				for _, s := range t.SffxsClsSets[f.Cls-1] {
					if s == key {
						adm = true
					}
				}
			}
			if !adm {
				continue
			}
			row := []string{mn}
			for j := 0; j < f.Arity && j < len(f.Operands); j++ {
				row = append(row, typeName(f.Operands[j].Type))
			}
			want = append(want, strings.Join(row, " "))
		}
		got := append([]string(nil), c.Doc...)
		sort.Strings(got)
		sort.Strings(want)
		if !same(got, want) {
			bad = true
		}
		if bad {
			sus[c.Name] = true
		}
	}
	for _, w := range ms {
		if w.ShapeErr != "" || w.Via != "addinstruction" || w.Pkg != "x86" || w.Callee != w.Name || !same(w.Args, w.Params) || w.Spread != w.Variadic || !same(w.Doc, cdoc[w.Name]) {
			sus[w.Name] = true
		}
	}
	for _, w := range gs {
		if w.ShapeErr != "" || w.Recv != "ctx" || w.Callee != w.Name || !same(w.Args, w.Params) || w.Spread != w.Variadic || !same(w.Doc, cdoc[w.Name]) {
			sus[w.Name] = true
		}
	}
	return sus
}

// ---------------------------------------------------------------- main

func c06FormRow(f *optabForm) string {
	parts := []string{itoa(f.Opc), itoa(f.Cls), itoa(f.Features), itoa(f.Isa), itoa(f.Arity), itoa(len(f.Operands))}
	for _, o := range f.Operands {
		parts = append(parts, itoa(o.Type), b01(o.Implicit), itoa(o.Action))
	}
	return strings.Join(parts, " ")
}

func init() {
	register("c06", "operand classes (exhaustive) and three-layer agreement of all instruction entry points", func(args []string) error {
		f := newStdFlags("c06")
		if err := f.fs.Parse(args); err != nil {
			return err
		}
		t, err := parseOptab(*f.repo)
		if err != nil {
			return err
		}
		if err := crossCheckForms(t); err != nil {
			return err
		}
		cs, err := parseCtors(*f.repo)
		if err != nil {
			return err
		}
		ms, gs, err := parseWrappers(*f.repo)
		if err != nil {
			return err
		}
		if len(c06X86) == 0 || len(c06Method) == 0 || len(c06Global) == 0 {
			return fmt.Errorf("by-name wrappers missing (zz_c06_wrappers.go was not generated): the three API layers cannot be called")
		}
		o, err := openOut(f)
		if err != nil {
			return err
		}
		defer o.close()
		r := newRng(*f.seed)
		u := c06BuildUniverse(t)
		stats := map[string]any{}

		// (i) operand classes, exhaustive
		nclass, ntrue := 0, 0
		for tc := 0; tc <= len(t.OprndTypes)+2; tc++ {
			for _, op := range u.all {
				res := c06Match(uint8(tc), op)
				o.emit(fmt.Sprintf("class %d %s", tc, c06EncOp(op)), res)
				nclass++
				if res == "1" {
					ntrue++
				}
			}
		}
		stats["universe_operands"] = len(u.all)
		stats["class_checks"] = nclass
		stats["class_checks_true"] = ntrue
		empty := []string{}
		for n := range t.OprndTypes {
			name := strings.ToLower(strings.TrimPrefix(t.OprndTypes[n], "oprndtype"))
			if len(u.byClass[name]) == 0 {
				empty = append(empty, name)
			}
		}
		if len(empty) > 0 {
			return fmt.Errorf("universe has no operand for classes %v", empty)
		}

		// (ii) three layers
		opcIdx := map[string]int{}
		for i, n := range t.Opcs {
			opcIdx[n] = i
		}
		sfxIdx := map[string]int{}
		for i, n := range t.Sffx {
			sfxIdx[n] = i + 1
		}
		names := map[string]bool{}
		for i := range cs {
			names[cs[i].Name] = true
		}
		for n := range c06X86 {
			names[n] = true
		}
		for n := range c06Method {
			names[n] = true
		}
		for n := range c06Global {
			names[n] = true
		}
		var all []string
		for n := range names {
			all = append(all, n)
		}
		sort.Strings(all)
		ctorByName := map[string]*ctorAST{}
		for i := range cs {
			if _, dup := ctorByName[cs[i].Name]; !dup {
				ctorByName[cs[i].Name] = &cs[i]
			}
		}
		sus := c06Suspects(t, cs, ms, gs)
		// selection
		budget := *f.n
		if *f.tier == "thorough" || budget >= len(all) {
			budget = len(all)
		}
		chosen := map[string]bool{}
		for n := range sus {
			chosen[n] = true
		}
		perm := make([]int, len(all))
		for i := range perm {
			perm[i] = i
		}
		for i := len(perm) - 1; i > 0; i-- {
			j := r.intn(i + 1)
			perm[i], perm[j] = perm[j], perm[i]
		}
		// whole families: a chosen function brings in every function of the same opcode (all suffix variants), so
		// that behaviour depending on what was built before (memoised form selection, shared state keyed too
		// coarsely) meets the histories that expose it: same opcode, same operand classes, other suffixes
		family := map[string][]string{}
		for _, n := range all {
			if c := ctorByName[n]; c != nil {
				family[c.OpcConst] = append(family[c.OpcConst], n)
			}
		}
		for _, i := range perm {
			if len(chosen) >= budget {
				break
			}
			chosen[all[i]] = true
			if c := ctorByName[all[i]]; c != nil {
				for _, sib := range family[c.OpcConst] {
					chosen[sib] = true
				}
			}
		}
		var sel []string
		for n := range chosen {
			sel = append(sel, n)
		}
		sort.Strings(sel)
		stats["functions_total"] = len(all)
		stats["functions_called"] = len(sel)
		stats["suspect_functions"] = len(sus)

		hist := map[string]int{}
		tuples := 0
		typeName := func(code int) string {
			if code >= 1 && code <= len(t.OprndTypes) {
				return strings.ToLower(strings.TrimPrefix(t.OprndTypes[code-1], "oprndtype"))
			}
			return ""
		}
		for _, name := range sel {
			c := ctorByName[name]
			_, hasX := c06X86[name]
			_, hasM := c06Method[name]
			_, hasG := c06Global[name]
			if c == nil || !hasX || !hasM || !hasG {
				// a name that is not present on all three layers: the name sets differ
				o.emit(fmt.Sprintf("accept-names %s %s %s %s", c06Hex(name), b01(hasX), b01(hasM), b01(hasG)), "ok")
				hist["missing-layer"]++
				continue
			}
			o.emit(fmt.Sprintf("accept-names %s 1 1 1", c06Hex(name)), "ok")
			oi, ok := opcIdx[c.OpcConst]
			if !ok || c.ShapeErr != "" || oi >= len(t.OpcRanges) {
				hist["unrecognised-ctor-body"]++
				continue
			}
			var sfx [2]int
			for j, s := range c.SfxConsts {
				if j < 2 {
					sfx[j] = sfxIdx[s]
				}
			}
			rg := t.OpcRanges[oi]
			if rg[0] < 0 || rg[1] > len(t.Forms) || rg[0] > rg[1] {
				hist["bad-range"]++
				continue
			}
			forms := t.Forms[rg[0]:rg[1]]
			var rows []string
			for k := range forms {
				rows = append(rows, c06FormRow(&forms[k]))
			}
			formsTok := itoa(len(forms)) + " " + strings.Join(rows, " ")
			if len(forms) == 0 {
				formsTok = "0"
			}
			// documentation rows as words
			var docTok []string
			docTok = append(docTok, itoa(len(c.Doc)))
			for _, row := range c.Doc {
				ws := strings.Fields(row)
				docTok = append(docTok, itoa(len(ws)))
				docTok = append(docTok, ws...)
			}
			// operand tuples: one matching sample per admitted form + near misses
			var tuplesHere [][]operand.Op
			var kinds []string
			for k := range forms {
				fm := &forms[k]
				adm := false
				if fm.Cls >= 1 && fm.Cls <= len(t.SffxsClsSets) {
					for _, s := range t.SffxsClsSets[fm.Cls-1] {
						if s == sfx {
							adm = true
						}
					}
				}
				if !adm && !r.chance(1, 8) {
					continue // forms of other suffix classes: probed occasionally (must be rejected)
				}
				var ops []operand.Op
				okSample := true
				for j := 0; j < fm.Arity && j < len(fm.Operands); j++ {
					pool := u.byClass[typeName(fm.Operands[j].Type)]
					if len(pool) == 0 {
						okSample = false
						break
					}
					ops = append(ops, pick(r, pool))
				}
				if !okSample {
					continue
				}
				tuplesHere = append(tuplesHere, ops)
				if adm {
					kinds = append(kinds, "match")
				} else {
					kinds = append(kinds, "other-suffix-class")
				}
				// near misses
				nm := 2
				if *f.tier == "thorough" {
					nm = 3
				}
				// sibling near miss: an operand of a fixed-register / fixed-value class is replaced by another operand
				// of the SAME kind and width that is not in the class (CL -> BL, AX -> CX, X0 -> X5, $1 -> $2): called
				// right after the matching sample, so that a memoised form selection keyed by operand kinds is exposed
				for j := 0; j < fm.Arity && j < len(fm.Operands) && j < len(ops); j++ {
					wide, ok := c06Sibling[typeName(fm.Operands[j].Type)]
					if !ok {
						continue
					}
					var cands []operand.Op
					for _, op := range u.byClass[wide] {
						if c06Match(uint8(fm.Operands[j].Type), op) == "0" && c06SameShape(op, ops[j]) {
							cands = append(cands, op)
						}
					}
					if len(cands) == 0 {
						continue
					}
					mut := append([]operand.Op(nil), ops...)
					mut[j] = pick(r, cands)
					tuplesHere = append(tuplesHere, mut)
					kinds = append(kinds, "sibling")
				}
				for q := 0; q < nm; q++ {
					mut := append([]operand.Op(nil), ops...)
					kind := "replace"
					switch {
					case len(mut) >= 2 && q == 1:
						a, b := r.intn(len(mut)), r.intn(len(mut)-1)
						if b >= a {
							b++
						}
						mut[a], mut[b] = mut[b], mut[a]
						kind = "swap"
					case c.Variadic && q == 2:
						if len(mut) > 0 && r.chance(1, 2) {
							mut = mut[:len(mut)-1]
							kind = "drop"
						} else {
							mut = append(mut, pick(r, u.all))
							kind = "extra"
						}
					case len(mut) > 0:
						mut[r.intn(len(mut))] = pick(r, u.all)
					default:
						continue
					}
					tuplesHere = append(tuplesHere, mut)
					kinds = append(kinds, kind)
				}
			}
			if len(forms) > 0 && len(tuplesHere) == 0 {
				hist["no-sample"]++
			}
			for ti, ops := range tuplesHere {
				tuples++
				hist[kinds[ti]]++
				x := c06CallCtor(name, ops)
				if x.resp == "na" {
					hist["arity-not-callable"]++
					continue
				}
				cm := c06NewCtx()
				// a context with history: some nodes and errors already present
				for q := r.intn(3); q > 0; q-- {
					cm.RET()
				}
				if r.chance(1, 3) {
					cm.ADDQ(operand.U8(1), operand.U8(1)) // an earlier error
				}
				nb, eb, _ := c06State(cm)
				m := c06CallMethod(cm, name, ops)
				cg := c06NewCtx()
				if r.chance(1, 2) {
					cg.RET()
				}
				g := c06CallGlobal(cg, name, ops)
				opsTok := c06EncOps(ops)
				// exact model comparison of the constructor on the forms of its opcode
				o.emit(fmt.Sprintf("instr %d %d %s %s", sfx[0], sfx[1], formsTok, opsTok), x.resp)
				if x.resp == "err" {
					hist["rejected"]++
				} else if strings.HasPrefix(x.resp, "ok") {
					hist["accepted"]++
				} else {
					hist["outcome-"+x.resp]++
				}
				// the property itself on the documentation of the function
				o.emit(fmt.Sprintf("accept-doc %s %s %s => %s", c06Hex(name), strings.Join(docTok, " "), opsTok, x.resp), "ok")
				// three layers agree, nodes/errors as addinstruction prescribes
				o.emit(fmt.Sprintf("accept-layers %s %s %s %s %d %d %d %d", c06Hex(name), c06Hex(x.resp), c06Hex(m.resp), c06Hex(g.resp), m.dnodes, m.derrs, g.dnodes, g.derrs), "ok")
				// addinstruction model on the method's context
				st := "err"
				if strings.HasPrefix(x.resp, "ok") {
					st = "ok"
				}
				if x.resp == "err" || st == "ok" {
					o.emit(fmt.Sprintf("addi %d %d %s", nb, eb, st), fmt.Sprintf("%d %d", nb+m.dnodes, eb+m.derrs))
				}
			}
		}
		stats["operand_tuples"] = tuples
		stats["histogram"] = hist
		return writeJSON(*f.stats, stats)
	})
}
