package main

import (
	"fmt"
	"go/token"
	"go/types"
	"sort"
	"strings"

	"golang.org/x/tools/go/packages"
	"golang.org/x/tools/go/ssa"
	"golang.org/x/tools/go/ssa/ssautil"
)

// Gen.Globals (C17): a census of PROCESS-LEVEL MUTABLE STATE in the generation path — everything that
// can make the output of a generation depend on what happened earlier in the process without any map
// being enumerated.  go/ssa over the same packages as Gen.MapRanges.
//
// For every package-level variable g of these packages the analysis computes which SSA values may point
// into memory reachable from g (a whole-program, flow-insensitive, field-based "may point into g" set):
//
//	seeds      the address of g
//	addresses  FieldAddr / IndexAddr / Slice / conversions of a g-value are g-values
//	loads      a pointer-like value loaded from a g-address is a g-value; so is one loaded from a struct
//	           field / a cell of element type T into which a g-value was stored anywhere (field-based heap:
//	           one abstract cell per struct field, one per element type for slices, maps, pointers, locals)
//	calls      arguments flow into the parameters of every possible callee with a body in these packages
//	           (static callee; interface method: every implementation declared in these packages; function
//	           value: every address-taken function of identical signature), results flow back
//	closures   bindings flow into the free variables
//
// and reports, for the functions that can run AFTER package initialisation (reachable from an exported
// function or method, or from a function whose address is taken there), one row (package, variable, event):
//
//	store              a Store / map update / delete / clear / copy-destination through a g-value
//	append             append whose first argument is a g-value (may write the shared backing array)
//	extern:<callee>    a pointer-like g-value handed to a function without a body in these packages
//	                   (sort.Slice, (*sync.Once).Do, fmt.Sprintf, …); <callee> is invoke:<iface>.<method>
//	                   for a method of an interface declared elsewhere, dynamic:<signature> for a function
//	                   value with no candidate in these packages
//	returns:<type>     an exported function or method returns a slice or map that is a g-value (the
//	                   caller can write the shared memory)
//
// The obligation in Props/C17Tables (`globals_expected`) is an inclusion of the SET of rows in a list of
// rows known to be benign, each with its reason; function names and positions are emitted for information
// only (`globalEventSites`), so moving or renaming code does not change the compared set, while the first
// write to (or escape of) a package-level object that had none does.
//
// A second table lists every function WITHOUT a body in these packages that is called from them
// (`externCallees`); Props/C17Tables proves that no source of run-to-run variation (time, random numbers,
// environment, process ids, goroutine scheduling, pointer formatting is not a callee and is not covered) is
// among them.

type c17bits []uint64

func (b c17bits) empty() bool {
	for _, w := range b {
		if w != 0 {
			return false
		}
	}
	return true
}

type c17gl struct {
	prog     *ssa.Program
	inPath   map[*types.Package]bool
	globals  []*ssa.Global
	gidx     map[*ssa.Global]int
	words    int
	val      map[ssa.Value]c17bits
	cell     map[any]c17bits // *types.Var (struct field) | string ("elem:T", "global:…")
	ret      map[*ssa.Function]c17bits
	funcs    []*ssa.Function
	named    []types.Type // named types (and pointers to them) declared in the path packages
	taken    []*ssa.Function
	plike    map[types.Type]bool
	changed  bool
	implMemo map[string][]*ssa.Function
}

func (a *c17gl) or(dst *c17bits, src c17bits) {
	if src == nil {
		return
	}
	if *dst == nil {
		*dst = make(c17bits, a.words)
	}
	for i, w := range src {
		if (*dst)[i]|w != (*dst)[i] {
			(*dst)[i] |= w
			a.changed = true
		}
	}
}

func (a *c17gl) orVal(v ssa.Value, src c17bits) {
	if src == nil || src.empty() {
		return
	}
	b := a.val[v]
	a.or(&b, src)
	a.val[v] = b
}

func (a *c17gl) orCell(k any, src c17bits) {
	if src == nil || src.empty() || k == nil {
		return
	}
	b := a.cell[k]
	a.or(&b, src)
	a.cell[k] = b
}

func (a *c17gl) orRet(f *ssa.Function, src c17bits) {
	if src == nil || src.empty() {
		return
	}
	b := a.ret[f]
	a.or(&b, src)
	a.ret[f] = b
}

func (a *c17gl) union(xs ...c17bits) c17bits {
	var out c17bits
	for _, x := range xs {
		if x == nil || x.empty() {
			continue
		}
		if out == nil {
			out = make(c17bits, a.words)
		}
		for i, w := range x {
			out[i] |= w
		}
	}
	return out
}

// pointerLike: can a value of this type alias memory?  Strings are immutable and are not.
func (a *c17gl) pointerLike(t types.Type) bool {
	if t == nil {
		return false
	}
	if v, ok := a.plike[t]; ok {
		return v
	}
	a.plike[t] = true // recursive types go through pointers, which answer true
	r := false
	switch u := t.Underlying().(type) {
	case *types.Basic:
		r = u.Kind() == types.UnsafePointer
	case *types.Pointer, *types.Slice, *types.Map, *types.Chan, *types.Signature, *types.Interface:
		r = true
	case *types.Struct:
		for i := 0; i < u.NumFields(); i++ {
			if a.pointerLike(u.Field(i).Type()) {
				r = true
				break
			}
		}
	case *types.Array:
		r = a.pointerLike(u.Elem())
	case *types.Tuple:
		for i := 0; i < u.Len(); i++ {
			if a.pointerLike(u.At(i).Type()) {
				r = true
				break
			}
		}
	default:
		r = true // type parameters etc.: conservative
	}
	a.plike[t] = r
	return r
}

func c17tstr(t types.Type) string {
	return types.TypeString(t, func(p *types.Package) string { return p.Path() })
}

// short type string for the emitted rows: package names, not paths
func c17tshort(t types.Type) string {
	return types.TypeString(t, func(p *types.Package) string { return p.Name() })
}

func (a *c17gl) get(v ssa.Value) c17bits {
	switch x := v.(type) {
	case *ssa.Global:
		if i, ok := a.gidx[x]; ok {
			b := make(c17bits, a.words)
			b[i/64] |= 1 << uint(i%64)
			return b
		}
		return nil
	case *ssa.Const, *ssa.Function, *ssa.Builtin:
		return nil
	}
	return a.val[v]
}

// cellOf names the abstract memory cell an address denotes.
func (a *c17gl) cellOf(addr ssa.Value) any {
	switch x := addr.(type) {
	case *ssa.FieldAddr:
		st, ok := x.X.Type().Underlying().(*types.Pointer).Elem().Underlying().(*types.Struct)
		if ok {
			return st.Field(x.Field)
		}
	case *ssa.Global:
		return "global:" + x.String()
	}
	if p, ok := addr.Type().Underlying().(*types.Pointer); ok {
		return "elem:" + c17tstr(p.Elem())
	}
	return "elem:?"
}

// fieldCells: the field cells (transitively, through by-value structs and arrays) of a struct type
func (a *c17gl) fieldCells(t types.Type, f func(*types.Var)) {
	switch u := t.Underlying().(type) {
	case *types.Struct:
		for i := 0; i < u.NumFields(); i++ {
			fl := u.Field(i)
			if a.pointerLike(fl.Type()) {
				f(fl)
				a.fieldCells(fl.Type(), f)
			}
		}
	case *types.Array:
		a.fieldCells(u.Elem(), f)
	}
}

func (a *c17gl) load(addr ssa.Value, t types.Type) c17bits {
	if !a.pointerLike(t) {
		return nil
	}
	// a struct (array) value carries only what its location says; the contents of its fields (elements) are
	// added when they are extracted (Field / Index) or when the value is boxed or leaves the analysed code
	// (materialise), so that copying a struct does not smear the cells of its fields into each other
	return a.union(a.get(addr), a.cell[a.cellOf(addr)])
}

// materialise: everything a value may point to, including the contents of by-value struct fields
func (a *c17gl) materialise(v ssa.Value) c17bits {
	out := a.get(v)
	a.fieldCells(v.Type(), func(fl *types.Var) { out = a.union(out, a.cell[fl]) })
	if ar, ok := v.Type().Underlying().(*types.Array); ok {
		out = a.union(out, a.cell["elem:"+c17tstr(ar.Elem())])
	}
	return out
}

func (a *c17gl) store(addr ssa.Value, v ssa.Value) {
	if !a.pointerLike(v.Type()) {
		return
	}
	tv := a.get(v)
	a.orCell(a.cellOf(addr), tv)
	a.fieldCells(v.Type(), func(fl *types.Var) { a.orCell(fl, tv) })
}

func c17elemCell(t types.Type) any {
	switch u := t.Underlying().(type) {
	case *types.Slice:
		return "elem:" + c17tstr(u.Elem())
	case *types.Array:
		return "elem:" + c17tstr(u.Elem())
	case *types.Pointer:
		if ar, ok := u.Elem().Underlying().(*types.Array); ok {
			return "elem:" + c17tstr(ar.Elem())
		}
		return "elem:" + c17tstr(u.Elem())
	case *types.Map:
		return "elem:" + c17tstr(u.Elem())
	case *types.Chan:
		return "elem:" + c17tstr(u.Elem())
	}
	return nil
}

func c17keyCell(t types.Type) any {
	if m, ok := t.Underlying().(*types.Map); ok {
		return "elem:" + c17tstr(m.Key())
	}
	return nil
}

// callees of a call site: functions with a body in the path packages, and names of everything else
func (a *c17gl) callees(c *ssa.CallCommon) (bodies []*ssa.Function, externs []string) {
	hasBody := func(f *ssa.Function) bool {
		return f != nil && f.Blocks != nil && a.fnInPath(f)
	}
	if sc := c.StaticCallee(); sc != nil {
		if hasBody(sc) {
			return []*ssa.Function{sc}, nil
		}
		return nil, []string{c17extName(sc)}
	}
	if c.IsInvoke() {
		it := c.Value.Type()
		key := c17tstr(it) + "." + c.Method.Name()
		impls, ok := a.implMemo[key]
		if !ok {
			iface, _ := it.Underlying().(*types.Interface)
			for _, T := range a.named {
				if iface == nil || !types.Implements(T, iface) {
					continue
				}
				sel := a.prog.MethodSets.MethodSet(T).Lookup(c.Method.Pkg(), c.Method.Name())
				if sel == nil {
					continue
				}
				if f := a.prog.MethodValue(sel); hasBody(f) {
					impls = append(impls, f)
				}
			}
			a.implMemo[key] = impls
		}
		declaredInPath := false
		if n, ok := it.(*types.Named); ok && n.Obj().Pkg() != nil && a.inPath[n.Obj().Pkg()] {
			declaredInPath = true
		}
		if !declaredInPath {
			externs = []string{"invoke\x01" + c17tshort(it) + "." + c.Method.Name()}
		}
		return impls, externs
	}
	switch v := c.Value.(type) {
	case *ssa.Builtin:
		return nil, []string{"builtin\x01" + v.Name()}
	case *ssa.MakeClosure:
		if f, ok := v.Fn.(*ssa.Function); ok && hasBody(f) {
			return []*ssa.Function{f}, nil
		}
	}
	sig, _ := c.Value.Type().Underlying().(*types.Signature)
	for _, f := range a.taken {
		if sig != nil && types.Identical(types.NewSignatureType(nil, nil, nil, f.Signature.Params(), f.Signature.Results(), f.Signature.Variadic()), sig) {
			bodies = append(bodies, f)
		}
	}
	if len(bodies) > 0 {
		return bodies, nil
	}
	// no function of these packages has this signature: the value comes from outside (user callbacks, pass.Func, …)
	return nil, []string{"dynamic\x01" + c17tshort(c.Value.Type())}
}

// c17extName: "<package path>\x01<name>" of a function without a body here; methods as (*T).M / (T).M
func c17extName(f *ssa.Function) string {
	pkg := ""
	if o := f.Object(); o != nil && o.Pkg() != nil {
		pkg = o.Pkg().Path()
	} else if f.Pkg != nil {
		pkg = f.Pkg.Pkg.Path()
	}
	name := f.Name()
	if f.Signature.Recv() != nil {
		name = "(" + types.TypeString(f.Signature.Recv().Type(), func(*types.Package) string { return "" }) + ")." + name
	}
	return pkg + "\x01" + name
}

func c17fname(f *ssa.Function) string {
	s := f.String()
	return strings.ReplaceAll(s, "github.com/mmcloughlin/avo/", "")
}

func (a *c17gl) fnInPath(f *ssa.Function) bool {
	if p := f.Package(); p != nil {
		return a.inPath[p.Pkg]
	}
	if o := f.Object(); o != nil && o.Pkg() != nil {
		return a.inPath[o.Pkg()]
	}
	if f.Parent() != nil {
		return a.fnInPath(f.Parent())
	}
	return false
}

// flow processes one function once (monotone transfer functions).
func (a *c17gl) flow(fn *ssa.Function) {
	for _, b := range fn.Blocks {
		for _, ins := range b.Instrs {
			switch x := ins.(type) {
			case *ssa.FieldAddr:
				a.orVal(x, a.get(x.X))
			case *ssa.IndexAddr:
				a.orVal(x, a.get(x.X))
			case *ssa.Field:
				if a.pointerLike(x.Type()) {
					a.orVal(x, a.get(x.X))
					if st, ok := x.X.Type().Underlying().(*types.Struct); ok {
						a.orVal(x, a.cell[st.Field(x.Field)])
					}
				}
			case *ssa.Index:
				if a.pointerLike(x.Type()) {
					a.orVal(x, a.union(a.get(x.X), a.cell[c17elemCell(x.X.Type())]))
				}
			case *ssa.UnOp:
				switch x.Op {
				case token.MUL:
					a.orVal(x, a.load(x.X, x.Type()))
				case token.ARROW:
					if a.pointerLike(x.Type()) {
						a.orVal(x, a.union(a.get(x.X), a.cell[c17elemCell(x.X.Type())]))
					}
				}
			case *ssa.Store:
				a.store(x.Addr, x.Val)
			case *ssa.MapUpdate:
				if a.pointerLike(x.Value.Type()) {
					a.orCell(c17elemCell(x.Map.Type()), a.get(x.Value))
				}
				if a.pointerLike(x.Key.Type()) {
					a.orCell(c17keyCell(x.Map.Type()), a.get(x.Key))
				}
			case *ssa.Send:
				if a.pointerLike(x.X.Type()) {
					a.orCell(c17elemCell(x.Chan.Type()), a.get(x.X))
				}
			case *ssa.Lookup:
				if a.pointerLike(x.Type()) {
					a.orVal(x, a.union(a.get(x.X), a.cell[c17elemCell(x.X.Type())]))
				}
			case *ssa.Range:
				a.orVal(x, a.get(x.X))
			case *ssa.Next:
				if !x.IsString {
					if r, ok := x.Iter.(*ssa.Range); ok {
						a.orVal(x, a.union(a.get(r), a.cell[c17elemCell(r.X.Type())], a.cell[c17keyCell(r.X.Type())]))
					}
				}
			case *ssa.Extract:
				if a.pointerLike(x.Type()) {
					a.orVal(x, a.get(x.Tuple))
				}
			case *ssa.Select:
				// not used in avo; conservative: nothing flows (reported as extern below)
			case *ssa.Phi:
				if a.pointerLike(x.Type()) {
					for _, e := range x.Edges {
						a.orVal(x, a.get(e))
					}
				}
			case *ssa.ChangeType:
				a.orVal(x, a.get(x.X))
			case *ssa.ChangeInterface:
				a.orVal(x, a.get(x.X))
			case *ssa.MakeInterface:
				if a.pointerLike(x.X.Type()) {
					a.orVal(x, a.materialise(x.X))
				}
			case *ssa.TypeAssert:
				if a.pointerLike(x.Type()) {
					a.orVal(x, a.get(x.X))
				}
			case *ssa.SliceToArrayPointer:
				a.orVal(x, a.get(x.X))
			case *ssa.Convert:
				// string <-> []byte/[]rune copy; unsafe.Pointer conversions alias
				if a.pointerLike(x.Type()) && a.pointerLike(x.X.Type()) {
					a.orVal(x, a.get(x.X))
				}
			case *ssa.Slice:
				if a.pointerLike(x.Type()) {
					a.orVal(x, a.get(x.X))
				}
			case *ssa.MakeClosure:
				f, _ := x.Fn.(*ssa.Function)
				for i, bnd := range x.Bindings {
					a.orVal(x, a.get(bnd))
					if f != nil && i < len(f.FreeVars) {
						a.orVal(f.FreeVars[i], a.get(bnd))
					}
				}
			case *ssa.Return:
				for _, r := range x.Results {
					if a.pointerLike(r.Type()) {
						a.orRet(fn, a.get(r))
					}
				}
			case ssa.CallInstruction:
				a.flowCall(x)
			}
		}
	}
}

func (a *c17gl) callArgs(c *ssa.CallCommon) []ssa.Value {
	if c.IsInvoke() {
		return append([]ssa.Value{c.Value}, c.Args...)
	}
	return c.Args
}

func (a *c17gl) flowCall(ci ssa.CallInstruction) {
	c := ci.Common()
	res := ci.Value() // nil for go/defer
	args := a.callArgs(c)
	if bi, ok := c.Value.(*ssa.Builtin); ok {
		switch bi.Name() {
		case "append":
			if len(args) == 2 {
				if res != nil {
					a.orVal(res, a.get(args[0]))
				}
				// the appended elements are copied into the result's cells
				a.orCell(c17elemCell(args[0].Type()), a.union(a.get(args[1]), a.cell[c17elemCell(args[1].Type())]))
			}
		case "copy":
			if len(args) == 2 {
				a.orCell(c17elemCell(args[0].Type()), a.union(a.get(args[1]), a.cell[c17elemCell(args[1].Type())]))
			}
		case "ssa:wrapnilchk":
			if res != nil && len(args) > 0 {
				a.orVal(res, a.get(args[0]))
			}
		}
		return
	}
	bodies, externs := a.callees(c)
	for _, f := range bodies {
		for i, p := range f.Params {
			if i < len(args) && a.pointerLike(p.Type()) {
				a.orVal(p, a.get(args[i]))
			}
		}
		// a closure value called dynamically carries its bindings already (MakeClosure)
		if res != nil && a.pointerLike(res.Type()) {
			a.orVal(res, a.ret[f])
		}
	}
	if len(externs) > 0 && res != nil && a.pointerLike(res.Type()) {
		// a function we cannot see may return any of its pointer-like arguments
		for _, x := range args {
			if a.pointerLike(x.Type()) {
				a.orVal(res, a.materialise(x))
			}
		}
	}
}

// c17container names what a store writes into: the struct type of a field, the slice / array / pointer type of
// an element, "var" for the variable itself.
func c17container(addr ssa.Value) string {
	switch x := addr.(type) {
	case *ssa.FieldAddr:
		return c17tshort(x.X.Type().Underlying().(*types.Pointer).Elem())
	case *ssa.IndexAddr:
		return c17tshort(x.X.Type())
	case *ssa.Global:
		return "var"
	}
	return c17tshort(addr.Type())
}

func c17exportedRoot(f *ssa.Function) bool {
	if f.Parent() != nil || f.Synthetic != "" && f.Object() == nil {
		return false
	}
	o := f.Object()
	if o == nil {
		return false
	}
	return o.Exported()
}

func init() {
	genLean["Globals"] = func(repo string) (string, error) {
		cfg := &packages.Config{
			Mode: packages.NeedName | packages.NeedFiles | packages.NeedSyntax | packages.NeedTypes | packages.NeedTypesInfo | packages.NeedImports | packages.NeedDeps | packages.NeedTypesSizes,
			Dir:  repo,
			Env:  append(envForGo(), "GOFLAGS=-mod=mod"),
		}
		pkgs, err := packages.Load(cfg, "./reg", "./ir", "./pass", "./printer", "./build", "./gotypes", "./buildtags", "./attr",
			"./operand", "./x86", "./internal/prnt", "./internal/stack", "./src")
		if err != nil {
			return "", err
		}
		for _, p := range pkgs {
			if len(p.Errors) > 0 {
				return "", fmt.Errorf("package %s: %v", p.PkgPath, p.Errors[0])
			}
		}
		prog, spkgs := ssautil.Packages(pkgs, ssa.InstantiateGenerics)
		a := &c17gl{prog: prog, inPath: map[*types.Package]bool{}, gidx: map[*ssa.Global]int{}, val: map[ssa.Value]c17bits{},
			cell: map[any]c17bits{}, ret: map[*ssa.Function]c17bits{}, plike: map[types.Type]bool{}, implMemo: map[string][]*ssa.Function{}}
		for _, sp := range spkgs {
			if sp == nil {
				return "", fmt.Errorf("no SSA for a package of the generation path")
			}
			sp.Build()
			a.inPath[sp.Pkg] = true
		}
		rel := func(p *types.Package) string {
			return strings.TrimPrefix(strings.TrimPrefix(p.Path(), "github.com/mmcloughlin/avo"), "/")
		}
		for _, sp := range spkgs {
			var names []string
			for n := range sp.Members {
				names = append(names, n)
			}
			sort.Strings(names)
			for _, n := range names {
				switch m := sp.Members[n].(type) {
				case *ssa.Global:
					if strings.HasPrefix(n, "init$") { // package initialisation guard
						continue
					}
					a.gidx[m] = len(a.globals)
					a.globals = append(a.globals, m)
				case *ssa.Type:
					a.named = append(a.named, m.Type(), types.NewPointer(m.Type()))
				}
			}
		}
		a.words = (len(a.globals) + 63) / 64
		for f := range ssautil.AllFunctions(prog) {
			if f.Blocks != nil && a.fnInPath(f) {
				a.funcs = append(a.funcs, f)
			}
		}
		sort.Slice(a.funcs, func(i, j int) bool {
			if a.funcs[i].String() != a.funcs[j].String() {
				return a.funcs[i].String() < a.funcs[j].String()
			}
			return a.funcs[i].Pos() < a.funcs[j].Pos()
		})
		// address-taken functions: operands that are functions outside call position
		takenSet := map[*ssa.Function]bool{}
		refs := map[*ssa.Function][]*ssa.Function{} // fn -> functions it references as values
		for _, fn := range a.funcs {
			for _, b := range fn.Blocks {
				for _, ins := range b.Instrs {
					var callee ssa.Value
					if ci, ok := ins.(ssa.CallInstruction); ok && !ci.Common().IsInvoke() {
						callee = ci.Common().Value
					}
					for _, op := range ins.Operands(nil) {
						if op == nil || *op == nil {
							continue
						}
						if f, ok := (*op).(*ssa.Function); ok && (*op) != callee {
							takenSet[f] = true
							refs[fn] = append(refs[fn], f)
						}
						if mc, ok := (*op).(*ssa.MakeClosure); ok {
							if f, ok := mc.Fn.(*ssa.Function); ok {
								refs[fn] = append(refs[fn], f)
							}
						}
					}
					if mc, ok := ins.(*ssa.MakeClosure); ok {
						if f, ok := mc.Fn.(*ssa.Function); ok {
							refs[fn] = append(refs[fn], f)
							takenSet[f] = true
						}
					}
				}
			}
		}
		for _, f := range a.funcs {
			if takenSet[f] {
				a.taken = append(a.taken, f)
			}
		}
		// fixpoint
		for iter := 0; ; iter++ {
			a.changed = false
			for _, fn := range a.funcs {
				a.flow(fn)
			}
			if !a.changed {
				break
			}
			if iter > 200 {
				return "", fmt.Errorf("Globals: no fixpoint after %d rounds", iter)
			}
		}
		// functions that can run after initialisation
		reach := map[*ssa.Function]bool{}
		var work []*ssa.Function
		push := func(f *ssa.Function) {
			if f != nil && f.Blocks != nil && a.fnInPath(f) && !reach[f] {
				reach[f] = true
				work = append(work, f)
			}
		}
		for _, f := range a.funcs {
			if c17exportedRoot(f) {
				push(f)
			}
		}
		for len(work) > 0 {
			fn := work[len(work)-1]
			work = work[:len(work)-1]
			for _, f := range refs[fn] {
				push(f)
			}
			for _, b := range fn.Blocks {
				for _, ins := range b.Instrs {
					if ci, ok := ins.(ssa.CallInstruction); ok {
						if _, isB := ci.Common().Value.(*ssa.Builtin); isB {
							continue
						}
						bodies, _ := a.callees(ci.Common())
						for _, f := range bodies {
							push(f)
						}
					}
				}
			}
		}
		// events
		type row struct{ pkg, name, ev string }
		rows := map[row]bool{}
		type site struct{ pkg, name, ev, fn string }
		sites := map[site]bool{}
		externs := map[string]bool{}
		event := func(fn *ssa.Function, t c17bits, ev string) {
			if t == nil {
				return
			}
			for i, g := range a.globals {
				if t[i/64]&(1<<uint(i%64)) != 0 {
					rows[row{rel(g.Pkg.Pkg), g.Name(), ev}] = true
					sites[site{rel(g.Pkg.Pkg), g.Name(), ev, c17fname(fn)}] = true
				}
			}
		}
		for _, fn := range a.funcs {
			for _, b := range fn.Blocks {
				for _, ins := range b.Instrs {
					if ci, ok := ins.(ssa.CallInstruction); ok {
						if _, isB := ci.Common().Value.(*ssa.Builtin); !isB {
							_, ex := a.callees(ci.Common())
							for _, e := range ex {
								if !strings.HasPrefix(e, "dynamic\x01") && !strings.HasPrefix(e, "invoke\x01") {
									externs[e] = true
								}
							}
						}
					}
					if !reach[fn] {
						continue
					}
					switch x := ins.(type) {
					case *ssa.Store:
						event(fn, a.get(x.Addr), "store\x01\x01"+c17container(x.Addr))
					case *ssa.MapUpdate:
						event(fn, a.get(x.Map), "store\x01\x01"+c17tshort(x.Map.Type()))
					case *ssa.Send:
						event(fn, a.get(x.Chan), "store\x01\x01"+c17tshort(x.Chan.Type()))
					case *ssa.Select:
						for _, st := range x.States {
							event(fn, a.get(st.Chan), "extern\x01builtin\x01select")
						}
					case *ssa.Return:
						if c17exportedRoot(fn) {
							for _, r := range x.Results {
								switch r.Type().Underlying().(type) {
								case *types.Slice, *types.Map:
									event(fn, a.get(r), "returns\x01\x01"+c17tshort(r.Type()))
								}
							}
						}
					case ssa.CallInstruction:
						c := x.Common()
						args := a.callArgs(c)
						if bi, ok := c.Value.(*ssa.Builtin); ok {
							switch bi.Name() {
							case "append":
								if len(args) > 0 {
									event(fn, a.get(args[0]), "append\x01\x01"+c17tshort(args[0].Type()))
								}
							case "copy", "delete", "clear":
								if len(args) > 0 {
									event(fn, a.get(args[0]), "store\x01\x01"+c17tshort(args[0].Type()))
								}
							}
							continue
						}
						_, ex := a.callees(c)
						for _, e := range ex {
							for _, arg := range args {
								if a.pointerLike(arg.Type()) {
									event(fn, a.materialise(arg), "extern\x01"+e)
								}
							}
							if strings.HasPrefix(e, "dynamic\x01") {
								// the function value itself may be a closure over g-values
								event(fn, a.get(c.Value), "extern\x01"+e)
							}
						}
					}
				}
			}
		}
		// group the variables by their set of events
		evOf := map[[2]string][]string{}
		names := map[string]bool{}
		for r := range rows {
			evOf[[2]string{r.pkg, r.name}] = append(evOf[[2]string{r.pkg, r.name}], r.ev)
			names[r.ev] = true
		}
		groups := map[string][][2]string{}
		for v, evs := range evOf {
			sort.Strings(evs)
			k := strings.Join(evs, "\x00")
			groups[k] = append(groups[k], v)
		}
		var gkeys []string
		for k, vs := range groups {
			sort.Slice(vs, func(i, j int) bool {
				if vs[i][0] != vs[j][0] {
					return vs[i][0] < vs[j][0]
				}
				return vs[i][1] < vs[j][1]
			})
			gkeys = append(gkeys, k)
		}
		sort.Slice(gkeys, func(i, j int) bool {
			x, y := groups[gkeys[i]][0], groups[gkeys[j]][0]
			if x[0] != y[0] {
				return x[0] < y[0]
			}
			return x[1] < y[1]
		})
		var evNames []string
		for n := range names {
			evNames = append(evNames, n)
		}
		sort.Strings(evNames)
		var ss []site
		for s := range sites {
			ss = append(ss, s)
		}
		sort.Slice(ss, func(i, j int) bool {
			x, y := ss[i], ss[j]
			if x.pkg != y.pkg {
				return x.pkg < y.pkg
			}
			if x.name != y.name {
				return x.name < y.name
			}
			if x.ev != y.ev {
				return x.ev < y.ev
			}
			return x.fn < y.fn
		})
		var exs []string
		for e := range externs {
			if strings.HasSuffix(e, "\x01init") { // package initialisers of the imports
				continue
			}
			exs = append(exs, e)
		}
		sort.Strings(exs)
		var b strings.Builder
		b.WriteString("-- REGENERATED by avoh gen-lean Globals (go/ssa over /repo). Do not edit.\nnamespace Avo.Gen\n")
		fmt.Fprintf(&b, "/-- number of package-level variables / functions with a body / functions that can run after initialisation -/\ndef globalCensusSize : Nat × Nat × Nat := (%d, %d, %d)\n", len(a.globals), len(a.funcs), len(reach))
		ev3 := func(e string) string {
			t := strings.SplitN(e, "\x01", 3)
			for len(t) < 3 {
				t = append(t, "")
			}
			return fmt.Sprintf("(%s, %s, %s)", leanStr(t[0]), leanStr(t[1]), leanStr(t[2]))
		}
		ev3s := func(es []string) string {
			q := make([]string, len(es))
			for i, e := range es {
				q[i] = ev3(e)
			}
			return "[" + strings.Join(q, ", ") + "]"
		}
		b.WriteString("/-- the distinct events (kind, package, name): kind store / append / returns with the type written or returned as\nname; kind extern with the package path of the callee (or `invoke` for a method of an interface declared outside the\nanalysed packages, `dynamic` for a function value with no candidate in them, `builtin`) and its name -/\n")
		fmt.Fprintf(&b, "def globalEventNames : List (String × String × String) := %s\n", ev3s(evNames))
		b.WriteString("/-- (variables, events): memory reachable from each of the package-level variables (package, name) may be written,\nor escapes to code outside the analysed packages, in a function that can run after package initialisation, in each\nof the listed ways; variables are grouped by their set of events -/\ndef globalEventGroups : List (List (String × String) × List (String × String × String)) := [\n")
		for i, k := range gkeys {
			if i > 0 {
				b.WriteString(",\n")
			}
			var vs []string
			for _, v := range groups[k] {
				vs = append(vs, fmt.Sprintf("(%s, %s)", leanStr(v[0]), leanStr(v[1])))
			}
			fmt.Fprintf(&b, "  ([%s],\n   %s)", strings.Join(vs, ", "), ev3s(strings.Split(k, "\x00")))
		}
		b.WriteString("]\n/-- every function without a body in the analysed packages that is called from them -/\ndef externCallees : List (String × String) := [\n")
		for i, e := range exs {
			if i > 0 {
				b.WriteString(",\n")
			}
			t := strings.SplitN(e, "\x01", 2)
			fmt.Fprintf(&b, "  (%s, %s)", leanStr(t[0]), leanStr(t[1]))
		}
		b.WriteString("]\n/-- for information only (never compared): (package, variable, event, function) -/\ndef globalEventSites : List (String × String × String × String) := [\n")
		for i, s := range ss {
			if i > 0 {
				b.WriteString(",\n")
			}
			fmt.Fprintf(&b, "  (%s, %s, %s, %s)", leanStr(s.pkg), leanStr(s.name), leanStr(s.ev), leanStr(s.fn))
		}
		b.WriteString("]\nend Avo.Gen\n")
		return b.String(), nil
	}
}
