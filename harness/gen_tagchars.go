package main

import (
	"fmt"
	"go/build/constraint"
	"strings"
	"unicode/utf8"
)

// c14ToolchainTagChar reports whether the installed go/build/constraint takes the
// one-character literal as a tag (rather than replacing it by "ignore").
func c14ToolchainTagChar(r rune) bool {
	s := string(r)
	x, err := constraint.Parse("// +build " + s)
	if err != nil {
		return false
	}
	t, ok := x.(*constraint.TagExpr)
	return ok && t.Tag == s
}

// c14RuneRanges returns the maximal inclusive ranges of valid (non-surrogate)
// code points satisfying pred.
func c14RuneRanges(pred func(rune) bool) [][2]int {
	var out [][2]int
	start := -1
	flush := func(end int) {
		if start >= 0 {
			out = append(out, [2]int{start, end})
			start = -1
		}
	}
	for r := rune(0); r <= utf8.MaxRune; r++ {
		if r >= 0xD800 && r <= 0xDFFF {
			flush(0xD7FF)
			continue
		}
		if pred(r) {
			if start < 0 {
				start = int(r)
			}
		} else {
			flush(int(r) - 1)
		}
	}
	flush(utf8.MaxRune)
	return out
}

func init() {
	// Oracle.TagChars: which code points the installed toolchain accepts inside
	// a build tag (measured through constraint.Parse, one call per code point),
	// and which code points strings.Fields treats as separators.
	genLean["TagChars"] = func(repo string) (string, error) {
		rs := c14RuneRanges(c14ToolchainTagChar)
		if len(rs) == 0 {
			return "", fmt.Errorf("no tag characters measured")
		}
		var b strings.Builder
		b.WriteString("-- MEASURED from the installed go/build/constraint (Parse of `// +build <c>` for every code point)\n-- and strings.Fields by avoh gen-lean TagChars. Do not edit.\nnamespace Avo.Oracle\n")
		b.WriteString("def tagRanges : List (Nat × Nat) := [\n")
		for i, r := range rs {
			if i > 0 {
				b.WriteString(",")
				if i%8 == 0 {
					b.WriteString("\n")
				}
			}
			fmt.Fprintf(&b, "(%d,%d)", r[0], r[1])
		}
		b.WriteString("]\n")
		b.WriteString("def spaceCodes : List Nat := [")
		first := true
		for r := rune(0); r <= utf8.MaxRune; r++ {
			if r >= 0xD800 && r <= 0xDFFF {
				continue
			}
			if len(strings.Fields("a"+string(r)+"b")) == 2 {
				if !first {
					b.WriteString(", ")
				}
				first = false
				fmt.Fprintf(&b, "%d", r)
			}
		}
		b.WriteString("]\nend Avo.Oracle\n")
		return b.String(), nil
	}
}
