package main

import (
	"encoding/binary"
	"fmt"
	"os"
	"os/exec"
	"path/filepath"
	"regexp"
	"strconv"
	"strings"
	"unicode"

	"github.com/mmcloughlin/avo/attr"
	"github.com/mmcloughlin/avo/build"
	"github.com/mmcloughlin/avo/ir"
	"github.com/mmcloughlin/avo/operand"
	"github.com/mmcloughlin/avo/pass"
	"github.com/mmcloughlin/avo/printer"
)

// C19, file level: the include pass over ALL prior include lists (none, exactly the header, near misses of its
// name, many, duplicates, the empty string) crossed with sections that need the header or not, through three routes:
//
//	ir   ir.File built by hand, pass.IncludeTextFlagHeader called directly (twice), real printer
//	ctx  build.Context -> Result -> user includes appended -> pass.Compile (the pass in its place) -> real printer
//	asm  a ctx file printed and ASSEMBLED by `go tool asm` with the installed pkg/include plus a scratch include
//	     directory holding the generated user headers (which define no flag macro); one DATA probe per clause makes
//	     the assembler itself evaluate the printed expression in the file's own include environment
const c19Header = "textflag.h"

// c19Sec is one section of a generated file: 't' function, 'g' static global, 'G' package-level global.
type c19Sec struct {
	kind byte
	val  int
}

type c19Case struct {
	route string
	incl  []string
	secs  []c19Sec
}

// c19NearMiss returns a string that resembles the header's name without being it, and the class of the mutation.
// The strings are built by operators with random parameters, not taken from a fixed list.
func c19NearMiss(r *rng) (string, string) {
	h := c19Header
	word := func() string {
		n := r.rangeIn(1, 5)
		b := make([]byte, n)
		for i := range b {
			b[i] = "abcxyz_019MZ-"[r.intn(13)]
		}
		return string(b)
	}
	switch r.intn(11) {
	case 0: // ends in the header's characters, no directory
		return word() + h, "suffix"
	case 1: // the header's name below a directory
		d := word()
		for r.chance(1, 3) {
			d += "/" + word()
		}
		return d + "/" + h, "dir"
	case 2: // starts with the header's characters
		return h + pick(r, []string{"h", "pp", ".in", "~", "_", "x"}) + pick(r, []string{"", "", word()}), "prefix"
	case 3:
		return word() + h + word(), "superstring"
	case 4: // different case
		switch r.intn(3) {
		case 0:
			return strings.ToUpper(h), "case"
		case 1:
			return strings.ToUpper(h[:1]) + h[1:], "case"
		}
		i := r.intn(len(h))
		if !unicode.IsLetter(rune(h[i])) {
			i = 0
		}
		return h[:i] + strings.ToUpper(h[i:i+1]) + h[i+1:], "case"
	case 5: // a proper part of the name
		i, j := r.intn(len(h)), r.intn(len(h))
		if i > j {
			i, j = j, i
		}
		if i == 0 && j == len(h)-1 {
			j--
		}
		if s := h[i : j+1]; s != "" {
			return s, "substring"
		}
		return h[1:], "substring"
	case 6: // blanks around the name
		return pick(r, []string{" " + h, h + " ", " " + h + " ", "\t" + h, h + "\t"}), "blank"
	case 7: // relative spellings that are other strings
		return pick(r, []string{"./" + h, "../" + h, "/" + h, "//" + h, h + "/", h + "/."}), "dotpath"
	case 8: // two adjacent characters swapped, or one doubled / dropped
		i := r.intn(len(h) - 1)
		switch r.intn(3) {
		case 0:
			if h[i] != h[i+1] {
				return h[:i] + h[i+1:i+2] + h[i:i+1] + h[i+2:], "typo"
			}
			fallthrough
		case 1:
			return h[:i] + h[i:i+1] + h[i:], "typo"
		}
		return h[:i] + h[i+1:], "typo"
	case 9: // non-ASCII look-alikes
		return pick(r, []string{"t\u00e9xtflag.h", "textflag.h\u200b", "\u0442extflag.h", "textflag\u2024h", "\ufefftextflag.h"}), "unicode"
	}
	return h + h, "doubled"
}

var c19Ordinary = []string{"a.h", "go_asm.h", "funcdata.h", "dir/b.h", "consts_amd64.h", "flags.h", "text.h", "h"}

// c19GenIncludes draws a prior include list and names its class.
func c19GenIncludes(r *rng, st map[string]int) []string {
	var l []string
	near := func() {
		s, c := c19NearMiss(r)
		st["near_"+c]++
		l = append(l, s)
	}
	ord := func() { l = append(l, pick(r, c19Ordinary)+pick(r, []string{"", "", "", itoa(r.intn(50))})) }
	insertExact := func() {
		// at the front, at the back or anywhere
		var i int
		switch r.intn(3) {
		case 0:
			i = 0
		case 1:
			i = len(l)
		default:
			i = r.intn(len(l) + 1)
		}
		l = append(l[:i], append([]string{c19Header}, l[i:]...)...)
	}
	switch r.intn(12) {
	case 0: // none
	case 1: // exactly the header
		l = []string{c19Header}
	case 2, 3, 4: // near misses only (1..4), perhaps among ordinary headers
		for k := r.rangeIn(1, 4); k > 0; k-- {
			if r.chance(1, 4) {
				ord()
			}
			near()
		}
	case 5, 6: // near misses and the header itself
		for k := r.rangeIn(1, 4); k > 0; k-- {
			near()
			if r.chance(1, 3) {
				ord()
			}
		}
		insertExact()
	case 7: // ordinary user headers
		for k := r.rangeIn(1, 4); k > 0; k-- {
			ord()
		}
		if r.chance(1, 3) {
			insertExact()
		}
	case 8: // the empty string, alone or among others
		l = append(l, "")
		for k := r.intn(3); k > 0; k-- {
			if r.chance(1, 2) {
				near()
			} else {
				ord()
			}
		}
		if r.chance(1, 4) {
			insertExact()
		}
	case 9: // many includes
		for k := r.rangeIn(9, 40); k > 0; k-- {
			if r.chance(1, 3) {
				near()
			} else {
				ord()
			}
		}
		if r.chance(1, 2) {
			insertExact()
		}
	case 10: // duplicate entries: of the header, of a near miss
		for k := r.intn(3); k > 0; k-- {
			ord()
		}
		if r.chance(1, 2) {
			insertExact()
			insertExact()
			if r.chance(1, 3) {
				insertExact()
			}
		} else {
			near()
			l = append(l, l[len(l)-1])
			if r.chance(1, 3) {
				insertExact()
			}
		}
	default: // anything
		for k := r.intn(6); k > 0; k-- {
			switch r.intn(4) {
			case 0:
				near()
			case 1:
				l = append(l, c19Header)
			default:
				ord()
			}
		}
	}
	return l
}

// c19Named reports, from the REAL attr package, whether a value prints with a macro name (used for balancing the
// sample and for the floors only: truth is decided on the Lean side).
func c19Named(v int) bool {
	for _, c := range attr.Attribute(v).Asm() {
		if unicode.IsLetter(c) {
			return true
		}
	}
	return false
}

func c19NamedBits() (named, unnamed []int) {
	for i := 0; i < 16; i++ {
		if c19Named(1 << i) {
			named = append(named, 1<<i)
		} else {
			unnamed = append(unnamed, 1<<i)
		}
	}
	return
}

func c19Subset(r *rng, bits []int) int {
	if len(bits) == 0 {
		return 0
	}
	v := 0
	for _, b := range bits {
		if r.chance(1, 3) {
			v |= b
		}
	}
	if v == 0 {
		v = pick(r, bits)
	}
	return v
}

// c19GenSections draws the sections: none, zero attributes, only unnamed bits, named flags — and which kind of
// section (function / static global / package global) carries the one attribute that needs the header.
func c19GenSections(r *rng, maxSecs int) []c19Sec {
	named, unnamed := c19NamedBits()
	kind := func() byte { return "tttggG"[r.intn(6)] }
	noNeed := func() int {
		switch r.intn(3) {
		case 0:
			return 0
		case 1:
			return c19Subset(r, unnamed)
		}
		if r.chance(1, 2) {
			return 0
		}
		return c19Subset(r, unnamed)
	}
	need := func() int {
		v := c19Subset(r, named)
		if r.chance(1, 3) {
			v |= c19Subset(r, unnamed)
		}
		return v
	}
	var secs []c19Sec
	n := r.intn(maxSecs + 1)
	switch r.intn(6) {
	case 0: // nothing needs the header
		for k := 0; k < n; k++ {
			secs = append(secs, c19Sec{kind(), noNeed()})
		}
	case 1, 2: // exactly ONE section needs it, at the front, at the back or anywhere
		if n == 0 {
			n = 1
		}
		for k := 0; k < n; k++ {
			secs = append(secs, c19Sec{kind(), noNeed()})
		}
		var i int
		switch r.intn(3) {
		case 0:
			i = 0
		case 1:
			i = n - 1
		default:
			i = r.intn(n)
		}
		secs[i].val = need()
	case 3: // random words
		for k := 0; k < n; k++ {
			secs = append(secs, c19Sec{kind(), int(r.u64() & 0xffff)})
		}
	default:
		for k := 0; k < n; k++ {
			if r.chance(1, 2) {
				secs = append(secs, c19Sec{kind(), need()})
			} else {
				secs = append(secs, c19Sec{kind(), noNeed()})
			}
		}
	}
	return secs
}

// c19Classify records the cross class of a case (what the floors are about).
func c19Classify(st map[string]int, route string, c *c19Case) {
	exact, other, nearSuffix := 0, 0, 0
	for _, p := range c.incl {
		if p == c19Header {
			exact++
		} else {
			other++
			if strings.HasSuffix(p, c19Header) || strings.HasPrefix(p, c19Header) || strings.EqualFold(p, c19Header) ||
				strings.Contains(p, "textflag") {
				nearSuffix++
			}
		}
	}
	needs, needT, needG := 0, 0, 0
	for _, s := range c.secs {
		if c19Named(s.val) {
			needs++
			if s.kind == 't' {
				needT++
			} else {
				needG++
			}
		}
	}
	k := func(s string) { st[route+"_"+s]++ }
	k("files")
	switch {
	case len(c.incl) == 0:
		k("lists_none")
	case exact == 1 && other == 0:
		k("lists_exact_only")
	case exact == 0 && nearSuffix > 0:
		k("lists_nearmiss_only")
	case exact > 0 && nearSuffix > 0:
		k("lists_nearmiss_and_exact")
	case exact == 0:
		k("lists_ordinary_only")
	default:
		k("lists_ordinary_and_exact")
	}
	if exact > 1 {
		k("lists_duplicate_exact")
	}
	if len(c.incl) >= 9 {
		k("lists_many")
	}
	for _, p := range c.incl {
		if p == "" {
			k("lists_with_empty_string")
			break
		}
	}
	if needs > 0 {
		k("need")
		if exact == 0 && nearSuffix > 0 {
			k("need_and_nearmiss_only") // the header must be ADDED although something that looks like it is there
		}
		if exact > 0 {
			k("need_and_exact")
		}
		if exact == 0 && other == 0 {
			k("need_and_none")
		}
		if needs == 1 && len(c.secs) > 1 {
			if c19Named(c.secs[len(c.secs)-1].val) {
				k("need_only_last_section")
			}
			if c19Named(c.secs[0].val) {
				k("need_only_first_section")
			}
		}
		if needT == 0 {
			k("need_only_globals")
		}
		if needG == 0 {
			k("need_only_functions")
		}
	} else {
		k("noneed")
		if exact == 0 && nearSuffix > 0 {
			k("noneed_and_nearmiss_only")
		}
		if len(c.secs) == 0 {
			k("no_sections")
		}
	}
}

func c19SecName(k int, s c19Sec) string {
	if s.kind == 't' {
		return fmt.Sprintf("c19f%d", k)
	}
	return fmt.Sprintf("c19g%d", k)
}

// c19BuildIR builds the file by hand (no instructions, no data).
func c19BuildIR(c *c19Case) *ir.File {
	file := ir.NewFile()
	file.Includes = append([]string{}, c.incl...)
	for k, s := range c.secs {
		switch s.kind {
		case 't':
			fn := ir.NewFunction(c19SecName(k, s))
			fn.Attributes = attr.Attribute(s.val)
			file.AddSection(fn)
		case 'g':
			g := ir.NewStaticGlobal(c19SecName(k, s))
			g.Attributes = attr.Attribute(s.val)
			file.AddSection(g)
		default:
			g := ir.NewGlobal(operand.Symbol{Name: c19SecName(k, s)})
			g.Attributes = attr.Attribute(s.val)
			file.AddSection(g)
		}
	}
	return file
}

// c19BuildCtx builds the file through build.Context: functions with a body, globals with data.
func c19BuildCtx(c *c19Case, r *rng) (*ir.File, error) {
	ctx := build.NewContext()
	for k, s := range c.secs {
		switch s.kind {
		case 't':
			ctx.Function(c19SecName(k, s))
			ctx.SignatureExpr("func()")
			ctx.Attributes(attr.Attribute(s.val))
			ctx.RET()
		case 'g':
			ctx.StaticGlobal(c19SecName(k, s))
			ctx.DataAttributes(attr.Attribute(s.val))
			ctx.AddDatum(0, operand.U64(r.u64()))
		default:
			ctx.StaticGlobal(c19SecName(k, s))
			ctx.DataAttributes(attr.Attribute(s.val))
			ctx.AddDatum(0, operand.U64(r.u64()))
		}
	}
	f, err := ctx.Result()
	if err != nil {
		return nil, err
	}
	if len(f.Sections) != len(c.secs) {
		return nil, fmt.Errorf("context produced %d sections for %d", len(f.Sections), len(c.secs))
	}
	for k, s := range c.secs {
		if g, ok := f.Sections[k].(*ir.Global); ok && s.kind == 'G' {
			g.Symbol.Static = false // a package-level data symbol
		}
	}
	// the only way to give a file user includes: the ir.File itself (no build API adds includes)
	f.Includes = append(f.Includes, c.incl...)
	return f, nil
}

func c19HexList(xs []string) []string {
	out := []string{itoa(len(xs))}
	for _, x := range xs {
		out = append(out, hexs(x))
	}
	return out
}

func c19SecVals(secs []c19Sec) []string {
	out := []string{itoa(len(secs))}
	for _, s := range secs {
		out = append(out, itoa(s.val))
	}
	return out
}

// c19RunPass runs p on the file; a panic is the distinct outcome "panic".
func c19RunPass(p func(*ir.File) error, f *ir.File) (status string) {
	defer func() {
		if e := recover(); e != nil {
			status = "panic"
		}
	}()
	if err := p(f); err != nil {
		return "error"
	}
	return "ok"
}

// c19EmitPass: exact correspondence of one run of the include pass (prior list, section values -> list).
func c19EmitPass(o *out, prior []string, secs []c19Sec, status string, after []string) {
	req := append([]string{"inclpass"}, c19HexList(prior)...)
	req = append(req, c19SecVals(secs)...)
	resp := strings.Join(c19HexList(after), " ")
	if status != "ok" {
		resp = status
	}
	o.emit(strings.Join(req, " "), resp)
}

var (
	c19ReInclude = regexp.MustCompile(`^#include "(.*)"$`)
)

// c19ReadPrinted reads the printed text back: the include lines and, in order, the attribute clause of every
// TEXT / GLOBL line ("-" = omitted). ok=false when the number of directive lines is not the number of sections.
func c19ReadPrinted(text string, secs []c19Sec) (incl []string, clauses []string, ok bool) {
	for _, line := range strings.Split(text, "\n") {
		if m := c19ReInclude.FindStringSubmatch(line); m != nil {
			incl = append(incl, m[1])
			continue
		}
		isText := strings.HasPrefix(line, "TEXT ")
		if !isText && !strings.HasPrefix(line, "GLOBL ") {
			continue
		}
		i := strings.Index(line, "(SB)")
		if i < 0 {
			return nil, nil, false
		}
		rest := line[i+4:]
		// ", <clause>, $size"   or   ", $size"
		j := strings.LastIndex(rest, "$")
		if j < 0 || !strings.HasPrefix(rest, ",") {
			return nil, nil, false
		}
		cl := strings.TrimSpace(rest[1:j])
		cl = strings.TrimSpace(strings.TrimSuffix(cl, ","))
		if cl == "" {
			cl = "-"
		}
		clauses = append(clauses, cl)
	}
	return incl, clauses, len(clauses) == len(secs)
}

func c19Print(f *ir.File) (text string, status string) {
	defer func() {
		if e := recover(); e != nil {
			status = "panic"
		}
	}()
	b, err := printer.NewGoAsm(printer.Config{Name: "c19", Pkg: "p"}).Print(f)
	if err != nil {
		return "", "error"
	}
	return string(b), "ok"
}

// c19EmitFile: the acceptor on the REAL printed file (include lines and clauses as printed).
func c19EmitFile(o *out, st map[string]int, route string, c *c19Case, text string) (incl, clauses []string, ok bool) {
	incl, clauses, ok = c19ReadPrinted(text, c.secs)
	if !ok {
		// a printed file that cannot be read back section by section is reported, never dropped
		o.emit("accept-file "+route+" unreadable "+hexs(text), "ok")
		return
	}
	req := append([]string{"accept-file", route}, c19HexList(incl)...)
	req = append(req, itoa(len(c.secs)))
	for k, s := range c.secs {
		kind := "g"
		if s.kind == 't' {
			kind = "t"
		}
		cl := "-"
		if clauses[k] != "-" {
			cl = hexs(clauses[k])
		}
		req = append(req, kind, itoa(s.val), cl)
	}
	o.emit(strings.Join(req, " "), "ok")
	st[route+"_files_judged"]++
	return
}

// c19PrintableList: the include lines can be read back line by line.
func c19PrintableList(l []string) bool {
	for _, p := range l {
		if strings.ContainsAny(p, "\n\r") {
			return false
		}
	}
	return true
}

// c19RunIR: hand-built file, the pass called directly — twice.
func c19RunIR(o *out, st map[string]int, c *c19Case) {
	c19Classify(st, "ir", c)
	file := c19BuildIR(c)
	status := c19RunPass(pass.IncludeTextFlagHeader, file)
	after := append([]string{}, file.Includes...)
	c19EmitPass(o, c.incl, c.secs, status, after)
	if status != "ok" {
		return
	}
	acc := append([]string{"accept-incl"}, c19HexList(after)...)
	acc = append(acc, itoa(len(c.secs)))
	for _, s := range c.secs {
		acc = append(acc, attr.Attribute(s.val).Asm())
	}
	o.emit(strings.Join(acc, " "), "ok")
	// the pass once more on its own output (pass.Compile executed twice on one file)
	status2 := c19RunPass(pass.IncludeTextFlagHeader, file)
	c19EmitPass(o, after, c.secs, status2, append([]string{}, file.Includes...))
	st["ir_second_runs"]++
	if !c19PrintableList(file.Includes) {
		return
	}
	if text, ps := c19Print(file); ps == "ok" {
		c19EmitFile(o, st, "ir", c, text)
	} else {
		o.emit("accept-file ir print-"+ps, "ok")
	}
}

// c19RunCtx: build.Context, user includes, pass.Compile, printer. Returns the printed text ("" if none).
func c19RunCtx(o *out, st map[string]int, r *rng, route string, c *c19Case) (string, []string, []string) {
	c19Classify(st, route, c)
	file, err := c19BuildCtx(c, r)
	if err != nil {
		st[route+"_build_error"]++
		return "", nil, nil
	}
	status := c19RunPass(pass.Compile.Execute, file)
	c19EmitPass(o, c.incl, c.secs, status, append([]string{}, file.Includes...))
	if status != "ok" {
		st[route+"_compile_"+status]++
		return "", nil, nil
	}
	st[route+"_compiled"]++
	text, ps := c19Print(file)
	if ps != "ok" {
		o.emit("accept-file "+route+" print-"+ps, "ok")
		return "", nil, nil
	}
	incl, clauses, ok := c19EmitFile(o, st, route, c, text)
	if !ok {
		return "", nil, nil
	}
	return text, incl, clauses
}

// c19AsmSafe: an include path the measured route can materialise as a file below the scratch include directory
// without it resolving to another entry's file (or to the toolchain header).
func c19AsmSafe(p string) bool {
	if p == "" || strings.ContainsAny(p, "\"\\\n\r\x00") || strings.HasPrefix(p, "/") || strings.HasSuffix(p, "/") {
		return false
	}
	if filepath.Clean(p) != p {
		return false
	}
	for _, seg := range strings.Split(p, "/") {
		if seg == "." || seg == ".." || seg == "" {
			return false
		}
	}
	return true
}

// c19GenAsmIncludes: a list for the measured route: safe, pairwise distinct paths, the header at most once, and no
// path that is a directory of another.
func c19GenAsmIncludes(r *rng, st map[string]int) []string {
	for tries := 0; tries < 50; tries++ {
		raw := c19GenIncludes(r, map[string]int{})
		if len(raw) > 12 {
			raw = raw[:12]
		}
		var l []string
		seen := map[string]bool{}
		ok := true
		for _, p := range raw {
			if p != c19Header && !c19AsmSafe(p) {
				continue
			}
			if seen[p] {
				continue
			}
			seen[p] = true
			l = append(l, p)
		}
		for _, p := range l {
			for _, q := range l {
				if p != q && strings.HasPrefix(q, p+"/") {
					ok = false
				}
			}
		}
		if ok {
			return l
		}
	}
	return nil
}

type c19Asm struct {
	dir, include, tool string
	seq                int
}

var (
	c19ReSym = regexp.MustCompile(`^(\S+) S[A-Z]+ (.*)size=\d+`)
	c19ReHex = regexp.MustCompile(`^\t0x[0-9a-f]{4,} ((?:[0-9a-f]{2} )+)`)
)

// measure: write the user headers and the printed text (plus the probes), assemble, read the listing.
func (a *c19Asm) measure(o *out, st map[string]int, c *c19Case, text string, incl, clauses []string) error {
	a.seq++
	base := filepath.Join(a.dir, fmt.Sprintf("case%d", a.seq))
	inc, src, cwd := filepath.Join(base, "inc"), filepath.Join(base, "src"), filepath.Join(base, "cwd")
	if os.Getenv("AVOH_KEEP") == "" {
		defer os.RemoveAll(base)
	}
	for _, d := range []string{inc, src, cwd} {
		if err := os.MkdirAll(d, 0o755); err != nil {
			return err
		}
	}
	// every include line of the PRINTED text except exactly "textflag.h" gets a user header that defines no flag macro
	for k, p := range incl {
		if p == c19Header {
			continue
		}
		if !c19AsmSafe(p) {
			st["asm_skipped_unsafe_path"]++
			return nil
		}
		full := filepath.Join(inc, p)
		if err := os.MkdirAll(filepath.Dir(full), 0o755); err != nil {
			st["asm_skipped_fs"]++
			return nil
		}
		if err := os.WriteFile(full, []byte(fmt.Sprintf("// user header of the C19 check\n#define C19_USER_%d %d\n", k, k+1)), 0o644); err != nil {
			st["asm_skipped_fs"]++
			return nil
		}
	}
	var probes strings.Builder
	nprobe := 0
	for _, cl := range clauses {
		if cl == "-" {
			continue
		}
		fmt.Fprintf(&probes, "DATA c19probe<>+%d(SB)/8, $(%s)\n", 8*nprobe, cl)
		nprobe++
	}
	full := text
	if nprobe > 0 {
		full += "\n" + probes.String() + fmt.Sprintf("GLOBL c19probe<>(SB), 16, $%d\n", 8*nprobe)
	}
	spath, opath := filepath.Join(src, "f.s"), filepath.Join(src, "f.o")
	run := func(body string) (string, error) {
		if err := os.WriteFile(spath, []byte(body), 0o644); err != nil {
			return "", err
		}
		cmd := exec.Command(a.tool, "-S", "-I", a.include, "-I", inc, "-p", "p", "-o", opath, spath)
		cmd.Dir = cwd
		cmd.Env = append(os.Environ(), "GOOS=linux", "GOARCH=amd64")
		msg, err := cmd.CombinedOutput()
		if err != nil {
			if _, isExit := err.(*exec.ExitError); !isExit {
				return "", err
			}
			return string(msg), fmt.Errorf("rejected")
		}
		return string(msg), nil
	}
	listing, err := run(full)
	status := "ok"
	if err != nil {
		if err.Error() != "rejected" {
			return err
		}
		first := strings.SplitN(strings.TrimSpace(listing), "\n", 2)[0]
		first = strings.ReplaceAll(first, base, "")
		status = "rejected:" + hexs(first)
		st["asm_rejected"]++
	} else {
		st["asm_accepted"]++
	}
	// the listing: per symbol its flag words; the probe symbol's bytes
	dupok := map[string]bool{}
	seen := map[string]bool{}
	var probe []byte
	cur := ""
	for _, l := range strings.Split(listing, "\n") {
		if m := c19ReSym.FindStringSubmatch(l); m != nil {
			cur = m[1]
			if i := strings.LastIndex(cur, "."); i >= 0 {
				cur = cur[i+1:]
			}
			seen[cur] = true
			dupok[cur] = strings.Contains(" "+m[2], " dupok ")
			continue
		}
		if cur == "c19probe" {
			if m := c19ReHex.FindStringSubmatch(l); m != nil {
				for _, h := range strings.Fields(m[1]) {
					b, _ := strconv.ParseUint(h, 16, 8)
					probe = append(probe, byte(b))
				}
			}
		}
	}
	req := append([]string{"accept-asmfile", "asm", status}, c19HexList(incl)...)
	req = append(req, itoa(len(c.secs)))
	np := 0
	for k, s := range c.secs {
		kind := "g"
		if s.kind == 't' {
			kind = "t"
		}
		meas, dk := "-", "-"
		if status == "ok" {
			if clauses[k] == "-" {
				meas = "0" // no clause on the TEXT line: the assembler's default
			} else {
				if 8*np+8 <= len(probe) {
					meas = strconv.FormatUint(binary.LittleEndian.Uint64(probe[8*np:]), 10)
				}
				np++
			}
			if name := c19SecName(k, s); seen[name] {
				dk = "0"
				if dupok[name] {
					dk = "1"
				}
			}
		}
		req = append(req, kind, itoa(s.val), meas, dk)
		st["asm_sections"]++
		if c19Named(s.val) {
			st["asm_sections_named"]++
		}
	}
	o.emit(strings.Join(req, " "), "ok")
	return nil
}

// c19ParseCase decodes a corpus line: `c19file <ir|ctx|asm> <n> <hex path>… <m> (<t|g|G> <value>)…`.
func c19ParseCase(line string) (*c19Case, bool) {
	fs := strings.Fields(line)
	if len(fs) < 4 || fs[0] != "c19file" {
		return nil, false
	}
	c := &c19Case{route: fs[1]}
	i := 2
	n, err := strconv.Atoi(fs[i])
	if err != nil || n < 0 || i+1+n >= len(fs) {
		return nil, false
	}
	for _, h := range fs[i+1 : i+1+n] {
		s, err := unhexs(h)
		if err != nil {
			return nil, false
		}
		c.incl = append(c.incl, s)
	}
	i += 1 + n
	m, err := strconv.Atoi(fs[i])
	if err != nil || m < 0 || i+1+2*m != len(fs) {
		return nil, false
	}
	for k := 0; k < m; k++ {
		kind, vs := fs[i+1+2*k], fs[i+2+2*k]
		v, err := strconv.Atoi(vs)
		if err != nil || v < 0 || v > 0xffff || len(kind) != 1 || !strings.Contains("tgG", kind) {
			return nil, false
		}
		c.secs = append(c.secs, c19Sec{kind[0], v})
	}
	return c, true
}

// c19FileStreams runs the three routes: n hand-built files, n/4 context files, nasm assembled files; or, with a
// corpus file (corpus/C19/*.txt), exactly the recorded cases.
func c19FileStreams(o *out, f *stdFlags, work string, nasm int, st map[string]int) error {
	r := newRng(*f.seed ^ 0xc19f11e)
	absWork, err := filepath.Abs(work)
	if err != nil {
		return err
	}
	a := &c19Asm{dir: filepath.Join(absWork, "c19asm"), include: filepath.Join(goroot(), "pkg", "include")}
	toolOut, err := exec.Command("go", "tool", "-n", "asm").Output()
	if err != nil {
		return fmt.Errorf("go tool -n asm: %v", err)
	}
	a.tool = strings.TrimSpace(string(toolOut))
	os.RemoveAll(a.dir)
	runAsm := func(c *c19Case) error {
		text, incl, clauses := c19RunCtx(o, st, r, "asm", c)
		if text == "" {
			return nil
		}
		return a.measure(o, st, c, text, incl, clauses)
	}
	if lines, isCorpus := c19CorpusLines(*f.replay); isCorpus {
		for _, l := range lines {
			c, ok := c19ParseCase(l)
			if !ok {
				continue
			}
			st["corpus_cases"]++
			switch c.route {
			case "ir":
				c19RunIR(o, st, c)
			case "ctx":
				c19RunCtx(o, st, r, "ctx", c)
			case "asm":
				if err := runAsm(c); err != nil {
					return err
				}
			}
		}
		return nil
	}
	for k := 0; k < *f.n; k++ {
		c := &c19Case{route: "ir", incl: c19GenIncludes(r, st), secs: c19GenSections(r, 8)}
		c19RunIR(o, st, c)
	}
	for k := 0; k < *f.n/4; k++ {
		c := &c19Case{route: "ctx", incl: c19GenIncludes(r, st), secs: c19GenSections(r, 6)}
		for i, p := range c.incl {
			// the printed include lines are read back line by line
			c.incl[i] = strings.NewReplacer("\n", "", "\r", "").Replace(p)
		}
		c19RunCtx(o, st, r, "ctx", c)
	}
	for k := 0; k < nasm; k++ {
		c := &c19Case{route: "asm", incl: c19GenAsmIncludes(r, st), secs: c19GenSections(r, 5)}
		if k%4 == 0 {
			// always a good share of the critical cross: a section that needs the header behind near misses only
			var l []string
			for _, p := range c.incl {
				if p != c19Header {
					l = append(l, p)
				}
			}
			for tries := 0; tries < 20 && len(l) == 0; tries++ {
				if s, _ := c19NearMiss(r); c19AsmSafe(s) {
					l = append(l, s)
				}
			}
			c.incl = l
			named, _ := c19NamedBits()
			if len(named) > 0 {
				c.secs = append(c.secs, c19Sec{"tg"[r.intn(2)], c19Subset(r, named)})
			}
		}
		if err := runAsm(c); err != nil {
			return err
		}
	}
	os.RemoveAll(a.dir)
	return nil
}

// c19CorpusLines: the lines of a corpus file; a replay file written by ./check (JSON) is not a corpus (the
// recorded run is regenerated from its seed and tier instead).
func c19CorpusLines(path string) ([]string, bool) {
	if path == "" {
		return nil, false
	}
	data, err := os.ReadFile(path)
	if err != nil || strings.HasPrefix(strings.TrimSpace(string(data)), "{") {
		return nil, false
	}
	lines, err := readLines(path)
	if err != nil {
		return nil, false
	}
	return lines, true
}
