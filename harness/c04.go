package main

// C04 — declared reads/writes of every instruction form cover what the CPU does.
//
// avoh c04: instantiates form rows of the real table with concrete physical
// registers through x86.VerifBuild, takes what avo DECLARES for the instance
// (InputRegisters / OutputRegisters after ZeroExtend32BitOutputs), prints the
// instruction with the real avo printer into one-instruction assembly
// functions, builds them into throw-away child programs under -work, runs
// them from randomised full register states (child: c04child/runner.go.txt)
// and emits, per instance, one `accept-rw` request carrying declared and
// observed sets; the judgement (observed ⊆ declared, lane-wise) is the Lean
// function `covers` answered by drv_c04.

import (
	"bufio"
	"bytes"
	_ "embed"
	"encoding/json"
	"fmt"
	"os"
	"os/exec"
	"path/filepath"
	"regexp"
	"sort"
	"strconv"
	"strings"
	"sync"
	"syscall"
	"time"

	"github.com/mmcloughlin/avo/attr"
	"github.com/mmcloughlin/avo/ir"
	"github.com/mmcloughlin/avo/operand"
	"github.com/mmcloughlin/avo/pass"
	"github.com/mmcloughlin/avo/printer"
	"github.com/mmcloughlin/avo/reg"
	"github.com/mmcloughlin/avo/x86"
)

//go:embed c04child/runner.go.txt
var c04RunnerSrc string

//go:embed c04child/tramp_amd64.s.txt
var c04TrampSrc string

// ---------------------------------------------------------------------------
// Host ISA
// ---------------------------------------------------------------------------

// c04ISAFlag maps avo's ISA names to /proc/cpuinfo flag names.
var c04ISAFlag = map[string]string{
	"ADX": "adx", "AES": "aes", "AVX": "avx", "AVX2": "avx2", "AVX512BITALG": "avx512_bitalg", "AVX512BW": "avx512bw",
	"AVX512CD": "avx512cd", "AVX512DQ": "avx512dq", "AVX512ER": "avx512er", "AVX512F": "avx512f", "AVX512IFMA": "avx512ifma",
	"AVX512VBMI": "avx512vbmi", "AVX512VBMI2": "avx512_vbmi2", "AVX512VL": "avx512vl", "AVX512VNNI": "avx512_vnni",
	"AVX512VPOPCNTDQ": "avx512_vpopcntdq", "BMI": "bmi1", "BMI2": "bmi2", "CLFLUSH": "clflush", "CLFLUSHOPT": "clflushopt",
	"CMOV": "cmov", "CPUID": "cpuid", "F16C": "f16c", "FMA3": "fma", "GFNI": "gfni", "LZCNT": "abm", "MMX+": "sse",
	"MONITOR": "monitor", "MOVBE": "movbe", "PCLMULQDQ": "pclmulqdq", "POPCNT": "popcnt", "RDRAND": "rdrand", "RDSEED": "rdseed",
	"RDTSC": "tsc", "RDTSCP": "rdtscp", "SHA": "sha_ni", "SSE": "sse", "SSE2": "sse2", "SSE3": "pni", "SSE4.1": "sse4_1",
	"SSE4.2": "sse4_2", "SSSE3": "ssse3", "VAES": "vaes", "VPCLMULQDQ": "vpclmulqdq",
}

func c04HostFlags() (map[string]bool, error) {
	data, err := os.ReadFile("/proc/cpuinfo")
	if err != nil {
		return nil, err
	}
	for _, l := range strings.Split(string(data), "\n") {
		if strings.HasPrefix(l, "flags") {
			m := map[string]bool{}
			if i := strings.Index(l, ":"); i >= 0 {
				for _, f := range strings.Fields(l[i+1:]) {
					m[f] = true
				}
			}
			return m, nil
		}
	}
	return nil, fmt.Errorf("no flags line in /proc/cpuinfo")
}

// ---------------------------------------------------------------------------
// Deny-list (opcodes never executed) with reasons
// ---------------------------------------------------------------------------

var c04Deny = []struct {
	re     *regexp.Regexp
	reason string
}{
	{regexp.MustCompile(`^(JMP|CALL|RET|RETF[LQW])$`), "control transfer"},
	{regexp.MustCompile(`^(INT|SYSCALL|UD2)$`), "trap / system call / undefined instruction"},
	{regexp.MustCompile(`^(MONITOR|MWAIT)$`), "privileged or unavailable in this environment"},
	{regexp.MustCompile(`^(PUSH|POP)[QW]$`), "stack pointer writer: RSP is not part of avo's register claim and the test function must return"},
	{regexp.MustCompile(`^V?LDMXCSR$`), "loads MXCSR from memory: reserved bits fault, unmasked exceptions would alter later runs"},
}

func c04Denied(row *formRow) string {
	for _, t := range row.TypeNames {
		if t == "rel8" || t == "rel32" {
			return "control transfer (relative branch operand)"
		}
	}
	for _, d := range c04Deny {
		if d.re.MatchString(row.Opcode) {
			return d.reason
		}
	}
	return ""
}

// ---------------------------------------------------------------------------
// Instances
// ---------------------------------------------------------------------------

type c04GPCons struct {
	Reg int
	And uint64
	Or  uint64
	Ptr bool
	// ZeroEvery > 0: the register is 0 in every state whose number is a multiple of it (sources of BSF/BSR)
	ZeroEvery int `json:",omitempty"`
	// Tie > 0: in every state whose number is a multiple of TieEvery the register is a copy of GP[Tie-1]
	// (CMPXCHG: destination equal to the accumulator, the comparison succeeds)
	Tie      int `json:",omitempty"`
	TieEvery int `json:",omitempty"`
}

type c04VecCons struct {
	Reg  int
	Elem int
	And  uint64
	Or   uint64
}

type c04PlanInst struct {
	Fn      int
	ID      string
	GP      []c04GPCons
	Vec     []c04VecCons
	MemFill int
	// MemAnd != 0: every 8 bytes of the scratch memory are ANDed with it (small shift counts in memory)
	MemAnd uint64 `json:",omitempty"`
	// MemZeroEvery > 0: scratch memory is all zero in states whose number is a multiple of it
	MemZeroEvery int `json:",omitempty"`
	DeclW   map[string]uint8
	DeclR   map[string]uint8
}

type c04Plan struct {
	Seed   uint64
	States int
	Insts  []c04PlanInst
}

type c04Result struct {
	I      int
	W      map[string]uint8
	R      map[string]uint8
	FlagsW bool
	FlagsR bool
	MemW   bool
	Noisy  bool
	Runs   int
	Wit    []string
}

type c04Inst struct {
	id     string
	row    *formRow // the row the operands were generated for
	m      *formRow // the row x86.build selected
	sfx    []string
	ops    []operand.Op
	inst   *ir.Instruction
	text   string
	plan   c04PlanInst
	declR  reg.MaskSet
	declW  reg.MaskSet
	usedef string
	desc   string // "<opcode.suffixes> <types> <operands>" (for accept-build / accept-exec lines)
	res    *c04Result
	status string // "", "asm-rejected", "crashed: …"
	// alias != nil: an instance in which several entries of the row share one register (c04alias.go);
	// noMeasure != "": why it is judged on its declared sets only and not executed
	alias     *c04AliasPlan
	noMeasure string
}

var c04GPName = [16]string{"AX", "CX", "DX", "BX", "SP", "BP", "SI", "DI", "R8", "R9", "R10", "R11", "R12", "R13", "R14", "R15"}

// c04ChoiceOtherView: register choice in which two r8 operands are AL/AH-style views of one register.
const c04ChoiceOtherView = 77

func c04GP(i int, s reg.Spec) reg.Register {
	return reg.GeneralPurpose.Lookup(reg.Index(i), s)
}

func c04Vec(i int, s reg.Spec) reg.Register { return reg.Vector.Lookup(reg.Index(i), s) }

func c04K(i int) reg.Register { return reg.Opmask.Lookup(reg.Index(i), reg.S64) }

// c04LocName names the full physical register of an ID the way the child does.
func c04LocName(id reg.ID) string {
	switch id.Kind() {
	case reg.KindGP:
		return c04GPName[int(id.Index())&15]
	case reg.KindVector:
		return "Z" + itoa(int(id.Index()))
	case reg.KindOpmask:
		return "K" + itoa(int(id.Index()))
	}
	return "?" + itoa(int(id))
}

func c04LocID(name string) (reg.ID, bool) {
	for i, n := range c04GPName {
		if n == name {
			return c04GP(i, reg.S64).ID(), true
		}
	}
	if len(name) >= 2 {
		n, err := strconv.Atoi(name[1:])
		if err == nil {
			switch name[0] {
			case 'Z':
				if n < 32 {
					return c04Vec(n, reg.S512).ID(), true
				}
			case 'K':
				if n < 8 {
					return c04K(n).ID(), true
				}
			}
		}
	}
	return 0, false
}

func c04NamedMasks(s reg.MaskSet) map[string]uint8 {
	m := map[string]uint8{}
	for id, mask := range s {
		m[c04LocName(id)] |= uint8(mask)
	}
	return m
}

func c04MaskSetOf(m map[string]uint8) (reg.MaskSet, error) {
	s := reg.NewEmptyMaskSet()
	for n, mask := range m {
		id, ok := c04LocID(n)
		if !ok {
			return nil, fmt.Errorf("unknown location %q", n)
		}
		s[id] |= uint16(mask)
	}
	return s, nil
}

type c04Pools struct {
	r    *rng
	gp   []int
	vec  []int
	k    []int
	used map[string]bool
}

func (p *c04Pools) take(pool *[]int) (int, bool) {
	if len(*pool) == 0 {
		return 0, false
	}
	x := (*pool)[0]
	*pool = (*pool)[1:]
	return x, true
}

func c04Shuffle(r *rng, xs []int) []int {
	out := append([]int{}, xs...)
	for i := len(out) - 1; i > 0; i-- {
		j := r.intn(i + 1)
		out[i], out[j] = out[j], out[i]
	}
	return out
}

func c04IsEVEX(row *formRow) bool {
	for _, isa := range row.ISAs {
		if strings.HasPrefix(isa, "AVX512") {
			return true
		}
	}
	return false
}

var c04DivRe = regexp.MustCompile(`^I?DIV([BWLQ])$`)
var c04BitTestRe = regexp.MustCompile(`^BT[CRS]?[WLQ]$`)

// c04MatchedForm returns the first form row of the opcode matching suffixes and operands (what x86.build selects).
func c04MatchedForm(db *formsDB, opcode string, sfx []string, ops []operand.Op) *formRow {
	for _, ix := range db.byOpcode[opcode] {
		f := &db.rows[ix]
		okS := false
		for _, s := range f.Suffixes {
			if strings.Join(s, ".") == strings.Join(sfx, ".") {
				okS = true
			}
		}
		if !okS || int(f.Arity) != len(ops) {
			continue
		}
		ok := true
		k := 0
		for _, o := range f.Operands {
			if o.Implicit {
				continue
			}
			if !x86.VerifMatch(o.Type, ops[k]) {
				ok = false
				break
			}
			k++
		}
		if ok {
			return f
		}
	}
	return nil
}

// c04EncUseDef encodes an instruction's operands with the actions of its form (the `usedef` request of C02).
func c04EncUseDef(f *formRow, ops []operand.Op) string {
	parts := []string{b01(f.Features&featCancelling != 0), itoa(len(f.Operands))}
	k := 0
	for _, o := range f.Operands {
		var op operand.Op
		if o.Implicit {
			op = x86.VerifImplReg(o.Type)
		} else {
			op = ops[k]
			k++
		}
		act := itoa(int(o.Action))
		switch v := op.(type) {
		case reg.Register:
			parts = append(parts, act, "R", encReg(v), b01(v.Kind() == reg.KindGP && v.Size() == 4)) // 32-bit GP register, decided from kind and size (not operand.IsR32)
		case operand.Mem:
			parts = append(parts, act, "M", encRegs(operand.Registers(v)))
		default:
			parts = append(parts, act, "O")
		}
	}
	return strings.Join(parts, " ")
}

// c04EncBuildRW encodes the form row (action, implicit per entry), its implicit registers and the explicit operands
// separately: the `build-rw` request answered by the Lean model of form.build / InputRegisters / OutputRegisters.
func c04EncBuildRW(f *formRow, ops []operand.Op) string {
	enc := func(op operand.Op) string {
		switch v := op.(type) {
		case reg.Register:
			return "0 R " + encReg(v) + " " + b01(v.Kind() == reg.KindGP && v.Size() == 4)
		case operand.Mem:
			return "0 M " + encRegs(operand.Registers(v))
		}
		return "0 O"
	}
	parts := []string{b01(f.Features&featCancelling != 0), itoa(len(f.Operands))}
	var impls []string
	for _, o := range f.Operands {
		parts = append(parts, itoa(int(o.Action)), b01(o.Implicit))
		if o.Implicit {
			impls = append(impls, enc(x86.VerifImplReg(o.Type)))
		}
	}
	parts = append(parts, itoa(len(impls)))
	parts = append(parts, impls...)
	parts = append(parts, itoa(len(ops)))
	for _, op := range ops {
		parts = append(parts, enc(op))
	}
	return strings.Join(parts, " ")
}

// c04Instantiate builds instance `choice` of form row with suffix set sfxIdx.
// choice 0: low registers, plain memory operands; 1: high registers (R8+,
// X8+/X16+ for EVEX), indexed memory; 2: the same register twice where two
// operands have the same register type, 8-bit high registers; >=3: random.
func c04Instantiate(db *formsDB, seed uint64, row *formRow, choice, sfxIdx int) (*c04Inst, string) {
	r := newRng(seed ^ uint64(row.Index)*0x9E3779B97F4A7C15 ^ uint64(choice)<<48 ^ uint64(sfxIdx)<<56)
	in := &c04Inst{id: fmt.Sprintf("f%d.c%d.s%d", row.Index, choice, sfxIdx), row: row}
	if len(row.Suffixes) > 0 {
		in.sfx = row.Suffixes[sfxIdx%len(row.Suffixes)]
	}
	var alias *c04AliasPlan
	if choice >= c04ChoiceAliasBase {
		plans := c04AliasPlans(row)
		if choice-c04ChoiceAliasBase >= len(plans) {
			return nil, "no such alias plan"
		}
		alias = &plans[choice-c04ChoiceAliasBase]
		in.alias = alias
	}
	// registers that the form fixes (implicit operands and fixed-register operand types) are kept out of the pools
	fixedGP := map[int]bool{4: true}
	fixedVec := map[int]bool{}
	for i, o := range row.Operands {
		var fr reg.Register
		if o.Implicit {
			fr = x86.VerifImplReg(o.Type)
		} else {
			switch row.TypeNames[i] {
			case "al":
				fr = reg.AL
			case "cl":
				fr = reg.CL
			case "ax":
				fr = reg.AX
			case "eax":
				fr = reg.EAX
			case "rax":
				fr = reg.RAX
			case "xmm0":
				fr = reg.X0
			}
		}
		if fr != nil {
			if p, ok := fr.(reg.Physical); ok {
				switch fr.Kind() {
				case reg.KindGP:
					fixedGP[int(p.PhysicalIndex())] = true
				case reg.KindVector:
					fixedVec[int(p.PhysicalIndex())] = true
				}
			}
		}
	}
	evex := c04IsEVEX(row)
	var gpc, vecc []int
	switch choice {
	case 0:
		gpc = []int{0, 1, 2, 3, 5, 6, 7}
		vecc = []int{0, 1, 2, 3, 4, 5, 6, 7}
	case 1:
		gpc = []int{8, 9, 10, 11, 12, 13, 14, 15}
		if evex {
			vecc = []int{16, 17, 18, 19, 20, 21, 22, 23, 24, 25, 26, 27, 28, 29, 30, 31}
		} else {
			vecc = []int{8, 9, 10, 11, 12, 13, 14, 15}
		}
	default:
		gpc = []int{0, 1, 2, 3, 5, 6, 7, 8, 9, 10, 11, 12, 13, 14, 15}
		for i := 0; i < 16; i++ {
			vecc = append(vecc, i)
		}
		if evex {
			for i := 16; i < 32; i++ {
				vecc = append(vecc, i)
			}
		}
	}
	if choice >= 2 {
		for _, t := range row.TypeNames {
			if t == "r8" {
				// AH..BH cannot be encoded together with a REX prefix: stay below R8 (the assembler would
				// silently encode SPL..DIL instead; avo rejects that only for register operands)
				gpc = []int{0, 1, 2, 3, 5, 6, 7}
			}
		}
	}
	filter := func(xs []int, bad map[int]bool) []int {
		var out []int
		for _, x := range xs {
			if !bad[x] {
				out = append(out, x)
			}
		}
		return out
	}
	p := &c04Pools{r: r, gp: c04Shuffle(r, filter(gpc, fixedGP)), vec: c04Shuffle(r, filter(vecc, fixedVec)), k: c04Shuffle(r, []int{1, 2, 3, 4, 5, 6, 7})}
	// the register several entries share in an alias instance: the one the row fixes, or one taken out of the pool
	aliasIdx := -1
	if alias != nil {
		aliasIdx = alias.fixed
		if aliasIdx < 0 {
			pool := &p.gp
			switch alias.kind {
			case reg.KindVector:
				pool = &p.vec
			case reg.KindOpmask:
				pool = &p.k
			}
			for j, g := range *pool {
				if !alias.low4 || g < 4 {
					aliasIdx = g
					*pool = append((*pool)[:j:j], (*pool)[j+1:]...)
					break
				}
			}
			if aliasIdx < 0 {
				return nil, "register pool exhausted"
			}
		}
	}
	// special implicit-register constraints
	memfill := 0
	switch {
	case row.Opcode == "XGETBV":
		in.plan.GP = append(in.plan.GP, c04GPCons{Reg: 1, And: 1}) // ECX selects the XCR: only 0 and 1 exist
	case row.Opcode == "XLAT":
		in.plan.GP = append(in.plan.GP, c04GPCons{Reg: 3, And: 0xfc0, Ptr: true}) // table at RBX, index AL
	case strings.Contains(row.Opcode, "MASKMOV") && strings.HasSuffix(row.Opcode, "U"):
		in.plan.GP = append(in.plan.GP, c04GPCons{Reg: 7, And: 0xfc0, Ptr: true}) // MASKMOVDQU stores at RDI
	}
	divW := 0
	if m := c04DivRe.FindStringSubmatch(row.Opcode); m != nil {
		divW = map[string]int{"B": 8, "W": 16, "L": 32, "Q": 64}[m[1]]
		// quotient must fit: high half of the dividend < 16 <= 2^(n-2) <= divisor < 2^(n-1)
		if divW == 8 {
			in.plan.GP = append(in.plan.GP, c04GPCons{Reg: 0, And: ^uint64(0xf000)})
		} else {
			full := ^uint64(0)
			if divW < 64 {
				full = uint64(1)<<uint(divW) - 1
			}
			in.plan.GP = append(in.plan.GP, c04GPCons{Reg: 2, And: ^(full &^ 0xf)})
		}
		memfill = 1
	}
	gpSlot := func(rg reg.Register) int { return int(rg.(reg.Physical).PhysicalIndex()) }
	newGP := func(s reg.Spec) reg.Register {
		i, ok := p.take(&p.gp)
		if !ok {
			return nil
		}
		return c04GP(i, s)
	}
	newVec := func(s reg.Spec) reg.Register {
		i, ok := p.take(&p.vec)
		if !ok {
			return nil
		}
		return c04Vec(i, s)
	}
	// memWith: forceBase / forceIndex != nil: the address register is given (alias instances)
	memWith := func(vecIndex reg.Spec, elem int, forceBase, forceIndex reg.Register) operand.Op {
		b := forceBase
		if b == nil {
			b = newGP(reg.S64)
		}
		if b == nil {
			return nil
		}
		in.plan.GP = append(in.plan.GP, c04GPCons{Reg: gpSlot(b), And: 0xfc0, Ptr: true})
		m := operand.Mem{Base: b, Disp: pick(r, []int{0, 0, 64, 128})}
		if vecIndex != 0 {
			x := forceIndex
			if x == nil {
				x = newVec(vecIndex)
			}
			if x == nil {
				return nil
			}
			in.plan.Vec = append(in.plan.Vec, c04VecCons{Reg: int(x.(reg.Physical).PhysicalIndex()), Elem: elem, And: 0x3f})
			m.Index = x
			m.Scale = pick(r, []uint8{1, 2, 4, 8})
		} else if forceIndex != nil || choice == 1 || (choice >= 3 && r.chance(1, 2)) {
			x := forceIndex
			if x == nil {
				x = newGP(reg.S64)
			}
			if x == nil {
				return nil
			}
			in.plan.GP = append(in.plan.GP, c04GPCons{Reg: gpSlot(x), And: 0xc0})
			m.Index = x
			m.Scale = pick(r, []uint8{1, 2, 4, 8})
		}
		return m
	}
	mem := func(vecIndex reg.Spec, elem int) operand.Op { return memWith(vecIndex, elem, nil, nil) }
	prevByType := map[string]reg.Register{}
	sameUsed := false
	for _, t := range row.TypeNames {
		if strings.HasPrefix(t, "vm") {
			sameUsed = true // gathers fault (#UD) when destination, mask and index registers coincide
		}
	}
	for i, od := range row.Operands {
		if od.Implicit {
			continue
		}
		t := row.TypeNames[i]
		var op operand.Op
		aliased := alias != nil && alias.has(i) && c04FixedOfType(t) == nil // (a fixed-register type is the shared register already)
		if aliased {
			t = "alias:" + t
		}
		regOf := func(mk func() reg.Register) operand.Op {
			if choice == c04ChoiceOtherView && t == "r8" {
				// the low and the high byte of ONE of AX..BX: same identity, different bytes
				if pr, ok := prevByType[t]; ok {
					if pr.Mask() == reg.S8L.Mask() {
						return c04GP(int(pr.ID().Index()), reg.S8H)
					}
					return c04GP(int(pr.ID().Index()), reg.S8L)
				}
				g := r.intn(4)
				var x reg.Register
				if r.chance(1, 2) {
					x = c04GP(g, reg.S8L)
				} else {
					x = c04GP(g, reg.S8H)
				}
				prevByType[t] = x
				for j, q := range p.gp {
					if q == g {
						p.gp = append(p.gp[:j:j], p.gp[j+1:]...)
						break
					}
				}
				return x
			}
			if choice == 2 && !sameUsed {
				if pr, ok := prevByType[t]; ok {
					sameUsed = true
					return pr
				}
			}
			x := mk()
			if x == nil {
				return nil
			}
			if _, ok := prevByType[t]; !ok {
				prevByType[t] = x
			}
			return x
		}
		switch t {
		case "1":
			op = operand.U8(1)
		case "3":
			op = operand.U8(3)
		case "imm2u":
			op = operand.U8(r.intn(4))
		case "imm8":
			// shift counts, lane selectors, alignment offsets: a small count (below every element width) in the
			// first choice, a medium one in the second, any byte in the third
			switch {
			case choice == 0 || (choice >= 3 && r.chance(1, 3)):
				op = operand.U8(uint8(1 + r.intn(7)))
			case choice == 1 || (choice >= 3 && r.chance(1, 2)):
				op = operand.U8(uint8(r.intn(32)))
			default:
				op = operand.U8(uint8(r.u64()))
			}
		case "imm16":
			op = operand.U16(uint16(r.u64()))
		case "imm32":
			op = operand.U32(uint32(r.u64()) & 0x7fffffff)
		case "imm64":
			op = operand.U64(r.u64())
		case "al":
			op = reg.AL
		case "cl":
			op = reg.CL
		case "ax":
			op = reg.AX
		case "eax":
			op = reg.EAX
		case "rax":
			op = reg.RAX
		case "xmm0":
			op = reg.X0
		case "r8":
			op = regOf(func() reg.Register {
				if choice == 2 || (choice >= 3 && r.chance(1, 3)) {
					// a high-byte register when one of AX..BX is free
					for j, g := range p.gp {
						if g < 4 {
							p.gp = append(p.gp[:j:j], p.gp[j+1:]...)
							return c04GP(g, reg.S8H)
						}
					}
				}
				return newGP(reg.S8L)
			})
		case "r16":
			op = regOf(func() reg.Register { return newGP(reg.S16) })
		case "r32":
			op = regOf(func() reg.Register { return newGP(reg.S32) })
		case "r64":
			op = regOf(func() reg.Register { return newGP(reg.S64) })
		case "xmm":
			op = regOf(func() reg.Register { return newVec(reg.S128) })
		case "ymm":
			op = regOf(func() reg.Register { return newVec(reg.S256) })
		case "zmm":
			op = regOf(func() reg.Register { return newVec(reg.S512) })
		case "k":
			op = regOf(func() reg.Register {
				i, ok := p.take(&p.k)
				if !ok {
					return nil
				}
				return c04K(i)
			})
		case "m", "m8", "m16", "m32", "m64", "m128", "m256", "m512":
			op = mem(0, 0)
		case "vm32x":
			op = mem(reg.S128, 4)
		case "vm64x":
			op = mem(reg.S128, 8)
		case "vm32y":
			op = mem(reg.S256, 4)
		case "vm64y":
			op = mem(reg.S256, 8)
		case "vm32z":
			op = mem(reg.S512, 4)
		case "vm64z":
			op = mem(reg.S512, 8)
		default:
			if !strings.HasPrefix(t, "alias:") {
				return nil, "operand type " + t
			}
		}
		if aliased {
			// this entry takes (its view of) the shared register
			t = strings.TrimPrefix(t, "alias:")
			if vs, el, isMem := c04MemShape(t); isMem {
				var fb, fi reg.Register
				role := alias.role[i]
				if role&c04RoleBase != 0 {
					fb = c04GP(aliasIdx, reg.S64)
				}
				if role&c04RoleIndex != 0 {
					if vs != 0 {
						fi = c04Vec(aliasIdx, vs)
					} else {
						fi = c04GP(aliasIdx, reg.S64)
					}
				}
				op = memWith(vs, el, fb, fi)
			} else if x := c04AliasView(alias.kind, aliasIdx, t, alias.high[i]); x != nil {
				op = x
			}
			if op == nil {
				return nil, "alias view of " + t
			}
		}
		if op == nil {
			return nil, "register pool exhausted"
		}
		in.ops = append(in.ops, op)
	}
	if alias != nil {
		in.noMeasure = c04AliasUnmeasurable(row, alias, divW != 0)
	}
	if divW != 0 && len(in.ops) > 0 {
		if d, ok := in.ops[0].(reg.Register); ok {
			sh := uint(0)
			if d.Mask() == reg.S8H.Mask() {
				sh = 8
			}
			full := ^uint64(0)
			if divW < 64 {
				full = uint64(1)<<uint(divW) - 1
			}
			and := ^((full &^ (full >> 1)) << sh) // clear the top bit of the n-bit divisor
			or := (uint64(1) << uint(divW-2)) << sh
			in.plan.GP = append(in.plan.GP, c04GPCons{Reg: gpSlot(d), And: and, Or: or})
		}
	}
	if c04BitTestRe.MatchString(row.Opcode) && len(in.ops) == 2 {
		// BT/BTC/BTR/BTS reg, mem: the register is a bit offset into memory of unbounded reach
		if d, ok := in.ops[0].(reg.Register); ok && operand.IsMem(in.ops[1]) {
			in.plan.GP = append(in.plan.GP, c04GPCons{Reg: gpSlot(d), And: 0x7ff})
		}
	}
	// --- states tuned so that conditional / saturating behaviour is exercised (declared reads become observable)
	if m := c04VecShiftRe.FindStringSubmatch(row.Opcode); m != nil && len(in.ops) >= 2 && choice != 1 {
		// PSLLQ x, x / VPSRLVD y, y, y …: the first operand holds the shift count(s); a count >= the element width
		// clears the result whatever the other source holds
		var and uint64
		switch {
		case m[2] == "": // one count in the low quadword
			and = map[string]uint64{"W": 0xf, "L": 0x1f, "D": 0x1f, "Q": 0x3f}[m[3]]
		case m[3] == "W":
			and = 0x000f000f000f000f
		case m[3] == "D":
			and = 0x0000001f0000001f
		default:
			and = 0x3f
		}
		switch c := in.ops[0].(type) {
		case reg.Register:
			if c.Kind() == reg.KindVector {
				in.plan.Vec = append(in.plan.Vec, c04VecCons{Reg: int(c.(reg.Physical).PhysicalIndex()), Elem: 8, And: and})
			}
		case operand.Mem:
			in.plan.MemAnd = and
		}
	}
	if c04BitScanRe.MatchString(row.Opcode) && len(in.ops) == 2 {
		// BSF/BSR leave the destination unchanged when the source is zero: every second state has a zero source
		switch c := in.ops[0].(type) {
		case reg.Register:
			in.plan.GP = append(in.plan.GP, c04GPCons{Reg: gpSlot(c), And: ^uint64(0), ZeroEvery: 2})
		case operand.Mem:
			in.plan.MemZeroEvery = 2
		}
	}
	if c04CmpxchgRe.MatchString(row.Opcode) && len(in.ops) == 2 {
		// CMPXCHG src, dst: in every second state dst equals the accumulator (the exchange happens, src is read)
		switch c := in.ops[1].(type) {
		case reg.Register:
			in.plan.GP = append(in.plan.GP, c04GPCons{Reg: gpSlot(c), And: ^uint64(0), Tie: 1, TieEvery: 2})
		case operand.Mem:
			memfill = 3
		}
	}
	switch row.Opcode {
	case "CMPXCHG8B":
		memfill = 4
	case "CMPXCHG16B":
		memfill = 5
	}
	in.plan.MemFill = memfill
	if alias != nil && in.noMeasure == "" {
		seen := map[int]bool{}
		for _, c := range in.plan.GP {
			if seen[c.Reg] {
				in.noMeasure = "two state constraints on one register"
			}
			seen[c.Reg] = true
		}
		seenV := map[int]bool{}
		for _, c := range in.plan.Vec {
			if seenV[c.Reg] {
				in.noMeasure = "two state constraints on one register"
			}
			seenV[c.Reg] = true
		}
	}
	types := strings.Join(row.explicitTypes(), ",")
	if types == "" {
		types = "-"
	}
	var opsTxt []string
	for _, op := range in.ops {
		opsTxt = append(opsTxt, strings.ReplaceAll(op.Asm(), " ", ""))
	}
	in.desc = strings.Join(append([]string{row.Opcode}, in.sfx...), ".") + " " + types + " " + strings.Join(append(opsTxt, "-")[:max(1, len(opsTxt))], ",")
	var inst *ir.Instruction
	err, panicked := safely(func() error {
		var e error
		inst, e = x86.VerifBuild(row.Opcode, in.sfx, in.ops)
		return e
	})
	if panicked {
		return in, "panic in build"
	}
	if err != nil || inst == nil {
		return nil, "rejected by build"
	}
	in.m = c04MatchedForm(db, row.Opcode, in.sfx, in.ops)
	if in.m == nil {
		return nil, "no matched form"
	}
	in.usedef = c04EncUseDef(in.m, in.ops)
	// The declared sets are those the instruction has AFTER the real compile pipeline (pass.Compile on a file
	// holding a function with this instruction and RET): whatever the pipeline does to an instruction's
	// inputs/outputs before liveness (today: ZeroExtend32BitOutputs) is included, and a pipeline that drops or
	// misplaces that step is seen.  The pipeline also applies the post-allocation checks (physical registers
	// only; no high-byte register in an instruction that needs a REX prefix).
	{
		file := ir.NewFile()
		fn := ir.NewFunction("f")
		fn.AddInstruction(inst)
		ret, rerr := x86.VerifBuild("RET", nil, nil)
		if rerr != nil || ret == nil {
			return nil, "cannot build RET"
		}
		fn.AddInstruction(ret)
		file.Sections = append(file.Sections, fn)
		cerr, cp := safely(func() error { return pass.Compile.Execute(file) })
		if cp {
			return in, "panic in pass.Compile: " + c04Short(cerr.Error())
		}
		if cerr != nil {
			return nil, "rejected by pass.Compile: " + c04Short(cerr.Error())
		}
	}
	var rin, rout []reg.Register
	perr, panicked := safely(func() error {
		rin, rout = inst.InputRegisters(), inst.OutputRegisters()
		return nil
	})
	if panicked {
		return in, "panic in InputRegisters/OutputRegisters: " + c04Short(perr.Error())
	}
	for _, x := range append(append([]reg.Register{}, rin...), rout...) {
		if x.ID().IsVirtual() {
			return nil, "virtual register"
		}
	}
	in.inst = inst
	in.declR = reg.NewMaskSetFromRegisters(rin)
	in.declW = reg.NewMaskSetFromRegisters(rout)
	in.plan.DeclR = c04NamedMasks(in.declR)
	in.plan.DeclW = c04NamedMasks(in.declW)
	in.plan.ID = in.id
	in.text = inst.OpcodeWithSuffixes()
	if len(inst.Operands) > 0 {
		var as []string
		for _, o := range inst.Operands {
			as = append(as, o.Asm())
		}
		in.text += " " + strings.Join(as, ", ")
	}
	return in, ""
}

var c04VecShiftRe = regexp.MustCompile(`^V?PS(LL|RL|RA)(V?)([WDLQ])$`)
var c04BitScanRe = regexp.MustCompile(`^BS[FR][WLQ]$`)
var c04CmpxchgRe = regexp.MustCompile(`^CMPXCHG[BWLQ]$`)

func c04Short(s string) string {
	s = strings.ReplaceAll(strings.TrimSpace(s), "\n", " ")
	if len(s) > 100 {
		s = s[:100]
	}
	return s
}

// ---------------------------------------------------------------------------
// Generated child programs
// ---------------------------------------------------------------------------

type c04Batch struct {
	n     int
	dir   string
	bin   string
	insts []*c04Inst // live instances (Fn = position)
}

func c04WriteIfChanged(path, content string) error {
	if old, err := os.ReadFile(path); err == nil && string(old) == content {
		return nil
	}
	return os.WriteFile(path, []byte(content), 0o644)
}

func c04SetupModule(gen string) error {
	if err := os.MkdirAll(filepath.Join(gen, "runner"), 0o755); err != nil {
		return err
	}
	if err := c04WriteIfChanged(filepath.Join(gen, "go.mod"), "module c04gen\n\ngo 1.23\n"); err != nil {
		return err
	}
	if err := c04WriteIfChanged(filepath.Join(gen, "runner", "runner.go"), c04RunnerSrc); err != nil {
		return err
	}
	return c04WriteIfChanged(filepath.Join(gen, "runner", "tramp_amd64.s"), c04TrampSrc)
}

// c04PrintBatch prints the test functions with the real avo printer: one
// NOSPLIT|NOFRAME function per instance holding the instruction and RET.
func c04PrintBatch(b *c04Batch) (string, map[int]int, error) {
	f := ir.NewFile()
	f.Includes = append(f.Includes, "textflag.h")
	for i, in := range b.insts {
		fn := ir.NewFunction("t" + itoa(i))
		fn.Attributes = attr.NOSPLIT | attr.NOFRAME
		fn.AddInstruction(in.inst)
		ret, err := x86.VerifBuild("RET", nil, nil)
		if err != nil || ret == nil {
			return "", nil, fmt.Errorf("cannot build RET")
		}
		fn.AddInstruction(ret)
		f.Sections = append(f.Sections, fn)
	}
	cfg := printer.Config{Name: "avoh c04", Argv: []string{"avoh", "c04"}}
	out, err := printer.NewGoAsm(cfg).Print(f)
	if err != nil {
		return "", nil, err
	}
	// line -> function index
	lineFn := map[int]int{}
	cur := -1
	re := regexp.MustCompile(`^TEXT ·t(\d+)\(SB\)`)
	for ln, l := range strings.Split(string(out), "\n") {
		if m := re.FindStringSubmatch(l); m != nil {
			cur, _ = strconv.Atoi(m[1])
		}
		if cur >= 0 {
			lineFn[ln+1] = cur
		}
	}
	return string(out), lineFn, nil
}

func c04WriteBatch(b *c04Batch) (map[int]int, error) {
	if err := os.MkdirAll(b.dir, 0o755); err != nil {
		return nil, err
	}
	asm, lineFn, err := c04PrintBatch(b)
	if err != nil {
		return nil, err
	}
	var tab strings.Builder
	tab.WriteString("#include \"textflag.h\"\n\n")
	for i := range b.insts {
		fmt.Fprintf(&tab, "DATA c04fntab<>+%d(SB)/8, $·t%d(SB)\n", 8*i, i)
	}
	fmt.Fprintf(&tab, "DATA c04fntab<>+%d(SB)/8, $0\n", 8*len(b.insts))
	fmt.Fprintf(&tab, "GLOBL c04fntab<>(SB), RODATA, $%d\n\n", 8*len(b.insts)+8)
	tab.WriteString("// func fnaddr(i int) uintptr\nTEXT ·fnaddr(SB), NOSPLIT, $0-16\n\tMOVQ i+0(FP), BX\n\tLEAQ c04fntab<>(SB), AX\n\tMOVQ (AX)(BX*8), AX\n\tMOVQ AX, ret+8(FP)\n\tRET\n")
	mainSrc := "package main\n\nimport \"c04gen/runner\"\n\nfunc fnaddr(i int) uintptr\n\nfunc main() { runner.Main(fnaddr) }\n"
	if err := os.WriteFile(filepath.Join(b.dir, "main.go"), []byte(mainSrc), 0o644); err != nil {
		return nil, err
	}
	if err := os.WriteFile(filepath.Join(b.dir, "tests_amd64.s"), []byte(asm), 0o644); err != nil {
		return nil, err
	}
	if err := os.WriteFile(filepath.Join(b.dir, "tab_amd64.s"), []byte(tab.String()), 0o644); err != nil {
		return nil, err
	}
	return lineFn, nil
}

var c04AsmErrRe = regexp.MustCompile(`tests_amd64\.s:(\d+)`)

// c04BuildBatch assembles and links the batch; functions the assembler rejects are dropped (recorded) and the build retried.
func c04BuildBatch(gen string, b *c04Batch, rejected *[]*c04Inst, mu *sync.Mutex) error {
	for attempt := 0; attempt < 12; attempt++ {
		lineFn, err := c04WriteBatch(b)
		if err != nil {
			return err
		}
		cmd := exec.Command("go", "build", "-o", b.bin, "./"+filepath.Base(b.dir))
		cmd.Dir = gen
		cmd.Env = append(envForGo(), "GOFLAGS=-mod=mod", "CGO_ENABLED=0")
		out, err := cmd.CombinedOutput()
		if err == nil {
			return nil
		}
		bad := map[int]string{}
		for _, l := range strings.Split(string(out), "\n") {
			for _, m := range c04AsmErrRe.FindAllStringSubmatch(l, -1) {
				ln, _ := strconv.Atoi(m[1])
				if fi, ok := lineFn[ln]; ok {
					if _, seen := bad[fi]; !seen {
						bad[fi] = strings.TrimSpace(l)
					}
				}
			}
		}
		if len(bad) == 0 {
			return fmt.Errorf("go build of %s failed: %s", b.dir, string(out))
		}
		var keep []*c04Inst
		mu.Lock()
		for i, in := range b.insts {
			if msg, isBad := bad[i]; isBad {
				in.status = "asm-rejected: " + msg
				*rejected = append(*rejected, in)
			} else {
				keep = append(keep, in)
			}
		}
		mu.Unlock()
		b.insts = keep
	}
	return fmt.Errorf("batch %d: assembler still failing after pruning", b.n)
}

// c04RunBatch runs the child over the batch; an instance that kills the child is recorded and skipped.
func c04RunBatch(b *c04Batch, seed uint64, states int, cpu int) error {
	plan := c04Plan{Seed: seed, States: states}
	for i, in := range b.insts {
		pi := in.plan
		pi.Fn = i
		plan.Insts = append(plan.Insts, pi)
	}
	pj, err := json.Marshal(plan)
	if err != nil {
		return err
	}
	planPath := filepath.Join(b.dir, "plan.json")
	if err := os.WriteFile(planPath, pj, 0o644); err != nil {
		return err
	}
	start := 0
	for start < len(b.insts) {
		cmd := exec.Command(b.bin, planPath, itoa(start), itoa(cpu))
		cmd.Env = append(os.Environ(), "GODEBUG=asyncpreemptoff=1", "GOMAXPROCS=2", "GOTRACEBACK=none")
		var stderr bytes.Buffer
		cmd.Stderr = &stderr
		stdout, err := cmd.StdoutPipe()
		if err != nil {
			return err
		}
		if err := cmd.Start(); err != nil {
			return err
		}
		timer := time.AfterFunc(20*time.Minute, func() { cmd.Process.Kill() })
		cur := -1
		done := false
		sc := bufio.NewScanner(stdout)
		sc.Buffer(make([]byte, 1<<20), 1<<26)
		for sc.Scan() {
			l := sc.Text()
			switch {
			case strings.HasPrefix(l, "S "):
				cur, _ = strconv.Atoi(l[2:])
			case strings.HasPrefix(l, "R "):
				var res c04Result
				if err := json.Unmarshal([]byte(l[2:]), &res); err != nil {
					return fmt.Errorf("bad child output: %v", err)
				}
				if res.I >= 0 && res.I < len(b.insts) {
					b.insts[res.I].res = &res
				}
				cur = -1
			case l == "D":
				done = true
			}
		}
		werr := cmd.Wait()
		timer.Stop()
		if done {
			return nil
		}
		if cur < 0 {
			return fmt.Errorf("child of batch %d died outside an instance: %v: %s", b.n, werr, tail(stderr.String(), 600))
		}
		why := "died"
		if ee, ok := werr.(*exec.ExitError); ok {
			if ws, ok := ee.Sys().(syscall.WaitStatus); ok && ws.Signaled() {
				why = ws.Signal().String()
			} else {
				why = c04CrashKind(stderr.String(), ee.ExitCode())
			}
		}
		b.insts[cur].status = "crashed: " + why
		start = cur + 1
	}
	return nil
}

// c04OnlineCPUs lists the CPUs this process may run on (children are pinned one per CPU).
func c04OnlineCPUs() []int {
	data, err := os.ReadFile("/proc/self/status")
	if err != nil {
		return nil
	}
	for _, l := range strings.Split(string(data), "\n") {
		if strings.HasPrefix(l, "Cpus_allowed_list:") {
			var out []int
			for _, part := range strings.Split(strings.TrimSpace(strings.TrimPrefix(l, "Cpus_allowed_list:")), ",") {
				lo, hi, ok := strings.Cut(part, "-")
				a, e1 := strconv.Atoi(lo)
				b := a
				var e2 error
				if ok {
					b, e2 = strconv.Atoi(hi)
				}
				if e1 != nil || e2 != nil {
					return nil
				}
				for c := a; c <= b; c++ {
					out = append(out, c)
				}
			}
			return out
		}
	}
	return nil
}

func c04CrashKind(stderr string, code int) string {
	for _, k := range []string{"SIGILL", "SIGSEGV", "SIGBUS", "SIGFPE", "SIGTRAP"} {
		if strings.Contains(stderr, k) {
			return k
		}
	}
	return "exit " + itoa(code) + " " + tail(stderr, 120)
}

func tail(s string, n int) string {
	s = strings.TrimSpace(s)
	if len(s) > n {
		s = s[len(s)-n:]
	}
	return strings.ReplaceAll(s, "\n", " | ")
}

// ---------------------------------------------------------------------------
// Subcommand
// ---------------------------------------------------------------------------

func init() {
	genLeanC04()
	register("c04", "declared register reads/writes of instantiated forms vs execution on the host CPU", func(args []string) error {
		f := newStdFlags("c04")
		work := f.fs.String("work", ".", "scratch directory (generated child programs)")
		jobs := f.fs.Int("jobs", 16, "parallel child processes / builds")
		states := f.fs.Int("states", 8, "random machine states per instance")
		choices := f.fs.Int("choices", 3, "register choices per form")
		allSfx := f.fs.Bool("allsfx", false, "one instance per suffix set of the form's suffix class (at least -choices)")
		only := f.fs.String("only", "", "regexp: only opcodes matching")
		aliasEvery := f.fs.Int("aliasevery", 4, "alias instances among explicit operands only are EXECUTED for one row in this many (0: none); those involving implicit or fixed registers always are")
		noAlias := f.fs.Bool("noalias", false, "no alias instances at all")
		if err := f.fs.Parse(args); err != nil {
			return err
		}
		if abs, err := filepath.Abs(*work); err == nil {
			*work = abs // child programs are built with `go build` running in <work>/gen: paths must not be relative
		}
		db, err := loadForms(*f.repo)
		if err != nil {
			return err
		}
		o, err := openOut(f)
		if err != nil {
			return err
		}
		defer o.close()
		flags, err := c04HostFlags()
		if err != nil {
			return err
		}
		hostOK := true
		if need := []string{"avx512f", "avx512bw", "avx512dq", "avx512vl"}; !(flags[need[0]] && flags[need[1]] && flags[need[2]] && flags[need[3]]) {
			// the trampoline loads and stores Z0-Z31 and K0-K7 with AVX-512 instructions: on such a host nothing can be
			// measured; say so instead of crashing every child.  The alias instances are still judged on their declared
			// sets (no row is eligible for execution).
			o.emit("accept-build host - - - built", "ok")
			hostOK = false
		}
		var onlyRe *regexp.Regexp
		if *only != "" {
			onlyRe = regexp.MustCompile(*only)
		}
		r := newRng(*f.seed)

		// ---- selection
		skippedISA := map[string]int{}
		unknownISA := map[string]int{}
		denied := map[string]int{}
		deniedWhy := map[string]string{}
		var eligible []*formRow
		eligibleSet := map[int]bool{}
		for i := range db.rows {
			row := &db.rows[i]
			if !hostOK || (onlyRe != nil && !onlyRe.MatchString(row.Opcode)) {
				continue
			}
			missing := ""
			for _, isa := range row.ISAs {
				fl, known := c04ISAFlag[isa]
				if !known {
					unknownISA[isa]++ // an extension name this harness has no cpuinfo flag for: coverage shrinks (reported)
				}
				if !known || !flags[fl] {
					missing = isa
				}
			}
			if missing != "" {
				skippedISA[missing]++
				continue
			}
			if why := c04Denied(row); why != "" {
				denied[row.Opcode]++
				deniedWhy[row.Opcode] = why
				continue
			}
			eligible = append(eligible, row)
			eligibleSet[row.Index] = true
		}
		type sel struct {
			row            *formRow
			choice, sfxIdx int
			measure        bool // alias instances: execute it as well (when it can be)
		}
		var sels []sel
		replayIDs := map[string]bool{}
		if *f.replay != "" {
			lines, err := readLines(*f.replay)
			if err != nil {
				return err
			}
			idRe := regexp.MustCompile(`^accept-(?:rw|exec|build|decl) f(\d+)\.c(\d+)\.s(\d+) ([A-Z0-9]+)\S* (\S+) `)
			for _, l := range lines {
				if m := idRe.FindStringSubmatch(l); m != nil {
					fi, _ := strconv.Atoi(m[1])
					c, _ := strconv.Atoi(m[2])
					s, _ := strconv.Atoi(m[3])
					// the row index is only a hint: after a table change the row is found again by opcode and operand types
					same := func(i int) bool {
						t := strings.Join(db.rows[i].explicitTypes(), ",")
						if t == "" {
							t = "-"
						}
						return db.rows[i].Opcode == m[4] && t == m[5]
					}
					if fi >= len(db.rows) || !same(fi) {
						fi = len(db.rows)
						for _, ix := range db.byOpcode[m[4]] {
							if same(ix) {
								fi = ix
								break
							}
						}
					}
					key := fmt.Sprintf("%d.%d.%d", fi, c, s)
					if fi < len(db.rows) && !replayIDs[key] {
						replayIDs[key] = true
						sels = append(sels, sel{&db.rows[fi], c, s, eligibleSet[fi]})
					}
				}
			}
		} else {
			rows := eligible
			if *f.n > 0 && *f.n < len(eligible) {
				// sample without replacement, keeping table order
				idx := c04Shuffle(r, seq(len(eligible)))[:*f.n]
				sort.Ints(idx)
				rows = nil
				for _, i := range idx {
					rows = append(rows, eligible[i])
				}
			}
			for _, row := range rows {
				n := *choices
				if *allSfx && len(row.Suffixes) > n {
					n = len(row.Suffixes)
				}
				off := r.intn(1 << 16)
				for c := 0; c < n; c++ {
					sels = append(sels, sel{row, c, (c + off) % max(1, len(row.Suffixes)), false})
				}
				// forms with two 8-bit register operands: additionally the two byte views of one register
				n8 := 0
				for _, t := range row.TypeNames {
					if t == "r8" {
						n8++
					}
				}
				if n8 >= 2 {
					sels = append(sels, sel{row, c04ChoiceOtherView, off % max(1, len(row.Suffixes)), false})
				}
			}
		}
		nOrdinary := len(sels)
		// alias instances (c04alias.go): every plan of every row of the table — the judgement on the declared sets needs
		// no execution, so rows the host cannot run are included; executed where possible
		aliasExpected := map[string]map[int]bool{"impl": {}, "fixed": {}, "expl": {}}
		if *f.replay == "" && !*noAlias {
			var rows []*formRow
			if *f.n > 0 && *f.n < len(eligible) {
				for _, s := range sels {
					if len(rows) == 0 || rows[len(rows)-1] != s.row {
						rows = append(rows, s.row)
					}
				}
			} else {
				for i := range db.rows {
					if onlyRe == nil || onlyRe.MatchString(db.rows[i].Opcode) {
						rows = append(rows, &db.rows[i])
					}
				}
			}
			for _, row := range rows {
				plans := c04AliasPlans(row)
				if len(plans) == 0 {
					continue
				}
				off := r.intn(1 << 16)
				execExpl := *aliasEvery > 0 && r.intn(*aliasEvery) == 0
				explPick := r.intn(len(plans))
				for k := range plans {
					tag := plans[k].tag
					if m, ok := aliasExpected[tag]; ok {
						m[row.Index] = true
					}
					measure := eligibleSet[row.Index] && (tag == "impl" || tag == "fixed" || (execExpl && k == explPick) ||
						(tag == "all" && plans[k].fixed >= 0))
					sels = append(sels, sel{row, c04ChoiceAliasBase + k, (k + off) % max(1, len(row.Suffixes)), measure})
				}
			}
		}

		// ---- instantiate
		stats := map[string]int{}
		notBuilt := map[string]int{}
		rowWhy := map[int]string{}      // row index -> why an instance of it was not measured (last reason)
		rowMeasured := map[int]bool{}   // row index -> some instance generated for it was measured
		var insts []*c04Inst
		as := newC04AliasStats()
		for _, s := range sels {
			isAlias := s.choice >= c04ChoiceAliasBase
			in, why := c04Instantiate(db, *f.seed, s.row, s.choice, s.sfxIdx)
			if in != nil && why != "" {
				// a panic of the real code on an instruction it accepted is a violation, not a statistic
				o.emit("accept-build "+in.id+" "+in.desc+" "+strings.ReplaceAll(why, " ", "_"), "ok")
				stats["panics"]++
				if !isAlias {
					rowWhy[s.row.Index] = "panic"
				}
				continue
			}
			if isAlias {
				as.requested++
				if in == nil {
					as.notBuilt[why]++
					continue
				}
				// judged on what the real code declares, whether or not the host can execute it
				c04EmitDecl(o, in)
				as.judged(in)
				if !s.measure || in.noMeasure != "" {
					if s.measure {
						as.unmeasurable[in.noMeasure]++
					}
					continue
				}
				as.toMeasure(in)
				insts = append(insts, in)
				continue
			}
			if in == nil {
				notBuilt[why]++
				if rowWhy[s.row.Index] == "" {
					rowWhy[s.row.Index] = "not built: " + why
				}
				continue
			}
			insts = append(insts, in)
			stats["instances_built"]++
		}
		stats["forms_in_table"] = len(db.rows)
		stats["forms_eligible"] = len(eligible)
		if *f.replay != "" {
			nOrdinary = 0
			for _, s := range sels {
				if s.choice < c04ChoiceAliasBase {
					nOrdinary++
				}
			}
		}
		stats["instances_requested"] = nOrdinary

		if !hostOK {
			return writeJSON(*f.stats, map[string]any{"host_unsupported": "host CPU lacks AVX-512 F/BW/DQ/VL", "counts": map[string]int{},
				"alias": as.report(aliasExpected)})
		}
		// ---- generate, build and run child programs
		gen := filepath.Join(*work, "gen")
		if err := c04SetupModule(gen); err != nil {
			return err
		}
		// stale batch directories of earlier runs
		if ents, err := os.ReadDir(gen); err == nil {
			for _, e := range ents {
				if e.IsDir() && strings.HasPrefix(e.Name(), "b") {
					os.RemoveAll(filepath.Join(gen, e.Name()))
				}
			}
		}
		os.MkdirAll(filepath.Join(gen, "bin"), 0o755)
		nb := *jobs * 2
		if len(insts) < 64*nb {
			nb = (len(insts) + 63) / 64
		}
		if nb < 1 {
			nb = 1
		}
		batches := make([]*c04Batch, nb)
		for i := range batches {
			batches[i] = &c04Batch{n: i, dir: filepath.Join(gen, fmt.Sprintf("b%03d", i)), bin: filepath.Join(gen, "bin", fmt.Sprintf("b%03d", i))}
		}
		for i, in := range insts {
			b := batches[i%nb] // interleave so that batches take similar time
			b.insts = append(b.insts, in)
		}
		// build the shared runner package once so that parallel builds hit the cache
		{
			cmd := exec.Command("go", "build", "./runner")
			cmd.Dir = gen
			cmd.Env = append(envForGo(), "GOFLAGS=-mod=mod", "CGO_ENABLED=0")
			if out, err := cmd.CombinedOutput(); err != nil {
				return fmt.Errorf("go build runner: %v: %s", err, out)
			}
		}
		var rejected []*c04Inst
		var mu sync.Mutex
		var firstErr error
		sem := make(chan int, *jobs)
		ncpu := c04OnlineCPUs()
		for i := 0; i < *jobs; i++ {
			if len(ncpu) > 0 {
				sem <- ncpu[i%len(ncpu)]
			} else {
				sem <- -1
			}
		}
		var wg sync.WaitGroup
		t0 := time.Now()
		for _, b := range batches {
			wg.Add(1)
			go func(b *c04Batch) {
				defer wg.Done()
				cpu := <-sem
				defer func() { sem <- cpu }()
				if len(b.insts) == 0 {
					return
				}
				err := c04BuildBatch(gen, b, &rejected, &mu)
				if err == nil {
					err = c04RunBatch(b, *f.seed, *states, cpu)
				}
				if err != nil {
					mu.Lock()
					if firstErr == nil {
						firstErr = err
					}
					mu.Unlock()
				}
			}(b)
		}
		wg.Wait()
		if firstErr != nil {
			return firstErr
		}
		stats["measure_ms"] = int(time.Since(t0).Milliseconds())

		// ---- emit
		crashed := map[string]int{}
		var crashedEx, rejectedEx []string
		asmRejected := map[string]int{}
		noisy := map[string]int{}
		flagsR, flagsW, memW := 0, 0, 0
		acct := &c04Acct{r: map[string]bool{}, w: map[string]bool{}}
		runs := 0
		var witnesses []map[string]any
		byClass := map[string]int{}
		for _, in := range insts {
			switch {
			case strings.HasPrefix(in.status, "asm-rejected"):
				if in.alias != nil {
					as.asmRejected++
					if len(as.asmRejectedEx) < 20 {
						as.asmRejectedEx = append(as.asmRejectedEx, in.text+"  ["+tail(in.status, 160)+"]")
					}
					continue
				}
				asmRejected[in.m.Opcode]++
				if len(rejectedEx) < 40 {
					rejectedEx = append(rejectedEx, in.text+"  ["+tail(in.status, 160)+"]")
				}
				stats["asm_rejected_instances"]++
				rowWhy[in.row.Index] = "assembler rejected"
				continue
			case strings.HasPrefix(in.status, "crashed"):
				crashed[in.m.Opcode+" "+in.status]++
				if len(crashedEx) < 40 {
					crashedEx = append(crashedEx, in.text+"  ["+in.status+"]")
				}
				// avo built it, the assembler encoded it, the host reports the ISA extensions of the form — and the
				// processor refuses to execute it: judged by the driver (`accept-exec`), never dropped silently
				isas := strings.Join(in.m.ISAs, "+")
				if isas == "" {
					isas = "-"
				}
				o.emit("accept-exec "+in.id+" "+in.desc+" "+isas+" "+strings.ReplaceAll(strings.TrimPrefix(in.status, "crashed: "), " ", "_"), "ok")
				if in.alias != nil {
					as.crashed++
					continue
				}
				stats["crashed_instances"]++
				rowWhy[in.row.Index] = in.status
				continue
			case in.res == nil:
				if in.alias != nil {
					as.noResult++
					continue
				}
				stats["not_measured"]++
				rowWhy[in.row.Index] = "no result"
				continue
			}
			res := in.res
			runs += res.Runs
			if res.Noisy {
				noisy[in.m.Opcode]++
			}
			if res.FlagsR {
				flagsR++
			}
			if res.FlagsW {
				flagsW++
			}
			if res.MemW {
				memW++
			}
			obsR, err1 := c04MaskSetOf(res.R)
			obsW, err2 := c04MaskSetOf(res.W)
			if err1 != nil || err2 != nil {
				return fmt.Errorf("child reported an unknown location: %v %v", err1, err2)
			}
			types := strings.Join(in.m.explicitTypes(), ",")
			if types == "" {
				types = "-"
			}
			isas := strings.Join(in.m.ISAs, "+")
			if isas == "" {
				isas = "-"
			}
			opc := in.inst.OpcodeWithSuffixes()
			opsTxt := "-"
			if len(in.inst.Operands) > 0 {
				var as []string
				for _, op := range in.inst.Operands {
					as = append(as, strings.ReplaceAll(op.Asm(), " ", ""))
				}
				opsTxt = strings.Join(as, ",")
			}
			req := fmt.Sprintf("accept-rw %s %s %s %s %s D %s %s O %s %s", in.id, opc, types, isas, opsTxt,
				encMaskSet(in.declR), encMaskSet(in.declW), encMaskSet(obsR), encMaskSet(obsW))
			o.emit(req, "ok")
			if in.alias != nil {
				// `usedef` / `build-rw` of alias instances were written with their `accept-decl`
				as.measured(in)
			} else {
				o.emit("usedef "+in.usedef, encMaskSet(in.declR)+" "+encMaskSet(in.declW))
				o.emit("build-rw "+c04EncBuildRW(in.m, in.ops), encMaskSet(in.declR)+" "+encMaskSet(in.declW))
				stats["measured"]++
				rowMeasured[in.row.Index] = true
				c04Account(acct, in, obsR, obsW)
				byClass[c04Class(in.m)]++
			}
			if len(res.Wit) > 0 {
				witnesses = append(witnesses, map[string]any{"id": in.id, "asm": in.text, "witness": res.Wit})
			}
			if in.alias != nil {
				continue
			}
			if len(obsR) > 0 {
				stats["with_observed_reads"]++
			}
			if len(obsW) > 0 {
				stats["with_observed_writes"]++
			}
			if in.m.Index != in.row.Index {
				stats["other_form_matched"]++
			}
		}
		// eligible rows without a single judged instance, by reason
		unmeasured := map[string]int{}
		var unmeasuredEx []string
		if *f.replay == "" && (*f.n <= 0 || *f.n >= len(eligible)) {
			for _, row := range eligible {
				if rowMeasured[row.Index] {
					continue
				}
				why := rowWhy[row.Index]
				if why == "" {
					why = "no instance"
				}
				unmeasured[why]++
				if len(unmeasuredEx) < 30 {
					unmeasuredEx = append(unmeasuredEx, fmt.Sprintf("f%d %s %s: %s", row.Index, row.Opcode, strings.Join(row.explicitTypes(), ","), why))
				}
				stats["rows_unmeasured"]++
			}
			stats["rows_measured"] = len(eligible) - stats["rows_unmeasured"]
		}
		ur, uw := acct.unobserved()
		stats["declared_read_positions"] = len(acct.r)
		stats["declared_read_positions_unobserved"] = len(ur)
		stats["declared_write_positions"] = len(acct.w)
		stats["declared_write_positions_unobserved"] = len(uw)
		stats["cpu_runs"] = runs
		stats["flags_read_instances"] = flagsR
		stats["flags_written_instances"] = flagsW
		stats["memory_written_instances"] = memW
		if len(witnesses) > 0 {
			if b, err := json.MarshalIndent(witnesses, "", " "); err == nil {
				os.WriteFile(filepath.Join(*work, "witnesses-"+*f.tier+".json"), b, 0o644)
			}
		}
		return writeJSON(*f.stats, map[string]any{
			"counts":                  stats,
			"skipped_isa_forms":       skippedISA,
			"denied_opcode_forms":     denied,
			"denied_reason":           deniedWhy,
			"not_built":               notBuilt,
			"asm_rejected":            asmRejected,
			"asm_rejected_examples":   rejectedEx,
			"crashed":                 crashed,
			"crashed_examples":        crashedEx,
			"nondeterministic_opcode": noisy,
			"measured_by_class":       byClass,
			"rows_unmeasured_by_reason": unmeasured,
			"rows_unmeasured_examples":  unmeasuredEx,
			"unknown_isa_forms":         unknownISA,
			"declared_reads_never_observed":  ur,
			"declared_writes_never_observed": uw,
			"states_per_instance":     *states,
			"alias":                   as.report(aliasExpected),
		})
	})
}

// c04Acct records, per (matched form row, operand position) with a declared read (write) of a register operand,
// whether the read (write) was observed in some instance: positions never observed are places where the measurement
// could not notice a missing declaration (the check module puts a ceiling on their number).
type c04Acct struct {
	r, w map[string]bool
}

func c04Account(a *c04Acct, in *c04Inst, obsR, obsW reg.MaskSet) {
	// registers of all operands; an observation is attributed to a position only if its register is unique
	count := map[reg.ID]int{}
	var opsAll []operand.Op
	k := 0
	for _, o := range in.m.Operands {
		var op operand.Op
		if o.Implicit {
			op = x86.VerifImplReg(o.Type)
		} else if k < len(in.ops) {
			op = in.ops[k]
			k++
		}
		opsAll = append(opsAll, op)
		if op != nil {
			for _, x := range operand.Registers(op) {
				count[x.ID()]++
			}
		}
	}
	for j, o := range in.m.Operands {
		x, ok := opsAll[j].(reg.Register)
		if !ok || count[x.ID()] != 1 {
			continue
		}
		key := fmt.Sprintf("f%d %s %s #%d", in.m.Index, in.m.Opcode, strings.Join(in.m.TypeNames, ","), j)
		if o.Action&1 != 0 {
			a.r[key] = a.r[key] || obsR[x.ID()]&x.Mask() != 0
		}
		if o.Action&2 != 0 {
			a.w[key] = a.w[key] || obsW[x.ID()]&x.Mask() != 0
		}
	}
}

func (a *c04Acct) unobserved() (r, w []string) {
	for k, seen := range a.r {
		if !seen {
			r = append(r, k)
		}
	}
	for k, seen := range a.w {
		if !seen {
			w = append(w, k)
		}
	}
	sort.Strings(r)
	sort.Strings(w)
	return
}

func seq(n int) []int {
	out := make([]int, n)
	for i := range out {
		out[i] = i
	}
	return out
}

// c04Class is a coarse encoding class of a form for the input-distribution report.
func c04Class(row *formRow) string {
	if len(row.ISAs) == 0 {
		return "base"
	}
	evex, vex, sse := false, false, false
	for _, isa := range row.ISAs {
		switch {
		case strings.HasPrefix(isa, "AVX512"):
			evex = true
		case isa == "AVX" || isa == "AVX2" || isa == "FMA3" || isa == "F16C":
			vex = true
		case strings.HasPrefix(isa, "SSE") || isa == "SSSE3":
			sse = true
		}
	}
	switch {
	case evex:
		return "evex"
	case vex:
		return "vex"
	case sse:
		return "sse"
	}
	return "other:" + strings.Join(row.ISAs, "+")
}
