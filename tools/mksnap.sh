#!/bin/sh
# tools/mksnap.sh [dir]: a clean copy of the COMMITTED /verif (HEAD) plus the build output on disk, for tools/pareval.py --snap and
# tools/refeval.py while people edit /verif (VERIF_SNAP=<dir> selects it; default /tmp/verif-snap).
V=$(cd "$(dirname "$0")/.." && pwd)
D=${1:-/tmp/verif-snap}
rm -rf "$D"; mkdir -p "$D"
git -C "$V" archive HEAD | tar -x -C "$D"
rsync -a --exclude gocache "$V/.work" "$D/"
rsync -a "$V/lean/.lake" "$D/lean/"
rsync -a "$V/lean/AvoVerif/Gen" "$V/lean/AvoVerif/Oracle" "$D/lean/AvoVerif/"
cp "$V/harness/go.sum" "$D/harness/" 2>/dev/null
echo "snapshot of $(git -C "$V" rev-parse --short HEAD) in $D"
