#!/usr/bin/env python3
"""tools/reeval.py {refs|seeds} [-P n] [--only C01,C02] [--ids C01-3,C02-5] [--suite]

Re-evaluate every STORED harmless refactoring (refactors/<id>/patch.diff: all 20 quick checks must stay silent) or every
STORED seeded change (seeded/<id>/patch.diff: the own quick check must report it) on the machinery as it is on disk now.
Creates the scratch worktrees /tmp/ref-<PROP> resp. /tmp/seed-<PROP> if they are missing, stages the stored files where
tools/refeval.py / tools/pareval.py expect them, runs tools/batch.py (changes of one PROP one after the other, different PROPs
in parallel) and removes the worktrees afterwards. The full test suite is skipped unless --suite is given (it was confirmed
when the change was first stored). Results: refactors/<id>/meta.json resp. seeded/<id>/meta.json are rewritten."""
import json, os, shutil, subprocess, sys
V = os.path.dirname(os.path.dirname(os.path.abspath(__file__)))


def main():
    kind = sys.argv[1]
    P = sys.argv[sys.argv.index("-P") + 1] if "-P" in sys.argv else "4"
    only = sys.argv[sys.argv.index("--only") + 1].split(",") if "--only" in sys.argv else None
    ids = sys.argv[sys.argv.index("--ids") + 1].split(",") if "--ids" in sys.argv else None
    d = os.path.join(V, "refactors" if kind == "refs" else "seeded")
    pre = "ref" if kind == "refs" else "seed"
    items = []
    for name in sorted(os.listdir(d)):
        if not os.path.exists(os.path.join(d, name, "patch.diff")):
            continue
        prop, n = name.rsplit("-", 1)
        if only and prop not in only:
            continue
        if ids and name not in ids:
            continue
        items.append((prop, n))
    props = sorted({p for p, _ in items})
    head = subprocess.run(["git", "-C", "/repo", "rev-parse", "HEAD"], capture_output=True, text=True).stdout.strip()
    for p in props:
        wt = f"/tmp/{pre}-{p}"
        if not os.path.isdir(wt):
            subprocess.run(["git", "-C", "/repo", "worktree", "add", "--detach", wt, head], capture_output=True)
        else:
            subprocess.run(f"git -C {wt} checkout -q -- . ; git -C {wt} clean -fdq; git -C {wt} checkout -q --detach {head}", shell=True)
        os.makedirs(f"{wt}-out", exist_ok=True)
    lst = f"/tmp/reeval-{kind}.txt"
    with open(lst, "w") as f:
        for p, n in items:
            if kind == "refs":
                shutil.copy(os.path.join(d, f"{p}-{n}", "patch.diff"), f"/tmp/ref-{p}-out/patch{n}.diff")
                rp = os.path.join(d, f"{p}-{n}", "report.md")
                if os.path.exists(rp):
                    shutil.copy(rp, f"/tmp/ref-{p}-out/report{n}.md")
            f.write(f"{p} {n}\n")
    extra = [] if "--suite" in sys.argv else ["--nosuite"]
    if kind == "refs":
        cmd = ["python3", f"{V}/tools/batch.py", "ref", lst, "-P", P] + ([] if os.environ.get("VERIF_SNAP") else ["--live"]) + extra
    else:
        cmd = ["python3", f"{V}/tools/batch.py", "seed", lst, "-P", P, "--from-seeded"] + (["--snap"] if os.environ.get("VERIF_SNAP") else []) + extra
    print(" ".join(cmd), flush=True)
    subprocess.run(cmd)
    for p in props:
        subprocess.run(["git", "-C", "/repo", "worktree", "remove", "--force", f"/tmp/{pre}-{p}"], capture_output=True)
        shutil.rmtree(f"/tmp/{pre}-{p}-out", ignore_errors=True)
    # summary
    bad = []
    for p, n in items:
        try:
            m = json.load(open(os.path.join(d, f"{p}-{n}", "meta.json")))
        except Exception:
            bad.append(f"{p}-{n}: no meta"); continue
        if kind == "refs":
            al = [c for c, r in m.get("checks", {}).items() if not r.get("silent")]
            if al:
                bad.append(f"{p}-{n}: alarms {al}")
        else:
            own = [v for k, v in m.get("checks", {}).items() if k.startswith(p + ":")]
            if not any(v.get("detected") for v in own):
                bad.append(f"{p}-{n}: own check silent")
    print(f"reeval {kind}: {len(items)} evaluated, {len(bad)} need attention")
    for b in bad:
        print("  ", b)


if __name__ == "__main__":
    main()
