#!/bin/sh
# tools/mutrun.sh <scratch-worktree> <patch.diff | -e 'sed-expr' file> <Cxx> [quick|thorough]
# Run ONE check against a MUTATED copy of avo without touching /repo and without blocking other people:
# the change is applied to the given scratch git worktree of /repo (create one with
#   git -C /repo worktree add --detach /tmp/fix-<you> HEAD
# ), /verif (as it is on disk now, including your uncommitted edits) is copied to a private directory whose harness
# module points at the worktree, the check runs there, and the worktree is restored afterwards.
# Prints the check's last lines and "mutrun: exit=<rc>"; exit 1 = VIOLATION reported (what you expect for a
# property-breaking change), exit 0 = silent (what you expect for a harmless rewrite).
set -u
WT=$1; shift
V=$(cd "$(dirname "$0")/.." && pwd)
export GOFLAGS=-mod=mod GOPROXY=off GOSUMDB=off GOTOOLCHAIN=local
git -C "$WT" checkout -q -- . && git -C "$WT" clean -fdq
git -C "$WT" checkout -q --detach "$(git -C /repo rev-parse HEAD)" 2>/dev/null
if [ "$1" = "-e" ]; then
  expr=$2; file=$3; shift 3
  before=$(md5sum "$WT/$file")
  sed -i "$expr" "$WT/$file"
  [ "$before" = "$(md5sum "$WT/$file")" ] && { echo "mutrun: sed expression changed nothing"; exit 2; }
else
  P=$(readlink -f "$1"); git -C "$WT" apply "$P" || { echo "mutrun: patch does not apply"; exit 2; }
  shift
fi
git -C "$WT" diff --stat | tail -1
( cd "$WT" && go build ./... && go build -tags verif ./... ) || { echo "mutrun: mutant does not compile"; git -C "$WT" checkout -q -- .; exit 2; }
C=$1; TIER=${2:-quick}
VC=$(mktemp -d /tmp/vmut-XXXXXX)
rsync -a --exclude .git --exclude replays --exclude seeded --exclude refactors --exclude design-spikes --exclude .work/gocache "$V/" "$VC/"
sed -i "s#=> /repo#=> $WT#" "$VC/harness/go.mod"
( cd "$VC" && AVO_REPO="$WT" VERIF_REPO_LOCKED=1 GOCACHE="$V/.work/gocache" ./check "$C" "$TIER" 2>&1 | tail -15 | sed "s#$VC#/verif#g" )
rc=$(cd "$VC" && AVO_REPO="$WT" VERIF_REPO_LOCKED=1 GOCACHE="$V/.work/gocache" sh -c 'python3 - <<PY
import json,sys
try:
    e=json.load(open("evidence/'"$C"'.json")); print(1 if e.get("violations") else 0)
except Exception: print(3)
PY')
mkdir -p "$V/replays"; cp "$VC"/replays/* "$V/replays/" 2>/dev/null
git -C "$WT" checkout -q -- . ; git -C "$WT" clean -fdq
rm -rf "$VC"
echo "mutrun: violations_recorded=$rc"
