#!/usr/bin/env python3
"""tools/pareval.py <PROP> <N> [--checks C01,C03] [--thorough] [--keep]

Confirm and evaluate a seeded change WITHOUT touching /repo: works on the sub-agent's scratch worktree
/tmp/seed-<PROP> (patch + demo in /tmp/seed-<PROP>-out) and on a private copy of /verif under
/tmp/veval-<PROP>-<N> whose harness module is redirected to the worktree (AVO_REPO), so several
evaluations can run in parallel. Confirms: patch applies, builds, full suite passes with the change,
demo fails with / passes without. Then runs the named checks (quick; --thorough adds the thorough tier when
quick misses) against the changed worktree, and finally against the restored worktree (must be silent).
Stores the result under /verif/seeded/<PROP>-<N>/ (patch.diff, demo/, report.md, meta.json).
(The registered checks themselves always run in /verif against /repo; this tool is only for self-validation.)"""
import json, os, shutil, subprocess, sys, time
V = os.path.dirname(os.path.dirname(os.path.abspath(__file__)))
SNAP = os.environ.get("VERIF_SNAP", "/tmp/verif-snap")
SRC = SNAP if os.path.isdir(SNAP) and "--snap" in sys.argv else V  # --snap: a clean snapshot of the committed tree; default: /verif as it is on disk now
ENV = dict(os.environ, GOFLAGS="-mod=mod", GOPROXY="off", GOSUMDB="off", GOTOOLCHAIN="local")


def sh(cmd, cwd=None, timeout=3000, env=None):
    p = subprocess.run(cmd, cwd=cwd, env=env or ENV, shell=isinstance(cmd, str), stdout=subprocess.PIPE,
                       stderr=subprocess.STDOUT, text=True, timeout=timeout)
    return p.returncode, p.stdout


def main():
    prop, n = sys.argv[1], sys.argv[2]
    checks = [prop]
    if "--checks" in sys.argv:
        checks = sys.argv[sys.argv.index("--checks") + 1].split(",")
    wt, out = f"/tmp/seed-{prop}", f"/tmp/seed-{prop}-out"
    if "--wt" in sys.argv:
        wt = sys.argv[sys.argv.index("--wt") + 1]
    if "--out" in sys.argv:
        out = sys.argv[sys.argv.index("--out") + 1]
    patch, demo = f"{out}/patch{n}.diff", f"{out}/demo{n}"
    meta = {"property": prop, "n": int(n),
            "source": "independent sub-agent given only the property text and a scratch worktree"}
    from_seeded = "--from-seeded" in sys.argv
    if from_seeded:
        # re-evaluation of a stored change: patch and demo come from /verif/seeded/<id>/, its meta.json is updated in place
        sd = f"{V}/seeded/{prop}-{n}"
        patch = f"{sd}/patch.diff"
        os.makedirs(out, exist_ok=True)
        demo = f"{out}/demo{n}"
        shutil.rmtree(demo, ignore_errors=True)
        if os.path.isdir(f"{sd}/demo"):
            shutil.copytree(f"{sd}/demo", demo)
            gmf = f"{demo}/go.mod"
            t = ""
            for cand in (f"{demo}/go.mod.txt", gmf):
                if os.path.exists(cand) and os.path.getsize(cand) > 0:
                    t = open(cand).read(); break
            if not t.strip():  # nested go.mod files do not survive in /verif: synthesise
                t = f"module seeddemo/demo{n}\n\ngo 1.23\n\nrequire github.com/mmcloughlin/avo v0.0.0\n\nreplace github.com/mmcloughlin/avo => /repo\n"
            import re as _re
            t = _re.sub(r"(github.com/mmcloughlin/avo\s*=>\s*)\S+", lambda m_: m_.group(1) + wt, t)
            open(gmf, "w").write(t)
            shutil.copy(f"{wt}/go.sum", f"{demo}/go.sum")
        try:
            meta = json.load(open(f"{sd}/meta.json"))
        except Exception:
            pass
        meta.setdefault("history", "")
    clean = f"git -C {wt} checkout -- . && git -C {wt} clean -fdq"
    sh(clean)
    rc, o = sh(f"git -C {wt} apply {patch}")
    meta["patch_applies"] = rc == 0
    if rc != 0:
        print("patch does not apply:", o); return 2
    rc, o = sh("go build ./...", cwd=wt); meta["builds_with_change"] = rc == 0
    if "--nosuite" not in sys.argv:
        rc2, o2 = sh("go test -vet=off -count=1 ./... 2>&1 | grep -v '^ok\\|no test files' | head -30", cwd=wt)
        meta["suite_passes_with_change"] = ("FAIL" not in o2) and o2.strip() == ""
        meta["suite_output"] = o2[-800:]

    def run_demo():
        if not os.path.isdir(demo):
            return None, "no separate demo directory"
        return sh("go test -count=1 ./... 2>&1 | tail -25", cwd=demo, timeout=1800)
    rc, o = run_demo(); meta["demo_with_change"] = o[-1500:]
    meta["demo_fails_with_change"] = ("FAIL" in o)

    # private copy of /verif redirected to the worktree
    vc = f"/tmp/veval-{prop}-{n}"
    shutil.rmtree(vc, ignore_errors=True)
    sh(["rsync", "-a", "--exclude", ".git", "--exclude", "replays", "--exclude", "seeded", "--exclude", "design-spikes",
        "--exclude", ".work/gocache", SRC + "/", vc + "/"])
    gm = os.path.join(vc, "harness", "go.mod")
    s = open(gm).read().replace("=> /repo", f"=> {wt}")
    open(gm, "w").write(s)
    env = dict(ENV, AVO_REPO=wt, VERIF_REPO_LOCKED="1", GOCACHE=os.path.join(V, ".work", "gocache"))
    meta["checks"] = {}
    tiers = ["quick"] + (["thorough"] if "--thorough" in sys.argv else [])
    for c in checks:
        for tier in tiers:
            t0 = time.time()
            rc, o = sh([f"{vc}/check", c, tier], cwd=vc, timeout=14400, env=env)
            viol = [l for l in o.splitlines() if l.startswith("VIOLATION")]
            viol = [l.replace(vc, "/verif") for l in viol]
            meta["checks"][f"{c}:{tier}"] = {"detected": bool(viol), "line": viol[0] if viol else "", "exit": rc,
                                               "wall_s": round(time.time() - t0, 1), "tail": o[-400:] if not viol else ""}
            if viol:
                # keep the replay for inspection
                break
    sh(clean)
    rc, o = run_demo(); meta["demo_without_change"] = o[-600:]
    meta["demo_passes_without_change"] = ("FAIL" not in o) and ("ok" in o)
    # silence on the restored worktree (same private copy)
    quiet = {}
    if "--noquiet" not in sys.argv:
        for c in checks:
            rc, o = sh([f"{vc}/check", c, "quick"], cwd=vc, timeout=7200, env=env)
            quiet[c] = (rc == 0 and "VIOLATION" not in o)
    meta["quiet_when_restored"] = quiet
    if "--keep" not in sys.argv:
        shutil.rmtree(vc, ignore_errors=True)

    dst = f"{V}/seeded/{prop}-{n}"
    meta["evaluated_at"] = {"verif": subprocess.run(["git", "-C", V, "rev-parse", "--short", "HEAD"], capture_output=True, text=True).stdout.strip(),
                            "repo": subprocess.run(["git", "-C", wt, "rev-parse", "--short", "HEAD"], capture_output=True, text=True).stdout.strip()}
    if from_seeded:
        meta["evaluated_with"] = "tools/pareval.py --from-seeded (private copy of /verif, AVO_REPO = scratch worktree with the patch applied)"
        json.dump(meta, open(f"{dst}/meta.json", "w"), indent=1)
        print(json.dumps({k: v for k, v in meta.items() if k in ("property", "n", "checks", "quiet_when_restored", "demo_fails_with_change", "demo_passes_without_change")}, indent=1))
        return
    shutil.rmtree(dst, ignore_errors=True)
    os.makedirs(dst)
    shutil.copy(patch, f"{dst}/patch.diff")
    if os.path.exists(f"{out}/report{n}.md"):
        shutil.copy(f"{out}/report{n}.md", f"{dst}/report.md")
    if os.path.isdir(demo):
        shutil.copytree(demo, f"{dst}/demo")
        gm = f"{dst}/demo/go.mod"
        if os.path.exists(gm):
            gmtxt = open(gm).read().replace(wt, "/repo")   # read BEFORE opening for writing (open(.., "w") truncates first)
            open(gm, "w").write(gmtxt)
            shutil.copy(gm, gm + ".txt")
            meta["demo_note"] = ("go.mod replace path rewritten from the scratch worktree to /repo; run with `go test ./...` in "
                                 "demo/ after `git -C /repo apply patch.diff`")
    meta["needs_to_manifest"] = ""
    rep = f"{out}/report{n}.md"
    if os.path.exists(rep):
        meta["needs_to_manifest"] = open(rep).read()[:1500]
    meta["evaluated_with"] = "tools/pareval.py (private copy of /verif, AVO_REPO = scratch worktree with the patch applied)"
    json.dump(meta, open(f"{dst}/meta.json", "w"), indent=1)
    print(json.dumps({k: v for k, v in meta.items() if k not in ("demo_with_change", "demo_without_change", "needs_to_manifest", "suite_output")}, indent=1))


if __name__ == "__main__":
    main()
