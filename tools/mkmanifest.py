#!/usr/bin/env python3
"""Regenerate /verif/MANIFEST.json from the table below (one entry per claimed property)."""
import json, os, subprocess
V = os.path.dirname(os.path.dirname(os.path.abspath(__file__)))
props = [json.loads(l) for l in open(os.path.join(V, "properties.jsonl"))]

TB = ("Trusted: Lean 4.33 kernel (axioms propext/Classical.choice/Quot.sound at most; audited by #print axioms and a grep on every run), "
      "the Go translator/generators/canonicalisers in harness/, the driver's request parsing, and the statements in Props/. ")

CLAIMED = {
 "C01": dict(cat="proof", tech="Lean 4 simulation proof + verified acceptor on implementation output + model correspondence",
   text="Theorem accepted_preserves: for every program, allocation, instruction meaning and initial state, if the executable acceptor (liveness post-fixpoint, no definition onto a different live-out byte sharing storage) passes then the allocated program and the private-storage program agree on memory and control at every step; entry_rel discharges the initial-state premise from 'reads only written bytes'. avo_alloc_valid_installed: for every function, whenever the Lean model of avo's graph-colouring allocator (update/mostrestricted/alloc loop, interference construction, all kinds) succeeds on avo's regenerated register file, its allocation passes that acceptor's validity and shape checks (loop-invariant proof). The acceptor is also evaluated on the real passes' own data for thousands of generated functions per run, and the real allocator is compared exactly with the model.",
   note=TB + "Modelled-not-verified: x86 instructions as functions of declared read bytes writing declared bytes (C04); VEX upper-bit zeroing (F12); encodability rule for high-byte registers measured on the Go assembler."),
 "C02": dict(cat="proof", tech="Lean 4 proof of fixed-point exactness + exact correspondence + path-search acceptor",
   text="Theorems liveness_exact / liveout_exact: when the in-place round-robin iteration stops, a byte lane is reported live iff the path specification holds (soundness by invariant, completeness at the quiet sweep), for every CFG and mask combination; order independence proved. MaskSet operations are proved to be set operations on (id, lane). The real Liveness is compared exactly with the model and with a direct path-search evaluation of the specification; the real use/def extraction of every form is compared with the read/write specification derived from the form's operand actions.",
   note=TB + "Termination is proved (liveness_terminates / liveness_exact_total: no fuel hypothesis remains); operand actions of the table are taken as given (C04)."),
 "C03": dict(cat="proof", tech="Lean 4 proof over regenerated register table + acceptor on bound output",
   text="compile_bound_ok / compile_targets_unrestricted: for every function, whatever allocation the model of avo's allocator returns, every register that binds is bound as the property demands and no target is a Restricted register (SP, K0); bindReg_ok (for all tables/allocations/registers): a bound register is physical, author-chosen registers are unchanged, a virtual is replaced by the same-width view of its one assigned id; decide-complete facts over the regenerated register file (Restricted = SP and K0 views, uniform per id, never candidates; 8H only on A/C/D/B; lookup returns the requested view; BP last). The acceptor checks exactly this on every bound function produced by the real passes; outcome classes compared with the model.",
   note=TB + "Gen.regs is produced by running the compiled reg package's own API on every run."),
 "C07": dict(cat="proof", tech="Lean 4 induction over types/paths + exact correspondence + compiler/vet measurement",
   text="Theorems (all signatures, all paths): resolved addresses are exactly the asmdecl components (name, offset, size), stay inside the value, dereferenced components use the pointee's offsets, every bad index/field/kind is an error, argument size equals asmdecl's. The real gotypes API is compared exactly on ~3000 generated signatures x all paths per quick run; go/types sizes, reflect, go vet -asmdecl and execution measured on samples.",
   note=TB + "The Lean model of gc sizes and of vet's asmdecl layout is hand-written (validated against go/types, the compiler and vet on every run); recursive types as finite unfoldings."),
 "C09": dict(cat="proof", tech="Lean 4 proof of LabelTarget/CFG model + exact correspondence + acceptor",
   text="Theorems for all node sequences: LabelTarget succeeds iff labels are unique and none is trailing, binds each label to the first following instruction; successors are exactly fall-through (unless RET/JMP) plus branch target; predecessors are the inverse; the build fails iff duplicate/trailing label, non-label branch target or undefined label. Real LabelTarget+CFG compared on thousands of generated node sequences (graph as index sets, error class) and judged by an acceptor.",
   note=TB + "Branch/terminal flags are taken from the instruction (tied to the table by C06). 'Return' is the near RET."),
 "C10": dict(cat="proof", tech="Lean 4 proofs about the clean-up models + exact correspondence + CFG-contraction acceptor",
   text="prune_selfmov_ok: every instruction the self-move pass deletes is a plain general-purpose self-move whose execution leaves any register file unchanged (MOVL and vector MOVQ proved to have an effect and proved not pruned); label pruning keeps all instructions, all referenced labels and their bindings and is a lock-step simulation of instruction steps (pruneLabels_step); jump removal is a lock-step simulation for all executions under any instruction semantics in which an unconditional jump changes no state (pruneJumps_run). Pass order and opcode list regenerated from source. The three real passes are compared exactly with the models and judged by a semantic acceptor (sublist, only removable instructions deleted, same successors after contraction).",
   note=TB + "execMov semantics hand-written from the SDM; self-move removal proved per instruction, not as a whole-program stuttering simulation."),
 "C14": dict(cat="proof", tech="Lean 4 proof (all formulas x all assignments) + exact correspondence + toolchain oracle",
   text="tags_equiv: for every valid, printable constraint set and every assignment the toolchain reading of the printed lines equals avo's Evaluate; tags_roundtrip; tags_invalid. Real Validate/Evaluate/GoString/Format/ParseConstraint compared exactly with the model on generated formulas x all assignments; the real go/build/constraint and go/build.MatchFile evaluate avo's printed header in accept- requests.",
   note=TB + "The //go:build expression parser is a measured assumption; tag character table measured from the installed unicode tables. Findings F8c/F8d (size limits of go/format and go/build/constraint) are listed in known_findings.json."),
 "C17": dict(cat="proof", tech="Lean 4 permutation-invariance lemmas + regenerated map-iteration census + multi-run/multi-process measurement",
   text="Every range-over-map in the generation path is enumerated from source (go/types) and pinned by a kernel-checked expected list; order independence is proved for MaskSet operations, candidate sorting, mostrestricted, the whole Allocate loop w.r.t. the order of the interference edge list and of the possible map (allocLoop_perm), the merge of per-kind allocations (allocate_kinds_perm), the sorted ISA list (requiredISA_perm) and the liveness visiting order. Generated tie-heavy programs are compiled 20x in-process and in 4 fresh processes per quick run; asm bytes, stub bytes, allocation and ISA lists must be identical.",
   note=TB + "Every enumerated map iteration has an order-independence theorem; what is measured rather than proved is that the models are the code (exact correspondence) and the absence of other nondeterminism sources (multi-run / multi-process digests)."),
 "C19": dict(cat="proof", tech="Lean 4 proof + regenerated tables + exhaustive correspondence",
   text="attr_value (all 16-bit values, any name table consistent with the header), text_clause_value, attr_include, include_pass; consistency of avo's regenerated table with the installed textflag.h by decide; exhaustive correspondence over all 65536 values x both directive kinds plus an acceptor evaluating the implementation's own text.",
   note=TB + "Assumed: the assembler evaluates A|B|n as bitwise OR; textflag.h parser."),

 "C11": dict(cat="proof", tech="Lean 4 proofs about the printer model (structured lines + text) + byte-exact correspondence + assembler/objdump measurement",
   text="flush_complete / labels_bound / one_text_per_fn / parse_print for all node lists and files: block buffering never drops, duplicates or reorders an instruction, labels stay bound to the same instruction, one TEXT block per function; print_faithful: parsing the printed bytes gives back the file under explicit decidable token hypotheses; column width does not change tokens. The model's bytes equal printer.NewGoAsm's on every generated file; compiled files are assembled with go tool asm and instruction count/order, frame/args/flags and every branch target are read back from the object and judged in Lean.",
   note=TB + "Proof-partial: acceptance by the Go assembler and the machine-code branch targets are measured on sampled files, not proved. Finding F10: CALL with a label operand (label pruned; not assemblable)."),
 "C12": dict(cat="proof", tech="Lean 4 proofs about the stub printer model + exact correspondence modulo go/format + go/types, gofmt, go build, go vet measurement",
   text="parse_stubs / declared_once / stubs_match_asm / stub_constraints_eq: each function is declared exactly once in file order preceded by doc lines then pragmas, package clause as configured, constraint block identical to the assembly printer's. printer.NewStubs output equals go/format of the model's text on every case; every stub is parsed and type-checked (types.Identical signatures), gofmt idempotence checked, stub+asm packages built and vetted (asmdecl) on samples.",
   note=TB + "Proof-partial: go/types.WriteSignature, go/format and the compiler are measured. Finding F16: doc comments with an indented line followed by a list item are not gofmt-stable."),
 "C13": dict(cat="proof", tech="Lean 4 proofs about the data-section model + regenerated constant table + exact correspondence + assembler measurement",
   text="data_disjoint / data_image / overlap_rejected / int_text_roundtrip (all 8 integer types, all values) / string_text_roundtrip / data_lines for all placement sequences; constant format verbs regenerated from operand/zconst.go. Real build.Context/ir.Global placements compared exactly (data list, size, image, DATA/GLOBL lines); printed files assembled with go tool asm and the symbol bytes compared with the model image; floats measured against the assembler's own parse (float32 stratified/exhaustive tiers).",
   note=TB + "Proof-partial for floats (measured). Finding F14: out-of-order DATA offsets are accepted by avo and rejected by the assembler."),
 "C16": dict(cat="proof", tech="Lean 4 induction over allocation sequences + exact correspondence + acceptor",
   text="locals_ok: for all lists of sizes the regions handed out by AllocLocal are pairwise disjoint, inside [0, frame), frame = sum, and disjoint from the BP save slot; the local forced by BP clobbering comes after all user regions; printed $frame equals LocalSize. Real AllocLocal/EnsureBasePointerCalleeSaved/printer compared on random interleavings; acceptor states the property on the implementation's regions.",
   note=TB + "Negative sizes are outside the property's quantifier."),
 "C18": dict(cat="proof", tech="Lean 4 proofs about the builder state machine + exact correspondence + acceptor; panic-freedom measured under recover",
   text="errs_monotone / bad_never_masked / valid_no_error / main_stops / pass_error_stops / component_chain / C18 (Spec for all histories): each builder-time fault appends exactly one error, any fault makes the result an error with one message per fault, Main returns non-zero and runs no pass, Concat stops at the first failing pass, error components stay errors. Histories of 1-80 real builder calls (Context methods and package-level functions) compared exactly; every call under recover (panic = violation).",
   note=TB + "Absence of panics is measured, not proved. Operand-form matching, signature parsing and MOV deducibility are classified by the harness."),
 "C20": dict(cat="proof", tech="Lean 4 arithmetic proofs + decide over regenerated register table x measured hardware table + exhaustive correspondence",
   text="newid/idKind/idIndex round trips for all inputs; over the regenerated register table and the measured assembler/CPU table (decide +kernel, complete over 172 views): hardware number, width, mask bytes = bytes a write changes, identity iff same kind and hardware register, lookup returns exactly the existing views (none only for 8H on index >= 4), virtual view conversion keeps id and yields the requested spec, Collection ids are distinct for the first 2^16 allocations. All conversions/lookups/classifications of the real API compared exhaustively.",
   note=TB + "Oracle.RegHW is measured on this host on every run (go tool asm + three decoders + execution). Finding F13: the 65537th virtual register of a kind collides with the first (uint16 index)."),

 "C15": dict(cat="proof", tech="Lean 4 proofs about EnsureBasePointerCalleeSaved + prologue machine + decide over regenerated/measured tables + correspondence + execution",
   text="bp_saved / bp_noframe_refused / bp_untouched_when_not_clobbered / C15: whenever a bound function writes any view of GP register 5 the pass either errors (NOFRAME) or leaves a frame > 0 for which the assembler's rule saves and restores BP (both the rule quoted in avo and the installed assembler's), and on a small prologue/epilogue machine the caller then sees the same BP; bp_any_view, zero-extension and pass-order facts by decide over regenerated tables; the assembler rule itself is measured on the full attribute x frame x call grid (Oracle/AsmBP) and tied by decide. Real passes compared exactly on generated functions (author-named BP views, allocator forced onto BP by pressure); compiled samples executed through a trampoline that observes the caller's BP.",
   note=TB + "Proof-partial: the assembler's prologue behaviour is measured on this host/toolchain, not proved; declared outputs are assumed to cover hardware writes (C04); no LEAVE/ENTER in avo's table."),

 "C05": dict(cat="proof", tech="Lean 4 proofs about operand text (render/parse round trips, immediate interpretation) + Go assembler/objdump oracle judged in Lean",
   text="parseOp_asm (every well-formed operand reads back from its printed text), number-format round trips for all integers and widths, line_roundtrip, asmImm_value_partial (the value the CPU uses equals the constant under the decidable guard ImmFits) with its negation proved at the F6 witness, build_first_match / build_operands_kept; register names and format verbs regenerated. Measured on every run: sampled instances of every opcode (thorough: every form x 12) are built by the real form table, printed by the real printer, assembled by go tool asm and decoded by objdump; the Lean acceptor compares mnemonic, registers, memory operand, access width and sign-extended immediate with the operands given.",
   note=TB + "Proof-partial: the Go assembler's encoding is a measured oracle (binutils objdump as decoder). 18 classes of genuine divergence between what constructors accept and what the assembler does are listed as known findings (F6, F7, F5-ctor, F10-call-label, C05-*), each with a class regex."),

 "C04": dict(cat="proof", tech="Lean 4 proofs about the read/write judgement and table structure + CPU measurement of every executable form judged in Lean",
   text="covers_sound / judge_iff / mem_undeclared (the executable judgement reports exactly the observed-but-undeclared lanes), covers_specReads/specWrites (composition with C02's use/def specification), and decide +kernel facts over all 12 025 regenerated form rows (cancelling forms lead with two same-class registers, implicit operands resolve to registers, CMOVcc destinations are read-write, merge-masked destinations are read-write with the exact exception list, ...). Measured on every run on the host CPU: every executable form (11 798) x several register choices x randomised full register states through a trampoline; observed writes (byte-lane accurate) and observed reads (by single-register perturbation) must be covered by what the real InputRegisters/OutputRegisters declare.",
   note=TB + "Proof-partial by nature: that the table's actions are what the processor does is measured on this host (AVX-512 machine; AVX512ER/MONITOR skipped; deny-list of control-transfer/privileged/stack opcodes in the evidence), not proved. 13 classes of genuine undeclared reads/writes are listed as known findings (F12 upper-lane zeroing, CMPXCHG implicit accumulator, PSIGN/AESDEC destinations, PHSUB cancelling flags, gather masks, ...)."),
 "C06": dict(cat="proof", tech="Lean 4 proofs about build/addinstruction + decide +kernel over regenerated form and constructor tables + three-layer correspondence + avogen regeneration",
   text="Generic (all operand lists): build succeeds iff some form matches, uses the first match, keeps operands in order; addinstruction adds one node or one error. Over the regenerated tables (24 shards, decide +kernel): for every one of the 3 205 constructor/method/global triples the documented form rows are exactly the forms of its opcode admitted by its suffixes, the bodies forward the arguments in order to the same opcode and suffix literal, the three name sets coincide, opcode ranges are contiguous. Correspondence: operand-class predicates exhaustively (451 operands x 40 types); the x86 constructor, the Context method and the package-level function are called by name and compared with each other and the model; avogen built from the tree regenerates the 7 checked-in generated files byte-identically.",
   note=TB + "The by-name wrappers are generated from /repo's sources before the harness is compiled. internal/data (the instruction database inputs) is taken as given."),
 "C08": dict(cat="proof", tech="Lean 4 complete decision of the regenerated mov table over the reachable input space + exhaustive correspondence + CPU measurement",
   text="mov_ok_partial / mov_err / mov_first / gp_width_errors: over the complete reachable space (basic types x register classes/widths x load/store) every deduced opcode has the component's access width and Go's extension rule, and the default branch errors exactly when nothing matches; decide +kernel over the table regenerated from build/zmov.go. Every Load/Store input is run through the real Context.Load/Store and compared; the opcode semantics table is validated on the CPU (poisoned neighbours, boundary values, Go's own conversions).",
   note=TB + "Proof-partial: movSem (what each MOV opcode does) is hand-written and measured on the CPU. Finding F7: 4-byte integer components with an XMM register select MOVQ, an 8-byte access (guard explicit in mov_ok_partial, negation proved at the witness)."),
}

def main():
    checks = []
    for pid in sorted(CLAIMED):
        c = CLAIMED[pid]
        checks.append({
            "property_id": pid,
            "quick_cmd": f"./check {pid} quick",
            "thorough_cmd": f"./check {pid} thorough",
            "evidence_file": f"/verif/evidence/{pid}.json",
            "replay_cmd_template": f"./check {pid} --replay {{path}}",
            "engine": "lean4+correspondence",
            "level_claimed": {"category": c["cat"], "text": c["text"], "design_ref": f"DESIGN.md §4 {pid}"},
            "level_note": c["note"],
            "technique": c["tech"],
        })
    hooks = subprocess.check_output(["git", "-C", "/repo", "log", "--format=%h %s"], text=True).splitlines()
    hook_commits = [l.split()[0] for l in hooks if l.split(" ", 1)[1].startswith("verif hooks")]
    m = {
        "version": 1,
        "setup_cmd": "./setup.sh",
        "hooks": {"guard": "verif (Go build tag)",
                  "enable": "go build -tags verif (harness module: replace github.com/mmcloughlin/avo => /repo)",
                  "baseline_off_cmd": "./baseline_off.sh", "source_commits": hook_commits, "add_only": True},
        "engines": [{"name": "lean4+correspondence", "path": "/verif/lean, /verif/harness, /verif/check, /verif/vlib",
                     "serves_properties": sorted(CLAIMED),
                     "kind_free_text": "Lean 4 models and theorems (lake project AvoVerif); Go translator regenerating tables/facts from /repo; Go harness driving the real code against compiled per-property Lean drivers over a line protocol; acceptors = executable theorem hypotheses evaluated on implementation output"}],
        "checks": checks,
        "not_applicable": [{"property_id": p["id"], "reason": "not claimed yet: machinery for this property is still under construction (DESIGN.md §4); no check is registered rather than registering an unsound one"}
                           for p in props if p["id"] not in CLAIMED],
        "notes": "All checks: ./check <id> [quick|thorough] [--replay file]; VERIF_SEED and VERIF_TIER honoured. known_findings.json lists genuine defects (finding/fixed).",
    }
    json.dump(m, open(os.path.join(V, "MANIFEST.json"), "w"), indent=1)
    print("claimed:", sorted(CLAIMED))

if __name__ == "__main__":
    main()
