#!/usr/bin/env python3
"""tools/refeval.py <PROP> <N> [--checks C01,C02,...] [--par 5]

False-alarm test: a HARMLESS refactoring written by an independent sub-agent (patch in /tmp/ref-<PROP>-out/patchN.diff,
scratch worktree /tmp/ref-<PROP>) is applied to the worktree and every check (default: all 20, quick tier) is run in a
private copy of /verif redirected to that worktree. Every check must stay silent. The result is stored under
/verif/refactors/<PROP>-<N>/ (patch.diff, report.md, meta.json)."""
import concurrent.futures, json, os, shutil, subprocess, sys, time
V = os.path.dirname(os.path.dirname(os.path.abspath(__file__)))
SNAP = os.environ.get("VERIF_SNAP", "/tmp/verif-snap")
SRC = SNAP if os.path.isdir(SNAP) and "--live" not in sys.argv else V  # a clean snapshot of the committed tree while people edit /verif
ENV = dict(os.environ, GOFLAGS="-mod=mod", GOPROXY="off", GOSUMDB="off", GOTOOLCHAIN="local")


def sh(cmd, cwd=None, timeout=3000, env=None):
    p = subprocess.run(cmd, cwd=cwd, env=env or ENV, shell=isinstance(cmd, str), stdout=subprocess.PIPE,
                       stderr=subprocess.STDOUT, text=True, timeout=timeout)
    return p.returncode, p.stdout


def main():
    prop, n = sys.argv[1], sys.argv[2]
    checks = [f"C{i:02d}" for i in range(1, 21)]
    if "--checks" in sys.argv:
        checks = sys.argv[sys.argv.index("--checks") + 1].split(",")
    par = int(sys.argv[sys.argv.index("--par") + 1]) if "--par" in sys.argv else 5
    wt, out = f"/tmp/ref-{prop}", f"/tmp/ref-{prop}-out"
    patch = f"{out}/patch{n}.diff"
    meta = {"refactoring_of": prop, "n": int(n), "source": "independent sub-agent asked for behaviour-preserving refactorings of the anchored code"}
    clean = f"git -C {wt} checkout -- . && git -C {wt} clean -fdq"
    sh(clean)
    rc, o = sh(f"git -C {wt} apply {patch}")
    if rc != 0:
        print("patch does not apply:", o); return 2
    rc, o = sh("go build ./... && go build -tags verif ./...", cwd=wt); meta["builds"] = rc == 0
    if "--nosuite" not in sys.argv:
        rc2, o2 = sh("go test -vet=off -count=1 ./... 2>&1 | grep -v '^ok\\|no test files' | head -30", cwd=wt)
        meta["suite_passes"] = ("FAIL" not in o2) and o2.strip() == ""
    vc = f"/tmp/vref-{prop}-{n}"
    shutil.rmtree(vc, ignore_errors=True)
    sh(["rsync", "-a", "--exclude", ".git", "--exclude", "replays", "--exclude", "seeded", "--exclude", "refactors", "--exclude", "design-spikes",
        "--exclude", ".work/gocache", SRC + "/", vc + "/"])
    gm = os.path.join(vc, "harness", "go.mod")
    txt = open(gm).read().replace("=> /repo", f"=> {wt}")
    open(gm, "w").write(txt)
    env = dict(ENV, AVO_REPO=wt, VERIF_REPO_LOCKED="1", GOCACHE=os.path.join(V, ".work", "gocache"))

    def run(c):
        t0 = time.time()
        rc, o = sh([f"{vc}/check", c, "quick"], cwd=vc, timeout=7200, env=env)
        viol = [l.replace(vc, "/verif") for l in o.splitlines() if l.startswith("VIOLATION")]
        res = {"silent": rc == 0 and not viol, "exit": rc, "line": viol[0] if viol else "", "wall_s": round(time.time() - t0, 1)}
        if not res["silent"]:
            res["tail"] = o[-3000:]
            # copy the replay for inspection
            for l in viol:
                for tok in l.split():
                    if tok.startswith("replay="):
                        src = tok[7:].replace("/verif", vc, 1)
                        if os.path.exists(src):
                            os.makedirs(f"{V}/replays", exist_ok=True)
                            shutil.copy(src, f"{V}/replays/ref-{prop}-{n}-" + os.path.basename(src))
        return c, res
    meta["checks"] = {}
    with concurrent.futures.ThreadPoolExecutor(par) as ex:
        for c, res in ex.map(run, checks):
            meta["checks"][c] = res
    sh(clean)
    if "--keep" not in sys.argv:
        shutil.rmtree(vc, ignore_errors=True)
    meta["all_silent"] = all(r["silent"] for r in meta["checks"].values())
    dst = f"{V}/refactors/{prop}-{n}"
    shutil.rmtree(dst, ignore_errors=True)
    os.makedirs(dst)
    shutil.copy(patch, f"{dst}/patch.diff")
    if os.path.exists(f"{out}/report{n}.md"):
        shutil.copy(f"{out}/report{n}.md", f"{dst}/report.md")
    json.dump(meta, open(f"{dst}/meta.json", "w"), indent=1)
    print(json.dumps({"refactoring": f"{prop}-{n}", "builds": meta.get("builds"), "suite": meta.get("suite_passes"), "all_silent": meta["all_silent"],
                      "alarms": {c: r["line"] or f"exit {r['exit']}" for c, r in meta["checks"].items() if not r["silent"]}}, indent=1))


if __name__ == "__main__":
    main()
