#!/usr/bin/env python3
"""tools/demoeval.py [PROP-N ...] [-P n]: re-confirm the demonstrations of stored seeded changes without running any check:
demo FAILS with the patch applied to the scratch worktree /tmp/seed-<PROP>, passes without. Updates the demo_* fields of meta.json.
(demo/go.mod files are stored as go.mod.txt; an empty or missing go.mod is synthesised.)"""
import json, os, shutil, subprocess, sys, concurrent.futures, collections
V = os.path.dirname(os.path.dirname(os.path.abspath(__file__)))
ENV = dict(os.environ, GOFLAGS="-mod=mod", GOPROXY="off", GOSUMDB="off", GOTOOLCHAIN="local")

def sh(cmd, cwd=None, timeout=1800):
    p = subprocess.run(cmd, cwd=cwd, env=ENV, shell=True, stdout=subprocess.PIPE, stderr=subprocess.STDOUT, text=True, timeout=timeout)
    return p.returncode, p.stdout

def materialise(sd, dst, wt):
    shutil.rmtree(dst, ignore_errors=True)
    shutil.copytree(f"{sd}/demo", dst)
    gm = f"{dst}/go.mod"
    txt = ""
    for cand in (f"{dst}/go.mod.txt", gm):
        if os.path.exists(cand) and os.path.getsize(cand) > 0:
            txt = open(cand).read(); break
    if not txt.strip():
        txt = f"module seed{os.path.basename(sd).split('-')[0].lower()}/demo{os.path.basename(sd).split('-')[1]}\n\ngo 1.23\n\nrequire github.com/mmcloughlin/avo v0.0.0\n\nreplace github.com/mmcloughlin/avo => /repo\n"
    import re
    txt = re.sub(r"(github.com/mmcloughlin/avo\s*=>\s*)\S+", lambda m: m.group(1) + wt, txt)
    open(gm, "w").write(txt)
    shutil.copy(f"{wt}/go.sum", f"{dst}/go.sum")

def one(name):
    prop = name.split("-")[0]
    sd = f"{V}/seeded/{name}"
    wt = f"/tmp/seed-{prop}"
    if not os.path.isdir(f"{sd}/demo"):
        return name, None, None, "no demo dir"
    dst = f"/tmp/demoeval/{name.replace(chr(45), chr(95)).lower()}/demo{name.split(chr(45))[1]}"; os.makedirs(os.path.dirname(dst), exist_ok=True)
    sh(f"git -C {wt} checkout -- . && git -C {wt} clean -fdq")
    rc, o = sh(f"git -C {wt} apply {sd}/patch.diff")
    if rc != 0:
        return name, None, None, "patch does not apply: " + o[-300:]
    materialise(sd, dst, wt)
    rc, o1 = sh("go test -count=1 ./... 2>&1 | tail -25", cwd=dst)
    sh(f"git -C {wt} checkout -- . && git -C {wt} clean -fdq")
    rc, o2 = sh("go test -count=1 ./... 2>&1 | tail -25", cwd=dst)
    shutil.rmtree(dst, ignore_errors=True)
    fails = "FAIL" in o1
    passes = ("FAIL" not in o2) and ("ok" in o2)
    mp = f"{sd}/meta.json"
    m = json.load(open(mp))
    m["demo_with_change"] = o1[-1500:]; m["demo_fails_with_change"] = fails
    m["demo_without_change"] = o2[-600:]; m["demo_passes_without_change"] = passes
    json.dump(m, open(mp, "w"), indent=1)
    return name, fails, passes, "" if (fails and passes) else (o1[-300:] + " || " + o2[-300:])

def main():
    names = [a for a in sys.argv[1:] if not a.startswith("-") and not a.isdigit()]
    P = int(sys.argv[sys.argv.index("-P") + 1]) if "-P" in sys.argv else 6
    if not names:
        names = sorted(os.listdir(f"{V}/seeded"))
    groups = collections.OrderedDict()
    for n in names:
        groups.setdefault(n.split("-")[0], []).append(n)
    def run(g):
        return [one(n) for n in g]
    with concurrent.futures.ThreadPoolExecutor(P) as ex:
        for res in ex.map(run, groups.values()):
            for name, f, p, note in res:
                print(name, "fails_with_change=%s passes_without=%s" % (f, p), note.replace("\n", " ")[:400])

if __name__ == "__main__":
    main()
