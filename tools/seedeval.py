#!/usr/bin/env python3
"""tools/seedeval.py <PROP> <N> [--checks C01,C03] : confirm a seeded change produced by an independent
sub-agent (patch + demonstration in /tmp/seed-<PROP>-out), run our checks against it, and store it under
/verif/seeded/<PROP>-<N>/ with meta.json."""
import json, os, re, shutil, subprocess, sys, time
V = os.path.dirname(os.path.dirname(os.path.abspath(__file__)))
ENV = dict(os.environ, GOFLAGS="-mod=mod", GOPROXY="off", GOSUMDB="off", GOTOOLCHAIN="local")

def sh(cmd, cwd=None, timeout=3000):
    p = subprocess.run(cmd, cwd=cwd, env=ENV, shell=isinstance(cmd, str), stdout=subprocess.PIPE, stderr=subprocess.STDOUT, text=True, timeout=timeout)
    return p.returncode, p.stdout

def main():
    prop, n = sys.argv[1], sys.argv[2]
    checks = [prop]
    if "--checks" in sys.argv:
        checks = sys.argv[sys.argv.index("--checks") + 1].split(",")
    wt, out = f"/tmp/seed-{prop}", f"/tmp/seed-{prop}-out"
    patch, demo = f"{out}/patch{n}.diff", f"{out}/demo{n}"
    meta = {"property": prop, "n": int(n), "source": "independent sub-agent given only the property text and a scratch worktree"}
    sh(f"git -C {wt} checkout -- . && git -C {wt} clean -fdq")
    # demo location: OUTDIR/demoN or inside the worktree (then the patch contains it)
    demo_in_wt = not os.path.isdir(demo)
    rc, o = sh(f"git -C {wt} apply {patch}")
    meta["patch_applies"] = rc == 0
    rc, o = sh("go build ./...", cwd=wt); meta["builds_with_change"] = rc == 0
    rc, o = sh("go test -vet=off -count=1 ./... 2>&1 | grep -v '^ok\\|no test files' | head -20", cwd=wt)
    rc2, o2 = sh("go test -vet=off -count=1 ./... > /dev/null 2>&1; echo $?", cwd=wt)
    meta["suite_passes_with_change"] = o2.strip() == "0"
    def run_demo():
        if demo_in_wt:
            return None, "demo inside worktree: not run separately"
        return sh("go test -count=1 ./... 2>&1 | tail -15", cwd=demo, timeout=1200)
    rc, o = run_demo(); meta["demo_with_change"] = o[-1500:]
    meta["demo_fails_with_change"] = ("FAIL" in o)
    sh(f"git -C {wt} checkout -- . && git -C {wt} clean -fdq")
    rc, o = run_demo(); meta["demo_without_change"] = o[-600:]
    meta["demo_passes_without_change"] = ("FAIL" not in o) and ("ok" in o)
    # our checks against the change
    meta["checks"] = {}
    for c in checks:
        for tier in (["quick"] if "--thorough" not in sys.argv else ["quick", "thorough"]):
            t0 = time.time()
            rc, o = sh([f"{V}/mutate", patch, "--", c, tier], cwd=V, timeout=7200)
            viol = [l for l in o.splitlines() if l.startswith("VIOLATION")]
            meta["checks"][f"{c}:{tier}"] = {"detected": bool(viol), "line": viol[0] if viol else "", "wall_s": round(time.time() - t0, 1),
                                               "tail": o[-300:] if not viol else ""}
            if viol:
                break
    dst = f"{V}/seeded/{prop}-{n}"
    shutil.rmtree(dst, ignore_errors=True)
    os.makedirs(dst)
    shutil.copy(patch, f"{dst}/patch.diff")
    if os.path.exists(f"{out}/report{n}.md"):
        shutil.copy(f"{out}/report{n}.md", f"{dst}/report.md")
    if not demo_in_wt:
        shutil.copytree(demo, f"{dst}/demo")
        gm = f"{dst}/demo/go.mod"
        if os.path.exists(gm):
            open(gm, "w").write(open(gm).read().replace(wt, "/repo"))
            meta["demo_note"] = "go.mod replace path rewritten from the scratch worktree to /repo; run with `go test ./...` in demo/ after `git -C /repo apply patch.diff`"
    meta["needs_to_manifest"] = ""
    rep = f"{out}/report{n}.md"
    if os.path.exists(rep):
        meta["needs_to_manifest"] = open(rep).read()[:1500]
    json.dump(meta, open(f"{dst}/meta.json", "w"), indent=1)
    print(json.dumps({k: v for k, v in meta.items() if k not in ("demo_with_change", "demo_without_change", "needs_to_manifest")}, indent=1))

if __name__ == "__main__":
    main()
