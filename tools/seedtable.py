#!/usr/bin/env python3
"""tools/seedtable.py — print the markdown tables of DESIGN.md §7 from seeded/*/meta.json and refactors/*/meta.json
(what each independently written change is, what it needs, which checks reported it / stayed silent)."""
import json, os, re, sys
V = os.path.dirname(os.path.dirname(os.path.abspath(__file__)))


def first_line(path, limit=150):
    try:
        for l in open(path):
            l = l.strip().lstrip("#").strip()
            if l and not l.lower().startswith(("patch:", "demonstration:")):
                return l[:limit]
    except OSError:
        pass
    return ""


def needs(path, limit=170):
    try:
        txt = open(path).read()
    except OSError:
        return ""
    m = re.search(r"(?im)^#+[^\n]*(needs|needed)[^\n]*\n+((?:(?!^#).*\n?)*)", txt)
    if m:
        body = m.group(2)
    else:
        m = re.search(r"(?is)\*\*what it needs:?\*\*:?\s*(.*?)(\n\n|\Z)", txt) or re.search(r"(?is)needs?:\s*(.*?)(\n\n|\Z)", txt)
        body = m.group(1) if m else ""
    body = re.sub(r"\s+", " ", body).strip(" -*")
    return body[:limit]


def main():
    rows = []
    d = os.path.join(V, "seeded")
    for name in sorted(os.listdir(d)):
        mp = os.path.join(d, name, "meta.json")
        if not os.path.exists(mp):
            continue
        m = json.load(open(mp))
        checks = m.get("checks", {})
        caught = [k.split(":")[0] for k, v in checks.items() if v.get("detected")]
        missed = [k.split(":")[0] for k, v in checks.items() if not v.get("detected")]
        own = name.split("-")[0]
        conf = all(m.get(k, True) for k in ("suite_passes_with_change", "demo_fails_with_change", "demo_passes_without_change"))
        rep = os.path.join(d, name, "report.md")
        rows.append((name, first_line(rep), needs(rep), ", ".join(dict.fromkeys(caught)) or "—",
                     ", ".join(dict.fromkeys(missed)) or "", "yes" if own in caught else "NO", "" if conf else " (demo/suite not re-confirmed)"))
    print("| id | change | what it needs | reported by (quick) | silent | own check |")
    print("|---|---|---|---|---|---|")
    for r in rows:
        print(f"| {r[0]} | {r[1]}{r[6]} | {r[2]} | {r[3]} | {r[4]} | {r[5]} |")
    d = os.path.join(V, "refactors")
    if os.path.isdir(d):
        print()
        print("| refactoring | what | all 20 checks silent | alarms |")
        print("|---|---|---|---|")
        for name in sorted(os.listdir(d)):
            mp = os.path.join(d, name, "meta.json")
            if not os.path.exists(mp):
                continue
            m = json.load(open(mp))
            al = [c for c, r in m.get("checks", {}).items() if not r.get("silent")]
            print(f"| {name} | {first_line(os.path.join(d, name, 'report.md'))} | {'yes' if m.get('all_silent') else 'NO'} | {', '.join(al)} |")


if __name__ == "__main__":
    main()
