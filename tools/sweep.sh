#!/bin/sh
# tools/sweep.sh [tier] [seeds...] : run every claimed check for several seeds on the unchanged tree; print a summary.
cd "$(dirname "$0")/.."
tier=${1:-quick}; shift
seeds=${@:-1 2 3 4 5}
[ -d lean/.lake ] || ./setup.sh >/dev/null 2>&1
props=$(python3 -c "import json;print(' '.join(c['property_id'] for c in json.load(open('MANIFEST.json'))['checks']))")
fail=0
for s in $seeds; do
  for p in $props; do
    out=$(VERIF_SEED=$s ./check $p $tier 2>&1)
    rc=$?
    line=$(echo "$out" | grep -E "^(OK|VIOLATION)" | tail -1)
    echo "seed=$s $p rc=$rc $line"
    [ $rc -ne 0 ] && { fail=1; echo "$out" | tail -5; }
  done
done
echo "SWEEP DONE fail=$fail"
exit $fail
