#!/bin/sh
# run every claimed quick check on the unchanged tree, then validate all evidence files
cd "$(dirname "$0")/.."
props=$(python3 -c "import json;print(' '.join(c['property_id'] for c in json.load(open('MANIFEST.json'))['checks']))")
for p in $props; do ./check $p quick 2>&1 | grep -E "^(OK|VIOLATION)" | tail -1; done
python3-vt - <<'PY'
import json,jsonschema,glob
sch=json.load(open('/root/.vp/EVIDENCE.schema.json'))
m=json.load(open('/verif/MANIFEST.json'))
jsonschema.validate(m,json.load(open('/root/.vp/MANIFEST.schema.json')))
claimed={c['property_id'] for c in m['checks']}
for f in sorted(glob.glob('/verif/evidence/*.json')):
    e=json.load(open(f))
    try:
        jsonschema.validate(e,sch); ok='valid'
    except Exception as ex: ok='INVALID '+str(ex)[:80]
    pid=e.get('property_id')
    print(pid, ok, 'claimed' if pid in claimed else 'UNCLAIMED', 'obl',e['coverage'].get('obligations'),'dis',e['coverage'].get('discharged'),'viol',e.get('violations'))
PY
