#!/usr/bin/env python3
"""tools/batch.py {seed|ref} <file> [-P n]: run tools/pareval.py / tools/refeval.py for every line `PROP N [CHECKS]` of <file>;
lines of the same PROP share one scratch worktree and therefore run one after the other, different PROPs in parallel."""
import collections, concurrent.futures, subprocess, sys, os
V = os.path.dirname(os.path.dirname(os.path.abspath(__file__)))
kind, path = sys.argv[1], sys.argv[2]
P = int(sys.argv[sys.argv.index("-P") + 1]) if "-P" in sys.argv else 4
extra = [a for a in sys.argv[3:] if a.startswith("--") and not a.startswith("--prefix=")]
prefix = next((a.split("=", 1)[1] for a in sys.argv[3:] if a.startswith("--prefix=")), None)  # scratch worktree /tmp/<prefix>-<PROP>, deliverables /tmp/<prefix>-<PROP>-out
groups = collections.OrderedDict()
for l in open(path):
    f = l.split()
    if f:
        groups.setdefault(f[0], []).append(f)
def run(items):
    for f in items:
        if kind == "seed":
            cmd = [f"{V}/tools/pareval.py", f[0], f[1]] + (["--checks", f[2]] if len(f) > 2 else []) + extra
            if prefix:
                cmd += ["--wt", f"/tmp/{prefix}-{f[0]}", "--out", f"/tmp/{prefix}-{f[0]}-out"]
            log = f"/tmp/pe-{f[0]}-{f[1]}.log"
        else:
            cmd = [f"{V}/tools/refeval.py", f[0], f[1]] + (["--checks", f[2]] if len(f) > 2 else []) + extra
            log = f"/tmp/re-{f[0]}-{f[1]}.log"
        with open(log, "w") as fo:
            subprocess.run(["python3"] + cmd, stdout=fo, stderr=subprocess.STDOUT)
with concurrent.futures.ThreadPoolExecutor(P) as ex:
    list(ex.map(run, groups.values()))
