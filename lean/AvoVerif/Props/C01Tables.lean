/-
C01, second half: the model of avo's allocator (tied to the implementation by
exact correspondence on every run) always produces allocations that satisfy the
hypotheses of `accepted_preserves`, on avo's regenerated register table.
-/
import AvoVerif.Props.C01
import AvoVerif.Lemmas.AllocProof2
import AvoVerif.Gen.Regs
namespace Avo.Alloc
open Avo.Reg Avo.MaskSet Avo.AllocCheck

theorem mem_insertReg (prio : Nat → Int) (x y : Nat) (l : List Nat) : y ∈ insertReg prio x l ↔ (y = x ∨ y ∈ l) := by
  induction l with
  | nil => simp [insertReg]
  | cons z zs ih =>
    simp only [insertReg]
    split
    · simp
    · simp only [List.mem_cons, ih]
      constructor
      · rintro (h | h | h)
        · right; left; exact h
        · left; exact h
        · right; right; exact h
      · rintro (h | h | h)
        · right; left; exact h
        · left; exact h
        · right; right; exact h

theorem mem_sortRegs (prio : Nat → Int) (y : Nat) (l : List Nat) : y ∈ sortRegs prio l ↔ y ∈ l := by
  induction l with
  | nil => simp [sortRegs]
  | cons x xs ih =>
    simp only [sortRegs, List.foldr_cons] at ih ⊢
    rw [mem_insertReg, ih]; simp

/-- Every candidate of any kind is the id of a row of the table. -/
theorem candidate_is_row (tbl : List RegRow) (k p : Nat) (h : p ∈ candidates tbl k) : ∃ r ∈ tbl, r.id = p := by
  unfold candidates at h
  simp only at h
  rw [mem_sortRegs, List.mem_eraseDups] at h
  obtain ⟨r, hr, hrp⟩ := List.mem_map.mp h
  exact ⟨r, (List.mem_filter.mp (List.mem_filter.mp hr).1).1, hrp⟩

/-- All ids of avo's physical register table are physical ids (complete `decide`). -/
theorem regs_ids_physical : Avo.Gen.regs.all (fun r => !idIsVirtual r.id) = true := by decide +kernel

theorem candidates_physical (k : Nat) (p : Nat) (h : p ∈ candidates Avo.Gen.regs k) : idIsVirtual p = false := by
  obtain ⟨r, hr, hrp⟩ := candidate_is_row _ _ _ h
  have := List.all_eq_true.mp regs_ids_physical r hr
  rw [← hrp]; simpa using this

/-- **C01 (the algorithm).** For every function: if the model of
`AllocateRegisters` on avo's register file returns an allocation `A`, then `A`
passes the validity and shape checks for any checked program that carries the
same output registers and live-out sets — so, with a liveness post-fixpoint
(C02) and `accepted_preserves`, allocation preserves memory and control for all
argument values. -/
theorem avo_alloc_valid_installed (is : List AInstr) (A : List (Nat × Nat))
    (h : allocate Avo.Gen.regs is = .ok A) (P : CProg)
    (hP : ∀ c ∈ P.toList, ∃ i ∈ is, i.outs = c.defs ∧ i.liveOut = c.liveOut) :
    checkValid P A = true ∧ checkAllocShape A = true :=
  avo_alloc_valid _ is A candidates_physical h P hP

end Avo.Alloc
