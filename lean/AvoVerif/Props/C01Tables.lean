/-
C01, second half: the model of avo's allocator (tied to the implementation by
exact correspondence on every run) always produces allocations that satisfy the
hypotheses of `accepted_preserves`, on avo's regenerated register table.
-/
import AvoVerif.Props.C01
import AvoVerif.Lemmas.AllocProof2
import AvoVerif.Gen.Regs
namespace Avo.Alloc
open Avo.Reg Avo.MaskSet Avo.AllocCheck

theorem mem_insertReg (prio : Nat → Int) (x y : Nat) (l : List Nat) : y ∈ insertReg prio x l ↔ (y = x ∨ y ∈ l) := by
  induction l with
  | nil => simp [insertReg]
  | cons z zs ih =>
    simp only [insertReg]
    split
    · simp
    · simp only [List.mem_cons, ih]
      constructor
      · rintro (h | h | h)
        · right; left; exact h
        · left; exact h
        · right; right; exact h
      · rintro (h | h | h)
        · right; left; exact h
        · left; exact h
        · right; right; exact h

theorem mem_sortRegs (prio : Nat → Int) (y : Nat) (l : List Nat) : y ∈ sortRegs prio l ↔ y ∈ l := by
  induction l with
  | nil => simp [sortRegs]
  | cons x xs ih =>
    simp only [sortRegs, List.foldr_cons] at ih ⊢
    rw [mem_insertReg, ih]; simp

/-- Every candidate of any kind is the id of a row of the table. -/
theorem candidate_is_row (tbl : List RegRow) (k p : Nat) (h : p ∈ candidates tbl k) : ∃ r ∈ tbl, r.id = p := by
  unfold candidates at h
  simp only at h
  rw [mem_sortRegs, List.mem_eraseDups] at h
  obtain ⟨r, hr, hrp⟩ := List.mem_map.mp h
  exact ⟨r, (List.mem_filter.mp (List.mem_filter.mp hr).1).1, hrp⟩

/-- All ids of avo's physical register table are physical ids (complete `decide`). -/
theorem regs_ids_physical : Avo.Gen.regs.all (fun r => !idIsVirtual r.id) = true := by decide +kernel

theorem candidates_physical (k : Nat) (p : Nat) (h : p ∈ candidates Avo.Gen.regs k) : idIsVirtual p = false := by
  obtain ⟨r, hr, hrp⟩ := candidate_is_row _ _ _ h
  have := List.all_eq_true.mp regs_ids_physical r hr
  rw [← hrp]; simpa using this

/-- **C01 (the algorithm).** For every function: if the model of
`AllocateRegisters` on avo's register file returns an allocation `A`, then `A`
passes the validity and shape checks for any checked program that carries the
same output registers and live-out sets — so, with a liveness post-fixpoint
(C02) and `accepted_preserves`, allocation preserves memory and control for all
argument values. -/
theorem avo_alloc_valid_installed (is : List AInstr) (A : List (Nat × Nat))
    (h : allocate Avo.Gen.regs is = .ok A) (P : CProg)
    (hP : ∀ c ∈ P.toList, ∃ i ∈ is, i.outs = c.defs ∧ i.liveOut = c.liveOut) :
    checkValid P A = true ∧ checkAllocShape A = true :=
  avo_alloc_valid _ is A candidates_physical h P hP

/-- Non-vacuity of `avo_alloc_valid_installed`: `v := …; w := …` with `v` live across the definition of `w`;
the model allocates (v ↦ RAX, w ↦ RCX) and the allocation is valid for the corresponding checked program. -/
example :
    let is : List AInstr := [⟨[⟨257, 15⟩], [⟨257, 15⟩], [(257, 15)], [true]⟩,
                             ⟨[⟨65793, 15⟩], [⟨65793, 15⟩], [(257, 15), (65793, 15)], [true]⟩]
    let P : CProg := #[⟨[], [⟨257, 15⟩], [some 1], [], [(257, 15)]⟩,
                      ⟨[], [⟨65793, 15⟩], [none], [(257, 15)], [(257, 15), (65793, 15)]⟩]
    (allocate Avo.Gen.regs is).toOption = some [(257, 256), (65793, 65792)] ∧
      checkValid P [(257, 256), (65793, 65792)] = true ∧ checkValid P [(257, 256), (65793, 256)] = false := by
  decide +kernel

/-! ### The fuel of `allocLoop` is sufficient

`allocLoop` carries a fuel and answers `failed` when it runs out — the same answer as a genuine allocation failure.
Every round removes the chosen virtual from `possible`, so `possible.length + 1` rounds always suffice: above that
bound the result does not depend on the fuel, i.e. the fuel branch is never the reason for `failed` in `allocKind`
(which starts the loop with exactly `possible.length + 1`). -/

theorem discardConf_length (poss : List (Nat × List Nat)) (v p : Nat) : (discardConf poss v p).length = poss.length := by
  simp [discardConf]

theorem updateEdges_length (al : List (Nat × Nat)) :
    ∀ (es : List (Nat × Nat)) (poss : List (Nat × List Nat)) (rem : List (Nat × Nat)) poss' rem',
      updateEdges al es poss rem = .ok (poss', rem') → poss'.length = poss.length
  | [], poss, rem, poss', rem', h => by
    simp only [updateEdges, Except.ok.injEq, Prod.mk.injEq] at h
    rw [← h.1]
  | (x0, y0) :: es, poss, rem, poss', rem', h => by
    unfold updateEdges at h
    simp only at h
    split at h
    · exact updateEdges_length al es poss _ _ _ h
    · split at h
      · split at h
        · cases h
        · exact updateEdges_length al es poss _ _ _ h
      · split at h
        · rw [updateEdges_length al es _ _ _ _ h, discardConf_length]
        · rw [updateEdges_length al es _ _ _ _ h, discardConf_length]

/-- **Fuel sufficiency.** With more fuel than unallocated virtuals the result of the loop is independent of the fuel. -/
theorem allocLoop_fuel_irrelevant : ∀ (f1 f2 : Nat) (st : AState),
    st.possible.length < f1 → st.possible.length < f2 → allocLoop f1 st = allocLoop f2 st
  | 0, _, _, h, _ => by omega
  | _ + 1, 0, _, _, h => by omega
  | f1 + 1, f2 + 1, st, h1, h2 => by
    simp only [allocLoop]
    cases hu : updateEdges st.allocation st.edges st.possible [] with
    | error e => rfl
    | ok pr =>
      rcases pr with ⟨poss, rem⟩
      have hl := updateEdges_length _ _ _ _ _ _ hu
      simp only
      cases hm : mostRestricted poss with
      | none => rfl
      | some e =>
        rcases e with ⟨v, ps⟩
        cases ps with
        | nil => rfl
        | cons p ps =>
          simp only
          have hlt : (poss.filter (fun e => e.1 != v)).length < poss.length := by
            apply List.length_filter_lt_length_iff_exists.mpr
            exact ⟨(v, p :: ps), mostRestricted_mem _ _ hm, by simp⟩
          apply allocLoop_fuel_irrelevant <;> simp only <;> omega

/-- In particular extra fuel never changes what `allocKind`'s loop answers: a `failed` of the model is a genuine
"some virtual has no candidate left", never an exhausted fuel. -/
theorem allocLoop_fuel_sufficient (st : AState) (extra : Nat) :
    allocLoop (st.possible.length + 1 + extra) st = allocLoop (st.possible.length + 1) st :=
  allocLoop_fuel_irrelevant _ _ st (by omega) (by omega)

end Avo.Alloc
