import AvoVerif.Props.C04Rows
import AvoVerif.Gen.FormActions_01
namespace Avo.FormActions.Tables
open Avo.FormActions Avo.Gen
/-- every row of shard 1 of the regenerated form table passes every structural check -/
theorem shard_01 : formActions_01.all rowOK = true := by decide +kernel
end Avo.FormActions.Tables
