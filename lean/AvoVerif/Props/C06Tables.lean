/-
C06 on the regenerated tables (Gen.FormsMeta, Gen.Forms_*, Gen.Ctors_*): the
kernel-checked per-shard obligations of Props/C06T/* lifted, with the generic
theorems of Props/C06.lean, to statements about every constructor, Context
method and package-level function of the current /repo sources.
-/
import AvoVerif.Props.C06
import AvoVerif.Gen.Forms
import AvoVerif.Gen.Ctors
import AvoVerif.Gen.Regs
import AvoVerif.Props.C06T.Ctors00
import AvoVerif.Props.C06T.Ctors01
import AvoVerif.Props.C06T.Ctors02
import AvoVerif.Props.C06T.Ctors03
import AvoVerif.Props.C06T.Ctors04
import AvoVerif.Props.C06T.Ctors05
import AvoVerif.Props.C06T.Ctors06
import AvoVerif.Props.C06T.Ctors07
import AvoVerif.Props.C06T.Forms00
import AvoVerif.Props.C06T.Forms01
import AvoVerif.Props.C06T.Forms02
import AvoVerif.Props.C06T.Forms03
import AvoVerif.Props.C06T.Forms04
import AvoVerif.Props.C06T.Forms05
import AvoVerif.Props.C06T.Forms06
import AvoVerif.Props.C06T.Forms07
import AvoVerif.Props.C06T.Forms08
import AvoVerif.Props.C06T.Forms09
import AvoVerif.Props.C06T.Forms10
import AvoVerif.Props.C06T.Forms11
import AvoVerif.Props.C06T.Forms12
import AvoVerif.Props.C06T.Forms13
import AvoVerif.Props.C06T.Forms14
import AvoVerif.Props.C06T.Forms15
namespace Avo.C06
open Avo Avo.Instr Avo.Gen Avo.C06T
set_option maxRecDepth 1000000

/-! ## Small-table obligations -/

/-- the three opcode tables have one entry per opcode; opcode and suffix strings
carry correct length fields (they are concatenated into names) -/
theorem meta_ok :
    (formsMeta.opcs.length == formsMeta.opcStrings.length &&
     formsMeta.opcs.length == formsMeta.opcRanges.length &&
     formsMeta.opcStrings.all (fun n => Name.wfKey (Name.key n)) &&
     formsMeta.sffxsStrings.all (fun e => e.2.all (fun n => Name.wfKey (Name.key n))) &&
     formsMeta.oprndTypes.all (fun p => (OpClass.ofChecker p.2).isSome) &&
     formsMeta.sffxsCls.length == formsMeta.sffxsClsSets.length &&
     formsMeta.isas.length == formsMeta.isasLists.length) = true := by
  decide +kernel

/-- the register constants of the hand-written predicates (`IsAL`, `IsCL`, `IsAX`,
`IsEAX`, `IsRAX`, `IsXMM0`) are the identifiers and masks of those registers in
the compiled register table -/
theorem fixed_regs :
    ([(idAL, 1), (idCL, 1), (idAL, 3), (idAL, 7), (idAL, 15), (idX0, 31)].map (fun p =>
      (Gen.regs.filter (fun r => r.id == p.1 && r.mask == p.2)).map (fun r => (r.name, r.kind, r.size)))) =
    [[("AL", 1, 1)], [("CL", 1, 1)], [("AX", 1, 2)], [("AX", 1, 4)], [("AX", 1, 8)], [("X0", 2, 16)]] := by
  decide +kernel

/-- every implicit register of the table is a row of the compiled register table -/
theorem impl_regs_known :
    formsMeta.implRegs.all (fun p => Gen.regs.any (fun r =>
      r.id == p.2.2.id && r.mask == p.2.2.mask && r.kind == p.2.2.kind && r.size == p.2.2.size)) = true := by
  decide +kernel

/-! ## Lifting the per-shard obligations -/

theorem forms_wf : ∀ f ∈ forms, Form.wf formsMeta f = true := by
  intro f hf
  simp only [forms, formShards, List.mem_flatten, List.mem_cons, List.not_mem_nil, or_false] at hf
  obtain ⟨sh, hsh, hf⟩ := hf
  have key : ∀ (l : List Form), l.all (Form.wf formsMeta) = true → f ∈ l → Form.wf formsMeta f = true :=
    fun l h hm => List.all_eq_true.mp h f hm
  rcases hsh with rfl | rfl | rfl | rfl | rfl | rfl | rfl | rfl | rfl | rfl | rfl | rfl | rfl | rfl | rfl | rfl
  · exact key _ forms_00_wf hf
  · exact key _ forms_01_wf hf
  · exact key _ forms_02_wf hf
  · exact key _ forms_03_wf hf
  · exact key _ forms_04_wf hf
  · exact key _ forms_05_wf hf
  · exact key _ forms_06_wf hf
  · exact key _ forms_07_wf hf
  · exact key _ forms_08_wf hf
  · exact key _ forms_09_wf hf
  · exact key _ forms_10_wf hf
  · exact key _ forms_11_wf hf
  · exact key _ forms_12_wf hf
  · exact key _ forms_13_wf hf
  · exact key _ forms_14_wf hf
  · exact key _ forms_15_wf hf

theorem forms_arity_le : ∀ f ∈ forms, f.arity ≤ f.ops.length := by
  intro f hf
  have := forms_wf f hf
  unfold Form.wf at this
  simp only [Bool.and_eq_true, decide_eq_true_eq] at this
  exact this.1.1.1.1.1

/-- **Branch / terminal features of every row** of the current form table are those of
the row's mnemonic (shard obligations `forms_NN_feat`, kernel-evaluated). -/
theorem forms_feat : ∀ f ∈ forms, Form.featOK formsMeta f = true := by
  intro f hf
  simp only [forms, formShards, List.mem_flatten, List.mem_cons, List.not_mem_nil, or_false] at hf
  obtain ⟨sh, hsh, hf⟩ := hf
  have key : ∀ (l : List Form), l.all (Form.featOK formsMeta) = true → f ∈ l → Form.featOK formsMeta f = true :=
    fun l h hm => List.all_eq_true.mp h f hm
  rcases hsh with rfl | rfl | rfl | rfl | rfl | rfl | rfl | rfl | rfl | rfl | rfl | rfl | rfl | rfl | rfl | rfl
  · exact key _ forms_00_feat hf
  · exact key _ forms_01_feat hf
  · exact key _ forms_02_feat hf
  · exact key _ forms_03_feat hf
  · exact key _ forms_04_feat hf
  · exact key _ forms_05_feat hf
  · exact key _ forms_06_feat hf
  · exact key _ forms_07_feat hf
  · exact key _ forms_08_feat hf
  · exact key _ forms_09_feat hf
  · exact key _ forms_10_feat hf
  · exact key _ forms_11_feat hf
  · exact key _ forms_12_feat hf
  · exact key _ forms_13_feat hf
  · exact key _ forms_14_feat hf
  · exact key _ forms_15_feat hf

/-- the shards, as triples of constructor / method / global rows -/
def shardTriples : List (List CtorRow × List WrapRow × List WrapRow) :=
  [(ctors_00, methods_00, globals_00), (ctors_01, methods_01, globals_01), (ctors_02, methods_02, globals_02),
   (ctors_03, methods_03, globals_03), (ctors_04, methods_04, globals_04), (ctors_05, methods_05, globals_05),
   (ctors_06, methods_06, globals_06), (ctors_07, methods_07, globals_07)]

theorem shardTriples_ctors : shardTriples.map (·.1) = ctorsShards := rfl
theorem shardTriples_methods : shardTriples.map (·.2.1) = methodsShards := rfl
theorem shardTriples_globals : shardTriples.map (·.2.2) = globalsShards := rfl

theorem shards_ok : ∀ t ∈ shardTriples,
    ctorPass (ctorOK formsMeta) 1 0 formsMeta.entries forms t.1 = true ∧ layersOK t.1 t.2.1 t.2.2 = true := by
  intro t ht
  simp only [shardTriples, List.mem_cons, List.not_mem_nil, or_false] at ht
  rcases ht with rfl | rfl | rfl | rfl | rfl | rfl | rfl | rfl
  · exact ⟨ctors_00_pass, layers_00_ok⟩
  · exact ⟨ctors_01_pass, layers_01_ok⟩
  · exact ⟨ctors_02_pass, layers_02_ok⟩
  · exact ⟨ctors_03_pass, layers_03_ok⟩
  · exact ⟨ctors_04_pass, layers_04_ok⟩
  · exact ⟨ctors_05_pass, layers_05_ok⟩
  · exact ⟨ctors_06_pass, layers_06_ok⟩
  · exact ⟨ctors_07_pass, layers_07_ok⟩

/-- **Every opcode's range in `opcformstable` is exactly the contiguous block
of rows with that opcode**, all rows carry an opcode code of the enum, and
`formsOf` (what `opc.Forms()` returns) is that block. -/
theorem opcode_ranges :
    (∀ f ∈ forms, 1 ≤ f.opc ∧ f.opc ≤ formsMeta.entries.length) ∧
    (∀ i e, formsMeta.entries[i]? = some e →
      (forms.drop e.lo).take (e.hi - e.lo) = forms.filter (fun f => f.opc == 1 + i)) := by
  have h := ctorPass_sound (ctorOK formsMeta) formsMeta.entries 1 0 forms ctors_00 ctors_00_pass
  refine ⟨?_, ?_⟩
  · intro f hf; have := h.1 f hf; omega
  · intro i e he; simpa using h.2.2 i e he [] rfl

theorem zipEntries_ranges : ∀ (is ss : List Nat) (rs : List (Nat × Nat)) (i : Nat) (e : OpcEntry),
    (zipEntries is ss rs)[i]? = some e → rs[i]? = some (e.lo, e.hi) := by
  intro is
  induction is with
  | nil => intro ss rs i e h; simp [zipEntries] at h
  | cons a is ih =>
    intro ss rs i e h
    cases ss with
    | nil => simp [zipEntries] at h
    | cons s ss =>
      cases rs with
      | nil => simp [zipEntries] at h
      | cons r rs =>
        obtain ⟨lo, hi⟩ := r
        cases i with
        | zero => simp [zipEntries] at h; subst h; rfl
        | succ i => simp only [zipEntries, List.getElem?_cons_succ] at h ⊢; exact ih ss rs i e h

theorem zipEntries_strs : ∀ (is ss : List Nat) (rs : List (Nat × Nat)) (i : Nat) (e : OpcEntry),
    (zipEntries is ss rs)[i]? = some e → ss[i]? = some e.str ∧ is[i]? = some e.ident := by
  intro is
  induction is with
  | nil => intro ss rs i e h; simp [zipEntries] at h
  | cons a is ih =>
    intro ss rs i e h
    cases ss with
    | nil => simp [zipEntries] at h
    | cons s ss =>
      cases rs with
      | nil => simp [zipEntries] at h
      | cons r rs =>
        obtain ⟨lo, hi⟩ := r
        cases i with
        | zero => simp [zipEntries] at h; subst h; exact ⟨rfl, rfl⟩
        | succ i => simp only [zipEntries, List.getElem?_cons_succ] at h ⊢; exact ih ss rs i e h

/-- `opc(i+1).String()` is the mnemonic of the entry -/
theorem opcString_entry (i : Nat) (e : OpcEntry) (he : formsMeta.entries[i]? = some e) :
    opcString formsMeta (i + 1) = e.str := by
  have := (zipEntries_strs _ _ _ i e he).1
  unfold opcString
  simp only [List.getD_eq_getElem?_getD, this, Option.getD_some]

/-- `opc(i+1).Forms()` is the block of rows with opcode code `i+1` -/
theorem formsOf_eq_filter (i : Nat) (e : OpcEntry) (he : formsMeta.entries[i]? = some e) :
    formsOf formsMeta forms (i + 1) = forms.filter (fun f => f.opc == 1 + i) := by
  have hr := zipEntries_ranges _ _ _ i e he
  unfold formsOf
  simp only
  rw [hr]
  exact opcode_ranges.2 i e he

theorem layersOK_sound : ∀ (cs : List CtorRow) (ms gs : List WrapRow), layersOK cs ms gs = true →
    cs.map (·.name) = ms.map (·.name) ∧ cs.map (·.name) = gs.map (·.name) ∧
    ∀ (i : Nat) (c : CtorRow), cs[i]? = some c → ∃ (m g : WrapRow), ms[i]? = some m ∧ gs[i]? = some g ∧
      m.name = c.name ∧ g.name = c.name ∧ m.methodOK = true ∧ g.globalOK = true ∧
      m.params.length = c.params.length ∧ g.params.length = c.params.length ∧
      m.variadic = c.variadic ∧ g.variadic = c.variadic ∧ m.doc = c.doc ∧ g.doc = c.doc := by
  intro cs
  induction cs with
  | nil =>
    intro ms gs h
    cases ms <;> cases gs <;> simp_all [layersOK]
  | cons c cs ih =>
    intro ms gs h
    cases ms with
    | nil => simp [layersOK] at h
    | cons m ms =>
      cases gs with
      | nil => simp [layersOK] at h
      | cons g gs =>
        simp only [layersOK, Bool.and_eq_true, beq_iff_eq, and_assoc] at h
        obtain ⟨h1, h2, h3, h4, h5, h6, h7, h8, h9, h10, hrest⟩ := h
        obtain ⟨iha, ihb, ihc⟩ := ih ms gs hrest
        refine ⟨by simp [h1, iha], by simp [h2, ihb], ?_⟩
        intro i c' hc'
        cases i with
        | zero =>
          simp only [List.getElem?_cons_zero, Option.some.injEq] at hc'
          subst hc'
          exact ⟨m, g, rfl, rfl, h1, h2, h3, h4, h5, h6, h7, h8, h9, h10⟩
        | succ i => simpa using ihc i c' (by simpa using hc')

/-- **The three name sets coincide** (as lists, in the grouped order). -/
theorem names_coincide :
    ctors.map (·.name) = methods.map (·.name) ∧ ctors.map (·.name) = globals.map (·.name) := by
  have h : ∀ t ∈ shardTriples, t.1.map (·.name) = t.2.1.map (·.name) ∧ t.1.map (·.name) = t.2.2.map (·.name) := by
    intro t ht
    have := layersOK_sound _ _ _ (shards_ok t ht).2
    exact ⟨this.1, this.2.1⟩
  have h1 : shardTriples.map (fun t => t.1.map (·.name)) = shardTriples.map (fun t => t.2.1.map (·.name)) :=
    List.map_congr_left (fun t ht => (h t ht).1)
  have h2 : shardTriples.map (fun t => t.1.map (·.name)) = shardTriples.map (fun t => t.2.2.map (·.name)) :=
    List.map_congr_left (fun t ht => (h t ht).2)
  simp only [ctors, methods, globals, ← shardTriples_ctors, ← shardTriples_methods, ← shardTriples_globals,
    List.map_flatten, List.map_map]
  exact ⟨congrArg List.flatten h1, congrArg List.flatten h2⟩

/-- What is established about one function name: the constructor row `c`, the
method row `m` and the global row `g` of a shard position. -/
structure Verdict (c : CtorRow) (m g : WrapRow) : Prop where
  /-- same name on all three layers, same documentation rows -/
  names : m.name = c.name ∧ g.name = c.name
  docs : m.doc = c.doc ∧ g.doc = c.doc
  /-- opcode code `k` of the enum, its entry `e` (constant identifier, mnemonic), suffixes `s` -/
  main : ∃ (k : Nat) (e : OpcEntry) (s : Sfx),
    1 ≤ k ∧ formsMeta.entries[k - 1]? = some e ∧ c.opcConst = e.ident ∧ sfxOf formsMeta c.sfxConsts = some s ∧
    -- the function is named mnemonic_suffixes
    Name.key c.name = Name.kjoin (Name.key nUnderscore) (Name.key e.str :: (sfxStrings formsMeta s).map Name.key) ∧
    -- for every call with as many operands as parameters (any number for variadic functions), on every context
    ∀ (actuals : List Operand) (ctx : Ctx), (c.variadic = true ∨ c.params.length = actuals.length) →
      let grp := formsOf formsMeta forms k
      let r := build formsMeta grp s actuals
      -- the three layers compute the same result from the operands in the given order
      ctorCall formsMeta grp c actuals = some r ∧
      methodCall (ctorCall formsMeta grp c) m ctx actuals = some (addinstruction ctx r) ∧
      globalCall (methodCall (ctorCall formsMeta grp c) m) g ctx actuals = some (addinstruction ctx r) ∧
      -- accepted iff some documentation row, read as a class tuple, matches
      (r.isSome = true ↔ ∃ row ∈ c.doc, ∃ cls,
          parseDoc row = some (Name.kjoin (Name.key nDot) (Name.key e.str :: (sfxStrings formsMeta s).map Name.key), cls) ∧
          tupleMatches cls actuals = true) ∧
      -- on acceptance: that opcode and suffixes, the operands in the given order; one node appended, no error
      (∀ i, r = some i → i.opc = k ∧ i.sfx = s ∧ i.operands = actuals ∧
          (addinstruction ctx r).nodes = ctx.nodes ++ [i] ∧ (addinstruction ctx r).errs = ctx.errs ∧
          -- building it does not panic, and its terminal / branch / conditional attributes are those of the
          -- mnemonic `e.str` (not merely "whatever the matched row says")
          i.panics = false ∧ AttrSpec (Name.key e.str) i.isTerminal i.isBranch i.isConditional) ∧
      -- on rejection: an error is recorded and nothing is added
      (r = none → (addinstruction ctx r).nodes = ctx.nodes ∧ (addinstruction ctx r).errs = ctx.errs + 1)

/-- **C06 on the tables of the current sources.** For every position of every
shard (that is: for every constructor of x86/zctors.go with the Context method
and the package-level function of build/zinstructions.go grouped with it) the
verdict holds. -/
theorem C06_tables : ∀ t ∈ shardTriples, ∀ (i : Nat) (c : CtorRow), t.1[i]? = some c →
    ∃ (m g : WrapRow), t.2.1[i]? = some m ∧ t.2.2[i]? = some g ∧ Verdict c m g := by
  intro t ht i c hc
  obtain ⟨hpass, hlay⟩ := shards_ok t ht
  obtain ⟨_, _, hl⟩ := layersOK_sound _ _ _ hlay
  obtain ⟨m, g, hm, hg, hmn, hgn, hmok, hgok, hmp, hgp, hmv, hgv, hmd, hgd⟩ := hl i c hc
  refine ⟨m, g, hm, hg, ⟨hmn, hgn⟩, ⟨hmd, hgd⟩, ?_⟩
  have hsound := ctorPass_sound (ctorOK formsMeta) formsMeta.entries 1 0 forms t.1 hpass
  obtain ⟨j, e, he, hid, hP⟩ := hsound.2.1 c (List.mem_of_getElem? hc)
  have hgrp : formsOf formsMeta forms (j + 1) = forms.filter (fun f => f.opc == 1 + j) := formsOf_eq_filter j e he
  -- unpack ctorOK
  have hP' := hP
  unfold ctorOK at hP'
  simp only [Bool.and_eq_true] at hP'
  obtain ⟨_, hrest⟩ := hP'
  cases hs : sfxOf formsMeta c.sfxConsts with
  | none => rw [hs] at hrest; cases hrest
  | some s =>
    rw [hs] at hrest
    simp only [Bool.and_eq_true, beq_iff_eq] at hrest
    obtain ⟨hname, hdoc⟩ := hrest
    refine ⟨j + 1, e, s, by omega, by simpa using he, hid, rfl, hname, ?_⟩
    intro actuals ctx hlen
    rw [hgrp]
    have hk : 1 + j = j + 1 := by omega
    obtain ⟨s', hs', hctor, hmeth, hglob⟩ :=
      layers_agree formsMeta (1 + j) e (forms.filter (fun f => f.opc == 1 + j)) c m g hP hmok hgok hmp hgp hmv hgv actuals hlen ctx
    rw [hs] at hs'
    cases hs'
    refine ⟨hctor, hmeth, hglob, ?_, ?_, ?_⟩
    · rw [build_isSome_iff]
      apply documented_iff_matches formsMeta _ s _ c.doc _ hdoc actuals
      intro f hf
      exact forms_arity_le f (List.mem_filter.mp hf).1
    · intro ins hins
      obtain ⟨hops, hsfx, f, hf, hopc, _⟩ := build_operands formsMeta _ s actuals ins hins
      have hfk : f.opc = 1 + j := by simpa using (List.mem_filter.mp hf).2
      have hgwf : ∀ g ∈ forms.filter (fun f => f.opc == 1 + j), Form.wf formsMeta g = true :=
        fun g hg => forms_wf g (List.mem_filter.mp hg).1
      have hgft : ∀ g ∈ forms.filter (fun f => f.opc == 1 + j), Form.featOK formsMeta g = true :=
        fun g hg => forms_feat g (List.mem_filter.mp hg).1
      have hattr := build_attrs formsMeta _ s actuals ins hins hgft
      have hopc' : ins.opc = j + 1 := by omega
      rw [hopc', opcString_entry j e he] at hattr
      refine ⟨by omega, hsfx, hops, ?_, ?_, build_no_panic formsMeta _ s actuals ins hins hgwf, hattr⟩
      · rw [hins]; exact (addinstruction_ok ctx ins).1
      · rw [hins]; exact (addinstruction_ok ctx ins).2
    · intro hnone
      rw [hnone]; exact addinstruction_err ctx

/-- non-vacuity: the first shard is not empty and its first constructor has documentation rows -/
example : ∃ c, ctors_00[0]? = some c ∧ c.doc ≠ [] := ⟨_, rfl, by decide⟩

/-! ## "For every opcode": no opcode of the enum is without a constructor -/

/-- drop adjacent repetitions -/
def dedupAdj : List Nat → List Nat
  | [] => []
  | a :: rest =>
    match rest with
    | [] => [a]
    | b :: _ => if a == b then dedupAdj rest else a :: dedupAdj rest

theorem mem_of_mem_dedupAdj : ∀ (l : List Nat) (a : Nat), a ∈ dedupAdj l → a ∈ l := by
  intro l
  induction l with
  | nil => intro a h; simp [dedupAdj] at h
  | cons x rest ih =>
    intro a h
    cases rest with
    | nil => simpa [dedupAdj] using h
    | cons b rest' =>
      unfold dedupAdj at h
      simp only at h
      by_cases hxb : (x == b) = true
      · simp only [hxb, if_true] at h
        exact List.mem_cons_of_mem _ (ih a h)
      · simp only [hxb, Bool.false_eq_true, if_false, List.mem_cons] at h
        rcases h with h | h
        · subst h; exact List.mem_cons_self
        · exact List.mem_cons_of_mem _ (ih a h)

/-- the opcode constants of the constructor rows, repetitions dropped, are exactly the opcode enum, in order -/
theorem ctor_opcodes_are_the_enum : dedupAdj (ctors.map (·.opcConst)) = formsMeta.opcs := by
  decide +kernel

/-- **Every opcode has a constructor** (hence, by `C06_tables`, a Context method and a
package-level function with the verdict): the quantifier "for every opcode" of the property
ranges over the whole enum of x86/zoptab.go, not just over the rows that were extracted. -/
theorem every_opcode_has_ctor : ∀ o ∈ formsMeta.opcs, ∃ c ∈ ctors, c.opcConst = o := by
  intro o ho
  rw [← ctor_opcodes_are_the_enum] at ho
  have := mem_of_mem_dedupAdj _ _ ho
  obtain ⟨c, hc, rfl⟩ := List.mem_map.mp this
  exact ⟨c, hc, rfl⟩

/-- and every constructor belongs to one of the shards `C06_tables` ranges over -/
theorem ctors_in_shards : ∀ c ∈ ctors, ∃ t ∈ shardTriples, c ∈ t.1 := by
  intro c hc
  simp only [ctors, ← shardTriples_ctors, List.mem_flatten, List.mem_map] at hc
  obtain ⟨l, ⟨t, ht, rfl⟩, hcl⟩ := hc
  exact ⟨t, ht, hcl⟩

/-! non-vacuity of the verdict's clauses on the tables: the first opcode's forms accept a documented operand
list (`ADCB imm8, al`) and reject the swapped one; the enum is not empty -/
example : (build formsMeta (formsOf formsMeta forms 1) (0, 0)
    [.imm tI8 (-1), .reg ⟨kindGP, 1, idAL, 1, 0⟩]).isSome = true := by decide +kernel
example : build formsMeta (formsOf formsMeta forms 1) (0, 0)
    [.reg ⟨kindGP, 1, idAL, 1, 0⟩, .imm tI8 (-1)] = none := by decide +kernel
example : formsMeta.opcs ≠ [] := by decide +kernel

end Avo.C06
