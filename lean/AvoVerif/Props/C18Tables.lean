/-
C18 instantiated on the tag-character table measured from the installed
toolchain on this run (Oracle/TagChars.lean: `go/build/constraint.Parse` asked
about every code point; `strings.Fields` asked about every code point).

"Invalid constraint" in the property means invalid *to the Go toolchain*: the
character class is not avo's to choose.  Here the fault predicate of the three
constraint routes is stated against the measured table, and the end-to-end
theorems of `Props/C18.lean` are instantiated at it.
-/
import AvoVerif.Props.C18
import AvoVerif.Oracle.TagChars
namespace Avo.Ctx

/-- The toolchain's tag-character predicate, from the measured table. -/
def installedTag : Char → Bool := tagCharOf Avo.Oracle.tagRanges

/-- The model's white-space set is the set the installed `strings.Fields` splits on. -/
theorem space_agree : Avo.Oracle.spaceCodes = spaceCodes := by decide

/-- The separators of the `// +build` syntax are not tag characters of the installed toolchain. -/
theorem installed_bang : installedTag '!' = false := by decide +kernel
theorem installed_comma : installedTag ',' = false := by decide +kernel
theorem installed_space : spaceCodes.all (fun n => !Avo.Oracle.tagRanges.any (fun r => r.1 ≤ n && n ≤ r.2)) = true := by
  decide +kernel

/-- The ASCII part of the measured table is the documented one: letters, digits, `_`, `.`. -/
theorem installed_ascii :
    (List.range 128).all (fun n => installedTag (Char.ofNat n) == asciiTag (Char.ofNat n)) = true := by
  decide +kernel

/-- The property for the installed toolchain's notion of a tag. -/
theorem C18_installed : C18_statement installedTag := C18 installedTag

/-- A term is valid for the installed toolchain exactly when it is a tag or `!tag`. -/
theorem termValid_installed_iff (t : List Char) :
    termValid installedTag t = true ↔ ∃ n, IsTag installedTag n ∧ (t = n ∨ t = '!' :: n) :=
  termValid_iff installedTag installed_bang t

/-- After any history a constraint request is a fault exactly when a submitted line is invalid to the toolchain. -/
theorem constraint_fault_installed (pre : List Op) (op : Op) (ks : List Constraint) (h : op.submitted = some ks) :
    fault installedTag (run installedTag Ctx.init pre) op =
      (if constraintsValid installedTag ks then none else some .constraint) :=
  constraint_fault_iff installedTag pre op ks h

/-- A history containing a constraint request that the toolchain would not accept
ends with status 1 and nothing written — whatever surrounds it. -/
theorem bad_constraint_stops_installed (lim : Nat → Nat) (pre post : List Op) (op : Op) (ks : List Constraint)
    (h : op.submitted = some ks) (hbad : constraintsValid installedTag ks = false) :
    (observe installedTag lim (pre ++ op :: post)).status = 1 ∧
    (observe installedTag lim (pre ++ op :: post)).asm = 0 ∧
    (observe installedTag lim (pre ++ op :: post)).stubs = 0 ∧
    0 < (observe installedTag lim (pre ++ op :: post)).errs ∧
    (observe installedTag lim (pre ++ op :: post)).diag = (observe installedTag lim (pre ++ op :: post)).errs :=
  bad_constraint_stops installedTag lim pre post op ks h hbad

/-- … and so does the generator process: exit code 1, whatever the number of faults and the error limit. -/
theorem fault_exit_nonzero_installed (lim : Nat → Nat) (mx : Nat) (ops : List Op) (k : Nat)
    (h : faultAt installedTag Ctx.init ops k = true) :
    (observeAt installedTag lim mx ops).exit = 1 ∧
    (observeAt installedTag lim mx ops).asm = 0 ∧ (observeAt installedTag lim mx ops).stubs = 0 :=
  let t := fault_exit_nonzero installedTag lim mx ops k h
  ⟨t.1, t.2.2.1, t.2.2.2.1⟩

/-! ### The boundary of the character class, at the measured table

Letters of every kind (Lu Ll Lt Lm Lo) and decimal digits (Nd) of every script
are tag characters; letter numbers (Nl: `Ⅷ`), other numbers (No: `²`, `½`, `①`),
marks (Mn: U+0301 after `e`), connector punctuation other than `_` (Pc: `‿`), symbols
(Sm `+`, Sc `$`, So `©`), dashes, format characters (Cf: U+200D) are not. -/

example : termValid installedTag "é٣_.x".toList = true ∧ termValid installedTag "!日本".toList = true ∧
    termValid installedTag "ǅ".toList = true ∧ termValid installedTag "ʰ".toList = true ∧
    termValid installedTag "x９".toList = true := by decide +kernel

example : termValid installedTag "sse4²".toList = false ∧ termValid installedTag "v½".toList = false ∧
    termValid installedTag "Ⅷ".toList = false ∧ termValid installedTag "x①y".toList = false ∧
    termValid installedTag "!x²".toList = false := by decide +kernel

example : termValid installedTag ['e', Char.ofNat 0x301] = false ∧ termValid installedTag "a‿b".toList = false ∧
    termValid installedTag "a+b".toList = false ∧ termValid installedTag "a$".toList = false ∧
    termValid installedTag "©".toList = false ∧ termValid installedTag "a-b".toList = false ∧
    termValid installedTag ['a', Char.ofNat 0x200D, 'b'] = false ∧ termValid installedTag "a b".toList = false := by
  decide +kernel

/-- The witness of seeded change C18-10: `ConstraintExpr("sse4²")` between valid
requests; and a `½` in the middle line of three `Constraint` calls. -/
theorem witness_superscript (lim : Nat → Nat) (pre post : List Op) :
    (observe installedTag lim (pre ++ Op.constraintExpr "sse4²".toList :: post)).status = 1 ∧
    (observe installedTag lim (pre ++ Op.constraintExpr "sse4²".toList :: post)).asm = 0 ∧
    (observe installedTag lim (pre ++ Op.constraintExpr "sse4²".toList :: post)).stubs = 0 := by
  have h := bad_constraint_stops_installed lim pre post (Op.constraintExpr "sse4²".toList)
    [parseConstraint "sse4²".toList] rfl (by decide +kernel)
  exact ⟨h.1, h.2.1, h.2.2.1⟩

theorem witness_fraction (lim : Nat → Nat) (pre post : List Op) :
    (observe installedTag lim (pre ++ Op.constraint [["v½".toList]] :: post)).status = 1 ∧
    (observe installedTag lim (pre ++ Op.constraint [["v½".toList]] :: post)).asm = 0 ∧
    (observe installedTag lim (pre ++ Op.constraint [["v½".toList]] :: post)).stubs = 0 := by
  have h := bad_constraint_stops_installed lim pre post (Op.constraint [["v½".toList]])
    [[["v½".toList]]] rfl (by decide +kernel)
  exact ⟨h.1, h.2.1, h.2.2.1⟩

/-- … while the same histories with a decimal digit of another script are valid requests. -/
example : fault installedTag (run installedTag Ctx.init [.function "f", .constraint [["amd64".toList]]])
    (.constraintExpr "sse4٣ !日本,x.y".toList) = none := by decide +kernel

end Avo.Ctx
