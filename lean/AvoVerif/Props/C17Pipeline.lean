/-
C17 (composition) — the whole generation pipeline is deterministic.

`Props/C17.lean` proves, site by site, that every `range` over a Go map in
reg/set.go, pass/reg.go, pass/alloc.go and pass/isa.go computes something that
does not depend on the enumeration order.  This file composes those lemmas.

* An *enumeration oracle* `Sched` chooses, for every dynamic execution of a
  `range` over a map, the order in which the entries are visited.  The oracle is
  indexed by a key (`List Nat`) naming the dynamic occurrence (site number,
  position, instruction index, sweep fuel, allocation round, kind …); the key is
  passed downwards like a reader, it is never threaded as state.  Because the
  oracle is universally quantified and distinct occurrences get distinct keys,
  every occurrence may use an arbitrary order of its own.
* `livenessE`, `edgesOfE`, `allocLoopE`, `allocKindE`, `allocateE`,
  `requiredISAE`, `pipelineE` are the models of `Model/Live.lean`,
  `Model/Alloc.lean`, `Model/ISA.lean` in which every map `range` enumerates
  `π key m` instead of `m`.
* `generation_deterministic`: for fair oracles (each answer is a permutation of
  the map it is asked about) the output of the pipeline (printed text or
  "some error", and the liveness fuel flag) is the same for all oracles.

The printers contain no map iteration (checked separately by a census of the
source), so the printed text is modelled as an arbitrary function `render` of
the allocation *as a lookup function* and of the sorted ISA list.

Honest limits: (1) when allocation fails, *which* error is returned may depend
on the order in which the map of allocators is visited (avo returns the first
error in map order); the theorem identifies all errors (`none`).  (2) mask sets
are association lists; the invariant "keys are distinct" (`NodupKeys`, true of
every Go map) is proved for all liveness states, not assumed.
-/
import AvoVerif.Props.C17
import AvoVerif.Lemmas.LiveProj
namespace Avo.Determinism
open Avo.Reg Avo.MaskSet Avo.Alloc Avo.Live

/-! ## 0. Enumeration oracles -/

/-- One enumeration order for every dynamic `range` over every kind of map. -/
structure Sched where
  /-- `reg.MaskSet` (`map[ID]Mask`) -/
  ms : List Nat → MS → MS
  /-- `Allocator.possible` (`map[ID][]ID`) -/
  poss : List Nat → List (Nat × List Nat) → List (Nat × List Nat)
  /-- the id set of `NewAllocator` (`map[ID]bool`) -/
  ids : List Nat → List Nat → List Nat
  /-- the map of allocators `as` (`map[Kind]*Allocator`) -/
  kinds : List Nat → List Nat → List Nat
  /-- `reg.Allocation` (`map[ID]ID`) -/
  alloc : List Nat → List (Nat × Nat) → List (Nat × Nat)
  /-- the ISA set (`map[string]bool`) -/
  isa : List Nat → List String → List String

/-- Every answer of the oracle enumerates exactly the entries of the map. -/
structure Fair (π : Sched) : Prop where
  ms : ∀ key s, (π.ms key s).Perm s
  poss : ∀ key s, (π.poss key s).Perm s
  ids : ∀ key s, (π.ids key s).Perm s
  kinds : ∀ key s, (π.kinds key s).Perm s
  alloc : ∀ key s, (π.alloc key s).Perm s
  isa : ∀ key s, (π.isa key s).Perm s

/-- The oracle that always enumerates in the stored order. -/
def Sched.id : Sched := ⟨fun _ s => s, fun _ s => s, fun _ s => s, fun _ s => s, fun _ s => s, fun _ s => s⟩
/-- The oracle that always enumerates backwards. -/
def Sched.rev : Sched :=
  ⟨fun _ s => s.reverse, fun _ s => s.reverse, fun _ s => s.reverse, fun _ s => s.reverse,
   fun _ s => s.reverse, fun _ s => s.reverse⟩

theorem fair_id : Fair Sched.id :=
  ⟨fun _ _ => .refl _, fun _ _ => .refl _, fun _ _ => .refl _, fun _ _ => .refl _, fun _ _ => .refl _, fun _ _ => .refl _⟩
theorem fair_rev : Fair Sched.rev :=
  ⟨fun _ s => List.reverse_perm s, fun _ s => List.reverse_perm s, fun _ s => List.reverse_perm s,
   fun _ s => List.reverse_perm s, fun _ s => List.reverse_perm s, fun _ s => List.reverse_perm s⟩

/-! ## 1. Content equivalence of mask sets -/

/-- Two association lists hold the same map content. -/
def Same (s t : MS) : Prop := ∀ id lane, mem s id lane = mem t id lane

/-- The representation invariant of a Go map: keys are distinct. -/
def NodupKeys (s : MS) : Prop := (s.map (·.1)).Nodup

theorem Same.refl (s : MS) : Same s s := fun _ _ => rfl
theorem Same.symm {s t : MS} (h : Same s t) : Same t s := fun i l => (h i l).symm
theorem Same.trans {s t u : MS} (h1 : Same s t) (h2 : Same t u) : Same s u := fun i l => (h1 i l).trans (h2 i l)
theorem Same.of_perm {s t : MS} (h : s.Perm t) : Same s t := fun i l => mem_perm h i l

theorem Same.get_eq {s t : MS} (h : Same s t) (id : Nat) : MaskSet.get s id = MaskSet.get t id :=
  Nat.eq_of_testBit_eq (fun lane => h id lane)

theorem same_update {s s' t t' : MS} (hs : Same s s') (ht : Same t t') : Same (update s t).1 (update s' t').1 := by
  intro i l; rw [mem_update, mem_update, hs i l, ht i l]

/-- `Clone`: adding every entry to an empty set. -/
theorem same_clone (s : MS) : Same (update [] s).1 s := by
  intro i l; rw [mem_update, mem_nil, Bool.false_or]

theorem same_difference {s s' t t' : MS} (hs : Same s s') (ht : Same t t') : Same (difference s t) (difference s' t') := by
  intro i l; rw [mem_difference, mem_difference, hs i l, ht i l]

theorem same_discard {s s' : MS} (hs : Same s s') (id m : Nat) : Same (discard s id m) (discard s' id m) := by
  intro i l; rw [mem_discard, mem_discard, hs i l]

theorem get_filter_key (f : Nat → Bool) (s : MS) (id : Nat) :
    MaskSet.get (s.filter (fun p => f p.1)) id = if f id then MaskSet.get s id else 0 := by
  induction s with
  | nil => simp [MaskSet.get]
  | cons p s ih =>
    rcases p with ⟨k, v⟩
    simp only [List.filter_cons]
    by_cases hf : f k = true
    · simp only [hf, if_true, MaskSet.get, ih]
      by_cases hk : k = id
      · subst hk; simp [hf]
      · simp [hk]
    · have hf' : f k = false := by simpa using hf
      simp only [hf', Bool.false_eq_true, if_false, ih]
      by_cases hk : k = id
      · subst hk; simp [hf']
      · simp only [MaskSet.get, hk, if_false]

theorem mem_filter_key (f : Nat → Bool) (s : MS) (id lane : Nat) :
    mem (s.filter (fun p => f p.1)) id lane = (f id && mem s id lane) := by
  unfold mem; rw [get_filter_key]; cases f id <;> simp

theorem same_filter_key (f : Nat → Bool) {s s' : MS} (hs : Same s s') :
    Same (s.filter (fun p => f p.1)) (s'.filter (fun p => f p.1)) := by
  intro i l; rw [mem_filter_key, mem_filter_key, hs i l]

theorem same_ofKind {s s' : MS} (hs : Same s s') (k : Nat) : Same (ofKind s k) (ofKind s' k) :=
  same_filter_key (fun id => idKind id == k) hs

/-- The "changed" flag of `Update` as a statement about contents. -/
theorem update_flag_mem (s t : MS) :
    (update s t).2 = false ↔ ∀ id lane, mem t id lane = true → mem s id lane = true := by
  constructor
  · intro h; exact (update_unchanged s t h).2
  · intro h
    rw [update_flag_iff]
    intro p hp
    apply Nat.eq_of_testBit_eq; intro i
    rw [Nat.testBit_and]
    cases hb : p.2.testBit i with
    | false => simp
    | true =>
      have hsub := get_entry_sub t p.1 p.2 hp
      have hi := congrArg (fun x => x.testBit i) hsub
      simp only [Nat.testBit_and, hb, Bool.and_true] at hi
      have := h p.1 i hi
      unfold mem at this
      simp [this]

theorem update_flag_same {s s' t t' : MS} (hs : Same s s') (ht : Same t t') : (update s t).2 = (update s' t').2 := by
  have hiff : (update s t).2 = false ↔ (update s' t').2 = false := by
    rw [update_flag_mem, update_flag_mem]
    constructor
    · intro h i l hm; rw [← hs i l]; exact h i l (by rw [ht i l]; exact hm)
    · intro h i l hm; rw [hs i l]; exact h i l (by rw [← ht i l]; exact hm)
  cases ha : (update s t).2 with
  | false => exact (hiff.mp ha).symm
  | true =>
    cases hb : (update s' t').2 with
    | true => rfl
    | false => rw [hiff.mpr hb] at ha; cases ha

/-! ### Distinct keys are preserved -/

theorem nodupKeys_nil : NodupKeys [] := by simp [NodupKeys]

theorem orInto_keys (s : MS) (id m : Nat) :
    (orInto s id m).map (·.1) = if id ∈ s.map (·.1) then s.map (·.1) else s.map (·.1) ++ [id] := by
  induction s with
  | nil => simp [orInto]
  | cons p s ih =>
    rcases p with ⟨k, v⟩
    by_cases hk : k = id
    · subst hk; simp [orInto]
    · have hne : ¬ id = k := fun e => hk e.symm
      simp only [orInto, hk, if_false, List.map_cons, ih, List.mem_cons, hne, false_or]
      split <;> simp

theorem nodupKeys_orInto {s : MS} (h : NodupKeys s) (id m : Nat) : NodupKeys (orInto s id m) := by
  unfold NodupKeys at *
  rw [orInto_keys]
  split
  · exact h
  · rename_i hn
    rw [List.nodup_append]
    refine ⟨h, by simp, ?_⟩
    intro a ha b hb
    have : b = id := by simpa using hb
    subst this
    intro e; subst e; exact hn ha

theorem nodupKeys_add {s : MS} (h : NodupKeys s) (id m : Nat) : NodupKeys (add s id m).1 := by
  unfold add; split
  · exact h
  · exact nodupKeys_orInto h id m

theorem nodupKeys_update {s : MS} (h : NodupKeys s) (t : MS) : NodupKeys (update s t).1 := by
  induction t generalizing s with
  | nil => exact h
  | cons p t ih => rcases p with ⟨k, v⟩; simp only [update]; exact ih (nodupKeys_add h k v)

theorem discard_keys_sublist (s : MS) (id m : Nat) : ((discard s id m).map (·.1)).Sublist (s.map (·.1)) := by
  induction s with
  | nil => simp [MaskSet.discard]
  | cons p s ih =>
    rcases p with ⟨k, v⟩
    simp only [MaskSet.discard]
    split
    · split
      · exact List.Sublist.cons _ ih
      · exact List.Sublist.cons_cons _ ih
    · exact List.Sublist.cons_cons _ ih

theorem nodupKeys_discard {s : MS} (h : NodupKeys s) (id m : Nat) : NodupKeys (discard s id m) :=
  List.Nodup.sublist (discard_keys_sublist s id m) h

theorem nodupKeys_difference {s : MS} (h : NodupKeys s) (t : MS) : NodupKeys (difference s t) := by
  induction t generalizing s with
  | nil => exact h
  | cons p t ih => rcases p with ⟨k, v⟩; simp only [difference]; exact ih (nodupKeys_discard h k v)

theorem nodupKeys_filter {s : MS} (h : NodupKeys s) (f : Nat × Nat → Bool) : NodupKeys (s.filter f) :=
  List.Nodup.sublist (List.filter_sublist.map _) h

theorem nodupKeys_ofRegs (rs : List R) : NodupKeys (ofRegs rs) := by
  induction rs with
  | nil => exact nodupKeys_nil
  | cons r rs ih => simp only [ofRegs]; exact nodupKeys_add ih _ _

theorem nodupKeys_perm {s t : MS} (h : s.Perm t) : NodupKeys s ↔ NodupKeys t :=
  (h.map _).nodup_iff

/-! ## 2. Layer A — liveness with scheduled map enumeration -/

/-- `for _, s := range i.Succ { … i.LiveOut.Update(s.LiveIn) … }`: `Update` ranges over `s.LiveIn`. -/
def outLoopE (π : Sched) (key : List Nat) (ins : Array MS) : MS × Bool → List (Option Nat) → MS × Bool
  | acc, [] => acc
  | acc, none :: ss => outLoopE π key ins acc ss
  | acc, some s :: ss =>
    let u := update acc.1 (π.ms (0 :: ss.length :: key) (getMS ins s))
    outLoopE π key ins (u.1, acc.2 || u.2) ss

/-- One loop body. `LiveOut.Difference(def)` is `Clone` (range over `LiveOut`,
`Add` into an empty set) followed by `DifferenceUpdate` (range over `def`);
then `LiveIn.Update` ranges over the difference. -/
def visitE (π : Sched) (key : List Nat) (P : LProg) (st : LState) (i : Nat) : LState × Bool :=
  let I := P.getD i default
  let o := outLoopE π (i :: key) st.ins (getMS st.outs i, false) I.succ
  let c := (update [] (π.ms (1 :: i :: key) o.1)).1
  let dset := difference c (π.ms (2 :: i :: key) (ofRegs I.defs))
  let u := update (getMS st.ins i) (π.ms (3 :: i :: key) dset)
  ({ ins := st.ins.setIfInBounds i u.1, outs := st.outs.setIfInBounds i o.1 }, o.2 || u.2)

def sweepE (π : Sched) (key : List Nat) (P : LProg) : List Nat → LState → LState × Bool
  | [], st => (st, false)
  | i :: is, st =>
    let r1 := visitE π key P st i
    let r2 := sweepE π key P is r1.1
    (r2.1, r1.2 || r2.2)

def iterE (π : Sched) (P : LProg) (order : List Nat) : Nat → LState → LState × Bool
  | 0, st => (st, true)
  | fuel + 1, st =>
    let r := sweepE π [fuel] P order st
    if r.2 then iterE π P order fuel r.1 else (r.1, false)

def livenessE (π : Sched) (P : LProg) (fuel : Nat) : LState × Bool :=
  iterE π P (order P) fuel (initState P)

/-- Pointwise same content, same shape, distinct keys everywhere. -/
structure Rel (st' st : LState) : Prop where
  szI : st'.ins.size = st.ins.size
  szO : st'.outs.size = st.outs.size
  ins : ∀ i, Same (getMS st'.ins i) (getMS st.ins i)
  outs : ∀ i, Same (getMS st'.outs i) (getMS st.outs i)
  ndI' : ∀ i, NodupKeys (getMS st'.ins i)
  ndO' : ∀ i, NodupKeys (getMS st'.outs i)
  ndI : ∀ i, NodupKeys (getMS st.ins i)
  ndO : ∀ i, NodupKeys (getMS st.outs i)

theorem outLoopE_sim (π : Sched) (hπ : Fair π) (key : List Nat) (ins' ins : Array MS)
    (hins : ∀ i, Same (getMS ins' i) (getMS ins i)) :
    ∀ (ss : List (Option Nat)) (acc' acc : MS × Bool), Same acc'.1 acc.1 → acc'.2 = acc.2 →
      NodupKeys acc'.1 → NodupKeys acc.1 →
      Same (outLoopE π key ins' acc' ss).1 (outLoop ins acc ss).1 ∧
      (outLoopE π key ins' acc' ss).2 = (outLoop ins acc ss).2 ∧
      NodupKeys (outLoopE π key ins' acc' ss).1 ∧ NodupKeys (outLoop ins acc ss).1
  | [], acc', acc, h1, h2, h3, h4 => ⟨h1, h2, h3, h4⟩
  | none :: ss, acc', acc, h1, h2, h3, h4 => by
    simp only [outLoopE, outLoop]; exact outLoopE_sim π hπ key ins' ins hins ss acc' acc h1 h2 h3 h4
  | some s :: ss, acc', acc, h1, h2, h3, h4 => by
    simp only [outLoopE, outLoop]
    have ht : Same (π.ms (0 :: ss.length :: key) (getMS ins' s)) (getMS ins s) :=
      (Same.of_perm (hπ.ms _ _)).trans (hins s)
    apply outLoopE_sim π hπ key ins' ins hins ss
    · exact same_update h1 ht
    · simp only; rw [h2, update_flag_same h1 ht]
    · exact nodupKeys_update h3 _
    · exact nodupKeys_update h4 _

theorem getMS_set_same (a' a : Array MS) (hsz : a'.size = a.size) (i : Nat) (v' v : MS)
    (ha : ∀ j, Same (getMS a' j) (getMS a j)) (hv : Same v' v) (j : Nat) :
    Same (getMS (a'.setIfInBounds i v') j) (getMS (a.setIfInBounds i v) j) := by
  rw [getMS_set, getMS_set, hsz]
  split
  · exact hv
  · exact ha j

theorem getMS_set_nd (a : Array MS) (i : Nat) (v : MS) (ha : ∀ j, NodupKeys (getMS a j)) (hv : NodupKeys v) (j : Nat) :
    NodupKeys (getMS (a.setIfInBounds i v) j) := by
  rw [getMS_set]
  split
  · exact hv
  · exact ha j

theorem visitE_sim (π : Sched) (hπ : Fair π) (key : List Nat) (P : LProg) (st' st : LState) (i : Nat)
    (h : Rel st' st) : Rel (visitE π key P st' i).1 (visit P st i).1 ∧ (visitE π key P st' i).2 = (visit P st i).2 := by
  obtain ⟨o1, o2, o3, o4⟩ := outLoopE_sim π hπ (i :: key) st'.ins st.ins h.ins (P.getD i default).succ
    (getMS st'.outs i, false) (getMS st.outs i, false) (h.outs i) rfl (h.ndO' i) (h.ndO i)
  -- the difference
  have hc : Same (update [] (π.ms (1 :: i :: key)
      (outLoopE π (i :: key) st'.ins (getMS st'.outs i, false) (P.getD i default).succ).1)).1
      (outLoop st.ins (getMS st.outs i, false) (P.getD i default).succ).1 :=
    (same_clone _).trans ((Same.of_perm (hπ.ms _ _)).trans o1)
  have hd := same_difference hc (Same.of_perm (hπ.ms (2 :: i :: key) (ofRegs (P.getD i default).defs)))
  have hd' := (Same.of_perm (hπ.ms (3 :: i :: key) _)).trans hd
  have hu := same_update (h.ins i) hd'
  have hf := update_flag_same (h.ins i) hd'
  constructor
  · constructor
    · simp [visitE, visit, h.szI]
    · simp [visitE, visit, h.szO]
    · intro j; exact getMS_set_same _ _ h.szI i _ _ h.ins hu j
    · intro j; exact getMS_set_same _ _ h.szO i _ _ h.outs o1 j
    · intro j; exact getMS_set_nd _ i _ h.ndI' (nodupKeys_update (h.ndI' i) _) j
    · intro j; exact getMS_set_nd _ i _ h.ndO' o3 j
    · intro j; exact getMS_set_nd _ i _ h.ndI (nodupKeys_update (h.ndI i) _) j
    · intro j; exact getMS_set_nd _ i _ h.ndO o4 j
  · simp only [visitE, visit]; rw [o2, hf]

theorem sweepE_sim (π : Sched) (hπ : Fair π) (key : List Nat) (P : LProg) : ∀ (is : List Nat) (st' st : LState),
    Rel st' st → Rel (sweepE π key P is st').1 (sweep P is st).1 ∧ (sweepE π key P is st').2 = (sweep P is st).2
  | [], _, _, h => ⟨h, rfl⟩
  | i :: is, st', st, h => by
    obtain ⟨a, b⟩ := visitE_sim π hπ key P st' st i h
    obtain ⟨c, d⟩ := sweepE_sim π hπ key P is _ _ a
    simp only [sweepE, sweep]
    exact ⟨c, by rw [b, d]⟩

theorem iterE_sim (π : Sched) (hπ : Fair π) (P : LProg) (order : List Nat) : ∀ (fuel : Nat) (st' st : LState),
    Rel st' st → Rel (iterE π P order fuel st').1 (iter P order fuel st).1 ∧ (iterE π P order fuel st').2 = (iter P order fuel st).2
  | 0, _, _, h => ⟨h, rfl⟩
  | fuel + 1, st', st, h => by
    obtain ⟨a, b⟩ := sweepE_sim π hπ [fuel] P order st' st h
    simp only [iterE, iter]
    rw [b]
    split
    · exact iterE_sim π hπ P order fuel _ _ a
    · exact ⟨a, rfl⟩

theorem getMS_map_nd {α : Type} (a : Array α) (f : α → MS) (hf : ∀ x, NodupKeys (f x)) (i : Nat) :
    NodupKeys (getMS (a.map f) i) := by
  unfold getMS
  rw [Array.getD_eq_getD_getElem?, Array.getElem?_map]
  cases a[i]? with
  | none => exact nodupKeys_nil
  | some x => exact hf x

theorem rel_init (P : LProg) : Rel (initState P) (initState P) :=
  ⟨rfl, rfl, fun _ => Same.refl _, fun _ => Same.refl _,
   getMS_map_nd P _ (fun I => nodupKeys_ofRegs I.uses), getMS_map_nd P _ (fun _ => nodupKeys_nil),
   getMS_map_nd P _ (fun I => nodupKeys_ofRegs I.uses), getMS_map_nd P _ (fun _ => nodupKeys_nil)⟩

/-- **Layer A.** Liveness with arbitrarily scheduled map enumeration computes the
same sets (as contents) and the same fuel flag as the canonical model; and all
sets of both have distinct keys. -/
theorem livenessE_same (π : Sched) (hπ : Fair π) (P : LProg) (fuel : Nat) :
    Rel (livenessE π P fuel).1 (liveness P fuel).1 ∧ (livenessE π P fuel).2 = (liveness P fuel).2 :=
  iterE_sim π hπ P (order P) fuel _ _ (rel_init P)

/-! ## 3. Layer B — interference edges and allocation with scheduled enumeration -/

theorem get_ne_zero_key (s : MS) (id : Nat) (h : MaskSet.get s id ≠ 0) : id ∈ s.map (·.1) := by
  induction s with
  | nil => simp [MaskSet.get] at h
  | cons p s ih =>
    rcases p with ⟨k, v⟩
    by_cases hk : k = id
    · subst hk; simp
    · simp only [MaskSet.get, hk, if_false] at h
      exact List.mem_cons_of_mem _ (ih h)

theorem filterMap_ite {α β : Type} (c : α → Bool) (g : α → β) (l : List α) :
    l.filterMap (fun p => if c p then some (g p) else none) = (l.filter c).map g := by
  induction l with
  | nil => rfl
  | cons a l ih =>
    simp only [List.filterMap_cons, List.filter_cons]
    cases c a <;> simp [ih]

/-- `AddInterferenceSet(d, out)` enumerating `out` in the order `out'`. -/
def edgeList (d : R) (out out' : MS) : List (Nat × Nat) :=
  out'.filterMap (fun p => if d.mask &&& MaskSet.get out p.1 != 0 then some (d.id, p.1) else none)

theorem mem_edgeList (d : R) (out out' : MS) (x : Nat × Nat) :
    x ∈ edgeList d out out' ↔ x.1 = d.id ∧ x.2 ∈ out'.map (·.1) ∧ d.mask &&& MaskSet.get out x.2 ≠ 0 := by
  unfold edgeList
  rw [filterMap_ite, List.mem_map]
  constructor
  · rintro ⟨p, hp, rfl⟩
    have := List.mem_filter.mp hp
    exact ⟨rfl, List.mem_map.mpr ⟨p, this.1, rfl⟩, by simpa using this.2⟩
  · rintro ⟨h1, h2, h3⟩
    obtain ⟨p, hp, hpk⟩ := List.mem_map.mp h2
    refine ⟨p, List.mem_filter.mpr ⟨hp, ?_⟩, ?_⟩
    · rw [hpk]; simpa using h3
    · rcases x with ⟨a, b⟩; simp only at h1 hpk; rw [h1, hpk]

theorem nodup_edgeList (d : R) (out out' : MS) (h : NodupKeys out') : (edgeList d out out').Nodup := by
  unfold edgeList
  rw [filterMap_ite]
  unfold NodupKeys at h
  rw [List.nodup_iff_pairwise_ne] at h ⊢
  rw [List.pairwise_map] at h ⊢
  apply List.Pairwise.filter
  apply List.Pairwise.imp _ h
  intro a b hab e
  apply hab
  injection e

theorem edgesOf_eq (d : R) (lo : MS) :
    edgesOf d lo = edgeList d (MaskSet.discard (ofKind lo (idKind d.id)) d.id d.mask)
      (MaskSet.discard (ofKind lo (idKind d.id)) d.id d.mask) := rfl

theorem get_of_mem {s : MS} (h : NodupKeys s) {k v : Nat} (hm : (k, v) ∈ s) : MaskSet.get s k = v := by
  induction s with
  | nil => cases hm
  | cons p s ih =>
    rcases p with ⟨k', v'⟩
    unfold NodupKeys at h
    simp only [List.map_cons, List.nodup_cons] at h
    rcases List.mem_cons.mp hm with e | hm'
    · injection e with e1 e2
      subst e1; subst e2
      have hz : MaskSet.get s k = 0 := by
        apply Classical.byContradiction
        intro hne; exact h.1 (get_ne_zero_key s k hne)
      simp [MaskSet.get, hz]
    · have hk : k ∈ s.map (·.1) := List.mem_map.mpr ⟨_, hm', rfl⟩
      have hne : ¬ k' = k := fun e => h.1 (e ▸ hk)
      simp only [MaskSet.get, hne, if_false]
      exact ih h.2 hm'

/-- `for id, mask := range s { if r.Mask() & mask != 0 { a.AddInterference(r.ID(), id) } }`
with `s` enumerated in the order `l`. -/
def edgeListE (d : R) (l : MS) : List (Nat × Nat) :=
  l.filterMap (fun p => if d.mask &&& p.2 != 0 then some (d.id, p.1) else none)

theorem filterMap_congr_mem {α β : Type} (f g : α → Option β) : ∀ (l : List α), (∀ a ∈ l, f a = g a) →
    l.filterMap f = l.filterMap g
  | [], _ => rfl
  | a :: l, h => by
    simp only [List.filterMap_cons, h a List.mem_cons_self,
      filterMap_congr_mem f g l (fun b hb => h b (List.mem_cons_of_mem _ hb))]

theorem edgeListE_eq (d : R) (l : MS) (h : NodupKeys l) : edgeListE d l = edgeList d l l := by
  unfold edgeListE edgeList
  apply filterMap_congr_mem
  intro p hp
  rw [get_of_mem h (k := p.1) (v := p.2) hp]

/-- `out := LiveOut.OfKind(k)` (range over `LiveOut`, `Add` into an empty set),
`out.DiscardRegister(d)`, `AddInterferenceSet(d, out)` (range over `out`). -/
def edgesOfE (π : Sched) (key : List Nat) (d : R) (lo : MS) : List (Nat × Nat) :=
  let k := (update [] ((π.ms (4 :: key) lo).filter (fun p => idKind p.1 == idKind d.id))).1
  let out := MaskSet.discard k d.id d.mask
  edgeListE d (π.ms (5 :: key) out)

/-- **Edges of one output register**: the scheduled enumeration yields the same
edges, up to order. -/
theorem edgesOfE_perm (π : Sched) (hπ : Fair π) (key : List Nat) (d : R) (lo' lo : MS)
    (hs : Same lo' lo) (hn : NodupKeys lo) :
    (edgesOfE π key d lo').Perm (edgesOf d lo) := by
  rw [edgesOf_eq]
  unfold edgesOfE
  simp only
  generalize hout' : MaskSet.discard (update [] ((π.ms (4 :: key) lo').filter (fun p => idKind p.1 == idKind d.id))).1 d.id d.mask = out'
  generalize hout : MaskSet.discard (ofKind lo (idKind d.id)) d.id d.mask = out
  have hsame : Same out' out := by
    rw [← hout', ← hout]
    apply same_discard
    apply (same_clone _).trans
    exact same_filter_key (fun id => idKind id == idKind d.id) ((Same.of_perm (hπ.ms _ _)).trans hs)
  have hnd' : NodupKeys out' := by
    rw [← hout']; exact nodupKeys_discard (nodupKeys_update nodupKeys_nil _) _ _
  have hnd : NodupKeys out := by
    rw [← hout]; exact nodupKeys_discard (nodupKeys_filter hn _) _ _
  have hp := hπ.ms (5 :: key) out'
  rw [edgeListE_eq d _ ((nodupKeys_perm hp).mpr hnd')]
  have hget : edgeList d (π.ms (5 :: key) out') (π.ms (5 :: key) out') = edgeList d out' (π.ms (5 :: key) out') := by
    unfold edgeList; simp only [get_perm hp]
  rw [hget]
  rw [List.perm_ext_iff_of_nodup (nodup_edgeList d out' _ ((nodupKeys_perm hp).mpr hnd')) (nodup_edgeList d out out hnd)]
  intro x
  rw [mem_edgeList, mem_edgeList, hsame.get_eq]
  constructor
  · rintro ⟨h1, _, h3⟩
    refine ⟨h1, get_ne_zero_key _ _ ?_, h3⟩
    intro hz; rw [hz] at h3; simp at h3
  · rintro ⟨h1, _, h3⟩
    refine ⟨h1, ?_, h3⟩
    have : x.2 ∈ out'.map (·.1) := by
      apply get_ne_zero_key
      rw [hsame.get_eq]
      intro hz; rw [hz] at h3; simp at h3
    exact ((hp.map (·.1)).mem_iff).mpr this

/-- Instruction lists that agree except that the `liveOut` sets may be stored in
a different order (same content); the canonical one has distinct keys. -/
inductive ISim : List AInstr → List AInstr → Prop
  | nil : ISim [] []
  | cons {i' i : AInstr} {is' is : List AInstr} : i'.regs = i.regs → i'.outs = i.outs → i'.direct = i.direct →
      Same i'.liveOut i.liveOut → NodupKeys i.liveOut → ISim is' is → ISim (i' :: is') (i :: is)

theorem ISim.regs {is' is : List AInstr} (h : ISim is' is) : is'.flatMap (·.regs) = is.flatMap (·.regs) := by
  induction h with
  | nil => rfl
  | cons h1 _ _ _ _ _ ih => simp only [List.flatMap_cons, h1, ih]

theorem ISim.kinds {is' is : List AInstr} (h : ISim is' is) : kindsOf is' = kindsOf is := by
  unfold kindsOf
  congr 1
  induction h with
  | nil => rfl
  | cons h1 h2 _ _ _ _ ih => simp only [List.flatMap_cons, h1, h2, ih]

theorem ISim.map {α : Type} (l : List α) (f' f : α → AInstr)
    (h : ∀ a ∈ l, (f' a).regs = (f a).regs ∧ (f' a).outs = (f a).outs ∧ (f' a).direct = (f a).direct ∧
      Same (f' a).liveOut (f a).liveOut ∧ NodupKeys (f a).liveOut) : ISim (l.map f') (l.map f) := by
  induction l with
  | nil => exact .nil
  | cons a l ih =>
    obtain ⟨h1, h2, h3, h4, h5⟩ := h a List.mem_cons_self
    exact .cons h1 h2 h3 h4 h5 (ih (fun b hb => h b (List.mem_cons_of_mem _ hb)))

/-- The interference edges one instruction contributes to the allocator of
`kind`; the key of a dynamic `range` is (site, position of the output register,
position of the instruction) — it does not mention the kind. -/
def edgesInstrE (π : Sched) (key : List Nat) (kind : Nat) (lo : MS) : List R → List (Nat × Nat)
  | [] => []
  | d :: ds =>
    (if idKind d.id == kind then edgesOfE π (ds.length :: key) d lo else []) ++ edgesInstrE π key kind lo ds

def kindEdgesE (π : Sched) (kind : Nat) : List AInstr → List (Nat × Nat)
  | [] => []
  | i :: is => edgesInstrE π [is.length] kind i.liveOut i.outs ++ kindEdgesE π kind is

theorem edgesInstrE_perm (π : Sched) (hπ : Fair π) (key : List Nat) (kind : Nat) (lo' lo : MS)
    (hs : Same lo' lo) (hn : NodupKeys lo) : ∀ ds : List R,
    (edgesInstrE π key kind lo' ds).Perm ((ds.filter (fun d => idKind d.id == kind)).flatMap (fun d => edgesOf d lo))
  | [] => .refl _
  | d :: ds => by
    simp only [edgesInstrE, List.filter_cons]
    by_cases hk : (idKind d.id == kind) = true
    · simp only [hk, if_true, List.flatMap_cons]
      exact (edgesOfE_perm π hπ _ d lo' lo hs hn).append (edgesInstrE_perm π hπ key kind lo' lo hs hn ds)
    · simp only [hk]
      exact edgesInstrE_perm π hπ key kind lo' lo hs hn ds

theorem kindEdgesE_perm (π : Sched) (hπ : Fair π) (kind : Nat) {is' is : List AInstr} (h : ISim is' is) :
    (kindEdgesE π kind is').Perm (kindEdges is kind) := by
  induction h with
  | nil => exact .refl _
  | @cons i' i is' is _ h2 _ h4 h5 _ ih =>
    simp only [kindEdgesE, kindEdges, List.flatMap_cons]
    rw [h2]
    exact (edgesInstrE_perm π hπ _ kind _ _ h4 h5 i.outs).append ih

/-! ### The `possible` map built by `Allocator.Add` -/

/-- Distinct keys, and the entry of a key is a function of the key. -/
def PossWF (cands : List Nat) (p : Poss) : Prop :=
  (p.map (·.1)).Nodup ∧ ∀ x ∈ p, x.2 = cands.filter (fun r => idKind r == idKind x.1)

theorem addVirt_wf (cands : List Nat) (p : Poss) (v : Nat) (h : PossWF cands p) : PossWF cands (addVirt cands p v) := by
  unfold addVirt
  split
  · exact h
  · split
    · exact h
    · rename_i hany
      constructor
      · rw [List.map_append, List.nodup_append]
        refine ⟨h.1, by simp, ?_⟩
        intro a ha b hb
        have : b = v := by simpa using hb
        subst this
        intro e; subst e
        apply hany
        obtain ⟨x, hx, hxa⟩ := List.mem_map.mp ha
        exact List.any_eq_true.mpr ⟨x, hx, by simpa using hxa⟩
      · intro x hx
        rcases List.mem_append.mp hx with hx | hx
        · exact h.2 x hx
        · have : x = (v, cands.filter (fun r => idKind r == idKind v)) := by simpa using hx
          subst this; rfl

theorem addVirt_keys (cands : List Nat) (p : Poss) (v z : Nat) :
    z ∈ (addVirt cands p v).map (·.1) ↔ z ∈ p.map (·.1) ∨ (z = v ∧ idIsVirtual v = true) := by
  unfold addVirt
  by_cases hv : idIsVirtual v = true
  · simp only [hv, Bool.not_true, Bool.false_eq_true, if_false, and_true]
    by_cases hany : p.any (·.1 == v) = true
    · simp only [hany, if_true]
      constructor
      · intro h; exact Or.inl h
      · rintro (h | h)
        · exact h
        · subst h
          obtain ⟨x, hx, hxa⟩ := List.any_eq_true.mp hany
          exact List.mem_map.mpr ⟨x, hx, by simpa using hxa⟩
    · simp only [hany]
      simp
  · simp [hv]

theorem foldl_addVirt_wf (cands : List Nat) : ∀ (es : List (Nat × Nat)) (p : Poss), PossWF cands p →
    PossWF cands (es.foldl (fun p e => addVirt cands (addVirt cands p e.1) e.2) p)
  | [], _, h => h
  | e :: es, p, h => by
    simp only [List.foldl_cons]
    exact foldl_addVirt_wf cands es _ (addVirt_wf cands _ _ (addVirt_wf cands _ _ h))

theorem foldl_addVirt_keys (cands : List Nat) (z : Nat) : ∀ (es : List (Nat × Nat)) (p : Poss),
    z ∈ (es.foldl (fun p e => addVirt cands (addVirt cands p e.1) e.2) p).map (·.1) ↔
      z ∈ p.map (·.1) ∨ ∃ e ∈ es, (z = e.1 ∨ z = e.2) ∧ idIsVirtual z = true
  | [], p => by simp
  | e :: es, p => by
    simp only [List.foldl_cons]
    rw [foldl_addVirt_keys cands z es, addVirt_keys, addVirt_keys]
    constructor
    · rintro ((( h | ⟨h, hv⟩) | ⟨h, hv⟩) | ⟨e', he', h⟩)
      · exact Or.inl h
      · exact Or.inr ⟨e, List.mem_cons_self, Or.inl h, h ▸ hv⟩
      · exact Or.inr ⟨e, List.mem_cons_self, Or.inr h, h ▸ hv⟩
      · exact Or.inr ⟨e', List.mem_cons_of_mem _ he', h⟩
    · rintro (h | ⟨e', he', h, hv⟩)
      · exact Or.inl (Or.inl (Or.inl h))
      · rcases List.mem_cons.mp he' with rfl | he'
        · rcases h with h | h
          · exact Or.inl (Or.inl (Or.inr ⟨h, h ▸ hv⟩))
          · exact Or.inl (Or.inr ⟨h, h ▸ hv⟩)
        · exact Or.inr ⟨e', he', h, hv⟩

theorem nodup_of_keys {p : Poss} (h : (p.map (·.1)).Nodup) : p.Nodup := by
  rw [List.nodup_iff_pairwise_ne] at h ⊢
  rw [List.pairwise_map] at h
  exact List.Pairwise.imp (fun hab e => hab (by rw [e])) h

/-- The `possible` map does not depend (as a map) on the order in which the
interference edges were recorded. -/
theorem poss_perm (cands : List Nat) (p0 : Poss) (h0 : PossWF cands p0) {es es' : List (Nat × Nat)} (h : es.Perm es') :
    (es.foldl (fun p e => addVirt cands (addVirt cands p e.1) e.2) p0).Perm
      (es'.foldl (fun p e => addVirt cands (addVirt cands p e.1) e.2) p0) := by
  have w1 := foldl_addVirt_wf cands es p0 h0
  have w2 := foldl_addVirt_wf cands es' p0 h0
  rw [List.perm_ext_iff_of_nodup (nodup_of_keys w1.1) (nodup_of_keys w2.1)]
  have keys : ∀ z, z ∈ (es.foldl (fun p e => addVirt cands (addVirt cands p e.1) e.2) p0).map (·.1) ↔
      z ∈ (es'.foldl (fun p e => addVirt cands (addVirt cands p e.1) e.2) p0).map (·.1) := by
    intro z
    rw [foldl_addVirt_keys, foldl_addVirt_keys]
    constructor
    · rintro (h1 | ⟨e, he, h2⟩)
      · exact Or.inl h1
      · exact Or.inr ⟨e, h.mem_iff.mp he, h2⟩
    · rintro (h1 | ⟨e, he, h2⟩)
      · exact Or.inl h1
      · exact Or.inr ⟨e, h.mem_iff.mpr he, h2⟩
  have ext : ∀ (p q : Poss), PossWF cands p → PossWF cands q → (∀ z, z ∈ p.map (·.1) → z ∈ q.map (·.1)) →
      ∀ x, x ∈ p → x ∈ q := by
    intro p q hp hq hk x hx
    obtain ⟨y, hy, hyx⟩ := List.mem_map.mp (hk x.1 (List.mem_map.mpr ⟨x, hx, rfl⟩))
    have : y = x := by
      rcases x with ⟨a, b⟩; rcases y with ⟨c, d⟩
      simp only at hyx; subst hyx
      have e1 := hp.2 _ hx; have e2 := hq.2 _ hy
      simp only at e1 e2; rw [e1, e2]
    rw [← this]; exact hy
  intro x
  exact ⟨ext _ _ w1 w2 (fun z => (keys z).mp) x, ext _ _ w2 w1 (fun z => (keys z).mpr) x⟩

theorem foldl_regs_wf (cands : List Nat) : ∀ (rs : List R) (p : Poss), PossWF cands p →
    PossWF cands (rs.foldl (fun p r => addVirt cands p r.id) p)
  | [], _, h => h
  | r :: rs, p, h => by simp only [List.foldl_cons]; exact foldl_regs_wf cands rs _ (addVirt_wf cands _ _ h)

/-! ### `Allocate`: `mostrestricted` ranges over the `possible` map -/

def allocLoopE (π : Sched) (key : List Nat) : Nat → AState → Except AErr (List (Nat × Nat))
  | 0, _ => .error .failed
  | fuel + 1, st =>
    match updateEdges st.allocation st.edges st.possible [] with
    | .error e => .error e
    | .ok (poss, rem) =>
      match mostRestricted (π.poss (6 :: fuel :: key) poss) with
      | none => .ok st.allocation
      | some (v, ps) =>
        match ps with
        | [] => .error .failed
        | p :: _ =>
          allocLoopE π key fuel { possible := poss.filter (·.1 != v), allocation := st.allocation ++ [(v, p)], edges := rem }

theorem allocLoopE_eq (π : Sched) (hπ : Fair π) (key : List Nat) : ∀ (fuel : Nat) (s : AState),
    (s.possible.map (·.1)).Nodup → allocLoopE π key fuel s = allocLoop fuel s
  | 0, _, _ => rfl
  | fuel + 1, s, hnd => by
    simp only [allocLoopE, allocLoop]
    cases hu : updateEdges s.allocation s.edges s.possible [] with
    | error e => rfl
    | ok pr =>
      rcases pr with ⟨poss, rem⟩
      simp only
      have hk : (poss.map (·.1)).Nodup := by
        rw [(updateEdges_spec s.allocation s.edges s.possible [] poss rem hu).1]; exact hnd
      have hp := hπ.poss (6 :: fuel :: key) poss
      rw [mostRestricted_perm ((hp.map (·.1)).nodup_iff.mpr hk) hp]
      cases hm : mostRestricted poss with
      | none => rfl
      | some m =>
        rcases m with ⟨v, ps⟩
        cases ps with
        | nil => rfl
        | cons q ps' =>
          simp only
          exact allocLoopE_eq π hπ key fuel _ (List.Nodup.sublist ((List.filter_sublist).map _) hk)

/-! ### `NewAllocator`: `range idset`, then sort -/

theorem nodup_eraseDups {α : Type} [BEq α] [LawfulBEq α] : ∀ (n : Nat) (l : List α), l.length ≤ n → l.eraseDups.Nodup
  | _, [], _ => by simp
  | 0, a :: l, h => by simp at h
  | n + 1, a :: l, h => by
    rw [List.eraseDups_cons, List.nodup_cons]
    constructor
    · intro hm
      rw [List.mem_eraseDups] at hm
      have := (List.mem_filter.mp hm).2
      simp at this
    · apply nodup_eraseDups n
      have : (l.filter (fun b => !b == a)).length ≤ l.length := List.length_filter_le _ _
      simp only [List.length_cons] at h
      omega

def candidatesE (π : Sched) (key : List Nat) (tbl : List RegRow) (kind : Nat) : List Nat :=
  let rows := tbl.filter (fun r => r.kind == kind)
  let ids := (rows.filter (fun r => r.info &&& infoRestricted == 0)).map (·.id) |>.eraseDups
  let bp := (rows.filter (fun r => r.info &&& infoBasePointer != 0)).map (·.id)
  sortRegs (fun id => if bp.contains id then -1 else 0) (π.ids (10 :: key) ids)

theorem candidatesE_eq (π : Sched) (hπ : Fair π) (key : List Nat) (tbl : List RegRow) (kind : Nat) :
    candidatesE π key tbl kind = candidates tbl kind := by
  unfold candidatesE candidates
  simp only
  have hp := hπ.ids (10 :: key) (((tbl.filter (fun r => r.kind == kind)).filter (fun r => r.info &&& infoRestricted == 0)).map (·.id) |>.eraseDups)
  exact sortRegs_perm _ (hp.nodup_iff.mpr (nodup_eraseDups _ _ (Nat.le_refl _))) hp

/-! ### One allocator -/

def allocKindE (π : Sched) (tbl : List RegRow) (is : List AInstr) (kind : Nat) : Except AErr (List (Nat × Nat)) :=
  let cands := candidatesE π [kind] tbl kind
  if cands.isEmpty then .error .noRegisters else
  let regsK := (is.flatMap (·.regs)).filter (fun r => idKind r.id == kind)
  let poss0 := regsK.foldl (fun p r => addVirt cands p r.id) []
  let edges := kindEdgesE π kind is
  let poss := edges.foldl (fun p e => addVirt cands (addVirt cands p e.1) e.2) poss0
  allocLoopE π [kind] (poss.length + 1) { possible := poss, allocation := [], edges := edges }

/-- **One allocator**: same result (allocation or error) whatever the schedule. -/
theorem allocKindE_eq (π : Sched) (hπ : Fair π) (tbl : List RegRow) {is' is : List AInstr} (h : ISim is' is) (kind : Nat) :
    allocKindE π tbl is' kind = allocKind tbl is kind := by
  unfold allocKindE allocKind
  simp only
  rw [candidatesE_eq π hπ, h.regs]
  split
  · rfl
  · have he := kindEdgesE_perm π hπ kind h
    have wf0 : PossWF (candidates tbl kind) (((is.flatMap (·.regs)).filter (fun r => idKind r.id == kind)).foldl
        (fun p r => addVirt (candidates tbl kind) p r.id) []) :=
      foldl_regs_wf _ _ _ ⟨by simp, by intro x hx; cases hx⟩
    have hp := poss_perm (candidates tbl kind) _ wf0 he
    have wf := foldl_addVirt_wf (candidates tbl kind) (kindEdgesE π kind is') _ wf0
    rw [allocLoopE_eq π hπ _ _ _ wf.1, hp.length_eq]
    exact allocLoop_perm _ _ _ ⟨rfl, hp, he⟩ wf.1

/-! ### `AllocateRegisters`: `range as`, `Allocation.Merge` ranges over the per-kind allocation -/

/-- The allocation returned by `Allocate` has distinct keys (it is a Go map). -/
theorem allocLoop_nodup : ∀ (fuel : Nat) (st : AState) (al : List (Nat × Nat)), allocLoop fuel st = .ok al →
    (st.allocation.map (·.1) ++ st.possible.map (·.1)).Nodup → (al.map (·.1)).Nodup
  | 0, _, _, h, _ => by simp [allocLoop] at h
  | fuel + 1, st, al, h, hnd => by
    simp only [allocLoop] at h
    cases hu : updateEdges st.allocation st.edges st.possible [] with
    | error e => simp [hu] at h
    | ok pr =>
      rcases pr with ⟨poss, rem⟩
      simp only [hu] at h
      have hk := (updateEdges_spec st.allocation st.edges st.possible [] poss rem hu).1
      rw [← hk] at hnd
      rw [List.nodup_append] at hnd
      obtain ⟨hA, hK, hdis⟩ := hnd
      cases hmr : mostRestricted poss with
      | none => simp only [hmr] at h; injection h with h; subst h; exact hA
      | some m =>
        rcases m with ⟨v, ps⟩
        simp only [hmr] at h
        cases ps with
        | nil => simp at h
        | cons p ps' =>
          simp only at h
          apply allocLoop_nodup fuel _ al h
          have hv : v ∈ poss.map (·.1) := List.mem_map.mpr ⟨_, mostRestricted_mem poss _ hmr, rfl⟩
          simp only [List.map_append, List.map_cons, List.map_nil]
          rw [List.nodup_append]
          refine ⟨?_, List.Nodup.sublist ((List.filter_sublist).map _) hK, ?_⟩
          · rw [List.nodup_append]
            refine ⟨hA, by simp, ?_⟩
            intro a ha b hb
            have : b = v := by simpa using hb
            subst this
            exact hdis a ha b hv
          · intro a ha b hb
            obtain ⟨x, hx, hxb⟩ := List.mem_map.mp hb
            have hx' := List.mem_filter.mp hx
            rcases List.mem_append.mp ha with ha | ha
            · exact hdis a ha b (List.mem_map.mpr ⟨x, hx'.1, hxb⟩)
            · have : a = v := by simpa using ha
              subst this
              intro e
              have := hx'.2
              rw [hxb, ← e] at this
              simp at this

theorem allocKind_nodup (tbl : List RegRow) (is : List AInstr) (kind : Nat) (al : List (Nat × Nat))
    (h : allocKind tbl is kind = .ok al) : (al.map (·.1)).Nodup := by
  unfold allocKind at h
  simp only at h
  split at h
  · cases h
  · apply allocLoop_nodup _ _ al h
    simp only [List.map_nil, List.nil_append]
    exact (foldl_addVirt_wf _ _ _ (foldl_regs_wf _ _ _ ⟨by simp, by intro x hx; cases hx⟩)).1

/-- A map with distinct keys can be enumerated in any order. -/
theorem lookup_perm {a a' : List (Nat × Nat)} (hn : (a.map (·.1)).Nodup) (h : a'.Perm a) (z : Nat) :
    lookupDefault a' z = lookupDefault a z := by
  by_cases hz : z ∈ a.map (·.1)
  · have hz' : z ∈ a'.map (·.1) := ((h.map (·.1)).mem_iff).mpr hz
    obtain ⟨p, hp, e⟩ := lookup_of_key a z hz
    obtain ⟨p', hp', e'⟩ := lookup_of_key a' z hz'
    rw [e, e']
    have hp'' : (z, p') ∈ a := h.mem_iff.mp hp'
    have : ∀ (l : List (Nat × Nat)), (l.map (·.1)).Nodup → (z, p) ∈ l → (z, p') ∈ l → p' = p := by
      intro l
      induction l with
      | nil => intro _ h1; cases h1
      | cons x xs ih =>
        intro hnd h1 h2
        simp only [List.map_cons, List.nodup_cons, List.mem_map, not_exists, not_and] at hnd
        rcases List.mem_cons.mp h1 with e1 | h1 <;> rcases List.mem_cons.mp h2 with e2 | h2
        · rw [← e1] at e2; injection e2
        · exact absurd (by rw [← e1]) (hnd.1 _ h2)
        · exact absurd (by rw [← e2]) (hnd.1 _ h1)
        · exact ih hnd.2 h1 h2
    exact this a hn hp hp''
  · have hz' : z ∉ a'.map (·.1) := fun hm => hz (((h.map (·.1)).mem_iff).mp hm)
    rw [lookup_of_not_key a z hz, lookup_of_not_key a' z hz']

abbrev ARes := Except AErr (List (Nat × Nat))

/-- The loop `for _, a := range as { al, err := a.Allocate(); …; fn.Allocation.Merge(al) }`
for a given visiting order of the allocators. -/
def mergeFold (f : Nat → ARes) (ks : List Nat) (acc : ARes) : ARes :=
  ks.foldl (fun acc k => match acc with
    | .error e => .error e
    | .ok al => match f k with
      | .error e => .error e
      | .ok a => .ok (al ++ a)) acc

def okB : ARes → Bool
  | .ok _ => true
  | .error _ => false

def okOf : ARes → List (Nat × Nat)
  | .ok a => a
  | .error _ => []

theorem mergeFold_error (f : Nat → ARes) : ∀ (ks : List Nat) (e : AErr), mergeFold f ks (.error e) = .error e
  | [], _ => rfl
  | k :: ks, e => by unfold mergeFold; simp only [List.foldl_cons]; exact mergeFold_error f ks e

theorem mergeFold_ok (f : Nat → ARes) : ∀ (ks : List Nat) (acc : List (Nat × Nat)), (∀ k ∈ ks, okB (f k) = true) →
    mergeFold f ks (.ok acc) = .ok (acc ++ ks.flatMap (fun k => okOf (f k)))
  | [], acc, _ => by simp [mergeFold]
  | k :: ks, acc, h => by
    have hk := h k List.mem_cons_self
    cases hf : f k with
    | error e => rw [hf] at hk; cases hk
    | ok a =>
      have := mergeFold_ok f ks (acc ++ a) (fun k' hk' => h k' (List.mem_cons_of_mem _ hk'))
      unfold mergeFold at this ⊢
      have e : okOf (Except.ok a : ARes) = a := rfl
      simp only [List.foldl_cons, hf, List.flatMap_cons, e]
      rw [this, List.append_assoc]

theorem mergeFold_fail (f : Nat → ARes) : ∀ (ks : List Nat) (acc : List (Nat × Nat)), (∃ k ∈ ks, okB (f k) = false) →
    ∃ e, mergeFold f ks (.ok acc) = .error e
  | [], _, h => by obtain ⟨k, hk, _⟩ := h; cases hk
  | k :: ks, acc, h => by
    cases hf : f k with
    | error e =>
      refine ⟨e, ?_⟩
      have := mergeFold_error f ks e
      unfold mergeFold at this ⊢
      simp only [List.foldl_cons, hf]
      exact this
    | ok a =>
      have : ∃ k' ∈ ks, okB (f k') = false := by
        obtain ⟨k', hk', hb⟩ := h
        rcases List.mem_cons.mp hk' with rfl | hk'
        · rw [hf] at hb; cases hb
        · exact ⟨k', hk', hb⟩
      obtain ⟨e, he⟩ := mergeFold_fail f ks (acc ++ a) this
      refine ⟨e, ?_⟩
      unfold mergeFold at he ⊢
      simp only [List.foldl_cons, hf]
      exact he

theorem allocate_eq_mergeFold (tbl : List RegRow) (is : List AInstr) :
    allocate tbl is = mergeFold (allocKind tbl is) (kindsOf is) (.ok []) := rfl

/-- `AllocateRegisters` with every map enumeration scheduled. (The second loop
over `as`, which calls `SetPriority` on each allocator, touches only the
allocator it visits; its effect is the priority function inside `candidatesE`.) -/
def allocateE (π : Sched) (tbl : List RegRow) (is : List AInstr) : ARes :=
  mergeFold (fun k => match allocKindE π tbl is k with
    | .error e => .error e
    | .ok a => .ok (π.alloc [8, k] a)) (π.kinds [7] (kindsOf is)) (.ok [])

/-- Equivalence of allocation results: both fail, or both succeed with the same
map. When several allocators fail, which error is reported depends on which of
them is visited first (avo's `AllocateRegisters` returns the first error in map
order), so errors are identified. -/
def ResEqv (r r' : ARes) : Prop :=
  (∃ e e', r = .error e ∧ r' = .error e') ∨
  (∃ A A', r = .ok A ∧ r' = .ok A' ∧ ∀ z, lookupDefault A z = lookupDefault A' z)

/-- **All allocators.** -/
theorem allocateE_eqv (π : Sched) (hπ : Fair π) (tbl : List RegRow) {is' is : List AInstr} (h : ISim is' is) :
    ResEqv (allocateE π tbl is') (allocate tbl is) := by
  rw [allocate_eq_mergeFold]
  unfold allocateE
  rw [h.kinds]
  generalize hf' : (fun k => match allocKindE π tbl is' k with
    | .error e => (.error e : ARes)
    | .ok a => .ok (π.alloc [8, k] a)) = f'
  have hfk : ∀ k, f' k = match allocKind tbl is k with
      | .error e => .error e
      | .ok a => .ok (π.alloc [8, k] a) := by
    intro k; rw [← hf']; simp only [allocKindE_eq π hπ tbl h k]
  have hok : ∀ k, okB (f' k) = okB (allocKind tbl is k) := by
    intro k; rw [hfk]; cases allocKind tbl is k <;> rfl
  have hperm : ∀ k, (okOf (f' k)).Perm (okOf (allocKind tbl is k)) := by
    intro k; rw [hfk]
    cases allocKind tbl is k with
    | error e => exact .refl _
    | ok a => exact hπ.alloc _ _
  have hks := hπ.kinds [7] (kindsOf is)
  by_cases hall : ∀ k ∈ kindsOf is, okB (allocKind tbl is k) = true
  · right
    have hall' : ∀ k ∈ π.kinds [7] (kindsOf is), okB (f' k) = true := by
      intro k hk; rw [hok]; exact hall k (hks.mem_iff.mp hk)
    refine ⟨_, _, mergeFold_ok f' _ [] hall', mergeFold_ok _ _ [] hall, ?_⟩
    intro z
    simp only [List.nil_append]
    have hkeys : ∀ j, ∀ e ∈ okOf (allocKind tbl is j), idKind e.1 = j := by
      intro j e he
      cases hj : allocKind tbl is j with
      | error _ => rw [hj] at he; cases he
      | ok a => rw [hj] at he; exact allocKind_keys tbl is j a hj e he
    have hkeys' : ∀ j, ∀ e ∈ okOf (f' j), idKind e.1 = j :=
      fun j e he => hkeys j e ((hperm j).mem_iff.mp he)
    rw [allocate_kinds_perm (fun k => okOf (f' k)) hkeys' hks z,
      lookup_flatten (fun k => okOf (f' k)) hkeys' z, lookup_flatten (fun k => okOf (allocKind tbl is k)) hkeys z]
    split
    · apply lookup_perm _ (hperm _)
      cases hj : allocKind tbl is (idKind z) with
      | error _ => simp [okOf]
      | ok a => exact allocKind_nodup tbl is _ a hj
    · rfl
  · left
    have hex : ∃ k ∈ kindsOf is, okB (allocKind tbl is k) = false := by
      apply Classical.byContradiction
      intro hne
      apply hall
      intro k hk
      cases hb : okB (allocKind tbl is k) with
      | true => rfl
      | false => exact absurd ⟨k, hk, hb⟩ hne
    obtain ⟨k, hk, hb⟩ := hex
    obtain ⟨e, he⟩ := mergeFold_fail f' (π.kinds [7] (kindsOf is)) [] ⟨k, hks.mem_iff.mpr hk, by rw [hok]; exact hb⟩
    obtain ⟨e', he'⟩ := mergeFold_fail (allocKind tbl is) (kindsOf is) [] ⟨k, hk, hb⟩
    exact ⟨e, e', he, he'⟩

/-! ## 4. Layer C — the pipeline -/

/-- What the generation pipeline looks at in an instruction: the liveness view
(`InputRegisters`, `OutputRegisters`, `Succ`), the operand registers with their
roles, and the ISA extensions. -/
structure GInstr where
  l : LInstr
  regs : List R
  direct : List Bool
  isa : List String
  deriving Inhabited

abbrev GProg := Array GInstr

def lprog (G : GProg) : LProg := G.map (·.l)

/-- The allocator's view of the program, given the `LiveOut` sets. -/
def mkInstrs (G : GProg) (outs : Array MS) : List AInstr :=
  (List.range G.size).map (fun i =>
    { regs := (G.getD i default).regs, outs := (G.getD i default).l.defs,
      liveOut := getMS outs i, direct := (G.getD i default).direct })

/-- The set of ISA extensions of the function (a `map[string]bool`). -/
def isaSet (G : GProg) : List String := (G.toList.flatMap (·.isa)).eraseDups

open Avo.ISA in
def requiredISAE (π : Sched) (G : GProg) : List String := requiredISA (π.isa [9] (isaSet G))

/-- What the generator emits: the printed text (`none` = an error was
returned), and whether the liveness loop ran out of fuel. -/
structure Out (Text : Type) where
  fuelOut : Bool
  text : Option Text
  deriving DecidableEq, Repr

/-- Canonical pipeline: Liveness → AllocateRegisters → (BindRegisters,
VerifyAllocation, …: no map enumeration) → RequiredISAExtensions → printers.
`render` stands for everything downstream of the allocation: it sees the
allocation as a lookup function and the sorted ISA list (and may close over the
program). -/
def pipeline {Text : Type} (tbl : List RegRow) (render : (Nat → Nat) → List String → Text) (G : GProg) (fuel : Nat) :
    Out Text :=
  let L := liveness (lprog G) fuel
  { fuelOut := L.2
    text := match allocate tbl (mkInstrs G L.1.outs) with
      | .ok A => some (render (lookupDefault A) (Avo.ISA.requiredISA (isaSet G)))
      | .error _ => none }

/-- The pipeline with every `range` over a map scheduled by the oracle. -/
def pipelineE {Text : Type} (π : Sched) (tbl : List RegRow) (render : (Nat → Nat) → List String → Text) (G : GProg)
    (fuel : Nat) : Out Text :=
  let L := livenessE π (lprog G) fuel
  { fuelOut := L.2
    text := match allocateE π tbl (mkInstrs G L.1.outs) with
      | .ok A => some (render (lookupDefault A) (requiredISAE π G))
      | .error _ => none }

theorem requiredISAE_eq (π : Sched) (hπ : Fair π) (G : GProg) : requiredISAE π G = Avo.ISA.requiredISA (isaSet G) :=
  (requiredISA_perm (nodup_eraseDups _ _ (Nat.le_refl _)) (hπ.isa [9] (isaSet G)).symm).symm

/-- Every fair schedule computes what the canonical model computes. -/
theorem pipelineE_eq {Text : Type} (π : Sched) (hπ : Fair π) (tbl : List RegRow)
    (render : (Nat → Nat) → List String → Text) (G : GProg) (fuel : Nat) :
    pipelineE π tbl render G fuel = pipeline tbl render G fuel := by
  obtain ⟨rel, hflag⟩ := livenessE_same π hπ (lprog G) fuel
  have hsim : ISim (mkInstrs G (livenessE π (lprog G) fuel).1.outs) (mkInstrs G (liveness (lprog G) fuel).1.outs) := by
    unfold mkInstrs
    apply ISim.map
    intro i _
    exact ⟨rfl, rfl, rfl, rel.outs i, rel.ndO i⟩
  unfold pipelineE pipeline
  simp only [hflag, requiredISAE_eq π hπ G]
  rcases allocateE_eqv π hπ tbl hsim with ⟨e, e', h1, h2⟩ | ⟨A, A', h1, h2, h3⟩
  · rw [h1, h2]
  · rw [h1, h2]
    have : lookupDefault A = lookupDefault A' := funext h3
    simp only [this]

/-- **Generation is deterministic.** For every register table, program, fuel
and downstream printer, the output of the generation pipeline (the printed
text, or the fact that an error is returned, and the liveness fuel flag) is the
same for every way of enumerating every Go map at every dynamic `range`:
`MaskSet.Update`, `Clone`, `DifferenceUpdate`, `OfKind`, `AddInterferenceSet`,
`NewAllocator`, `mostrestricted`, `AllocateRegisters` (the map of allocators),
`Allocation.Merge`, `RequiredISAExtensions`. -/
theorem generation_deterministic {Text : Type} (tbl : List RegRow) (render : (Nat → Nat) → List String → Text)
    (G : GProg) (fuel : Nat) (π₁ π₂ : Sched) (h₁ : Fair π₁) (h₂ : Fair π₂) :
    pipelineE π₁ tbl render G fuel = pipelineE π₂ tbl render G fuel := by
  rw [pipelineE_eq π₁ h₁, pipelineE_eq π₂ h₂]

/-! ### Non-vacuity -/

/-- Two GP registers are allocatable. -/
def exTbl : List RegRow :=
  [⟨"AX", 1, 0, 15, 8, 0, 256⟩, ⟨"CX", 1, 1, 15, 8, 0, 65792⟩]

/-- `v0 := …; v1 := …; use v0, v1` with two virtual 64-bit GP registers (ids 257 and 65793). -/
def exProg : GProg :=
  #[ { l := { uses := [], defs := [⟨257, 15⟩], succ := [some 1] }, regs := [⟨257, 15⟩], direct := [true], isa := ["AVX"] },
     { l := { uses := [], defs := [⟨65793, 15⟩], succ := [some 2] }, regs := [⟨65793, 15⟩], direct := [true], isa := ["SSE2", "AVX"] },
     { l := { uses := [⟨257, 15⟩, ⟨65793, 15⟩], defs := [], succ := [none] }, regs := [⟨257, 15⟩, ⟨65793, 15⟩],
       direct := [true, true], isa := [] } ]

def exRender (f : Nat → Nat) (isa : List String) : List Nat × List String := ([f 257, f 65793], isa)

/-- Enumerating every map backwards is a fair schedule different from the
stored order; the example really goes through liveness (one noisy sweep), an
interference edge, two allocation rounds and the ISA sort. -/
example : pipelineE Sched.rev exTbl exRender exProg 5 = pipelineE Sched.id exTbl exRender exProg 5 :=
  generation_deterministic exTbl exRender exProg 5 _ _ fair_rev fair_id

example : pipelineE Sched.rev exTbl exRender exProg 5 = ⟨false, some ([256, 65792], ["AVX", "SSE2"])⟩ := by decide +kernel

example : (livenessE Sched.rev (lprog exProg) 5).1.outs ≠ (liveness (lprog exProg) 5).1.outs := by decide +kernel

/-! ## 5. `MaskSet.Equals` (not on the generation path; used by tests only) -/

/-- `len(s) == len(t)` and, ranging over `s`, every entry is found in `t` with the same mask. -/
def equalsM (s t : MS) : Bool :=
  s.length == t.length && s.all (fun p => hasKey t p.1 && p.2 == MaskSet.get t p.1)

theorem hasKey_iff (t : MS) (id : Nat) : hasKey t id = true ↔ id ∈ t.map (·.1) := by
  induction t with
  | nil => simp [hasKey]
  | cons p t ih =>
    rcases p with ⟨k, v⟩
    simp only [hasKey, Bool.or_eq_true, beq_iff_eq, ih, List.map_cons, List.mem_cons]
    constructor
    · rintro (h | h)
      · exact Or.inl h.symm
      · exact Or.inr h
    · rintro (h | h)
      · exact Or.inl h.symm
      · exact Or.inr h

theorem hasKey_perm {t t' : MS} (h : t.Perm t') (id : Nat) : hasKey t id = hasKey t' id := by
  have := (h.map (·.1)).mem_iff (a := id)
  rw [← hasKey_iff, ← hasKey_iff] at this
  cases h1 : hasKey t id <;> cases h2 : hasKey t' id <;> simp_all

/-- `MaskSet.Equals` does not depend on the enumeration order of either map. -/
theorem equals_perm {s s' t t' : MS} (hs : s.Perm s') (ht : t.Perm t') : equalsM s t = equalsM s' t' := by
  unfold equalsM
  rw [hs.length_eq, ht.length_eq, hs.all_eq]
  congr 2
  funext p
  rw [hasKey_perm ht, get_perm ht]

end Avo.Determinism
