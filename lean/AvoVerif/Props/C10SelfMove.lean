/-
C10, self-move removal as a whole-program *stuttering simulation*.

`PruneSelfMoves` deletes `MOVB/MOVW/MOVQ r, r` on general purpose registers.
With the small-step semantics of C10Sim.lean (`step`, `runK`: the program
counter is the remaining node list) and any instruction semantics `exec` in
which a deleted instruction leaves the machine state alone and falls through
(`hself`; justified at the register-file level by `prune_selfmov_ok`, see
`hself_of_execMov` below) and is neither a branch nor a return (`hcf`), every
execution of the original function is matched by an execution of the pruned
function that goes through the same machine states: a step that executes a
deleted self-move is matched by *zero* steps, every other step by exactly *one*
step, and the two functions halt at related points in the same state.

The Go loop (`removeinstructions`) does not step back after a deletion, so the
node that follows a deleted one is kept unconditionally -- even if it is a
self-move itself.  Hence `pruneSelfMovesAux` is not compositional over `++`,
and program points are related by

  `Rel c c'  :=  c' = pruneSelfMovesAux c  ∨  c' = keepHead c`

(`keepHead` keeps the first node and prunes the rest).  A consequence of the
quirk is that stuttering is very short: after a zero-step the pruned program is
at `keepHead rest`, from where it runs in lock step (`keepHead_step`); there are
never two zero-steps in a row, so `k` original steps are matched by `k'` pruned
steps with `k' ≤ k ≤ 2 * k' + 1`.

Core Lean only.
-/
import AvoVerif.Props.C10Sim
namespace Avo.Cleanup
open Avo.Func Avo.Reg

variable {σ : Type}

/-! ## The relation between program points -/

/-- Keep the first node whatever it is, prune behind it: the shape of the
pass's output right after a deletion. -/
def keepHead : List XNode → List XNode
  | [] => []
  | n :: r => n :: pruneSelfMovesAux r

/-- Program point `c'` of the pruned function corresponds to program point `c`
of the original function. -/
def Rel (c c' : List XNode) : Prop := c' = pruneSelfMovesAux c ∨ c' = keepHead c

theorem pruneSelfMovesAux_nil : pruneSelfMovesAux [] = [] := by
  simp [pruneSelfMovesAux]

theorem pruneSelfMovesAux_label (l : String) (r : List XNode) :
    pruneSelfMovesAux (.label l :: r) = .label l :: pruneSelfMovesAux r := by
  simp [pruneSelfMovesAux]

theorem pruneSelfMovesAux_comment (r : List XNode) :
    pruneSelfMovesAux (.comment :: r) = .comment :: pruneSelfMovesAux r := by
  simp [pruneSelfMovesAux]

/-- The defining equation of the pass on an instruction, with the "next node is
kept" quirk expressed through `keepHead`. -/
theorem pruneSelfMovesAux_instr (i : XInstr) (r : List XNode) :
    pruneSelfMovesAux (.instr i :: r) =
      if isSelfMove i then keepHead r else .instr i :: pruneSelfMovesAux r := by
  by_cases hs : isSelfMove i = true
  · rw [if_pos hs]
    cases r <;> simp [pruneSelfMovesAux, hs, keepHead]
  · rw [if_neg hs]
    cases r <;> simp [pruneSelfMovesAux, hs]

/-- Either the head of `c` is a deleted self-move (and the output continues
with `keepHead` of the rest), or pruning keeps the head. -/
theorem pruneSelfMovesAux_cases (c : List XNode) :
    (∃ i rest, c = .instr i :: rest ∧ isSelfMove i = true ∧ pruneSelfMovesAux c = keepHead rest) ∨
    pruneSelfMovesAux c = keepHead c := by
  cases c with
  | nil => exact Or.inr (by simp [pruneSelfMovesAux_nil, keepHead])
  | cons n r =>
    cases n with
    | label l => exact Or.inr (by rw [pruneSelfMovesAux_label]; rfl)
    | comment => exact Or.inr (by rw [pruneSelfMovesAux_comment]; rfl)
    | instr i =>
      by_cases hs : isSelfMove i = true
      · exact Or.inl ⟨i, r, rfl, hs, by rw [pruneSelfMovesAux_instr, if_pos hs]⟩
      · exact Or.inr (by rw [pruneSelfMovesAux_instr, if_neg hs]; rfl)

/-- From the function entry the points are related (`pruneSelfMoves = pruneSelfMovesAux`). -/
theorem Rel_entry (whole : List XNode) : Rel whole (pruneSelfMoves whole) := Or.inl rfl

/-! ## Labels are never deleted -/

/-- Label lookup commutes with self-move pruning, for both shapes of the output. -/
theorem after_pruneSelfMoves_both (l : String) : ∀ ns : List XNode,
    after l (pruneSelfMovesAux ns) = (after l ns).map pruneSelfMovesAux ∧
    after l (keepHead ns) = (after l ns).map pruneSelfMovesAux
  | [] => by simp [pruneSelfMovesAux_nil, keepHead, after]
  | n :: r => by
    have ih := after_pruneSelfMoves_both l r
    have hk : after l (keepHead (n :: r)) = (after l (n :: r)).map pruneSelfMovesAux := by
      cases n with
      | label l' =>
        simp only [keepHead, after]
        by_cases hl : (l' == l) = true
        · rw [if_pos hl, if_pos hl]; rfl
        · rw [if_neg hl, if_neg hl]; exact ih.1
      | comment => simp only [keepHead, after]; exact ih.1
      | instr i => simp only [keepHead, after]; exact ih.1
    refine ⟨?_, hk⟩
    cases n with
    | label l' => rw [pruneSelfMovesAux_label]; exact hk
    | comment => rw [pruneSelfMovesAux_comment]; exact hk
    | instr i =>
      rw [pruneSelfMovesAux_instr]
      by_cases hs : isSelfMove i = true
      · rw [if_pos hs]; simp only [after]; exact ih.2
      · rw [if_neg hs]; exact hk

theorem after_pruneSelfMoves (l : String) (ns : List XNode) :
    after l (pruneSelfMovesAux ns) = (after l ns).map pruneSelfMovesAux :=
  (after_pruneSelfMoves_both l ns).1

theorem after_keepHead (l : String) (ns : List XNode) :
    after l (keepHead ns) = (after l ns).map pruneSelfMovesAux :=
  (after_pruneSelfMoves_both l ns).2

/-! ## One step -/

/-- **Lock step from a kept head.** At a point of the form `keepHead c` the
pruned function executes the very node the original executes (no hypothesis on
`exec` is needed: the head is kept even if it is a self-move), with the same
resulting state, the continuation being the pruned continuation; in particular
one halts iff the other does. -/
theorem keepHead_step (exec : XInstr → σ → σ × Bool) (whole c : List XNode) (s : σ) :
    step exec (pruneSelfMoves whole) (keepHead c, s) =
      (step exec whole (c, s)).map (fun r => (pruneSelfMovesAux r.1, r.2)) := by
  cases c with
  | nil => simp [keepHead, step]
  | cons n rest =>
    cases n with
    | label l => simp [keepHead, step]
    | comment => simp [keepHead, step]
    | instr i =>
      simp only [keepHead, step]
      split
      · rfl
      · split
        · cases i.cf.target with
          | none => rfl
          | some l => simp only [pruneSelfMoves, after_pruneSelfMoves, Option.map_map]; rfl
        · rfl

/-- A deleted self-move is a silent fall-through step of the original function. -/
theorem selfMove_step (exec : XInstr → σ → σ × Bool)
    (hself : ∀ i s, isSelfMove i = true → exec i s = (s, false))
    (whole : List XNode)
    (hcf : ∀ i, XNode.instr i ∈ whole → isSelfMove i = true →
      i.cf.isTerminal = false ∧ i.cf.isBranch = false)
    (pre : List XNode) (i : XInstr) (rest : List XNode) (hc : whole = pre ++ .instr i :: rest)
    (hs : isSelfMove i = true) (s : σ) :
    step exec whole (.instr i :: rest, s) = some (rest, s) := by
  have hm : XNode.instr i ∈ whole := by
    rw [hc]; exact List.mem_append_right _ List.mem_cons_self
  obtain ⟨ht, hb⟩ := hcf i hm hs
  simp [step, hself i s hs, ht, hb]

/-- **Self-move removal, one step (stuttering simulation).** Let `c` be a
suffix of `whole` and `Rel c c'`. Then either

* (zero steps) the node the original executes is a self-move that the pass
  deleted here (`c' = pruneSelfMovesAux c = keepHead rest`): the original steps
  to `(rest, s)` with the state unchanged, the pruned function does not move,
  and the points stay related (`Rel rest c'`, through `keepHead`); or
* (one step / halt) `step` of the pruned function at `(c', s)` equals `step` of
  the original at `(c, s)` with the continuation pruned: both halt (`none`), or
  both make one step to the same machine state and to related points
  (`Rel d (pruneSelfMovesAux d)` holds by definition). -/
theorem pruneSelfMoves_step (exec : XInstr → σ → σ × Bool)
    (hself : ∀ i s, isSelfMove i = true → exec i s = (s, false))
    (whole : List XNode)
    (hcf : ∀ i, XNode.instr i ∈ whole → isSelfMove i = true →
      i.cf.isTerminal = false ∧ i.cf.isBranch = false)
    (pre c c' : List XNode) (hc : whole = pre ++ c) (hr : Rel c c') (s : σ) :
    (∃ i rest, c = .instr i :: rest ∧ isSelfMove i = true ∧ c' = pruneSelfMovesAux c ∧
        c' = keepHead rest ∧ step exec whole (c, s) = some (rest, s) ∧ Rel rest c') ∨
    step exec (pruneSelfMoves whole) (c', s) =
      (step exec whole (c, s)).map (fun r => (pruneSelfMovesAux r.1, r.2)) := by
  rcases hr with hr | hr
  · rcases pruneSelfMovesAux_cases c with ⟨i, rest, hci, hs, hp⟩ | hp
    · refine Or.inl ⟨i, rest, hci, hs, hr, hr.trans hp, ?_, Or.inr (hr.trans hp)⟩
      rw [hci]
      exact selfMove_step exec hself whole hcf pre i rest (hci ▸ hc) hs s
    · rw [hr, hp]; exact Or.inr (keepHead_step exec whole c s)
  · rw [hr]; exact Or.inr (keepHead_step exec whole c s)

/-- If the original halts at `(c, s)` the pruned function halts at every related point. -/
theorem pruneSelfMoves_step_none (exec : XInstr → σ → σ × Bool)
    (hself : ∀ i s, isSelfMove i = true → exec i s = (s, false))
    (whole : List XNode)
    (hcf : ∀ i, XNode.instr i ∈ whole → isSelfMove i = true →
      i.cf.isTerminal = false ∧ i.cf.isBranch = false)
    (pre c c' : List XNode) (hc : whole = pre ++ c) (hr : Rel c c') (s : σ)
    (hn : step exec whole (c, s) = none) :
    step exec (pruneSelfMoves whole) (c', s) = none := by
  rcases pruneSelfMoves_step exec hself whole hcf pre c c' hc hr s with ⟨_, _, _, _, _, _, hst, _⟩ | h
  · rw [hn] at hst; cases hst
  · rw [h, hn]; rfl

/-- Conversely, if the pruned function halts at a related point, the original
halts right there or after the one silent self-move step, in the same state. -/
theorem pruneSelfMoves_step_none_conv (exec : XInstr → σ → σ × Bool)
    (hself : ∀ i s, isSelfMove i = true → exec i s = (s, false))
    (whole : List XNode)
    (hcf : ∀ i, XNode.instr i ∈ whole → isSelfMove i = true →
      i.cf.isTerminal = false ∧ i.cf.isBranch = false)
    (pre c c' : List XNode) (hc : whole = pre ++ c) (hr : Rel c c') (s : σ)
    (hn : step exec (pruneSelfMoves whole) (c', s) = none) :
    step exec whole (c, s) = none ∨
    (∃ i rest, c = .instr i :: rest ∧ isSelfMove i = true ∧
      step exec whole (c, s) = some (rest, s) ∧ step exec whole (rest, s) = none) := by
  rcases pruneSelfMoves_step exec hself whole hcf pre c c' hc hr s with
    ⟨i, rest, hci, hs, _, hk, hst, _⟩ | h
  · refine Or.inr ⟨i, rest, hci, hs, hst, ?_⟩
    have h2 := keepHead_step exec whole rest s
    rw [← hk, hn] at h2
    cases hq : step exec whole (rest, s) with
    | none => rfl
    | some r => rw [hq] at h2; cases h2
  · rw [hn] at h
    cases hq : step exec whole (c, s) with
    | none => exact Or.inl rfl
    | some r => rw [hq] at h; cases h

/-! ## All executions -/

theorem runK_succ_none (exec : XInstr → σ → σ × Bool) (whole : List XNode) (k : Nat)
    (st : List XNode × σ) (h : step exec whole st = none) : runK exec whole (k + 1) st = none := by
  simp [runK, h]

theorem runK_succ_some (exec : XInstr → σ → σ × Bool) (whole : List XNode) (k : Nat)
    (st st' : List XNode × σ) (h : step exec whole st = some st') :
    runK exec whole (k + 1) st = runK exec whole k st' := by
  simp [runK, h]

/-- Running leads to a suffix of the function again. -/
theorem runK_suffix (exec : XInstr → σ → σ × Bool) (whole : List XNode) :
    ∀ (k : Nat) (pre c : List XNode) (s : σ) (r : List XNode × σ), whole = pre ++ c →
      runK exec whole k (c, s) = some r → ∃ pre', whole = pre' ++ r.1
  | 0, pre, c, s, r, hc, h => by
    simp only [runK, Option.some.injEq] at h
    exact ⟨pre, by rw [← h]; exact hc⟩
  | k + 1, pre, c, s, r, hc, h => by
    cases hs : step exec whole (c, s) with
    | none => rw [runK_succ_none exec whole k _ hs] at h; cases h
    | some st' =>
      rw [runK_succ_some exec whole k _ st' hs] at h
      obtain ⟨pre', hp'⟩ := step_suffix exec whole pre c hc s st' hs
      exact runK_suffix exec whole k pre' st'.1 st'.2 r hp' h

/-- `k` steps of the original from `(c, s)` are matched by `k'` steps of the
pruned function from `(c', s)`: same final machine state at related points, or
both have halted. -/
def SimK (exec : XInstr → σ → σ × Bool) (whole : List XNode) (k k' : Nat)
    (c c' : List XNode) (s : σ) : Prop :=
  (∀ d t, runK exec whole k (c, s) = some (d, t) →
    ∃ d', Rel d d' ∧ runK exec (pruneSelfMoves whole) k' (c', s) = some (d', t)) ∧
  (runK exec whole k (c, s) = none → runK exec (pruneSelfMoves whole) k' (c', s) = none)

/-- The induction behind `pruneSelfMoves_run`, with the sharper step count for
points of the form `keepHead c` (no zero-step can happen there first). -/
theorem pruneSelfMoves_run_aux (exec : XInstr → σ → σ × Bool)
    (hself : ∀ i s, isSelfMove i = true → exec i s = (s, false))
    (whole : List XNode)
    (hcf : ∀ i, XNode.instr i ∈ whole → isSelfMove i = true →
      i.cf.isTerminal = false ∧ i.cf.isBranch = false) :
    ∀ k : Nat,
      (∀ (pre c : List XNode) (s : σ), whole = pre ++ c →
        ∃ k', k' ≤ k ∧ k ≤ 2 * k' ∧ SimK exec whole k k' c (keepHead c) s) ∧
      (∀ (pre c : List XNode) (s : σ), whole = pre ++ c →
        ∃ k', k' ≤ k ∧ k ≤ 2 * k' + 1 ∧ SimK exec whole k k' c (pruneSelfMovesAux c) s)
  | 0 => by
    refine ⟨fun pre c s _ => ⟨0, Nat.le_refl _, Nat.le_refl _, ?_, ?_⟩,
            fun pre c s _ => ⟨0, Nat.le_refl _, Nat.zero_le _, ?_, ?_⟩⟩
    · intro d t h
      simp only [runK, Option.some.injEq, Prod.mk.injEq] at h
      obtain ⟨h1, h2⟩ := h
      subst h1; subst h2
      exact ⟨keepHead c, Or.inr rfl, rfl⟩
    · intro h; simp [runK] at h
    · intro d t h
      simp only [runK, Option.some.injEq, Prod.mk.injEq] at h
      obtain ⟨h1, h2⟩ := h
      subst h1; subst h2
      exact ⟨pruneSelfMovesAux c, Or.inl rfl, rfl⟩
    · intro h; simp [runK] at h
  | k + 1 => by
    obtain ⟨ihA, ihB⟩ := pruneSelfMoves_run_aux exec hself whole hcf k
    have hA : ∀ (pre c : List XNode) (s : σ), whole = pre ++ c →
        ∃ k', k' ≤ k + 1 ∧ k + 1 ≤ 2 * k' ∧ SimK exec whole (k + 1) k' c (keepHead c) s := by
      intro pre c s hc
      have hst := keepHead_step exec whole c s
      cases hs : step exec whole (c, s) with
      | none =>
        rw [hs] at hst
        refine ⟨k + 1, Nat.le_refl _, by omega, ?_, ?_⟩
        · intro d t h
          rw [runK_succ_none exec whole k _ hs] at h; cases h
        · intro _
          exact runK_succ_none exec (pruneSelfMoves whole) k _ hst
      | some r =>
        rw [hs] at hst
        obtain ⟨pre', hp'⟩ := step_suffix exec whole pre c hc s r hs
        obtain ⟨k', hk1, hk2, hS1, hS2⟩ := ihB pre' r.1 r.2 hp'
        refine ⟨k' + 1, by omega, by omega, ?_, ?_⟩
        · intro d t h
          rw [runK_succ_some exec whole k _ r hs] at h
          rw [runK_succ_some exec (pruneSelfMoves whole) k' _ _ hst]
          exact hS1 d t h
        · intro h
          rw [runK_succ_some exec whole k _ r hs] at h
          rw [runK_succ_some exec (pruneSelfMoves whole) k' _ _ hst]
          exact hS2 h
    refine ⟨hA, ?_⟩
    intro pre c s hc
    rcases pruneSelfMovesAux_cases c with ⟨i, rest, hci, hsm, hp⟩ | hp
    · -- the deleted self-move: a zero-step, then lock step from `keepHead rest`
      have hst : step exec whole (c, s) = some (rest, s) := by
        rw [hci]; exact selfMove_step exec hself whole hcf pre i rest (hci ▸ hc) hsm s
      obtain ⟨pre', hp'⟩ := step_suffix exec whole pre c hc s (rest, s) hst
      obtain ⟨k', hk1, hk2, hS1, hS2⟩ := ihA pre' rest s hp'
      refine ⟨k', by omega, by omega, ?_, ?_⟩
      · intro d t h
        rw [runK_succ_some exec whole k _ _ hst] at h
        rw [hp]; exact hS1 d t h
      · intro h
        rw [runK_succ_some exec whole k _ _ hst] at h
        rw [hp]; exact hS2 h
    · obtain ⟨k', hk1, hk2, hS⟩ := hA pre c s hc
      exact ⟨k', hk1, by omega, by rw [hp]; exact hS⟩

/-- **C10 (self-moves), all executions: stuttering simulation.** Let `hself`
and `hcf` hold, `c` be a suffix of `whole` and `Rel c c'`. For every number `k`
of steps of the original function from `(c, s)` there is a number `k'` of steps
of the pruned function from `(c', s)` with `k' ≤ k ≤ 2 * k' + 1` such that

* if the original has not halted (`runK … k (c, s) = some (d, t)`), the pruned
  function has not halted either and is in the *same machine state* `t` at a
  related point `d'`;
* if the original has halted within `k` steps (`runK … = none`), the pruned
  function has halted within `k'` steps.

(`runK` forgets the state in which a run halted; `pruneSelfMoves_halts` below
states that the halting states coincide.) The bound `k ≤ 2 * k' + 1` is the
progress part: stuttering is finite -- never two zero-steps in a row -- so a
diverging original run is matched by a diverging pruned run. -/
theorem pruneSelfMoves_run (exec : XInstr → σ → σ × Bool)
    (hself : ∀ i s, isSelfMove i = true → exec i s = (s, false))
    (whole : List XNode)
    (hcf : ∀ i, XNode.instr i ∈ whole → isSelfMove i = true →
      i.cf.isTerminal = false ∧ i.cf.isBranch = false)
    (k : Nat) (pre c c' : List XNode) (s : σ) (hc : whole = pre ++ c) (hr : Rel c c') :
    ∃ k', k' ≤ k ∧ k ≤ 2 * k' + 1 ∧
      (∀ d t, runK exec whole k (c, s) = some (d, t) →
        ∃ d', Rel d d' ∧ runK exec (pruneSelfMoves whole) k' (c', s) = some (d', t)) ∧
      (runK exec whole k (c, s) = none → runK exec (pruneSelfMoves whole) k' (c', s) = none) := by
  obtain ⟨hA, hB⟩ := pruneSelfMoves_run_aux exec hself whole hcf k
  rcases hr with hr | hr
  · obtain ⟨k', h1, h2, hS⟩ := hB pre c s hc
    exact ⟨k', h1, h2, by rw [hr]; exact hS⟩
  · obtain ⟨k', h1, h2, hS⟩ := hA pre c s hc
    exact ⟨k', h1, by omega, by rw [hr]; exact hS⟩

/-- **Progress: stuttering is finite.** If the original makes `k` steps without
halting, the pruned function makes `k'` steps without halting for some `k'` with
`k ≤ 2 * k' + 1` (at least `⌊k/2⌋` steps), reaching the same state. In
particular the pruned function cannot turn a diverging run into a halting one. -/
theorem pruneSelfMoves_steps_bound (exec : XInstr → σ → σ × Bool)
    (hself : ∀ i s, isSelfMove i = true → exec i s = (s, false))
    (whole : List XNode)
    (hcf : ∀ i, XNode.instr i ∈ whole → isSelfMove i = true →
      i.cf.isTerminal = false ∧ i.cf.isBranch = false)
    (k : Nat) (pre c c' : List XNode) (s : σ) (hc : whole = pre ++ c) (hr : Rel c c')
    (d : List XNode) (t : σ) (hrun : runK exec whole k (c, s) = some (d, t)) :
    ∃ k' d', k' ≤ k ∧ k ≤ 2 * k' + 1 ∧ Rel d d' ∧
      runK exec (pruneSelfMoves whole) k' (c', s) = some (d', t) := by
  obtain ⟨k', h1, h2, hS, _⟩ := pruneSelfMoves_run exec hself whole hcf k pre c c' s hc hr
  obtain ⟨d', hd, hrun'⟩ := hS d t hrun
  exact ⟨k', d', h1, h2, hd, hrun'⟩

/-- **Halting runs end in the same state.** If the original reaches `(d, t)` in
`k` steps and halts there, the pruned function reaches a related point in the
same state `t` in `k' ≤ k` steps and halts there. -/
theorem pruneSelfMoves_halts (exec : XInstr → σ → σ × Bool)
    (hself : ∀ i s, isSelfMove i = true → exec i s = (s, false))
    (whole : List XNode)
    (hcf : ∀ i, XNode.instr i ∈ whole → isSelfMove i = true →
      i.cf.isTerminal = false ∧ i.cf.isBranch = false)
    (k : Nat) (pre c c' : List XNode) (s : σ) (hc : whole = pre ++ c) (hr : Rel c c')
    (d : List XNode) (t : σ) (hrun : runK exec whole k (c, s) = some (d, t))
    (hhalt : step exec whole (d, t) = none) :
    ∃ k' d', k' ≤ k ∧ k ≤ 2 * k' + 1 ∧ Rel d d' ∧
      runK exec (pruneSelfMoves whole) k' (c', s) = some (d', t) ∧
      step exec (pruneSelfMoves whole) (d', t) = none := by
  obtain ⟨k', d', h1, h2, hd, hrun'⟩ :=
    pruneSelfMoves_steps_bound exec hself whole hcf k pre c c' s hc hr d t hrun
  obtain ⟨pre', hp'⟩ := runK_suffix exec whole k pre c s (d, t) hc hrun
  exact ⟨k', d', h1, h2, hd, hrun',
    pruneSelfMoves_step_none exec hself whole hcf pre' d d' hp' hd t hhalt⟩

/-- **From the function entry** (`pre = []`, `Rel whole (pruneSelfMoves whole)`). -/
theorem pruneSelfMoves_run_entry (exec : XInstr → σ → σ × Bool)
    (hself : ∀ i s, isSelfMove i = true → exec i s = (s, false))
    (whole : List XNode)
    (hcf : ∀ i, XNode.instr i ∈ whole → isSelfMove i = true →
      i.cf.isTerminal = false ∧ i.cf.isBranch = false)
    (k : Nat) (s : σ) :
    ∃ k', k' ≤ k ∧ k ≤ 2 * k' + 1 ∧
      (∀ d t, runK exec whole k (whole, s) = some (d, t) →
        ∃ d', Rel d d' ∧
          runK exec (pruneSelfMoves whole) k' (pruneSelfMoves whole, s) = some (d', t)) ∧
      (runK exec whole k (whole, s) = none →
        runK exec (pruneSelfMoves whole) k' (pruneSelfMoves whole, s) = none) :=
  pruneSelfMoves_run exec hself whole hcf k [] whole (pruneSelfMoves whole) s rfl (Rel_entry whole)

/-! ## Where `hself` comes from: the register-file semantics of C10.lean -/

/-- Any instruction semantics on register files that runs the instructions the
pass deletes by `execMov` (they are well-formed register moves, and fall
through) satisfies `hself`: by `prune_selfmov_ok` such a move leaves the
register file unchanged. -/
theorem hself_of_execMov (exec : XInstr → RegFile → RegFile × Bool)
    (hmov : ∀ i a b s, isSelfMove i = true → i.ops = [.reg a, .reg b] →
      ∃ s', execMov i.opcode a b s = some s' ∧ exec i s = (s', false)) :
    ∀ i s, isSelfMove i = true → exec i s = (s, false) := by
  intro i s hs
  obtain ⟨r, hops, hid⟩ := prune_selfmov_ok i hs
  obtain ⟨s', he, hx⟩ := hmov i r r s hs hops
  rw [hx, hid s s' he]

/-! ## Non-vacuity -/

section Examples

/-- `JE L; MOVQ AX, AX; ADDQ; L: RET` -- a conditional branch over a self-move. -/
def exProg : List XNode :=
  [.instr ⟨0, ⟨true, true, false, some "L"⟩, "JE", []⟩,
   .instr ⟨1, ⟨false, false, false, none⟩, "MOVQ", [.reg ⟨256, 15⟩, .reg ⟨256, 15⟩]⟩,
   .instr ⟨2, ⟨false, false, false, none⟩, "ADDQ", []⟩,
   .label "L",
   .instr ⟨3, ⟨false, false, true, none⟩, "RET", []⟩]

/-- A machine with one counter: `JE` is taken iff the counter is zero, `ADDQ`
increments it, everything else (in particular a self-move) does nothing. -/
def exExec (i : XInstr) (s : Nat) : Nat × Bool :=
  if isSelfMove i then (s, false)
  else if i.opcode = "JE" then (s, s == 0)
  else if i.opcode = "ADDQ" then (s + 1, false)
  else (s, false)

theorem exExec_hself : ∀ i s, isSelfMove i = true → exExec i s = (s, false) := by
  intro i s h; simp [exExec, h]

theorem exProg_hcf : ∀ i, XNode.instr i ∈ exProg → isSelfMove i = true →
    i.cf.isTerminal = false ∧ i.cf.isBranch = false := by
  intro i hm hs
  simp only [exProg, List.mem_cons, XNode.instr.injEq, List.not_mem_nil, or_false, reduceCtorEq,
    false_or] at hm
  rcases hm with rfl | rfl | rfl | rfl
  · revert hs; decide
  · decide
  · revert hs; decide
  · revert hs; decide

/-- The self-move is deleted (and the node after it is kept). -/
example : pruneSelfMoves exProg =
    [.instr ⟨0, ⟨true, true, false, some "L"⟩, "JE", []⟩,
     .instr ⟨2, ⟨false, false, false, none⟩, "ADDQ", []⟩,
     .label "L",
     .instr ⟨3, ⟨false, false, true, none⟩, "RET", []⟩] := by decide

/-- The quirk: of two consecutive self-moves only the first is deleted. -/
example : pruneSelfMoves
    [.instr ⟨1, default, "MOVQ", [.reg ⟨256, 15⟩, .reg ⟨256, 15⟩]⟩,
     .instr ⟨2, default, "MOVQ", [.reg ⟨256, 15⟩, .reg ⟨256, 15⟩]⟩, .comment] =
    [.instr ⟨2, default, "MOVQ", [.reg ⟨256, 15⟩, .reg ⟨256, 15⟩]⟩, .comment] := by decide

/-- Fall-through run (counter 5): the original needs 4 steps (JE, MOVQ, ADDQ,
label) to reach `RET` with counter 6, the pruned function 3. -/
example : runK exExec exProg 4 (exProg, 5) =
    some ([.instr ⟨3, ⟨false, false, true, none⟩, "RET", []⟩], 6) := by decide
example : runK exExec (pruneSelfMoves exProg) 3 (pruneSelfMoves exProg, 5) =
    some ([.instr ⟨3, ⟨false, false, true, none⟩, "RET", []⟩], 6) := by decide

/-- Taken branch (counter 0): both jump over the self-move in one step. -/
example : runK exExec exProg 1 (exProg, 0) =
    some ([.instr ⟨3, ⟨false, false, true, none⟩, "RET", []⟩], 0) := by decide
example : runK exExec (pruneSelfMoves exProg) 1 (pruneSelfMoves exProg, 0) =
    some ([.instr ⟨3, ⟨false, false, true, none⟩, "RET", []⟩], 0) := by decide

/-- Both halt at `RET`. -/
example : runK exExec exProg 5 (exProg, 5) = none := by decide
example : runK exExec (pruneSelfMoves exProg) 4 (pruneSelfMoves exProg, 5) = none := by decide

/-- The hypotheses of the main theorem are satisfiable: it applies to the example. -/
example (k s : Nat) :
    ∃ k', k' ≤ k ∧ k ≤ 2 * k' + 1 ∧
      (∀ d t, runK exExec exProg k (exProg, s) = some (d, t) →
        ∃ d', Rel d d' ∧
          runK exExec (pruneSelfMoves exProg) k' (pruneSelfMoves exProg, s) = some (d', t)) ∧
      (runK exExec exProg k (exProg, s) = none →
        runK exExec (pruneSelfMoves exProg) k' (pruneSelfMoves exProg, s) = none) :=
  pruneSelfMoves_run_entry exExec exExec_hself exProg exProg_hcf k s

/-- `hmov` of `hself_of_execMov` is satisfiable on a real self-move: `MOVQ RAX, RAX`
is a well-formed move for `execMov`. -/
example : ∃ s', execMov "MOVQ" ⟨256, 15⟩ ⟨256, 15⟩ (fun _ _ => 7) = some s' := ⟨_, rfl⟩

end Examples

end Avo.Cleanup
