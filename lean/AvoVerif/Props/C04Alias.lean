/-
C04 — the declared read / write sets are the UNION OVER ALL ENTRIES OF THE ROW (implicit ones included) of the
registers of the operand each entry is paired with, per that entry's action — irrespective of coincidences
between entries (an explicit operand that is the implicit register of the same form, or another view of it; two
explicit operands naming one register with different actions; a memory operand addressed through a register that
is also an operand).

* `assign_positions`: the operand loop of `form.build` (`BuildRW.assign`) pairs entry `i` of the row with
  `operandAt … i` — the next implicit register or the next explicit operand, determined by the NUMBER of
  implicit / explicit entries in front of it only — and keeps the entry's action; `assign_isSome_iff`: it fails
  only when the row asks for more operands than it is given.
* `mem_specWrites_iff`, `mem_readRegs_iff`, `mem_writtenMemAddrRegs_iff`, `specReads_false`, `mem_specReads_of_read`,
  `mem_specReads_of_addr`, `specReads_sub`: the specification is that union (reads: minus the equal leading pair of
  a self-cancelling form, and only that pair).
* `declaredWrites_lanes_union`, `declaredReads_lanes_union`: the same at the level of byte lanes for the model of
  avo's algorithm (`declaredReads`/`declaredWrites`).
* `implicit_write_declared`, `implicit_read_declared`: the special case the seeded change C04-5 broke: an implicit
  entry with a write (read) action contributes its register whatever the explicit operands are.
* `acceptDecl_sound`: what the driver's `accept-decl` verdict means, entry by entry; `model_accepted`: the model of
  avo's algorithm is accepted for EVERY row, every operand list and every action assignment.
-/
import AvoVerif.Model.DeclCover
import AvoVerif.Props.C04Build
namespace Avo.BuildRW
open Avo.Reg Avo.UseDef Avo.MaskSet Avo.RW

/-! ### The operand loop, position by position -/

theorem implBefore_succ (s : Spec) (ss : List Spec) (i : Nat) :
    implBefore (s :: ss) (i + 1) = (if s.impl then 1 else 0) + implBefore ss i := by
  unfold implBefore
  rw [List.take_succ_cons, List.countP_cons]
  omega

theorem explBefore_succ (s : Spec) (ss : List Spec) (i : Nat) :
    explBefore (s :: ss) (i + 1) = (if s.impl then 0 else 1) + explBefore ss i := by
  unfold explBefore
  rw [List.take_succ_cons, List.countP_cons]
  cases s.impl <;> simp <;> omega

theorem operandAt_zero (s : Spec) (ss : List Spec) (impls ops : List Opnd) :
    operandAt (s :: ss) impls ops 0 = if s.impl then impls[0]? else ops[0]? := by
  simp [operandAt, implBefore, explBefore]

theorem operandAt_succ_impl (s : Spec) (ss : List Spec) (x : Opnd) (impls ops : List Opnd) (i : Nat)
    (h : s.impl = true) : operandAt (s :: ss) (x :: impls) ops (i + 1) = operandAt ss impls ops i := by
  unfold operandAt
  rw [List.getElem?_cons_succ]
  cases hs : ss[i]? with
  | none => rfl
  | some t =>
    simp only [implBefore_succ, explBefore_succ, h, if_true]
    rw [Nat.add_comm 1, List.getElem?_cons_succ]
    simp

theorem operandAt_succ_expl (s : Spec) (ss : List Spec) (x : Opnd) (impls ops : List Opnd) (i : Nat)
    (h : s.impl = false) : operandAt (s :: ss) impls (x :: ops) (i + 1) = operandAt ss impls ops i := by
  unfold operandAt
  rw [List.getElem?_cons_succ]
  cases hs : ss[i]? with
  | none => rfl
  | some t =>
    simp only [implBefore_succ, explBefore_succ, h]
    simp only [Bool.false_eq_true, if_false]
    rw [Nat.add_comm 1, List.getElem?_cons_succ]
    simp

/-- **The operand loop pairs entry `i` with `operandAt i` and keeps its action** — for every row, every list of
implicit registers and explicit operands; which registers they are plays no role. -/
theorem assign_positions (specs : List Spec) (impls ops : List Opnd) (a : List AOp)
    (h : assign specs impls ops = some a) :
    a.length = specs.length ∧
    ∀ i s, specs[i]? = some s →
      ∃ o, operandAt specs impls ops i = some o ∧ a[i]? = some ⟨s.action, o⟩ := by
  induction specs generalizing impls ops a with
  | nil =>
    simp only [assign, Option.some.injEq] at h
    subst h
    exact ⟨rfl, by intro i s hs; simp at hs⟩
  | cons s ss ih =>
    unfold assign at h
    by_cases hi : s.impl = true
    · rw [if_pos hi] at h
      cases impls with
      | nil => simp at h
      | cons x is =>
        simp only [Option.map_eq_some_iff] at h
        obtain ⟨t, ht, rfl⟩ := h
        obtain ⟨hl, hp⟩ := ih is ops t ht
        refine ⟨by simp [hl], ?_⟩
        intro i s' hs'
        cases i with
        | zero =>
          simp only [List.getElem?_cons_zero, Option.some.injEq] at hs'
          subst hs'
          exact ⟨x, by rw [operandAt_zero, if_pos hi]; rfl, rfl⟩
        | succ j =>
          rw [List.getElem?_cons_succ] at hs'
          obtain ⟨o, ho, ha⟩ := hp j s' hs'
          exact ⟨o, by rw [operandAt_succ_impl _ _ _ _ _ _ hi]; exact ho, by rw [List.getElem?_cons_succ]; exact ha⟩
    · have hi' : s.impl = false := by simpa using hi
      rw [if_neg hi] at h
      cases ops with
      | nil => simp at h
      | cons x os =>
        simp only [Option.map_eq_some_iff] at h
        obtain ⟨t, ht, rfl⟩ := h
        obtain ⟨hl, hp⟩ := ih impls os t ht
        refine ⟨by simp [hl], ?_⟩
        intro i s' hs'
        cases i with
        | zero =>
          simp only [List.getElem?_cons_zero, Option.some.injEq] at hs'
          subst hs'
          exact ⟨x, by rw [operandAt_zero, if_neg hi]; rfl, rfl⟩
        | succ j =>
          rw [List.getElem?_cons_succ] at hs'
          obtain ⟨o, ho, ha⟩ := hp j s' hs'
          exact ⟨o, by rw [operandAt_succ_expl _ _ _ _ _ _ hi']; exact ho, by rw [List.getElem?_cons_succ]; exact ha⟩

/-- The loop fails (the real code would index out of range) exactly when the row has more implicit entries than
implicit registers or more explicit entries than operands. -/
theorem assign_isSome_iff (specs : List Spec) (impls ops : List Opnd) :
    (assign specs impls ops).isSome = true ↔
      specs.countP (fun s => s.impl) ≤ impls.length ∧ specs.countP (fun s => !s.impl) ≤ ops.length := by
  induction specs generalizing impls ops with
  | nil => simp [assign]
  | cons s ss ih =>
    unfold assign
    by_cases hi : s.impl = true
    · rw [if_pos hi]
      cases impls with
      | nil => simp [hi]
      | cons x is =>
        simp only [Option.isSome_map, ih, List.countP_cons, hi, if_true, List.length_cons]
        simp
    · have hi' : s.impl = false := by simpa using hi
      rw [if_neg hi]
      cases ops with
      | nil => simp [hi']
      | cons x os =>
        simp only [Option.isSome_map, ih, List.countP_cons, hi', List.length_cons]
        simp

/-! ### The specification is the union over the entries -/

/-- **Writes = union over the entries with a write action** of the (widened) register operand. -/
theorem mem_specWrites_iff (a : List AOp) (r : R) :
    r ∈ specWrites a ↔ ∃ p ∈ a, p.writes = true ∧ ∃ r0 b, p.op = .reg r0 b ∧ r = widen r0 b := by
  unfold specWrites
  rw [List.mem_flatMap]
  constructor
  · rintro ⟨p, hp, hr⟩
    refine ⟨p, hp, ?_⟩
    by_cases hw : p.writes = true
    · rw [if_pos hw] at hr
      cases ho : p.op with
      | reg r0 b => rw [ho] at hr; exact ⟨hw, r0, b, rfl, by simpa using hr⟩
      | mem m => rw [ho] at hr; simp at hr
      | other => rw [ho] at hr; simp at hr
    · rw [if_neg hw] at hr; simp at hr
  · rintro ⟨p, hp, hw, r0, b, ho, rfl⟩
    exact ⟨p, hp, by rw [if_pos hw, ho]; simp⟩

/-- registers read through operands = union over the entries with a read action of the operand's registers -/
theorem mem_readRegs_iff (a : List AOp) (r : R) :
    r ∈ readRegs a ↔ ∃ p ∈ a, p.reads = true ∧ r ∈ p.op.regs := by
  unfold readRegs
  rw [List.mem_flatMap]
  constructor
  · rintro ⟨p, hp, hr⟩
    by_cases hw : p.reads = true
    · rw [if_pos hw] at hr; exact ⟨p, hp, hw, hr⟩
    · rw [if_neg hw] at hr; simp at hr
  · rintro ⟨p, hp, hw, hr⟩
    exact ⟨p, hp, by rw [if_pos hw]; exact hr⟩

/-- address registers of written memory operands = union over the entries with a write action -/
theorem mem_writtenMemAddrRegs_iff (a : List AOp) (r : R) :
    r ∈ writtenMemAddrRegs a ↔ ∃ p ∈ a, p.writes = true ∧ ∃ addr, p.op = .mem addr ∧ r ∈ addr := by
  unfold writtenMemAddrRegs
  rw [List.mem_flatMap]
  constructor
  · rintro ⟨p, hp, hr⟩
    refine ⟨p, hp, ?_⟩
    by_cases hw : p.writes = true
    · rw [if_pos hw] at hr
      cases ho : p.op with
      | reg r0 b => rw [ho] at hr; simp at hr
      | mem m => rw [ho] at hr; exact ⟨hw, m, rfl, by simpa using hr⟩
      | other => rw [ho] at hr; simp at hr
    · rw [if_neg hw] at hr; simp at hr
  · rintro ⟨p, hp, hw, addr, ho, hr⟩
    exact ⟨p, hp, by rw [if_pos hw, ho]; exact hr⟩

/-- a form that is not self-cancelling: reads = the whole union -/
theorem specReads_false (a : List AOp) : specReads false a = readRegs a ++ writtenMemAddrRegs a := by
  unfold specReads
  cases readRegs a with
  | nil => simp
  | cons x t => cases t <;> simp

/-- `==` on registers (the derived structural comparison of identity and mask) is equality -/
theorem R_beq_iff (x y : R) : (x == y) = true ↔ x = y := by
  rcases x with ⟨a, b⟩; rcases y with ⟨c, d⟩
  show (instBEqR.beq _ _) = true ↔ _
  simp [instBEqR.beq]

/-- the only registers the self-cancelling rule removes: the two leading read registers, when they are equal -/
def CancelPair (c : Bool) (a : List AOp) (r : R) : Prop :=
  c = true ∧ ∃ rest, readRegs a = r :: r :: rest

/-- **Reads ⊇ union over the entries with a read action**, except for the equal leading pair of a
self-cancelling form. -/
theorem mem_specReads_of_read (c : Bool) (a : List AOp) (r : R) (h : r ∈ readRegs a) :
    r ∈ specReads c a ∨ CancelPair c a r := by
  unfold specReads CancelPair
  cases hr : readRegs a with
  | nil => rw [hr] at h; simp at h
  | cons x t =>
    cases t with
    | nil => left; rw [hr] at h; simp at h ⊢; left; exact h
    | cons y t' =>
      rw [hr] at h
      by_cases hc : (c && x == y) = true
      · simp only [hc, if_true]
        have hxy : c = true ∧ x = y := by
          rw [Bool.and_eq_true, R_beq_iff] at hc; exact hc
        simp only [List.mem_cons] at h
        rcases h with h | h | h
        · right; exact ⟨hxy.1, t', by rw [h, hxy.2]⟩
        · right; exact ⟨hxy.1, t', by rw [h, hxy.2]⟩
        · left; simp [h]
      · left
        have : (c && x == y) = false := by simpa using hc
        simp only [this, Bool.false_eq_true, if_false]
        exact List.mem_append_left _ h

/-- **Reads ⊇ address registers of written memory operands**, always. -/
theorem mem_specReads_of_addr (c : Bool) (a : List AOp) (r : R) (h : r ∈ writtenMemAddrRegs a) :
    r ∈ specReads c a := by
  unfold specReads
  exact List.mem_append_right _ h

/-- nothing else is a read -/
theorem specReads_sub (c : Bool) (a : List AOp) (r : R) (h : r ∈ specReads c a) :
    r ∈ readRegs a ∨ r ∈ writtenMemAddrRegs a := by
  unfold specReads at h
  rw [List.mem_append] at h
  rcases h with h | h
  · left
    cases hr : readRegs a with
    | nil => rw [hr] at h; simp at h
    | cons x t =>
      cases t with
      | nil => rw [hr] at h; exact h
      | cons y t' =>
        rw [hr] at h
        by_cases hc : (c && x == y) = true
        · simp only [hc, if_true] at h
          exact List.mem_cons_of_mem _ (List.mem_cons_of_mem _ h)
        · have : (c && x == y) = false := by simpa using hc
          simp only [this, Bool.false_eq_true, if_false] at h
          exact h
  · right; exact h

/-! ### The model of avo's algorithm, lane by lane -/

/-- **Declared writes = union, lane by lane.** A byte lane is declared written by the model of
`form.build` + `OutputRegisters` + `ZeroExtend32BitOutputs` exactly when it is a lane of the (widened) register
operand of SOME entry with a write action. -/
theorem declaredWrites_lanes_union (a : List AOp) (id lane : Nat) :
    mem (ofRegs (declaredWrites a)) id lane = true ↔
      ∃ p ∈ a, p.writes = true ∧ ∃ r0 b, p.op = .reg r0 b ∧
        (widen r0 b).id = id ∧ (widen r0 b).mask.testBit lane = true := by
  rw [declaredWrites_eq_spec, mem_ofRegs, List.any_eq_true]
  constructor
  · rintro ⟨r, hr, hb⟩
    obtain ⟨p, hp, hw, r0, b, ho, rfl⟩ := (mem_specWrites_iff a r).mp hr
    have hb' := (Bool.and_eq_true _ _).mp hb
    exact ⟨p, hp, hw, r0, b, ho, by simpa using hb'.1, hb'.2⟩
  · rintro ⟨p, hp, hw, r0, b, ho, hid, hl⟩
    exact ⟨widen r0 b, (mem_specWrites_iff a _).mpr ⟨p, hp, hw, r0, b, ho, rfl⟩, by simp [hid, hl]⟩

/-- **Declared reads = union, lane by lane** (form not self-cancelling): a lane is declared read exactly when it is
a lane of a register of SOME entry with a read action, or of an address register of a written memory operand. -/
theorem declaredReads_lanes_union (a : List AOp) (rs : List R) (h : declaredReads false a = some rs)
    (id lane : Nat) :
    mem (ofRegs rs) id lane = true ↔
      ∃ p ∈ a, ((p.reads = true ∧ ∃ r ∈ p.op.regs, r.id = id ∧ r.mask.testBit lane = true) ∨
                (p.writes = true ∧ ∃ addr, p.op = .mem addr ∧ ∃ r ∈ addr, r.id = id ∧ r.mask.testBit lane = true)) := by
  rw [declaredReads_eq_spec false a rs h, specReads_false, mem_ofRegs, List.any_eq_true]
  constructor
  · rintro ⟨r, hr, hb⟩
    have hb' := (Bool.and_eq_true _ _).mp hb
    have hid : r.id = id := by simpa using hb'.1
    rw [List.mem_append] at hr
    rcases hr with hr | hr
    · obtain ⟨p, hp, hw, hm⟩ := (mem_readRegs_iff a r).mp hr
      exact ⟨p, hp, Or.inl ⟨hw, r, hm, hid, hb'.2⟩⟩
    · obtain ⟨p, hp, hw, addr, ho, hm⟩ := (mem_writtenMemAddrRegs_iff a r).mp hr
      exact ⟨p, hp, Or.inr ⟨hw, addr, ho, r, hm, hid, hb'.2⟩⟩
  · rintro ⟨p, hp, h | h⟩
    · obtain ⟨hw, r, hm, hid, hl⟩ := h
      exact ⟨r, List.mem_append_left _ ((mem_readRegs_iff a r).mpr ⟨p, hp, hw, hm⟩), by simp [hid, hl]⟩
    · obtain ⟨hw, addr, ho, r, hm, hid, hl⟩ := h
      exact ⟨r, List.mem_append_right _ ((mem_writtenMemAddrRegs_iff a r).mpr ⟨p, hp, hw, addr, ho, hm⟩),
        by simp [hid, hl]⟩

/-- all byte lanes of register `r` are in the set `s` -/
def RegIn (s : MS) (r : R) : Prop := ∀ lane, r.mask.testBit lane = true → mem s r.id lane = true

theorem regIn_ofRegs (rs : List R) (r : R) (h : r ∈ rs) : RegIn (ofRegs rs) r := by
  intro lane hl
  rw [mem_ofRegs, List.any_eq_true]
  exact ⟨r, h, by simp [hl]⟩

theorem getElem?_mem {α : Type} (l : List α) (i : Nat) (x : α) (h : l[i]? = some x) : x ∈ l := by
  rw [List.getElem?_eq_some_iff] at h
  obtain ⟨hi, rfl⟩ := h
  exact List.getElem_mem hi

/-- **An implicit register with a write action is declared written whatever the explicit operands are** — in
particular when one of them is that very register with another action (`MULQ DX`: explicit `DX` read, implicit
`RDX` written). -/
theorem implicit_write_declared (specs : List Spec) (impls ops : List Opnd) (a : List AOp)
    (h : assign specs impls ops = some a) (i : Nat) (s : Spec) (hs : specs[i]? = some s)
    (himp : s.impl = true) (hw : s.action &&& 2 = 2) (r : R) (b : Bool)
    (hr : impls[implBefore specs i]? = some (.reg r b)) :
    RegIn (ofRegs (declaredWrites a)) (widen r b) := by
  obtain ⟨_, hp⟩ := assign_positions specs impls ops a h
  obtain ⟨o, ho, ha⟩ := hp i s hs
  have : o = .reg r b := by
    unfold operandAt at ho
    rw [hs] at ho
    simp only [himp, if_true] at ho
    rw [hr] at ho
    exact (Option.some.inj ho).symm
  subst this
  rw [declaredWrites_eq_spec]
  apply regIn_ofRegs
  rw [mem_specWrites_iff]
  exact ⟨_, getElem?_mem _ _ _ ha, by simp [AOp.writes, hw], r, b, rfl, rfl⟩

/-- **An implicit register with a read action is declared read whatever the explicit operands are** — unless it
is one of the equal leading pair of a self-cancelling form (`MULXQ BX, CX, DX`: implicit `RDX` read, explicit
`DX` written). -/
theorem implicit_read_declared (c : Bool) (specs : List Spec) (impls ops : List Opnd) (a : List AOp) (rs : List R)
    (h : assign specs impls ops = some a) (hd : declaredReads c a = some rs)
    (i : Nat) (s : Spec) (hs : specs[i]? = some s)
    (himp : s.impl = true) (hw : s.action &&& 1 = 1) (r : R) (b : Bool)
    (hr : impls[implBefore specs i]? = some (.reg r b)) :
    RegIn (ofRegs rs) r ∨ CancelPair c a r := by
  obtain ⟨_, hp⟩ := assign_positions specs impls ops a h
  obtain ⟨o, ho, ha⟩ := hp i s hs
  have : o = .reg r b := by
    unfold operandAt at ho
    rw [hs] at ho
    simp only [himp, if_true] at ho
    rw [hr] at ho
    exact (Option.some.inj ho).symm
  subst this
  rw [declaredReads_eq_spec c a rs hd]
  have hm : r ∈ readRegs a := by
    rw [mem_readRegs_iff]
    exact ⟨_, getElem?_mem _ _ _ ha, by simp [AOp.reads, hw], by simp [Opnd.regs]⟩
  rcases mem_specReads_of_read c a r hm with h1 | h2
  · left; exact regIn_ofRegs _ _ h1
  · right; exact h2

/-! ### The acceptor -/

/-- What `accept-decl` states about the sets the implementation reports for a row (entries `specs`) instantiated
with implicit registers `impls` and explicit operands `ops`: entry by entry — explicit or implicit alike —
* a written register operand is declared written (32-bit general purpose registers as the 64-bit register),
* every register of a read operand (a register, or the address registers of a memory operand) is declared read,
  unless it is one of the equal leading pair of a self-cancelling form,
* the address registers of a written memory operand are declared read. -/
def EntriesCovered (c : Bool) (specs : List Spec) (impls ops : List Opnd) (declR declW : MS) : Prop :=
  ∃ a, assign specs impls ops = some a ∧
    ∀ i s, specs[i]? = some s → ∃ o, operandAt specs impls ops i = some o ∧
      (s.action &&& 2 = 2 → ∀ r b, o = .reg r b → RegIn declW (widen r b)) ∧
      (s.action &&& 1 = 1 → ∀ r ∈ o.regs, RegIn declR r ∨ CancelPair c a r) ∧
      (s.action &&& 2 = 2 → ∀ addr, o = .mem addr → ∀ r ∈ addr, RegIn declR r)

theorem regIn_of_covers (decl : MS) (rs : List R) (h : covers decl (ofRegs rs) = true) (r : R) (hr : r ∈ rs) :
    RegIn decl r := by
  intro lane hl
  exact (covers_sound _ _).mp h r.id lane (regIn_ofRegs rs r hr lane hl)

/-- **Soundness of `accept-decl`.** -/
theorem acceptDecl_sound (c : Bool) (specs : List Spec) (impls ops : List Opnd) (declR declW : MS)
    (h : acceptDecl c specs impls ops declR declW = true) : EntriesCovered c specs impls ops declR declW := by
  unfold acceptDecl at h
  cases ha : assign specs impls ops with
  | none => rw [ha] at h; simp at h
  | some a =>
    rw [ha] at h
    simp only [Bool.and_eq_true] at h
    obtain ⟨hR, hW⟩ := h
    obtain ⟨_, hp⟩ := assign_positions specs impls ops a ha
    refine ⟨a, ha, ?_⟩
    intro i s hs
    obtain ⟨o, ho, hai⟩ := hp i s hs
    have hmem := getElem?_mem _ _ _ hai
    refine ⟨o, ho, ?_, ?_, ?_⟩
    · intro hw r b hor
      apply regIn_of_covers declW _ hW
      rw [mem_specWrites_iff]
      exact ⟨_, hmem, by simp [AOp.writes, hw], r, b, hor, rfl⟩
    · intro hrd r hr
      have hm : r ∈ readRegs a := by
        rw [mem_readRegs_iff]
        exact ⟨_, hmem, by simp [AOp.reads, hrd], hr⟩
      rcases mem_specReads_of_read c a r hm with h1 | h2
      · left; exact regIn_of_covers declR _ hR r h1
      · right; exact h2
    · intro hw addr hor r hr
      apply regIn_of_covers declR _ hR
      apply mem_specReads_of_addr
      rw [mem_writtenMemAddrRegs_iff]
      exact ⟨_, hmem, by simp [AOp.writes, hw], addr, hor, hr⟩

theorem covers_refl (s : MS) : covers s s = true := (covers_sound s s).mpr (fun _ _ h => h)

/-- **The model of avo's algorithm is accepted for every row, every operand list and every action assignment**:
whenever the operand loop and `InputRegisters` do not panic, the sets they yield cover every entry. -/
theorem model_accepted (c : Bool) (specs : List Spec) (impls ops : List Opnd) (a : List AOp) (rs : List R)
    (h : assign specs impls ops = some a) (hd : declaredReads c a = some rs) :
    acceptDecl c specs impls ops (ofRegs rs) (ofRegs (declaredWrites a)) = true := by
  unfold acceptDecl
  rw [h, declaredReads_eq_spec c a rs hd, declaredWrites_eq_spec]
  simp [covers_refl]

/-- the report names a lane exactly when the verdict is negative (given enough operands) -/
theorem declMissing_nil_iff (c : Bool) (specs : List Spec) (impls ops : List Opnd) (declR declW : MS) (a : List AOp)
    (h : assign specs impls ops = some a) :
    declMissing c specs impls ops declR declW = ([], []) ↔ acceptDecl c specs impls ops declR declW = true := by
  unfold declMissing acceptDecl
  rw [h]
  simp only [Prod.mk.injEq, undeclared_nil_iff, Bool.and_eq_true]

/-! ### Non-vacuity: the aliasing instances themselves -/

def rRAX : R := ⟨256, 15⟩
def rRCX : R := ⟨65792, 15⟩
def rRDX : R := ⟨131328, 15⟩
def rRBX : R := ⟨196864, 15⟩

/-- the row of `MULQ r64`: explicit `r64` read, implicit `RAX` read+written, implicit `RDX` written -/
def mulqRow : List Spec := [⟨1, false⟩, ⟨3, true⟩, ⟨2, true⟩]
def mulqImpl : List Opnd := [.reg rRAX false, .reg rRDX false]
/-- the row of `MULXQ r64, r64, r64`: read, written, written, implicit `RDX` read -/
def mulxqRow : List Spec := [⟨1, false⟩, ⟨2, false⟩, ⟨2, false⟩, ⟨1, true⟩]

/-- `MULQ DX`: the explicit operand IS the implicit output register; RDX is declared read and written. -/
example : (assign mulqRow mulqImpl [.reg rRDX false]).map declaredWrites = some [rRAX, rRDX] := by decide
example : (assign mulqRow mulqImpl [.reg rRDX false]).bind (declaredReads false) = some [rRDX, rRAX] := by decide
/-- `MULXQ BX, CX, DX`: the implicit input RDX is also an explicit output; it stays a declared read. -/
example : (assign mulxqRow [.reg rRDX false] [.reg rRBX false, .reg rRCX false, .reg rRDX false]).bind
    (declaredReads false) = some [rRBX, rRDX] := by decide
/-- what the seeded change C04-5 reports for `MULQ DX` (writes `[AX]`) is rejected, the real sets are accepted -/
example : acceptDecl false mulqRow mulqImpl [.reg rRDX false] [(131328, 15), (256, 15)] [(256, 15)] = false := by decide
example : declMissing false mulqRow mulqImpl [.reg rRDX false] [(131328, 15), (256, 15)] [(256, 15)]
    = ([], [(131328, 15)]) := by decide
example : acceptDecl false mulqRow mulqImpl [.reg rRDX false] [(131328, 15), (256, 15)] [(256, 15), (131328, 15)] = true := by
  decide
/-- … and for `MULXQ BX, CX, DX` (reads `[BX]`) -/
example : acceptDecl false mulxqRow [.reg rRDX false] [.reg rRBX false, .reg rRCX false, .reg rRDX false]
    [(196864, 15)] [(65792, 15), (131328, 15)] = false := by decide
/-- another VIEW of the implicit register: `MULB AH` (row `r8` read, implicit `AX` written, implicit `AL` read) -/
example : (assign [⟨1, false⟩, ⟨2, true⟩, ⟨1, true⟩] [.reg ⟨256, 3⟩ false, .reg ⟨256, 1⟩ false] [.reg ⟨256, 2⟩ false]).bind
    (declaredReads false) = some [⟨256, 2⟩, ⟨256, 1⟩] := by decide
/-- a memory operand addressed through the implicit register: `MULQ (DX)` reads RDX (address) and writes it -/
example : (assign mulqRow mulqImpl [.mem [rRDX]]).bind (declaredReads false) = some [rRDX, rRAX] := by decide
/-- hypotheses of `implicit_write_declared` are satisfiable: entry 2 of the `MULQ` row -/
example : ∃ a, assign mulqRow mulqImpl [.reg rRDX false] = some a ∧ mulqRow[2]? = some ⟨2, true⟩ ∧
    mulqImpl[implBefore mulqRow 2]? = some (.reg rRDX false) := ⟨_, rfl, rfl, by decide⟩
/-- the self-cancelling exemption is only the equal leading pair: `XORQ AX, AX` reads nothing, `XORB AH, AL` both -/
example : CancelPair true [⟨1, .reg rRAX false⟩, ⟨3, .reg rRAX false⟩] rRAX := ⟨rfl, [], rfl⟩
example : acceptDecl true [⟨1, false⟩, ⟨3, false⟩] [] [.reg rRAX false, .reg rRAX false] [] [(256, 15)] = true := by decide
example : acceptDecl true [⟨1, false⟩, ⟨3, false⟩] [] [.reg ⟨256, 2⟩ false, .reg ⟨256, 1⟩ false] [] [(256, 1)] = false := by decide
/-- too few operands: no verdict `ok` -/
example : acceptDecl false mulqRow [] [.reg rRDX false] [] [] = false := by decide

end Avo.BuildRW
