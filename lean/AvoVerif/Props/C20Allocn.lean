/-
C20 — `reg.Allocation` on PARTIAL allocations (Model/RegAllocn.lean).

A virtual register that has no entry in the allocation is not resolved at all:
`LookupRegister` is nil and `LookupRegisterDefault` / `operand.ApplyAllocation` /
`BindRegisters` leave it virtual.  It is never turned into the physical register
that happens to have the same kind and index NUMBER (virtual GP 0 is not AX,
virtual GP 4 is not SP, virtual vector 3 is not X3): "different registers never
share an identity".

* `lookupRegister_virtual_unallocated`, `lookupRegisterDefault_virtual_unallocated`
      for ALL tables, allocations, ids, masks;
* `lookupRegister_virtual_target`   an entry that is itself a virtual id resolves to nothing;
* `lookupRegister_identity`         a result IS the register the entry names, with the mask asked for;
* `alloc_lookup_ok`                 the model satisfies `AllocLookupOK` (the statement the driver
                                    evaluates on the implementation's outputs, `accept-alookup`) for
                                    every virtual register and every allocation whose entry for it is
                                    absent, a virtual id, or the id of a physical register of the table;
* `alloc_lookup_phys_by_number_rejected`  what is excluded: virtual GP 4 without an entry answered
                                    with SP.
`Merge` is compared exactly with `Allocn.mergeOK` (no theorem beyond the model).
-/
import AvoVerif.Props.C20
import AvoVerif.Model.RegAllocn
namespace Avo.Reg

/-- **A virtual register without an entry stays unresolved**, whatever else the
allocation contains (empty, partial, entries for registers with the same index
number in this or another kind …). -/
theorem lookupRegister_virtual_unallocated (tbl : List RegRow) (a : Allocn) (id mask : Nat)
    (hv : idIsVirtual id = true) (hn : a.lookup id = none) :
    a.lookupRegister tbl id mask = none := by
  unfold Allocn.lookupRegister; rw [hv, hn]; rfl

theorem lookupRegisterDefault_virtual_unallocated (tbl : List RegRow) (a : Allocn) (id mask : Nat)
    (hv : idIsVirtual id = true) (hn : a.lookup id = none) :
    a.lookupRegisterDefault tbl id mask = (id, mask) ∧ a.lookupDefault id = id := by
  unfold Allocn.lookupRegisterDefault Allocn.lookupDefault
  rw [lookupRegister_virtual_unallocated tbl a id mask hv hn, hn]; exact ⟨rfl, rfl⟩

/-- An entry that is a virtual id resolves to nothing. -/
theorem lookupRegister_virtual_target (tbl : List RegRow) (a : Allocn) (id mask t : Nat)
    (hv : idIsVirtual id = true) (he : a.lookup id = some t) (ht : idIsVirtual t = true) :
    a.lookupRegister tbl id mask = none := by
  unfold Allocn.lookupRegister lookupID; rw [hv, he]; simp [ht]

/-- **Identity.**  Whatever `LookupRegister` returns for a virtual register IS
the register its entry names (same id), with the mask of the virtual register. -/
theorem lookupRegister_identity (a : Allocn) (id mask k i : Nat) (hk : k < 256) (hi : i < 65536)
    (hv : idIsVirtual id = true) (he : a.lookup id = some (newid 0 k i)) {p : RegRow}
    (h : a.lookupRegister Gen.regs id mask = some p) :
    p ∈ Gen.regs ∧ p.id = newid 0 k i ∧ p.mask = mask := by
  unfold Allocn.lookupRegister at h; rw [hv, he] at h
  obtain ⟨hm, h1, h2, _⟩ := lookupID_sound k i mask hk hi h
  exact ⟨hm, h1, h2⟩

/-- The model satisfies the acceptor's statement: no entry. -/
theorem alloc_lookup_ok_none (a : Allocn) (id mask : Nat) (hv : idIsVirtual id = true) (hn : a.lookup id = none) :
    AllocLookupOK id mask none ((a.lookupRegister Gen.regs id mask).map fun p => (p.id, p.mask, p.size))
      (a.lookupRegisterDefault Gen.regs id mask) := by
  rw [(lookupRegisterDefault_virtual_unallocated Gen.regs a id mask hv hn).1,
    lookupRegister_virtual_unallocated Gen.regs a id mask hv hn]
  unfold AllocLookupOK; simp [hv]

/-- … an entry naming a physical register `r` of the table. -/
theorem alloc_lookup_ok_phys (a : Allocn) (id mask : Nat) {r : RegRow} (hr : r ∈ Gen.regs) (hp : physical r)
    (hv : idIsVirtual id = true) (he : a.lookup id = some r.id) :
    AllocLookupOK id mask (some r.id) ((a.lookupRegister Gen.regs id mask).map fun p => (p.id, p.mask, p.size))
      (a.lookupRegisterDefault Gen.regs id mask) := by
  obtain ⟨hk, hi, hid⟩ := ids_wellformed r hr
  have hx := reg_views_exact hr hp mask
  have hvr : idIsVirtual r.id = false := by rw [hid, idIsVirtual_newid 0 _ _ (by omega)]; rfl
  have hkk : idKind r.id = r.kind := by rw [hid]; exact idKind_newid 0 _ _ hk
  have hii : idIndex r.id = r.idx := by rw [hid]; exact idIndex_newid 0 _ _ hi
  have hl : a.lookupRegister Gen.regs id mask = lookupID Gen.regs r.id mask := by
    unfold Allocn.lookupRegister; rw [hv, he]; rfl
  unfold Allocn.lookupRegisterDefault
  rw [hl]
  unfold AllocLookupOK
  cases hres : lookupID Gen.regs r.id mask with
  | none =>
    rw [hres] at hx
    simp only [hv, ↓reduceIte, Option.map_none, hkk, hii]
    exact ⟨Or.inr (by simpa using hx.symm), trivial⟩
  | some p =>
    rw [hres] at hx
    obtain ⟨_, h1, h2, h3⟩ := reg_views hr mask hres
    simp only [hv, ↓reduceIte, Option.map_some, hkk, hii]
    exact ⟨⟨hvr, by simpa using hx.symm, h1, h2, h3⟩, trivial⟩

/-- … an entry that is a virtual id. -/
theorem alloc_lookup_ok_virtual (a : Allocn) (id mask t : Nat) (hv : idIsVirtual id = true)
    (he : a.lookup id = some t) (ht : idIsVirtual t = true) :
    AllocLookupOK id mask (some t) ((a.lookupRegister Gen.regs id mask).map fun p => (p.id, p.mask, p.size))
      (a.lookupRegisterDefault Gen.regs id mask) := by
  unfold Allocn.lookupRegisterDefault
  rw [lookupRegister_virtual_target Gen.regs a id mask t hv he ht]
  unfold AllocLookupOK; simp [hv, ht]

/-- What the statement excludes: virtual GP register 4 (id 262401) with NO entry
answered with the 64-bit view of the stack pointer (id 262400), or virtual GP 0
with AX — and the right answers are accepted. -/
theorem alloc_lookup_phys_by_number_rejected :
    ¬ AllocLookupOK 262401 S64 none (some (262400, S64, 8)) (262400, S64) ∧
    ¬ AllocLookupOK 257 S64 none (some (256, S64, 8)) (256, S64) ∧
    AllocLookupOK 262401 S64 none none (262401, S64) ∧
    AllocLookupOK 262401 S32 (some 256) (some (256, S32, 4)) (256, S32) ∧
    ¬ AllocLookupOK 262401 S32 (some 256) (some (262400, S32, 4)) (262400, S32) := by decide

-- non-vacuity of the model: a partial allocation {virtual GP 1 -> CX}; virtual GP 0 and 4 have no entry
example : Allocn.lookupRegister Gen.regs [(65793, 65792)] 257 S64 = none ∧
    Allocn.lookupRegister Gen.regs [(65793, 65792)] 262401 S64 = none ∧
    (Allocn.lookupRegister Gen.regs [(65793, 65792)] 65793 S32).map (fun p => (p.name, p.id, p.size)) = some ("CX", 65792, 4) ∧
    Allocn.lookupRegisterDefault Gen.regs [(65793, 65792)] 262401 S64 = (262401, S64) := by decide +kernel
example : Allocn.mergeOK [(257, 256)] [(257, 256), (65793, 65792)] = true ∧ Allocn.mergeOK [(257, 256)] [(257, 65792)] = false := by decide

section
open Avo.Drv.C20
theorem acceptAllocLookup_sound {id mask : Nat} {entry : Option Nat} {res : Option (Nat × Nat × Nat)} {rd : Nat × Nat}
    (h : acceptAllocLookup id mask entry res rd = "ok") : AllocLookupOK id mask entry res rd :=
  verdict_sound (by decide) h
end

end Avo.Reg
