/-
C17 — Generation is deterministic: the steps of the models that correspond to
Go map iterations give results that do not depend on the iteration order.
-/
import AvoVerif.Lemmas.MaskSet
import AvoVerif.Model.Alloc
import AvoVerif.Lemmas.AllocPerm
import AvoVerif.Lemmas.AllocProof2
import AvoVerif.Model.ISA
namespace Avo.Determinism
open Avo.Reg Avo.MaskSet Avo.Alloc

/-! ## reg/set.go: every `range` over a MaskSet -/

/-- The content of a mask set does not depend on the order of its entries. -/
theorem get_perm {s s' : MS} (h : s.Perm s') (id : Nat) : MaskSet.get s id = MaskSet.get s' id := by
  induction h with
  | nil => rfl
  | cons x _ ih => rcases x with ⟨k, v⟩; simp only [MaskSet.get, ih]
  | swap x y l =>
    rcases x with ⟨k, v⟩; rcases y with ⟨k', v'⟩
    simp only [MaskSet.get]
    by_cases h1 : k = id <;> by_cases h2 : k' = id <;> simp [h1, h2]
    · rw [← Nat.or_assoc, Nat.or_comm v' v, Nat.or_assoc]
  | trans _ _ ih1 ih2 => rw [ih1, ih2]

theorem mem_perm {s s' : MS} (h : s.Perm s') (id lane : Nat) : mem s id lane = mem s' id lane := by
  unfold mem; rw [get_perm h]

/-- `MaskSet.Update` (and `Clone`): the resulting set is the same whatever order
the map `t` is iterated in. -/
theorem update_perm (s : MS) {t t' : MS} (h : t.Perm t') (id lane : Nat) :
    mem (update s t).1 id lane = mem (update s t').1 id lane := by
  rw [mem_update, mem_update, mem_perm h]

/-- … and so is its "changed" flag. -/
theorem update_flag_iff (s t : MS) :
    (update s t).2 = false ↔ ∀ p ∈ t, MaskSet.get s p.1 &&& p.2 = p.2 := by
  induction t generalizing s with
  | nil => simp [update]
  | cons p t ih =>
    rcases p with ⟨k, v⟩
    simp only [update, Bool.or_eq_false_iff, List.mem_cons, forall_eq_or_imp]
    constructor
    · rintro ⟨h1, h2⟩
      have hs := add_unchanged s k v h1
      rw [hs] at h2
      exact ⟨(add_flag s k v).mp h1, (ih s).mp h2⟩
    · rintro ⟨h1, h2⟩
      have hf := (add_flag s k v).mpr h1
      have hs := add_unchanged s k v hf
      refine ⟨hf, ?_⟩
      rw [hs]; exact (ih s).mpr h2

theorem update_flag_perm (s : MS) {t t' : MS} (h : t.Perm t') : (update s t).2 = (update s t').2 := by
  have h1 := update_flag_iff s t
  have h2 := update_flag_iff s t'
  have : (∀ p ∈ t, MaskSet.get s p.1 &&& p.2 = p.2) ↔ (∀ p ∈ t', MaskSet.get s p.1 &&& p.2 = p.2) :=
    ⟨fun hh p hp => hh p (h.mem_iff.mpr hp), fun hh p hp => hh p (h.mem_iff.mp hp)⟩
  have hiff : (update s t).2 = false ↔ (update s t').2 = false := by rw [h1, h2]; exact this
  cases ha : (update s t).2 with
  | false => exact (hiff.mp ha).symm
  | true =>
    cases hb : (update s t').2 with
    | true => rfl
    | false => rw [hiff.mpr hb] at ha; cases ha

/-- `MaskSet.DifferenceUpdate`. -/
theorem difference_perm (s : MS) {t t' : MS} (h : t.Perm t') (id lane : Nat) :
    mem (difference s t) id lane = mem (difference s t') id lane := by
  rw [mem_difference, mem_difference, mem_perm h]

/-- `MaskSet.OfKind`: filtering commutes with reordering. -/
theorem ofKind_perm {s s' : MS} (h : s.Perm s') (k id lane : Nat) :
    mem (ofKind s k) id lane = mem (ofKind s' k) id lane :=
  mem_perm (h.filter _) id lane

/-! ## pass/alloc.go `NewAllocator`: `range idset` then `sortregisters` -/

variable (prio : Nat → Int)

theorem regBefore_irrefl (a : Nat) : regBefore prio a a = false := by unfold regBefore; simp

theorem regBefore_total (a b : Nat) (h : a ≠ b) : regBefore prio a b = true ∨ regBefore prio b a = true := by
  unfold regBefore
  rcases Int.lt_trichotomy (prio a) (prio b) with h1 | h1 | h1
  · right; simp [h1]
  · have : a < b ∨ b < a := by omega
    rcases this with h2 | h2
    · left; simp [h1, h2]
    · right; simp [h1, h2]
  · left; simp [h1]

theorem regBefore_trans (a b c : Nat) (h1 : regBefore prio a b = true) (h2 : regBefore prio b c = true) :
    regBefore prio a c = true := by
  unfold regBefore at *
  simp only [Bool.or_eq_true, decide_eq_true_eq, Bool.and_eq_true, beq_iff_eq] at *
  rcases h1 with h1 | ⟨h1, h1'⟩ <;> rcases h2 with h2 | ⟨h2, h2'⟩
  · left; omega
  · left; omega
  · left; omega
  · right; exact ⟨by omega, by omega⟩

theorem regBefore_asymm (a b : Nat) (h1 : regBefore prio a b = true) : regBefore prio b a = false := by
  unfold regBefore at *
  simp only [Bool.or_eq_true, decide_eq_true_eq, Bool.and_eq_true, beq_iff_eq] at h1
  apply Bool.eq_false_iff.mpr
  intro h2
  simp only [Bool.or_eq_true, decide_eq_true_eq, Bool.and_eq_true, beq_iff_eq] at h2
  rcases h1 with h1 | ⟨h1, h1'⟩ <;> rcases h2 with h2 | ⟨h2, h2'⟩ <;> omega

def Sorted (l : List Nat) : Prop := l.Pairwise (fun a b => regBefore prio a b = true)

theorem insertReg_perm (x : Nat) (l : List Nat) : (insertReg prio x l).Perm (x :: l) := by
  induction l with
  | nil => simp [insertReg]
  | cons y ys ih =>
    simp only [insertReg]
    by_cases h : regBefore prio x y = true
    · rw [if_pos h]
    · rw [if_neg h]
      exact (List.Perm.cons y ih).trans (List.Perm.swap x y ys)

theorem insertReg_sorted (x : Nat) (l : List Nat) (hx : x ∉ l) (hs : Sorted prio l) : Sorted prio (insertReg prio x l) := by
  induction l with
  | nil => simp [insertReg, Sorted]
  | cons y ys ih =>
    simp only [insertReg]
    unfold Sorted at hs ⊢
    rw [List.pairwise_cons] at hs
    by_cases h : regBefore prio x y = true
    · rw [if_pos h]
      rw [List.pairwise_cons]
      refine ⟨?_, List.pairwise_cons.mpr hs⟩
      intro z hz
      rcases List.mem_cons.mp hz with rfl | hz
      · exact h
      · exact regBefore_trans prio x y z h (hs.1 z hz)
    · rw [if_neg h]
      rw [List.pairwise_cons]
      have hxy : x ≠ y := fun e => hx (e ▸ List.mem_cons_self)
      have hyx : regBefore prio y x = true := by
        rcases regBefore_total prio x y hxy with h' | h'
        · exact absurd h' h
        · exact h'
      refine ⟨?_, ih (fun hm => hx (List.mem_cons_of_mem _ hm)) hs.2⟩
      intro z hz
      rcases List.mem_cons.mp ((insertReg_perm prio x ys).mem_iff.mp hz) with rfl | hz
      · exact hyx
      · exact hs.1 z hz

theorem sortRegs_perm_self (l : List Nat) : (sortRegs prio l).Perm l := by
  induction l with
  | nil => simp [sortRegs]
  | cons x xs ih =>
    simp only [sortRegs, List.foldr_cons]
    exact (insertReg_perm prio x _).trans (List.Perm.cons x ih)

theorem sortRegs_sorted (l : List Nat) (hn : l.Nodup) : Sorted prio (sortRegs prio l) := by
  induction l with
  | nil => simp [sortRegs, Sorted]
  | cons x xs ih =>
    simp only [sortRegs, List.foldr_cons]
    rw [List.nodup_cons] at hn
    apply insertReg_sorted prio x _ _ (ih hn.2)
    intro hm
    exact hn.1 ((sortRegs_perm_self prio xs).mem_iff.mp hm)

/-- Two sorted lists with the same elements are equal. -/
theorem sorted_perm_eq : ∀ (l1 l2 : List Nat), Sorted prio l1 → Sorted prio l2 → l1.Perm l2 → l1 = l2
  | [], l2, _, _, h => by simpa using h.symm.eq_nil
  | a :: l1, [], _, _, h => by simpa using h.eq_nil
  | a :: l1, b :: l2, h1, h2, h => by
    unfold Sorted at h1 h2
    rw [List.pairwise_cons] at h1 h2
    have hab : a = b := by
      have ha : a ∈ b :: l2 := h.mem_iff.mp List.mem_cons_self
      have hb : b ∈ a :: l1 := h.mem_iff.mpr List.mem_cons_self
      rcases List.mem_cons.mp ha with e | ha'
      · exact e
      · rcases List.mem_cons.mp hb with e | hb'
        · exact e.symm
        · have x := h2.1 a ha'
          have y := h1.1 b hb'
          rw [regBefore_asymm prio b a x] at y
          cases y
    subst hab
    have ht : l1.Perm l2 := List.Perm.cons_inv h
    rw [sorted_perm_eq l1 l2 h1.2 h2.2 ht]

/-- `NewAllocator`: the sorted candidate list does not depend on the order in
which the id set is iterated. -/
theorem sortRegs_perm {l l' : List Nat} (hn : l.Nodup) (h : l.Perm l') : sortRegs prio l = sortRegs prio l' := by
  apply sorted_perm_eq prio _ _ (sortRegs_sorted prio l hn) (sortRegs_sorted prio l' (h.nodup_iff.mp hn))
  exact (sortRegs_perm_self prio l).trans (h.trans (sortRegs_perm_self prio l').symm)

/-! ## pass/alloc.go `mostrestricted`: `range a.possible` -/

def entryBefore (e b : Nat × List Nat) : Bool :=
  e.2.length < b.2.length || (e.2.length == b.2.length && e.1 < b.1)

theorem mostRestricted_none (l : List (Nat × List Nat)) : mostRestricted l = none ↔ l = [] := by
  cases l with
  | nil => simp [mostRestricted]
  | cons e es =>
    simp only [mostRestricted]
    cases h : mostRestricted es with
    | none => simp
    | some b =>
      simp only [reduceCtorEq, iff_false]
      split <;> simp

/-- The chosen entry is in the map and no other entry beats it. -/
theorem mostRestricted_min : ∀ (l : List (Nat × List Nat)) (m : Nat × List Nat), mostRestricted l = some m →
    m ∈ l ∧ ∀ e ∈ l, entryBefore e m = false ∨ e = m
  | [], m, h => by simp [mostRestricted] at h
  | e :: es, m, h => by
    simp only [mostRestricted] at h
    cases hr : mostRestricted es with
    | none =>
      simp only [hr] at h; cases h
      have : es = [] := (mostRestricted_none es).mp hr
      subst this
      exact ⟨List.mem_cons_self, by intro e' he'; right; simpa using he'⟩
    | some b =>
      simp only [hr] at h
      obtain ⟨hb, hmin⟩ := mostRestricted_min es b hr
      by_cases hc : (e.2.length < b.2.length || (e.2.length == b.2.length && e.1 < b.1)) = true
      · rw [if_pos hc] at h; cases h
        refine ⟨List.mem_cons_self, ?_⟩
        intro e' he'
        rcases List.mem_cons.mp he' with rfl | he'
        · right; rfl
        · left
          rcases hmin e' he' with hlt | rfl
          · unfold entryBefore at hlt ⊢
            simp only [Bool.or_eq_true, decide_eq_true_eq, Bool.and_eq_true, beq_iff_eq] at hc
            apply Bool.eq_false_iff.mpr
            intro h2
            apply Bool.eq_false_iff.mp hlt
            simp only [Bool.or_eq_true, decide_eq_true_eq, Bool.and_eq_true, beq_iff_eq] at h2 ⊢
            rcases hc with hc | ⟨hc, hc'⟩ <;> rcases h2 with h2 | ⟨h2, h2'⟩ <;> first | (left; omega) | (right; constructor <;> omega)
          · unfold entryBefore
            simp only [Bool.or_eq_true, decide_eq_true_eq, Bool.and_eq_true, beq_iff_eq] at hc
            apply Bool.eq_false_iff.mpr
            intro h2
            simp only [Bool.or_eq_true, decide_eq_true_eq, Bool.and_eq_true, beq_iff_eq] at h2
            rcases hc with hc | ⟨hc, hc'⟩ <;> rcases h2 with h2 | ⟨h2, h2'⟩ <;> omega
      · rw [if_neg hc] at h; cases h
        refine ⟨List.mem_cons_of_mem _ hb, ?_⟩
        intro e' he'
        rcases List.mem_cons.mp he' with rfl | he'
        · left; unfold entryBefore; simpa using hc
        · exact hmin e' he'

theorem eq_of_key_eq {l : List (Nat × List Nat)} (hk : (l.map (·.1)).Nodup) {a b : Nat × List Nat}
    (ha : a ∈ l) (hb : b ∈ l) (h : a.1 = b.1) : a = b := by
  induction l with
  | nil => cases ha
  | cons x xs ih =>
    simp only [List.map_cons, List.nodup_cons, List.mem_map, not_exists, not_and] at hk
    rcases List.mem_cons.mp ha with rfl | ha' <;> rcases List.mem_cons.mp hb with rfl | hb'
    · rfl
    · exact absurd h.symm (hk.1 b hb')
    · exact absurd h (hk.1 a ha')
    · exact ih hk.2 ha' hb'

/-- `mostrestricted`: with distinct keys (a Go map) the choice does not depend on
the iteration order. -/
theorem mostRestricted_perm {l l' : List (Nat × List Nat)} (hk : (l.map (·.1)).Nodup) (h : l.Perm l') :
    mostRestricted l = mostRestricted l' := by
  cases h1 : mostRestricted l with
  | none =>
    have := (mostRestricted_none l).mp h1; subst this
    have : l' = [] := by simpa using h.symm.eq_nil
    subst this; rfl
  | some m =>
    cases h2 : mostRestricted l' with
    | none =>
      have := (mostRestricted_none l').mp h2; subst this
      have : l = [] := by simpa using h.eq_nil
      subst this; simp [mostRestricted] at h1
    | some m' =>
      obtain ⟨hm, hmin⟩ := mostRestricted_min l m h1
      obtain ⟨hm', hmin'⟩ := mostRestricted_min l' m' h2
      have a := hmin m' (h.mem_iff.mpr hm')
      have b := hmin' m (h.mem_iff.mp hm)
      rcases a with a | a
      · rcases b with b | b
        · -- neither beats the other: same length, same key; keys are distinct
          unfold entryBefore at a b
          have a' : ¬ (m'.2.length < m.2.length ∨ (m'.2.length = m.2.length ∧ m'.1 < m.1)) := by
            intro hh; apply Bool.eq_false_iff.mp a
            simpa [Bool.or_eq_true, decide_eq_true_eq, Bool.and_eq_true, beq_iff_eq] using hh
          have b' : ¬ (m.2.length < m'.2.length ∨ (m.2.length = m'.2.length ∧ m.1 < m'.1)) := by
            intro hh; apply Bool.eq_false_iff.mp b
            simpa [Bool.or_eq_true, decide_eq_true_eq, Bool.and_eq_true, beq_iff_eq] using hh
          have hlen : m.2.length = m'.2.length := by omega
          have hkey : m.1 = m'.1 := by omega
          have := eq_of_key_eq hk hm (h.mem_iff.mpr hm') hkey
          rw [this]
        · rw [b]
      · rw [a]

/-! ## pass/alloc.go `AddInterferenceSet` / `update` / `Allocate`: the edge list and the `possible` map -/

/-- Allocator states that differ only in the order of the edge list and of the
entries of the `possible` map. -/
def StEqv (s t : AState) : Prop :=
  s.allocation = t.allocation ∧ s.possible.Perm t.possible ∧ s.edges.Perm t.edges

theorem keys_perm {p q : Poss} (h : p.Perm q) : (p.map (·.1)).Perm (q.map (·.1)) := h.map _

/-- **`Allocate` is order independent.** The whole allocation loop returns the
same allocation (or the same error) whatever order the interference edges were
recorded in — they are appended while iterating Go maps — and whatever order
the `possible` map is visited in. -/
theorem allocLoop_perm : ∀ (fuel : Nat) (s t : AState), StEqv s t → (s.possible.map (·.1)).Nodup →
    allocLoop fuel s = allocLoop fuel t
  | 0, _, _, _, _ => rfl
  | fuel + 1, s, t, ⟨hal, hposs, hedges⟩, hnd => by
    simp only [allocLoop]
    rw [updateEdges_eq_foldl, updateEdges_eq_foldl, ← hal]
    have h1 := foldl_perm s.allocation hedges (.ok (s.possible, []))
    have h2 := foldl_congr s.allocation t.edges (.ok (s.possible, [])) (.ok (t.possible, []))
      ⟨hposs, List.Perm.refl _⟩
    have h := Eqv.trans h1 h2
    cases hs : s.edges.foldl (stepE s.allocation) (.ok (s.possible, [])) with
    | error e =>
      cases ht : t.edges.foldl (stepE s.allocation) (.ok (t.possible, [])) with
      | error e' =>
        -- the only error `update` raises is `impossible`
        have only : ∀ (es : List Edge) (a : UAcc) (e : AErr), (∀ e0, a = .error e0 → e0 = .impossible) →
            es.foldl (stepE s.allocation) a = .error e → e = .impossible := by
          intro es
          induction es with
          | nil => intro a e ha h; exact ha e h
          | cons x xs ih =>
            intro a e ha h
            simp only [List.foldl_cons] at h
            apply ih _ e _ h
            intro e0 he0
            cases a with
            | error ea => simp only [stepE] at he0; injection he0 with he0; rw [← he0]; exact ha ea rfl
            | ok pr =>
              rcases pr with ⟨p, r⟩
              simp only [stepE] at he0
              repeat' split at he0
              all_goals first | (cases he0; done) | (injection he0 with he0; exact he0.symm) | (cases he0; rfl)
        have e1 := only _ _ e (by intro e0 h0; cases h0) hs
        have e2 := only _ _ e' (by intro e0 h0; cases h0) ht
        simp [e1, e2]
      | ok pr => rw [hs, ht] at h; cases h
    | ok pr =>
      cases ht : t.edges.foldl (stepE s.allocation) (.ok (t.possible, [])) with
      | error e' => rw [hs, ht] at h; cases h
      | ok pr' =>
        rcases pr with ⟨p, r⟩; rcases pr' with ⟨p', r'⟩
        rw [hs, ht] at h
        obtain ⟨hp, hr⟩ := h
        simp only
        -- keys of `p` are those of `s.possible`
        have hk : (p.map (·.1)).Nodup := by
          have hu : updateEdges s.allocation s.edges s.possible [] = .ok (p, r.reverse) := by
            rw [updateEdges_eq_foldl, hs]
          have := (updateEdges_spec s.allocation s.edges s.possible [] p r.reverse hu).1
          rw [this]; exact hnd
        rw [← mostRestricted_perm hk hp]
        cases hm : mostRestricted p with
        | none => rfl
        | some m =>
          rcases m with ⟨v, ps⟩
          cases ps with
          | nil => rfl
          | cons q ps' =>
            simp only
            apply allocLoop_perm fuel
            · exact ⟨rfl, hp.filter _, (List.reverse_perm r).trans (hr.trans (List.reverse_perm r').symm)⟩
            · exact (List.Nodup.sublist ((List.filter_sublist).map _) hk)

/-! ## pass/reg.go `AllocateRegisters`: `range as` and `Allocation.Merge` -/

/-- The per-kind allocations have keys of their own kind, so the merged
allocation — as a lookup function — does not depend on the order in which the
map of allocators is iterated and merged. -/
theorem allocate_kinds_perm (a : Nat → List (Nat × Nat)) (hkeys : ∀ j, ∀ e ∈ a j, idKind e.1 = j)
    {ks ks' : List Nat} (h : ks.Perm ks') (z : Nat) :
    lookupDefault (ks.flatMap a) z = lookupDefault (ks'.flatMap a) z := by
  rw [lookup_flatten a hkeys z ks, lookup_flatten a hkeys z ks']
  have : idKind z ∈ ks ↔ idKind z ∈ ks' := h.mem_iff
  by_cases hm : idKind z ∈ ks
  · simp [hm, this.mp hm]
  · have : idKind z ∉ ks' := fun h' => hm (this.mpr h')
    simp [hm, this]

/-! ## pass/isa.go `RequiredISAExtensions`: `range set` then `sort.Strings` -/

open Avo.ISA in
theorem insertStr_perm (x : String) (l : List String) : (insertStr x l).Perm (x :: l) := by
  induction l with
  | nil => simp [insertStr]
  | cons y ys ih =>
    simp only [insertStr]
    by_cases h : x < y
    · rw [if_pos h]
    · rw [if_neg h]; exact (List.Perm.cons y ih).trans (List.Perm.swap x y ys)

open Avo.ISA in
theorem sortStrs_perm_self (l : List String) : (sortStrs l).Perm l := by
  induction l with
  | nil => simp [sortStrs]
  | cons x xs ih =>
    simp only [sortStrs, List.foldr_cons]
    exact (insertStr_perm x _).trans (List.Perm.cons x ih)

open Avo.ISA in
theorem insertStr_sorted (x : String) (l : List String) (hx : x ∉ l) (hs : l.Pairwise (· < ·)) :
    (insertStr x l).Pairwise (· < ·) := by
  induction l with
  | nil => simp [insertStr]
  | cons y ys ih =>
    simp only [insertStr]
    rw [List.pairwise_cons] at hs
    by_cases h : x < y
    · rw [if_pos h, List.pairwise_cons]
      refine ⟨?_, List.pairwise_cons.mpr hs⟩
      intro z hz
      rcases List.mem_cons.mp hz with rfl | hz
      · exact h
      · exact String.lt_trans h (hs.1 z hz)
    · rw [if_neg h, List.pairwise_cons]
      have hxy : x ≠ y := fun e => hx (e ▸ List.mem_cons_self)
      have hyx : y < x := by
        have hle : y ≤ x := String.not_lt.mp h
        apply Classical.byContradiction
        intro hn
        exact hxy (String.le_antisymm (String.not_lt.mp hn) hle)
      refine ⟨?_, ih (fun hm => hx (List.mem_cons_of_mem _ hm)) hs.2⟩
      intro z hz
      rcases List.mem_cons.mp ((insertStr_perm x ys).mem_iff.mp hz) with rfl | hz
      · exact hyx
      · exact hs.1 z hz

open Avo.ISA in
theorem sortStrs_sorted (l : List String) (hn : l.Nodup) : (sortStrs l).Pairwise (· < ·) := by
  induction l with
  | nil => simp [sortStrs]
  | cons x xs ih =>
    simp only [sortStrs, List.foldr_cons]
    rw [List.nodup_cons] at hn
    apply insertStr_sorted x _ _ (ih hn.2)
    intro hm
    exact hn.1 ((sortStrs_perm_self xs).mem_iff.mp hm)

theorem strSorted_perm_eq : ∀ (l1 l2 : List String), l1.Pairwise (· < ·) → l2.Pairwise (· < ·) → l1.Perm l2 → l1 = l2
  | [], l2, _, _, h => by simpa using h.symm.eq_nil
  | a :: l1, [], _, _, h => by simpa using h.eq_nil
  | a :: l1, b :: l2, h1, h2, h => by
    rw [List.pairwise_cons] at h1 h2
    have hab : a = b := by
      have ha : a ∈ b :: l2 := h.mem_iff.mp List.mem_cons_self
      have hb : b ∈ a :: l1 := h.mem_iff.mpr List.mem_cons_self
      rcases List.mem_cons.mp ha with e | ha'
      · exact e
      · rcases List.mem_cons.mp hb with e | hb'
        · exact e.symm
        · exact absurd (h1.1 b hb') (String.lt_asymm (h2.1 a ha'))
    subst hab
    rw [strSorted_perm_eq l1 l2 h1.2 h2.2 (List.Perm.cons_inv h)]

open Avo.ISA in
/-- `RequiredISAExtensions`: the sorted list does not depend on the order in
which the set of extensions is iterated. -/
theorem requiredISA_perm {s s' : List String} (hn : s.Nodup) (h : s.Perm s') : requiredISA s = requiredISA s' := by
  unfold requiredISA
  apply strSorted_perm_eq _ _ (sortStrs_sorted s hn) (sortStrs_sorted s' (h.nodup_iff.mp hn))
  exact (sortStrs_perm_self s).trans (h.trans (sortStrs_perm_self s').symm)

/-- Non-vacuity. -/
example : Avo.ISA.requiredISA ["AVX512VL", "AVX", "AVX512F"] = ["AVX", "AVX512F", "AVX512VL"] := by decide

/-- Non-vacuity. -/
example : mostRestricted [(513, [256, 65792]), (257, [256, 65792]), (769, [256])] = some (769, [256]) := by decide
example : sortRegs (fun id => if id == 327936 then -1 else 0) [327936, 256, 131328, 65792] = [256, 65792, 131328, 327936] := by decide

/-! ## The acceptor of the repeated-run measurement -/

/-- What the measurement demands of the digests (asm bytes . stub bytes . allocation+ISA, or the
error text) of all generations of one program — same process, interleaved with other generations,
fresh processes: none panicked and all are equal. -/
def AllRunsAgree (ds : List String) : Prop := "panic" ∉ ds ∧ ∀ x ∈ ds, ∀ y ∈ ds, x = y

theorem acceptDet_sound (ds : List String) (h : Avo.Det.acceptDet ds = true) : AllRunsAgree ds := by
  unfold Avo.Det.acceptDet at h
  cases ds with
  | nil => exact ⟨by simp, by intro x hx; cases hx⟩
  | cons d rest =>
    simp only [Avo.Det.judge] at h
    split at h
    · cases h
    · rename_i hp
      split at h
      · rename_i ha
        constructor
        · intro hm
          apply hp
          exact List.any_eq_true.mpr ⟨"panic", hm, by simp⟩
        · have hall : ∀ z ∈ d :: rest, z = d := by
            intro z hz
            rcases List.mem_cons.mp hz with e | hz
            · exact e
            · have := List.all_eq_true.mp ha z hz
              simpa using this
          intro x hx y hy
          rw [hall x hx, hall y hy]
      · cases h

theorem acceptDet_complete (ds : List String) (h : AllRunsAgree ds) : Avo.Det.acceptDet ds = true := by
  unfold Avo.Det.acceptDet
  cases ds with
  | nil => rfl
  | cons d rest =>
    obtain ⟨hp, heq⟩ := h
    simp only [Avo.Det.judge]
    have h1 : ¬ ((d :: rest).any (· == "panic") = true) := by
      intro ha
      obtain ⟨z, hz, hzp⟩ := List.any_eq_true.mp ha
      have : z = "panic" := by simpa using hzp
      exact hp (this ▸ hz)
    have h2 : rest.all (· == d) = true := by
      apply List.all_eq_true.mpr
      intro z hz
      have := heq z (List.mem_cons_of_mem _ hz) d List.mem_cons_self
      simp [this]
    rw [if_neg h1, if_pos h2]; rfl

/-- Non-vacuity: equal digests are accepted, a differing stub digest or a panic is not. -/
example : Avo.Det.acceptDet ["a1.b2.c3", "a1.b2.c3", "a1.b2.c3"] = true := by decide
example : Avo.Det.acceptDet ["a1.b2.c3", "a1.bX.c3"] = false := by decide
example : Avo.Det.acceptDet ["panic", "panic"] = false := by decide
#guard Avo.Det.differingParts ["a1.b2.c3", "a1.bX.c3"] = ["stubs"]

end Avo.Determinism
