/-
C09 — The control-flow graph matches x86 control flow.
Statements and property theorems about `Model/Func.lean`.
-/
import AvoVerif.Model.Func
namespace Avo.Func

/-! ## LabelTarget -/

def known (s : LTState) : List String := s.target.map (·.1) ++ s.pending

theorem any_key_iff (t : List (String × Nat)) (l : String) :
    t.any (·.1 == l) = true ↔ l ∈ t.map (·.1) := by
  simp only [List.any_eq_true, List.mem_map, beq_iff_eq]

theorem dupCheck_iff (s : LTState) (l : String) :
    ((s.target.any (·.1 == l)) || s.pending.contains l) = true ↔ l ∈ known s := by
  simp [known]

/-- The loop succeeds exactly when the remaining labels are pairwise distinct
and distinct from every label seen so far. -/
theorem ltLoop_ok_iff (ns : List Node) : ∀ s : LTState,
    (∃ s', ltLoop s ns = .ok s') ↔ ((labels ns).Nodup ∧ ∀ l ∈ labels ns, l ∉ known s) := by
  induction ns with
  | nil => intro s; simp [ltLoop, labels]
  | cons n ns ih =>
    intro s
    cases n with
    | comment => simp only [ltLoop, ltStep, labels]; exact ih s
    | instr i =>
      simp only [ltLoop, ltStep, labels]
      rw [ih]
      have : ∀ l, l ∈ known { target := s.target ++ s.pending.map (·, s.count), pending := [], count := s.count + 1 } ↔ l ∈ known s := by
        intro l; simp [known, List.map_append, Function.comp_def]
      simp only [this]
    | label l =>
      simp only [ltLoop, ltStep, labels]
      by_cases hd : ((s.target.any (·.1 == l)) || s.pending.contains l) = true
      · have hk := (dupCheck_iff s l).mp hd
        rw [if_pos hd]
        constructor
        · rintro ⟨_, h⟩; cases h
        · rintro ⟨_, h⟩; exact absurd hk (h l List.mem_cons_self)
      · have hk : l ∉ known s := fun h => hd ((dupCheck_iff s l).mpr h)
        rw [if_neg hd]
        show (∃ s', ltLoop { s with pending := s.pending ++ [l] } ns = .ok s') ↔ _
        rw [ih]
        have hkn : ∀ x, x ∈ known { s with pending := s.pending ++ [l] } ↔ x ∈ known s ∨ x = l := by
          intro x; simp [known, or_assoc]
        simp only [hkn, List.nodup_cons, List.mem_cons]
        constructor
        · rintro ⟨hnd, h⟩
          refine ⟨⟨fun hl => (h l hl) (Or.inr rfl), hnd⟩, ?_⟩
          intro x hx
          rcases hx with rfl | hx
          · exact hk
          · exact fun hxk => h x hx (Or.inl hxk)
        · rintro ⟨⟨hl, hnd⟩, h⟩
          refine ⟨hnd, ?_⟩
          intro x hx hxx
          rcases hxx with hxk | rfl
          · exact h x (Or.inr hx) hxk
          · exact hl hx

theorem lookup_append (t u : List (String × Nat)) (l : String) :
    lookupLabel (t ++ u) l = (lookupLabel t l).or (lookupLabel u l) := by
  unfold lookupLabel
  rw [List.find?_append]
  cases List.find? (fun x => x.1 == l) t <;> simp

theorem lookup_pending (p : List String) (c : Nat) (l : String) :
    lookupLabel (p.map (·, c)) l = if l ∈ p then some c else none := by
  induction p with
  | nil => simp [lookupLabel]
  | cons x p ih =>
    unfold lookupLabel at ih ⊢
    simp only [List.map_cons, List.find?_cons]
    by_cases hx : x = l
    · subst hx; simp
    · have : (x == l) = false := by simpa using hx
      simp only [this, List.mem_cons]
      rw [ih]
      have : (l = x) = False := eq_false (fun h => hx h.symm)
      simp [this]

/-- What the final table says about any label, in terms of the state at the
start of the remaining nodes. -/
theorem ltLoop_lookup (ns : List Node) : ∀ (s s' : LTState), ltLoop s ns = .ok s' → ∀ l,
    lookupLabel s'.target l =
      (lookupLabel s.target l).or
        (if l ∈ s.pending then (if hasInstr ns then some s.count else none)
         else firstInstrAfter l s.count ns) := by
  induction ns with
  | nil =>
    intro s s' h l
    simp only [ltLoop] at h; cases h
    cases lookupLabel s.target l <;> simp [hasInstr, firstInstrAfter]
  | cons n ns ih =>
    intro s s' h l
    cases n with
    | comment =>
      simp only [ltLoop, ltStep] at h
      simp only [hasInstr, firstInstrAfter]
      exact ih s s' h l
    | instr i =>
      simp only [ltLoop, ltStep] at h
      have := ih _ s' h l
      rw [this, lookup_append, lookup_pending]
      cases ht : lookupLabel s.target l with
      | some t => simp
      | none =>
        by_cases hp : l ∈ s.pending <;> simp [hp, hasInstr, firstInstrAfter]
    | label x =>
      simp only [ltLoop, ltStep] at h
      by_cases hd : ((s.target.any (·.1 == x)) || s.pending.contains x) = true
      · rw [if_pos hd] at h; cases h
      · rw [if_neg hd] at h
        have hk : x ∉ known s := fun hh => hd ((dupCheck_iff s x).mpr hh)
        have := ih _ s' h l
        rw [this]
        cases ht : lookupLabel s.target l with
        | some t => simp
        | none =>
          simp only [List.mem_append, List.mem_singleton, hasInstr, firstInstrAfter, Option.none_or]
          by_cases hp : l ∈ s.pending
          · by_cases hh : hasInstr ns = true <;> simp [hp, hh]
          · by_cases hx : x = l
            · subst hx; simp [hp]
            · have h1 : (l = x) = False := eq_false (fun h => hx h.symm)
              have hb : (x == l) = false := by simpa using hx
              simp [hp, h1, hb]

theorem ltLoop_pending (ns : List Node) : ∀ (s s' : LTState), ltLoop s ns = .ok s' →
    (s'.pending = [] ↔ (trailingLabel ns = false ∧ (hasInstr ns = true ∨ s.pending = []))) := by
  induction ns with
  | nil => intro s s' h; simp only [ltLoop] at h; cases h; simp [trailingLabel, hasInstr]
  | cons n ns ih =>
    intro s s' h
    cases n with
    | comment => simp only [ltLoop, ltStep] at h; simpa [trailingLabel, hasInstr] using ih s s' h
    | instr i =>
      simp only [ltLoop, ltStep] at h
      have := ih _ s' h
      simpa [trailingLabel, hasInstr] using this
    | label x =>
      simp only [ltLoop, ltStep] at h
      by_cases hd : ((s.target.any (·.1 == x)) || s.pending.contains x) = true
      · rw [if_pos hd] at h; cases h
      · rw [if_neg hd] at h
        have := ih _ s' h
        rw [this]
        simp only [trailingLabel, hasInstr, List.append_eq_nil_iff]
        cases hasInstr ns <;> cases trailingLabel ns <;> simp

/-- **C09 (labels, success).** `LabelTarget` succeeds exactly when no label is
duplicated and every label is followed by an instruction. -/
theorem labelTarget_ok_iff (nodes : List Node) :
    (∃ m, labelTarget nodes = .ok m) ↔ ((labels nodes).Nodup ∧ trailingLabel nodes = false) := by
  unfold labelTarget
  have hiff := ltLoop_ok_iff nodes ⟨[], [], 0⟩
  cases hl : ltLoop ⟨[], [], 0⟩ nodes with
  | error e =>
    have : ¬ (labels nodes).Nodup := by
      intro hnd
      have := hiff.mpr ⟨hnd, by simp [known]⟩
      rw [hl] at this; rcases this with ⟨_, h⟩; cases h
    simp [this]
  | ok s =>
    have hnd : (labels nodes).Nodup := (hiff.mp ⟨s, hl⟩).1
    have hp := ltLoop_pending nodes _ s hl
    simp only [hnd, true_and]
    by_cases he : s.pending.isEmpty = true
    · have : s.pending = [] := by simpa using he
      simp [he, (hp.mp this).1]
    · have hne : ¬ s.pending = [] := by simpa using he
      simp only [he]
      constructor
      · rintro ⟨_, h⟩; cases h
      · intro ht; exact absurd (hp.mpr ⟨ht, Or.inr rfl⟩) hne

/-- **C09 (labels, meaning).** On success every label is bound to the first
instruction after it, and names that are not labels are unbound. -/
theorem labelTarget_spec (nodes : List Node) (m) (h : labelTarget nodes = .ok m) (l : String) :
    lookupLabel m l = firstInstrAfter l 0 nodes := by
  unfold labelTarget at h
  cases hl : ltLoop ⟨[], [], 0⟩ nodes with
  | error e => simp [hl] at h
  | ok s =>
    simp only [hl] at h
    by_cases he : s.pending.isEmpty = true
    · simp only [he, if_true] at h; cases h
      have := ltLoop_lookup nodes _ s hl l
      simpa [lookupLabel] using this
    · simp [he] at h

/-- **C09 (labels, errors).** A duplicate label is reported as `dupLabel`, and
otherwise a label with no following instruction as `trailingLabel`. -/
theorem labelTarget_err (nodes : List Node) (e) (h : labelTarget nodes = .error e) :
    (e = .dupLabel ∧ ¬ (labels nodes).Nodup) ∨
    (e = .trailingLabel ∧ (labels nodes).Nodup ∧ trailingLabel nodes = true) := by
  have hiff := labelTarget_ok_iff nodes
  unfold labelTarget at h
  have hk := ltLoop_ok_iff nodes ⟨[], [], 0⟩
  cases hl : ltLoop ⟨[], [], 0⟩ nodes with
  | error e' =>
    simp only [hl] at h; cases h
    have hnd : ¬ (labels nodes).Nodup := by
      intro hnd
      have := hk.mpr ⟨hnd, by simp [known]⟩
      rw [hl] at this; rcases this with ⟨_, h⟩; cases h
    -- the only error the loop raises is dupLabel
    have he : ∀ (ns : List Node) (s : LTState) e, ltLoop s ns = .error e → e = .dupLabel := by
      intro ns
      induction ns with
      | nil => intro s e h; simp [ltLoop] at h
      | cons n ns ih =>
        intro s e h
        cases n with
        | comment => simp only [ltLoop, ltStep] at h; exact ih _ _ h
        | instr i => simp only [ltLoop, ltStep] at h; exact ih _ _ h
        | label x =>
          simp only [ltLoop, ltStep] at h
          by_cases hd : ((s.target.any (·.1 == x)) || s.pending.contains x) = true
          · rw [if_pos hd] at h; cases h; rfl
          · rw [if_neg hd] at h; exact ih _ _ h
    exact Or.inl ⟨he _ _ _ hl, hnd⟩
  | ok s =>
    simp only [hl] at h
    by_cases hemp : s.pending.isEmpty = true
    · simp [hemp] at h
    · simp only [hemp] at h
      cases h
      have hnd : (labels nodes).Nodup := (hk.mp ⟨s, hl⟩).1
      refine Or.inr ⟨rfl, hnd, ?_⟩
      cases ht : trailingLabel nodes with
      | true => rfl
      | false =>
        have := (ltLoop_pending nodes _ s hl).mpr ⟨ht, Or.inr rfl⟩
        simp [this] at hemp

/-! ## CFG -/

/-- The successor list the property prescribes for instruction `idx` of `n`,
given the label binding `m`. -/
def succSpec (m : List (String × Nat)) (n idx : Nat) (i : Instr) : Option Succ :=
  let fall : Succ := if i.isTerminal || i.isUncond then [] else [if idx + 1 < n then some (idx + 1) else none]
  if i.isBranch then
    match i.labelOp with
    | none => none
    | some l => (lookupLabel m l).map (fun t => some t :: fall)
  else some fall

theorem succOf_spec (m n idx i) :
    (match succOf m n idx i with | .ok s => some s | .error _ => none) = succSpec m n idx i := by
  unfold succOf succSpec Instr.target
  by_cases hb : i.isBranch = true
  · simp only [hb, if_true]
    cases i.labelOp with
    | none => rfl
    | some l => cases hl : lookupLabel m l <;> simp [hl]
  · simp [hb]

/-- **C09 (successors).** When the CFG is built, instruction `j` has exactly
the prescribed successors; the build fails iff some branch has no label
operand or an unbound label. -/
theorem succLoop_spec (m n) : ∀ (is : List Instr) (idx : Nat),
    (match succLoop m n idx is with
     | .ok ss => ss.length = is.length ∧ ∀ j (hj : j < is.length), succSpec m n (idx + j) is[j] = some (ss.getD j [])
     | .error _ => ∃ j, ∃ hj : j < is.length, succSpec m n (idx + j) is[j] = none) := by
  intro is
  induction is with
  | nil => intro idx; simp [succLoop]
  | cons i is ih =>
    intro idx
    simp only [succLoop]
    have h1 := succOf_spec m n idx i
    cases ho : succOf m n idx i with
    | error e =>
      simp only [ho] at h1 ⊢
      exact ⟨0, by simp, by simpa using h1.symm⟩
    | ok s =>
      simp only [ho] at h1 ⊢
      have ih' := ih (idx + 1)
      cases hr : succLoop m n (idx + 1) is with
      | error e =>
        simp only [hr] at ih' ⊢
        rcases ih' with ⟨j, hj, hjn⟩
        refine ⟨j + 1, by simp; omega, ?_⟩
        simpa [Nat.add_assoc, Nat.add_comm 1 j] using hjn
      | ok ss =>
        simp only [hr] at ih' ⊢
        refine ⟨by simp [ih'.1], ?_⟩
        intro j hj
        cases j with
        | zero => simpa using h1.symm
        | succ j =>
          have := ih'.2 j (by simpa using hj)
          simpa [Nat.add_assoc, Nat.add_comm 1 j] using this

/-- **C09 (predecessors).** Predecessors are exactly the inverse of successors. -/
theorem pred_iff (ss : List Succ) (i j : Nat) :
    j ∈ predOf ss i ↔ (j < ss.length ∧ some i ∈ ss.getD j []) := by
  unfold predOf
  simp only [List.mem_flatMap, List.mem_range, List.mem_map, List.mem_filter]
  constructor
  · rintro ⟨k, hk, x, ⟨hx, hxe⟩, rfl⟩
    refine ⟨hk, ?_⟩
    have : x = some i := by simpa using hxe
    subst this; exact hx
  · rintro ⟨hj, hm⟩
    exact ⟨j, hj, some i, ⟨hm, by simp⟩, rfl⟩

/-- **C09 (whole pass).** `buildCFG` fails exactly in the four situations the
property lists, and on success successors/predecessors are as prescribed with
labels bound to the first following instruction. -/
theorem buildCFG_ok (nodes : List Node) (g : Graph) (h : buildCFG nodes = .ok g) :
    (labels nodes).Nodup ∧ trailingLabel nodes = false ∧
    g.succ.length = (instrs nodes).length ∧
    (∀ j (hj : j < (instrs nodes).length),
      let i := (instrs nodes)[j]
      g.succ.getD j [] =
        (if i.isBranch then
           match i.labelOp.bind (fun l => firstInstrAfter l 0 nodes) with
           | some t => [some t] | none => []
         else []) ++
        (if i.isTerminal || i.isUncond then []
         else [if j + 1 < (instrs nodes).length then some (j + 1) else none])) ∧
    (∀ i j, j ∈ (g.pred.getD i []) → (j < g.succ.length ∧ some i ∈ g.succ.getD j [])) := by
  unfold buildCFG at h
  cases hm : labelTarget nodes with
  | error e => simp [hm] at h
  | ok m =>
    simp only [hm] at h
    have hok := (labelTarget_ok_iff nodes).mp ⟨m, hm⟩
    have hs := succLoop_spec m (instrs nodes).length (instrs nodes) 0
    cases hl : succLoop m (instrs nodes).length 0 (instrs nodes) with
    | error e => simp [hl] at h
    | ok ss =>
      simp only [hl] at h hs
      cases h
      refine ⟨hok.1, hok.2, hs.1, ?_, ?_⟩
      · intro j hj
        have := hs.2 j hj
        simp only [Nat.zero_add] at this
        unfold succSpec at this
        simp only
        by_cases hb : (instrs nodes)[j].isBranch = true
        · simp only [hb, if_true] at this ⊢
          cases hlo : (instrs nodes)[j].labelOp with
          | none => simp [hlo] at this
          | some l =>
            simp only [hlo, Option.map_eq_some_iff] at this
            rcases this with ⟨t, ht, hss⟩
            rw [labelTarget_spec nodes m hm l] at ht
            rw [← hss]
            simp [Option.bind, ht]
        · simp only [hb] at this ⊢
          simp at this
          simp [← this]
      · intro i j hj
        by_cases hi : i < (instrs nodes).length
        · have : (List.map (predOf ss) (List.range (instrs nodes).length)).getD i [] = predOf ss i := by
            simp [List.getD, hi]
          rw [this] at hj
          exact (pred_iff ss i j).mp hj
        · have : (List.map (predOf ss) (List.range (instrs nodes).length)).getD i [] = [] := by
            have hge : (instrs nodes).length ≤ i := Nat.le_of_not_lt hi
            simp [List.getD, hge]
          rw [this] at hj; cases hj



/-! ## Successors stay inside the function (the `WF` hypothesis of C02) -/

theorem hasInstr_pos : ∀ ns : List Node, hasInstr ns = true → 0 < (instrs ns).length
  | [], h => by simp [hasInstr] at h
  | .instr _ :: ns, _ => by simp [instrs]
  | .label _ :: ns, h => by simp only [hasInstr] at h; simpa [instrs] using hasInstr_pos ns h
  | .comment :: ns, h => by simp only [hasInstr] at h; simpa [instrs] using hasInstr_pos ns h

theorem firstInstrAfter_lt (l : String) : ∀ (ns : List Node) (k t : Nat),
    firstInstrAfter l k ns = some t → t < k + (instrs ns).length
  | [], k, t, h => by simp [firstInstrAfter] at h
  | .label l' :: ns, k, t, h => by
    simp only [firstInstrAfter] at h
    by_cases hl : (l' == l) = true
    · rw [if_pos hl] at h
      by_cases hh : hasInstr ns = true
      · rw [if_pos hh] at h; injection h with h
        have := hasInstr_pos ns hh
        simp only [instrs]; omega
      · rw [if_neg hh] at h; cases h
    · rw [if_neg hl] at h
      simpa [instrs] using firstInstrAfter_lt l ns k t h
  | .instr _ :: ns, k, t, h => by
    simp only [firstInstrAfter] at h
    have := firstInstrAfter_lt l ns (k + 1) t h
    simp only [instrs, List.length_cons]; omega
  | .comment :: ns, k, t, h => by
    simp only [firstInstrAfter] at h
    simpa [instrs] using firstInstrAfter_lt l ns k t h

/-- **C09 → C02.** Every successor recorded by the CFG pass is an instruction of
the function: the liveness analysis' well-formedness hypothesis always holds
after a successful `CFG`. -/
theorem buildCFG_succ_in_range (nodes : List Node) (g : Graph) (h : buildCFG nodes = .ok g)
    (j : Nat) (hj : j < (instrs nodes).length) (s : Nat) (hs : some s ∈ g.succ.getD j []) :
    s < (instrs nodes).length := by
  obtain ⟨_, _, _, hsucc, _⟩ := buildCFG_ok nodes g h
  have := hsucc j hj
  simp only at this
  rw [this] at hs
  rcases List.mem_append.mp hs with hs | hs
  · by_cases hb : (instrs nodes)[j].isBranch = true
    · simp only [hb, if_true] at hs
      cases hlo : (instrs nodes)[j].labelOp with
      | none => simp [hlo] at hs
      | some l =>
        simp only [hlo, Option.bind] at hs
        cases ht : firstInstrAfter l 0 nodes with
        | none => simp [ht] at hs
        | some t =>
          have hst : s = t := by simpa [ht] using hs
          have := firstInstrAfter_lt l nodes 0 t ht
          omega
    · simp [hb] at hs
  · by_cases hc : ((instrs nodes)[j].isTerminal || (instrs nodes)[j].isUncond) = true
    · simp [hc] at hs
    · simp only [hc] at hs
      by_cases hn : j + 1 < (instrs nodes).length
      · have hst : s = j + 1 := by simpa [hn] using hs
        omega
      · simp [hn] at hs

/-- A branch whose target is not a label, or is a label not defined in the function. -/
def badBranch (nodes : List Node) : Prop :=
  ∃ j, ∃ hj : j < (instrs nodes).length,
    (instrs nodes)[j].isBranch = true ∧
      ((instrs nodes)[j].labelOp = none ∨
       ∃ l, (instrs nodes)[j].labelOp = some l ∧ firstInstrAfter l 0 nodes = none)

theorem succSpec_none_iff (m n idx) (i : Instr) :
    succSpec m n idx i = none ↔
      (i.isBranch = true ∧ (i.labelOp = none ∨ ∃ l, i.labelOp = some l ∧ lookupLabel m l = none)) := by
  unfold succSpec
  by_cases hb : i.isBranch = true
  · simp only [hb, if_true, true_and]
    cases hlo : i.labelOp with
    | none => simp
    | some l => cases hl : lookupLabel m l <;> simp [hl]
  · simp [hb]

/-- **C09 (errors).** The CFG build reports an error exactly for: a duplicate
label, a label with no following instruction, a branch with a non-label target,
a branch to an undefined label. -/
theorem buildCFG_err_iff (nodes : List Node) :
    (∃ e, buildCFG nodes = .error e) ↔
      (¬ (labels nodes).Nodup ∨ trailingLabel nodes = true ∨ badBranch nodes) := by
  unfold buildCFG
  cases hm : labelTarget nodes with
  | error e =>
    have := labelTarget_err nodes e hm
    refine ⟨fun _ => ?_, fun _ => ⟨e, rfl⟩⟩
    rcases this with ⟨_, h⟩ | ⟨_, _, h⟩
    · exact Or.inl h
    · exact Or.inr (Or.inl h)
  | ok m =>
    have hok := (labelTarget_ok_iff nodes).mp ⟨m, hm⟩
    have hs := succLoop_spec m (instrs nodes).length (instrs nodes) 0
    have hbad : badBranch nodes ↔ ∃ j, ∃ hj : j < (instrs nodes).length,
        succSpec m (instrs nodes).length (0 + j) (instrs nodes)[j] = none := by
      unfold badBranch
      constructor
      · rintro ⟨j, hj, h⟩
        refine ⟨j, hj, (succSpec_none_iff _ _ _ _).mpr ?_⟩
        simpa [labelTarget_spec nodes m hm] using h
      · rintro ⟨j, hj, h⟩
        refine ⟨j, hj, ?_⟩
        simpa [labelTarget_spec nodes m hm] using (succSpec_none_iff _ _ _ _).mp h
    simp only [hok.1, not_true_eq_false, hok.2, Bool.false_eq_true, false_or]
    cases hl : succLoop m (instrs nodes).length 0 (instrs nodes) with
    | error e =>
      simp only [hl] at hs
      exact ⟨fun _ => hbad.mpr hs, fun _ => ⟨e, rfl⟩⟩
    | ok ss =>
      simp only [hl] at hs
      simp only [reduceCtorEq, exists_false, false_iff]
      intro hb
      rcases hbad.mp hb with ⟨j, hj, h⟩
      have := hs.2 j hj
      rw [h] at this; cases this

/-- Non-vacuity of the error cases. -/
example : buildCFG [.label "a", .label "a", .instr ⟨false, false, true, none⟩] = .error .dupLabel := by rfl
example : buildCFG [.instr ⟨false, false, true, none⟩, .label "a"] = .error .trailingLabel := by rfl
example : buildCFG [.instr ⟨true, false, false, some "x"⟩] = .error .unknownLabel := by rfl
example : buildCFG [.instr ⟨true, true, false, none⟩] = .error .noLabel := by rfl

/-- Non-vacuity: a loop with a conditional back edge and a trailing return. -/
example : buildCFG [.label "top", .instr ⟨false, false, false, none⟩, .instr ⟨true, true, false, some "top"⟩,
    .instr ⟨false, false, true, none⟩] =
    .ok ⟨[[some 1], [some 0, some 2], []], [[1], [0], [1]]⟩ := by rfl

end Avo.Func
