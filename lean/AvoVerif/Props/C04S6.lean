import AvoVerif.Props.C04Rows
import AvoVerif.Gen.FormActions_06
namespace Avo.FormActions.Tables
open Avo.FormActions Avo.Gen
/-- every row of shard 6 of the regenerated form table passes every structural check -/
theorem shard_06 : formActions_06.all rowOK = true := by decide +kernel
end Avo.FormActions.Tables
