/-
C11 over call histories (model: Model/PrintHist.lean): what a print says when
the same `*ir.File`, `*ir.Function`, `*ir.Instruction` objects were inspected
through their accessors and printed before, were changed in place since, next to
other files, after files were dropped and allocated again.

Statement: the text of EVERY print in ANY history is `render (printFile …)` of
the content the file has at that moment (`hist_print_current`), hence — by
`print_faithful` — it reads back as exactly that content: every instruction once
and in order with the opcode, suffixes and operands it has THEN, every label
bound as THEN (`hist_print_faithful`).  Frame facts: prints and inspections
change nothing (`inspections_irrelevant`, `heapAfter_frame`), an edit shows in
the next print (`reprint_after_edit`, `edit_suffixes_printed`), a new file
carries nothing over from the slot's former file.  The acceptor of the
`accept-hist` stream is sound (`acceptHist_sound`).
-/
import AvoVerif.Props.C11Accept
import AvoVerif.Model.PrintHist
namespace Avo.Print.Hist
open Avo.Print Avo.Attr

/-! ### the state machine -/

theorem step_print (h : Heap) (i : Nat) (cfg : Config) : step h (.print i cfg) = h := rfl

theorem step_inspect (h : Heap) (i w : Nat) : step h (.inspect i w) = h := rfl

theorem step_readOnly (h : Heap) (op : Op) (hr : op.readOnly = true) : step h op = h := by
  cases op <;> first | rfl | (simp [Op.readOnly] at hr)

theorem heapAfter_cons (h : Heap) (op : Op) (ops : List Op) :
    heapAfter h (op :: ops) = heapAfter (step h op) ops := rfl

theorem heapAfter_append (h : Heap) (a b : List Op) :
    heapAfter h (a ++ b) = heapAfter (heapAfter h a) b := by
  unfold heapAfter; rw [List.foldl_append]

theorem run_print (names) (h : Heap) (i : Nat) (cfg : Config) (ops : List Op) :
    run names h (.print i cfg :: ops) = printOut names h i cfg :: run names h ops := rfl

theorem run_nonprint (names) (h : Heap) (op : Op) (ops : List Op) (hp : op.isPrint = false) :
    run names h (op :: ops) = run names (step h op) ops := by
  cases op <;> first | rfl | (simp [Op.isPrint] at hp)

/-- One text per print. -/
theorem run_length (names) (h : Heap) (ops : List Op) :
    (run names h ops).length = (ops.filter Op.isPrint).length := by
  induction ops generalizing h with
  | nil => rfl
  | cons op ops ih =>
    cases hp : op.isPrint
    · rw [run_nonprint names h op ops hp, ih]; simp [List.filter, hp]
    · cases op <;> simp [Op.isPrint] at hp
      rw [run_print]; simp [List.filter, Op.isPrint, ih]

/-- **Every print shows the current content.**  In any history, the print that
follows the prefix `pre` returns the rendering of the file as it is after
`pre` — whatever was printed or inspected before, for this or any other file. -/
theorem hist_print_current (names) (h : Heap) (pre post : List Op) (i : Nat) (cfg : Config) :
    (run names h (pre ++ .print i cfg :: post))[(pre.filter Op.isPrint).length]? =
      some (printOut names (heapAfter h pre) i cfg) := by
  induction pre generalizing h with
  | nil => rfl
  | cons op pre ih =>
    cases hp : op.isPrint
    · rw [List.cons_append, run_nonprint names h op _ hp, heapAfter_cons]
      simp only [List.filter, hp]
      exact ih _
    · cases op <;> simp [Op.isPrint] at hp
      rw [List.cons_append, run_print, heapAfter_cons, step_print]
      simp only [List.filter, Op.isPrint, List.length_cons, List.getElem?_cons_succ]
      exact ih _

/-- **C11 along histories.**  If the file in slot `i` is well formed when it is
printed, the text of that print reads back — split at newlines, lexed, parsed —
as exactly the content the file has at that moment: per section the function's
name, TEXT clause and sizes, every instruction once and in order with the
opcode, suffixes and operands it has NOW, every label bound to the instruction
that follows it NOW. -/
theorem hist_print_faithful (names) (h : Heap) (pre post : List Op) (i : Nat) (cfg : Config) (f : File)
    (hf : heapAfter h pre i = some f) (hw : WFFile names cfg f) :
    ∃ t, (run names h (pre ++ .print i cfg :: post))[(pre.filter Op.isPrint).length]? = some (some t) ∧
      t = render (printFile names cfg f) ∧
      parseFile (lexText t) = some (fileSum names f) := by
  refine ⟨render (printFile names cfg f), ?_, rfl, print_faithful names cfg f hw⟩
  rw [hist_print_current]
  simp only [printOut, hf, Option.map_some]

/-- The same on the regenerated attribute table, with the structured statements
of `C11_partial` for the content at the moment of the print. -/
theorem hist_C11_partial (h : Heap) (pre post : List Op) (i : Nat) (cfg : Config) (f : File)
    (hf : heapAfter h pre i = some f) (hw : WFFile Avo.Gen.attrname cfg f) :
    (run Avo.Gen.attrname h (pre ++ .print i cfg :: post))[(pre.filter Op.isPrint).length]? =
      some (some (render (printFile Avo.Gen.attrname cfg f))) ∧
    parseFile (lexText (render (printFile Avo.Gen.attrname cfg f))) = some (fileSum Avo.Gen.attrname f) ∧
    textLines (printFile Avo.Gen.attrname cfg f) = f.functions.map (Function.header Avo.Gen.attrname) ∧
    ∀ fn ∈ f.functions,
      instrLines (printFunction Avo.Gen.attrname fn) = (instrsOf fn.nodes).map Instr.key3 ∧
      labelIdx (printFunction Avo.Gen.attrname fn) 0 = labelsFrom fn.nodes 0 := by
  have hc := C11_partial cfg f hw
  refine ⟨?_, hc.1, hc.2.1, fun fn hfn => ⟨(hc.2.2 fn hfn).1, (hc.2.2 fn hfn).2.1⟩⟩
  rw [hist_print_current]
  simp only [printOut, hf, Option.map_some]

/-! ### frame -/

theorem put_same (h : Heap) (i : Nat) (x : Option File) : h.put i x i = x := by simp [Heap.put]

theorem put_other (h : Heap) (i j : Nat) (x : Option File) (hj : j ≠ i) : h.put i x j = h j := by
  simp [Heap.put, hj]

theorem step_other (h : Heap) (op : Op) (i : Nat) (hi : op.readOnly = true ∨ op.slot ≠ i) :
    step h op i = h i := by
  rcases hi with hi | hi
  · rw [step_readOnly h op hi]
  · cases op with
    | new j f => exact put_other _ _ _ _ (Ne.symm hi)
    | drop j => exact put_other _ _ _ _ (Ne.symm hi)
    | edit j e =>
      simp only [Op.slot] at hi
      simp only [step]
      cases h j with
      | none => rfl
      | some f => exact put_other _ _ _ _ (Ne.symm hi)
    | inspect j w => rfl
    | print j c => rfl

/-- **Frame.**  Prints and inspections (of any file) and operations on other
slots leave the file in slot `i` as it is. -/
theorem heapAfter_frame (h : Heap) (ops : List Op) (i : Nat)
    (hops : ∀ o ∈ ops, o.readOnly = true ∨ o.slot ≠ i) : heapAfter h ops i = h i := by
  induction ops generalizing h with
  | nil => rfl
  | cons op ops ih =>
    rw [heapAfter_cons, ih _ (fun o ho => hops o (List.mem_cons_of_mem _ ho))]
    exact step_other h op i (hops op List.mem_cons_self)

/-- **Inspections never show.**  Removing every inspection from a history
leaves the text of every print as it is. -/
theorem inspections_irrelevant (names) (h : Heap) (ops : List Op) :
    run names h (ops.filter (fun o => !o.isInspect)) = run names h ops := by
  induction ops generalizing h with
  | nil => rfl
  | cons op ops ih =>
    cases op with
    | inspect j w => simp only [List.filter, Op.isInspect, Bool.not_true]; exact ih h
    | print j c =>
      simp only [List.filter, Op.isInspect, Bool.not_false, run_print]
      exact congrArg _ (ih h)
    | new j f => simp only [List.filter, Op.isInspect, Bool.not_false]; exact ih _
    | drop j => simp only [List.filter, Op.isInspect, Bool.not_false]; exact ih _
    | edit j e => simp only [List.filter, Op.isInspect, Bool.not_false]; exact ih _

/-- Printing twice in a row (by any two printer objects with the same
configuration) gives the same text twice. -/
theorem print_twice_same (names) (h : Heap) (i : Nat) (cfg : Config) (ops : List Op) :
    run names h (.print i cfg :: .print i cfg :: ops) =
      printOut names h i cfg :: printOut names h i cfg :: run names h ops := rfl

/-- The text is a function of the content alone: two files (or one file at two
moments, in two histories) with the same content print the same text. -/
theorem text_of_content_only (names) (h₁ h₂ : Heap) (i j : Nat) (cfg : Config) (hc : h₁ i = h₂ j) :
    printOut names h₁ i cfg = printOut names h₂ j cfg := by
  simp only [printOut, hc]

/-- **Reprint after a change.**  A file is printed (or inspected), changed by
the edit `e`, then anything happens that does not change it (prints and
inspections of this or other files, work on other files), then it is printed
again: the second text is the rendering of the CHANGED file, the first one the
rendering of the file as it was. -/
theorem reprint_after_edit (names) (h : Heap) (i : Nat) (c₁ c₂ : Config) (f : File) (e : Edit)
    (mid post : List Op) (hf : h i = some f) (hmid : ∀ o ∈ mid, o.readOnly = true ∨ o.slot ≠ i) :
    (run names h ([.print i c₁, .edit i e] ++ mid ++ .print i c₂ :: post))[(mid.filter Op.isPrint).length + 1]? =
      some (some (render (printFile names c₂ (applyEdit f e)))) ∧
    (run names h ([.print i c₁, .edit i e] ++ mid ++ .print i c₂ :: post))[0]? =
      some (some (render (printFile names c₁ f))) := by
  constructor
  · have := hist_print_current names h ([.print i c₁, .edit i e] ++ mid) post i c₂
    have hl : (([Op.print i c₁, Op.edit i e] ++ mid).filter Op.isPrint).length = (mid.filter Op.isPrint).length + 1 := by
      simp [List.filter, Op.isPrint]
    rw [hl] at this
    rw [this, heapAfter_append]
    unfold printOut
    rw [heapAfter_frame _ mid i hmid]
    have hs : heapAfter h [.print i c₁, .edit i e] i = some (applyEdit f e) := by
      simp only [heapAfter, List.foldl, step, hf]
      exact put_same _ _ _
    simp only [hs, Option.map_some]
  · simp only [List.cons_append, List.nil_append, run_print, List.getElem?_cons_zero, printOut, hf, Option.map_some]

/-- **A new file carries nothing over**: after `new i g`, whatever was in the
slot (or at the address) before and whatever was printed before, the print
shows `g`. -/
theorem fresh_file_printed (names) (h : Heap) (i : Nat) (g : File) (cfg : Config)
    (pre mid post : List Op) (hmid : ∀ o ∈ mid, o.readOnly = true ∨ o.slot ≠ i) :
    (run names h (pre ++ .new i g :: mid ++ .print i cfg :: post))[((pre ++ .new i g :: mid).filter Op.isPrint).length]? =
      some (some (render (printFile names cfg g))) := by
  have := hist_print_current names h (pre ++ .new i g :: mid) post i cfg
  rw [this, heapAfter_append, heapAfter_cons]
  unfold printOut
  rw [heapAfter_frame _ mid i hmid]
  simp only [step, put_same, Option.map_some]

/-! ### an edit of the suffix list shows in the text -/

theorem modAt_getElem? {α} (g : α → α) (xs : List α) (n : Nat) : (modAt g xs n)[n]? = (xs[n]?).map g := by
  induction xs generalizing n with
  | nil => simp [modAt]
  | cons x xs ih =>
    cases n with
    | zero => simp [modAt]
    | succ n => simp [modAt, ih]

theorem modAt_length {α} (g : α → α) (xs : List α) (n : Nat) : (modAt g xs n).length = xs.length := by
  induction xs generalizing n with
  | nil => simp [modAt]
  | cons x xs ih =>
    cases n with
    | zero => simp [modAt]
    | succ n => simp [modAt, ih]

theorem mem_instrsOf (ns : List Node) (i : Instr) (h : Node.instr i ∈ ns) : i ∈ instrsOf ns := by
  induction ns with
  | nil => cases h
  | cons n ns ih =>
    cases n with
    | instr j =>
      simp only [instrsOf, List.mem_cons]
      rcases List.mem_cons.mp h with h | h
      · left; injection h
      · right; exact ih h
    | label l =>
      simp only [instrsOf]
      rcases List.mem_cons.mp h with h | h
      · cases h
      · exact ih h
    | comment c =>
      simp only [instrsOf]
      rcases List.mem_cons.mp h with h | h
      · cases h
      · exact ih h

/-- After the edit of instruction node `n`, the instruction with the edited
field is among the instructions the function's printed block carries. -/
theorem edit_instr_printed (names) (fn : Function) (n : Nat) (ins : Instr) (e : IEdit)
    (hn : fn.nodes[n]? = some (.instr ins)) :
    (applyIEdit ins e).key3 ∈ instrLines (printFunction names (applyFnEdit fn (.instr n e))) := by
  rw [flush_complete_function]
  apply List.mem_map_of_mem
  apply mem_instrsOf
  have : (applyFnEdit fn (.instr n e)).nodes[n]? = some (.instr (applyIEdit ins e)) := by
    simp only [applyFnEdit, modAt_getElem?, hn, Option.map_some, editInstrNode]
  exact List.mem_of_getElem? this

/-- **The class of the missed change.**  The suffix list of instruction node `n`
is replaced by `s'` (of the same length or not): the printed block of the
function carries that instruction with opcode, the NEW suffixes and operands. -/
theorem edit_suffixes_printed (names) (fn : Function) (n : Nat) (ins : Instr) (s' : List Txt)
    (hn : fn.nodes[n]? = some (.instr ins)) :
    (ins.opcode, s', ins.operands) ∈ instrLines (printFunction names (applyFnEdit fn (.instr n (.suffixes s')))) :=
  edit_instr_printed names fn n ins (.suffixes s') hn

/-- … and the number of instruction lines does not change. -/
theorem edit_instr_count (names) (fn : Function) (n : Nat) (e : IEdit) :
    (instrLines (printFunction names (applyFnEdit fn (.instr n e)))).length =
      (instrLines (printFunction names fn)).length := by
  rw [flush_complete_function, flush_complete_function]
  simp only [List.length_map, applyFnEdit]
  generalize fn.nodes = ns
  induction ns generalizing n with
  | nil => rfl
  | cons x xs ih =>
    cases n with
    | zero => cases x <;> simp [modAt, editInstrNode, instrsOf]
    | succ n => cases x <;> simp [modAt, instrsOf, ih]

/-! ### the acceptor -/

open Avo.Drv.C11 in
/-- **Soundness of `accept-hist`.**  If the acceptor accepts the texts `outs`
of a history, then for EVERY print of the history whose file is then well
formed, the implementation's text of that print says what the file says at that
moment (`TextSays`: includes, sections, per function name / instructions with
opcode+suffixes and operands in order / label binding / attribute clause, frame
and argument size). -/
theorem acceptHist_sound (h : Heap) (ops : List Op) (outs : List (Option Txt)) (k : Nat)
    (hacc : acceptHistE h ops outs k = none)
    (pre post : List Op) (i : Nat) (cfg : Config) (hops : ops = pre ++ .print i cfg :: post)
    (f : File) (hf : heapAfter h pre i = some f) (hw : wfCheck cfg f = true) :
    ∃ t, outs[(pre.filter Op.isPrint).length]? = some (some t) ∧ TextSays f t := by
  subst hops
  induction pre generalizing h outs k with
  | nil =>
    simp only [List.nil_append] at hacc
    have hf' : h i = some f := hf
    cases outs with
    | nil => simp [acceptHistE] at hacc
    | cons o outs =>
      simp only [acceptHistE, hf', hw, if_true] at hacc
      cases o with
      | none => simp at hacc
      | some t =>
        simp only at hacc
        cases ha : acceptPrintE f t with
        | some e => simp [ha] at hacc
        | none => exact ⟨t, rfl, acceptPrintE_sound f t ha⟩
  | cons op pre ih =>
    rw [heapAfter_cons] at hf
    cases op with
    | print j c =>
      rw [step_print] at hf
      simp only [List.cons_append] at hacc
      cases outs with
      | nil => simp [acceptHistE] at hacc
      | cons o outs =>
        have hrest : ∃ k', acceptHistE h (pre ++ .print i cfg :: post) outs k' = none := by
          simp only [acceptHistE] at hacc
          cases hj : h j with
          | none => simp only [hj] at hacc; exact ⟨_, hacc⟩
          | some g =>
            simp only [hj] at hacc
            cases hwg : wfCheck c g with
            | false => simp only [hwg] at hacc; exact ⟨_, hacc⟩
            | true =>
              simp only [hwg, if_true] at hacc
              cases o with
              | none => simp at hacc
              | some t =>
                simp only at hacc
                cases ha : acceptPrintE g t with
                | some e => simp [ha] at hacc
                | none => simp only [ha] at hacc; exact ⟨_, hacc⟩
        obtain ⟨k', hk'⟩ := hrest
        obtain ⟨t, ht, hs⟩ := ih h outs k' hf hk'
        refine ⟨t, ?_, hs⟩
        simp only [List.filter, Op.isPrint, List.length_cons, List.getElem?_cons_succ]
        exact ht
    | new j g =>
      simp only [List.cons_append, acceptHistE] at hacc
      obtain ⟨t, ht, hs⟩ := ih _ outs k hf hacc
      exact ⟨t, by simpa [List.filter, Op.isPrint] using ht, hs⟩
    | drop j =>
      simp only [List.cons_append, acceptHistE] at hacc
      obtain ⟨t, ht, hs⟩ := ih _ outs k hf hacc
      exact ⟨t, by simpa [List.filter, Op.isPrint] using ht, hs⟩
    | edit j e =>
      simp only [List.cons_append, acceptHistE] at hacc
      obtain ⟨t, ht, hs⟩ := ih _ outs k hf hacc
      exact ⟨t, by simpa [List.filter, Op.isPrint] using ht, hs⟩
    | inspect j w =>
      simp only [List.cons_append, acceptHistE] at hacc
      obtain ⟨t, ht, hs⟩ := ih _ outs k hf hacc
      exact ⟨t, by simpa [List.filter, Op.isPrint] using ht, hs⟩

/-- What the driver answers on a `hist` line is `run` of the state machine: the
texts are those of `hist_print_current`. -/
theorem run_eq_printStates (names) (h : Heap) (ops : List Op) :
    run names h ops = (printStates h ops).map (fun st => st.map (fun p => render (printFile names p.1 p.2))) := by
  induction ops generalizing h with
  | nil => rfl
  | cons op ops ih =>
    cases op with
    | print j c =>
      simp only [run, printStates, List.map_cons, ih, printOut]
      cases h j <;> rfl
    | new j f => simp only [run, printStates]; exact ih _
    | drop j => simp only [run, printStates]; exact ih _
    | edit j e => simp only [run, printStates]; exact ih _
    | inspect j w => simp only [run, printStates]; exact ih _

/-! ### non-vacuity -/

private def s (x : String) : Txt := x.toList

private def vadd : Instr := ⟨s "VADDPD", [s "RN_SAE"], [s "Z1", s "Z2", s "Z3"], false, false⟩
private def vmul : Instr := ⟨s "VMULPD", [s "RN_SAE", s "Z"], [s "Z3", s "Z4", s "K1", s "Z5"], false, false⟩
private def ret : Instr := ⟨s "RET", [], [], true, false⟩
private def fround : Function := ⟨s "round", 0, 0, 0, [s "AVX512F"], s "func round()", [], [], [.instr vadd, .instr vmul, .instr ret]⟩
private def exF : File := ⟨false, [], [], [.fn fround]⟩
private def exC : Config := ⟨s "avo", none, s "p"⟩
private def exNames : List (Nat × String) := [(4, "NOSPLIT")]

/-- The history of the missed change: the file is printed, the rounding mode of
the two instructions is switched from RN_SAE to RZ_SAE (a list of the same
length), an inspection, a second print by another printer object: the first
text carries RN_SAE, the second RZ_SAE. -/
example :
    let ops : List Op := [.new 0 exF, .inspect 0 0, .print 0 exC,
      .edit 0 (.fn 0 (.instr 0 (.suffixes [s "RZ_SAE"]))), .edit 0 (.fn 0 (.instr 1 (.suffixes [s "RZ_SAE", s "Z"]))),
      .inspect 0 3, .print 0 exC]
    (run exNames Heap.empty ops).map (fun o => o.map String.ofList) =
      [some "// Code generated by avo. DO NOT EDIT.\n\n// func round()\n// Requires: AVX512F\nTEXT ·round(SB), $0\n\tVADDPD.RN_SAE   Z1, Z2, Z3\n\tVMULPD.RN_SAE.Z Z3, Z4, K1, Z5\n\tRET\n",
       some "// Code generated by avo. DO NOT EDIT.\n\n// func round()\n// Requires: AVX512F\nTEXT ·round(SB), $0\n\tVADDPD.RZ_SAE   Z1, Z2, Z3\n\tVMULPD.RZ_SAE.Z Z3, Z4, K1, Z5\n\tRET\n"] := by
  decide +kernel

example : (s "VADDPD", [s "RZ_SAE"], [s "Z1", s "Z2", s "Z3"]) ∈
    instrLines (printFunction exNames (applyFnEdit fround (.instr 0 (.suffixes [s "RZ_SAE"])))) :=
  edit_suffixes_printed exNames fround 0 vadd [s "RZ_SAE"] rfl

private structure SecView where
  name : String
  opcodes : List String
  labels : List (String × Nat)
  deriving DecidableEq

private def secView : SecSum → SecView
  | .fn q => ⟨String.ofList q.name, q.instrs.map (fun a => String.ofList a.1), q.labels.map (fun a => (String.ofList a.1, a.2))⟩
  | .gl q => ⟨String.ofList q.globl, [], []⟩

/-- What a reader of one printed text sees: number of includes, and per section name, opcodes, label binding. -/
private def readBack (o : Option Txt) : Option (Nat × List SecView) :=
  o.bind (fun t => (parseFile (lexText t)).map (fun p => (p.1.length, p.2.map secView)))

private def exG : File := ⟨false, [], [], [.fn ⟨s "g", 0, 8, 16, [], s "func g(x uint64) uint64", [], [],
  [.label (s "loop"), .instr ⟨s "ADDQ", [], [s "AX", s "BX"], false, false⟩, .instr ⟨s "JMP", [], [s "loop"], false, true⟩]⟩]⟩

private def exOps2 : List Op := [.new 0 exF, .new 1 exG, .print 1 exC, .print 0 exC,
  .edit 1 (.fn 0 (.setNode 0 (.label (s "again")))), .edit 1 (.fn 0 (.instr 2 (.operands [s "again"]))),
  .edit 1 (.fn 0 (.insNode 1 (.comment [s "body"]))), .edit 1 (.fn 0 (.instr 2 (.opcode (s "SUBQ")))),
  .edit 1 (.fn 0 (.attrs 4#16)), .edit 1 (.includes [s "textflag.h"]), .edit 1 (.constraints true [s "//go:build amd64"]),
  .print 1 exC, .edit 0 (.fn 0 (.delNode 1)), .edit 0 (.insSec 0 (.gl ⟨s "tbl", true, 0, 8, [⟨0, 8, s "$1"⟩]⟩)),
  .print 0 exC, .drop 1, .new 1 exF, .print 1 exC]

/-- Two files alternating; a label renamed, a node inserted and one removed, the
opcode and the operands changed, attributes, includes and constraints set, a
section added, the file dropped and another allocated in its slot: every print
is the rendering of the content at that moment (here: read back by the parser). -/
example :
    (run exNames Heap.empty exOps2).map readBack =
      [some (0, [⟨"g", ["ADDQ", "JMP"], [("loop", 0)]⟩]),
       some (0, [⟨"round", ["VADDPD.RN_SAE", "VMULPD.RN_SAE.Z", "RET"], []⟩]),
       some (1, [⟨"g", ["SUBQ", "JMP"], [("again", 0)]⟩]),
       some (0, [⟨"tbl<>(SB), 0, $8", [], []⟩, ⟨"round", ["VADDPD.RN_SAE", "RET"], []⟩]),
       some (0, [⟨"round", ["VADDPD.RN_SAE", "VMULPD.RN_SAE.Z", "RET"], []⟩])] := by
  decide +kernel

/-- The hypotheses of `hist_print_faithful` hold at the second print of the first history. -/
example : WFFile exNames exC (applyEdit exF (.fn 0 (.instr 0 (.suffixes [s "RZ_SAE"])))) := by decide

open Avo.Drv.C11 in
/-- The acceptor accepts the model's own texts of a history over a data file and
rejects the history when the second text is the stale first one. -/
example :
    let ops : List Op := [.new 0 exDataFile, .print 0 exCfg, .edit 0 (.includes ["go_asm.h".toList]), .print 0 exCfg]
    let outs := run Avo.Gen.attrname Heap.empty ops
    acceptHistE Heap.empty ops outs 0 = none ∧
    acceptHistE Heap.empty ops [outs[0]!, outs[0]!] 0 = some "bad-hist print=1 bad-includes" := by
  decide +kernel

end Avo.Print.Hist
