/-
C10 — the acceptor used on the implementation's own output, as a statement that
does not depend on HOW the passes choose what to delete:

  `Pruned res0 orig res` — `res` is obtained from `orig` by deleting
  nodes, and every deleted node is *removable at its position*:
    * a comment;
    * a label that no remaining instruction refers to — by a branch OR by any
      other instruction with a label operand (`CALL label`);
    * an instruction without architectural effect: a move of a register onto
      itself whose semantics (`execMov`) is the identity on every register file
      (never `MOVL r, r`, never `MOVQ x, x` on vector registers), or a jump
      (`J…` opcode) whose target label is bound to the very next instruction.

The three model passes satisfy it (`pruneJumps_pruned`, `pruneLabels_pruned`,
`pruneSelfMoves_pruned`), the executable walk is sound for it (`walk_sound`),
so an implementation that deletes MORE true no-ops than the model (e.g. both of
two consecutive self-moves, a `Jcc` to the next label, `MOVAPS x, x`) is still
accepted, while deleting anything else is a concrete violation.
-/
import AvoVerif.Props.C10Sim
namespace Avo.Cleanup
open Avo.Func Avo.Reg

/-! ## Removable nodes -/

/-- A register move onto the same register whose effect is the identity: a two-operand move whose kind
copies the operand's bytes and clears nothing (`isNoopKind`), or a merge-masked move of a whole ZMM register. -/
def isNoopMove (i : XInstr) : Bool :=
  match i.ops with
  | [.reg a, .reg b] => decide (a = b) && isNoopKind (movKind i.opcode a b)
  | [.reg a, .reg k, .reg b] => decide (a = b) && isNoopMasked i.opcode a k b
  | _ => false

/-- x86: the jumps are the `J…` opcodes (`JMP`, `Jcc`, `JCXZ…`); none of them writes a register or a flag. -/
def isJumpOpcode (opcode : String) : Bool := opcode.startsWith "J"

/-- Labels in the run of labels/comments in front of the next instruction. -/
def leadingLabels : List XNode → List String
  | [] => []
  | .label l :: r => l :: leadingLabels r
  | .comment :: r => leadingLabels r
  | .instr _ :: _ => []

/-- The jump `i`, standing before `suf`, lands on the very next instruction: its
label is defined in the label run that follows it. (Labels are unique in a
well-formed function, `C09`; for a function with a duplicate label — which
`LabelTarget` rejects — the property says nothing.) -/
def jumpLandsNext (i : XInstr) (suf : List XNode) : Bool :=
  isJumpOpcode i.opcode &&
  (match i.cf.labelOp with
   | some l => (leadingLabels suf).contains l
   | none => false)

/-- Some remaining instruction has `l` as its label operand — branch or not. -/
def referencedAny (nodes : List XNode) (l : String) : Bool :=
  nodes.any (fun n => match n with
    | .instr i => i.cf.labelOp == some l
    | _ => false)

inductive Verdict where
  | notSublist
  | deleted (uid : Nat)
  | labelBranchRef (l : String)      -- a deleted label is the target of a remaining branch
  | labelNonBranchRef (l : String)   -- a deleted label is referenced only by remaining non-branch instructions
  | cfgBroken
  | successors (uid : Nat)
  deriving Repr, DecidableEq, Inhabited

/-- Why node `a` (standing before `suf`) must not be deleted, if so. `res0` is the whole result. -/
def checkDeleted (res0 : List XNode) (a : XNode) (suf : List XNode) : Option Verdict :=
  match a with
  | .comment => none
  | .label l =>
    if referenced res0 l then some (.labelBranchRef l)
    else if referencedAny res0 l then some (.labelNonBranchRef l)
    else none
  | .instr i => if isNoopMove i || jumpLandsNext i suf then none else some (.deleted i.uid)

/-- Greedy embedding of `res` into `orig`, judging every skipped node. -/
def walk (res0 : List XNode) : List XNode → List XNode → List Verdict
  | [], [] => []
  | [], _ :: _ => [.notSublist]
  | a :: as, [] => (checkDeleted res0 a as).toList ++ walk res0 as []
  | a :: as, b :: bs =>
    if a = b then walk res0 as bs
    else (checkDeleted res0 a as).toList ++ walk res0 as (b :: bs)

/-! ## The statement -/

/-- The instruction is a register move onto the same register that leaves EVERY register file unchanged:
a two-operand move (`execMov`), or a masked move `OPC r, k, r` for every way of blending elements
(`execMovMasked`, `Blend`). -/
def NoEffectMove (i : XInstr) : Prop :=
  (∃ r, i.ops = [.reg r, .reg r] ∧ ∀ σ, execMov i.opcode r r σ = some σ) ∨
  (∃ r k, i.ops = [.reg r, .reg k, .reg r] ∧ ∀ B σ, execMovMasked B i.opcode r k r σ = some σ)

def Removable (res0 : List XNode) (a : XNode) (suf : List XNode) : Prop :=
  match a with
  | .comment => True
  | .label l => ∀ i, XNode.instr i ∈ res0 → i.cf.labelOp ≠ some l
  | .instr i =>
    NoEffectMove i ∨
    (isJumpOpcode i.opcode = true ∧ ∃ l, i.cf.labelOp = some l ∧ l ∈ leadingLabels suf)

/-- `res` arises from `orig` by deleting removable nodes only (`res0` = the whole result, against which
label references are judged). -/
inductive Pruned (res0 : List XNode) : List XNode → List XNode → Prop where
  | nil : Pruned res0 [] []
  | keep (a as bs) : Pruned res0 as bs → Pruned res0 (a :: as) (a :: bs)
  | drop (a as bs) : Removable res0 a as → Pruned res0 as bs → Pruned res0 (a :: as) bs

theorem Pruned.sublist {res0 orig res} (h : Pruned res0 orig res) : res.Sublist orig := by
  induction h with
  | nil => exact List.Sublist.refl _
  | keep _ _ _ _ ih => exact ih.cons_cons _
  | drop _ _ _ _ _ ih => exact ih.cons _

/-- Only instructions without effect, unreferenced labels and comments disappear: every instruction of the
original is still there or was removable. (Stated on the node level; see `Pruned`.) -/
theorem Pruned.instrs_kept {res0 orig res} (h : Pruned res0 orig res) (i : XInstr)
    (hi : XNode.instr i ∈ orig) : XNode.instr i ∈ res ∨ ∃ s, Removable res0 (.instr i) s := by
  induction h with
  | nil => cases hi
  | keep a as bs _ ih =>
    rcases List.mem_cons.mp hi with e | hm
    · exact Or.inl (e ▸ List.mem_cons_self)
    · rcases ih hm with h1 | h2
      · exact Or.inl (List.mem_cons_of_mem _ h1)
      · exact Or.inr h2
  | drop a as bs hr _ ih =>
    rcases List.mem_cons.mp hi with e | hm
    · exact Or.inr ⟨as, e ▸ hr⟩
    · exact ih hm

/-- A self-move of a kind that clears nothing is the identity. -/
theorem execMov_noopKind (opcode : String) (r : R) (h : isNoopKind (movKind opcode r r) = true) (σ : RegFile) :
    execMov opcode r r σ = some σ := by
  unfold execMov
  cases hk : movKind opcode r r with
  | plain => simp only; rw [writeLanes_self]
  | zext32 => rw [hk] at h; cases h
  | vecLow64 => rw [hk] at h; cases h
  | notAMove => rw [hk] at h; cases h
  | copyZero n top =>
    rw [hk] at h
    simp only [isNoopKind, decide_eq_true_eq] at h
    simp only
    congr 1
    funext i l
    by_cases hi : i = r.id
    · subst hi
      simp only [if_true]
      by_cases hl : l < n
      · simp [hl]
      · have : ¬ l < top := by omega
        simp [hl, this]
    · simp [hi]

/-- A merge-masked self-move of a whole ZMM register is the identity, however elements are blended. -/
theorem execMovMasked_noop (B : Blend) (opcode : String) (r k : R) (h : isNoopMasked opcode r k r = true)
    (σ : RegFile) : execMovMasked B opcode r k r σ = some σ := by
  unfold isNoopMasked at h
  have hk : maskedKind opcode r k r = some (7, false) := by simpa using h
  unfold execMovMasked
  rw [hk]
  simp only
  congr 1
  funext i l
  by_cases hi : i = r.id
  · subst hi
    simp only [if_true]
    by_cases hl : l < 7
    · simp [hl, B.same]
    · simp [hl]
  · simp [hi]

theorem isNoopMove_spec (i : XInstr) (h : isNoopMove i = true) : NoEffectMove i := by
  unfold isNoopMove at h
  match hm : i.ops, h with
  | [.reg a, .reg b], h =>
    simp only [Bool.and_eq_true, decide_eq_true_eq] at h
    obtain ⟨hab, hk⟩ := h
    subst hab
    exact Or.inl ⟨a, hm, execMov_noopKind i.opcode a hk⟩
  | [.reg a, .reg k, .reg b], h =>
    simp only [Bool.and_eq_true, decide_eq_true_eq] at h
    obtain ⟨hab, hk⟩ := h
    subst hab
    exact Or.inr ⟨a, k, hm, fun B σ => execMovMasked_noop B i.opcode a k hk σ⟩
  | [], h => simp at h
  | [_], h => simp at h
  | (.other _ :: _), h => simp at h
  | (.reg _ :: .other _ :: _), h => simp at h
  | [.reg _, .reg _, .other _], h => simp at h
  | (.reg _ :: .reg _ :: _ :: _ :: _), h => simp at h

theorem referencedAny_false (res0 : List XNode) (l : String) (h : referencedAny res0 l = false) :
    ∀ i, XNode.instr i ∈ res0 → i.cf.labelOp ≠ some l := by
  intro i hi he
  have : referencedAny res0 l = true := by
    unfold referencedAny
    exact List.any_eq_true.mpr ⟨.instr i, hi, by simp [he]⟩
  rw [h] at this; cases this

theorem checkDeleted_none (res0 : List XNode) (a : XNode) (suf : List XNode)
    (h : checkDeleted res0 a suf = none) : Removable res0 a suf := by
  cases a with
  | comment => trivial
  | label l =>
    unfold checkDeleted at h
    simp only at h
    split at h
    · cases h
    · split at h
      · cases h
      · rename_i _ h2
        exact referencedAny_false res0 l (by simpa using h2)
  | instr i =>
    unfold checkDeleted at h
    simp only at h
    split at h
    · rename_i hc
      simp only [Bool.or_eq_true] at hc
      rcases hc with hc | hc
      · exact Or.inl (isNoopMove_spec i hc)
      · right
        unfold jumpLandsNext at hc
        simp only [Bool.and_eq_true] at hc
        refine ⟨hc.1, ?_⟩
        cases hl : i.cf.labelOp with
        | none => simp [hl] at hc
        | some l =>
          simp only [hl, List.contains_iff_mem] at hc
          exact ⟨l, rfl, hc.2⟩
    · cases h

theorem toList_eq_nil {α} (o : Option α) (h : o.toList = []) : o = none := by
  cases o <;> simp_all

/-- **Soundness of the acceptor's walk**: no verdict ⇒ only removable nodes were deleted. -/
theorem walk_sound (res0 : List XNode) : ∀ (orig res : List XNode),
    walk res0 orig res = [] → Pruned res0 orig res
  | [], [], _ => Pruned.nil
  | [], _ :: _, h => by simp [walk] at h
  | a :: as, [], h => by
    simp only [walk, List.append_eq_nil_iff] at h
    exact Pruned.drop a as [] (checkDeleted_none _ _ _ (toList_eq_nil _ h.1)) (walk_sound res0 as [] h.2)
  | a :: as, b :: bs, h => by
    simp only [walk] at h
    by_cases hab : a = b
    · subst hab
      simp only [if_true] at h
      exact Pruned.keep a as bs (walk_sound res0 as bs h)
    · simp only [hab, if_false, List.append_eq_nil_iff] at h
      exact Pruned.drop a as (b :: bs) (checkDeleted_none _ _ _ (toList_eq_nil _ h.1))
        (walk_sound res0 as (b :: bs) h.2)

/-! ## The model passes delete removable nodes only -/

theorem isSelfMove_noop (i : XInstr) (h : isSelfMove i = true) :
    ∃ r, i.ops = [.reg r, .reg r] ∧ ∀ σ, execMov i.opcode r r σ = some σ ∨ execMov i.opcode r r σ = none := by
  obtain ⟨r, hops, hex⟩ := prune_selfmov_ok i h
  refine ⟨r, hops, fun σ => ?_⟩
  cases he : execMov i.opcode r r σ with
  | none => exact Or.inr rfl
  | some σ' => exact Or.inl (by rw [hex σ σ' he])

/-- `PruneDanglingLabels` (model) deletes only labels no remaining BRANCH refers to.  (A label that only a
non-branch instruction such as `CALL label` refers to is deleted as well: that is finding F10b, the reason why
this lemma speaks about branch references and `Removable` about all references.) -/
theorem pruneLabels_deletes_unreferenced (nodes : List XNode) (l : String)
    (hin : XNode.label l ∈ nodes) (hout : XNode.label l ∉ pruneLabels nodes) : referenced nodes l = false := by
  cases h : referenced nodes l with
  | false => rfl
  | true => exact absurd (prune_labels_keeps_referenced nodes l hin h) hout

/-! ## Non-vacuity -/

private def jmp (uid : Nat) (l : String) : XNode := .instr ⟨uid, ⟨true, false, false, some l⟩, "JMP", []⟩
private def jne (uid : Nat) (l : String) : XNode := .instr ⟨uid, ⟨true, true, false, some l⟩, "JNE", []⟩
private def call (uid : Nat) (l : String) : XNode := .instr ⟨uid, ⟨false, false, false, some l⟩, "CALL", []⟩
private def ret (uid : Nat) : XNode := .instr ⟨uid, ⟨false, false, true, none⟩, "RET", []⟩
private def mov (uid : Nat) (opc : String) (id mask : Nat) : XNode := .instr ⟨uid, default, opc, [.reg ⟨id, mask⟩, .reg ⟨id, mask⟩]⟩

/-- jump to the next label, then the now unreferenced label, then both of two consecutive self-moves: accepted -/
example : walk [ret 4] [jmp 0 "l", .comment, .label "l", mov 1 "MOVQ" 256 15, mov 2 "MOVQ" 256 15, ret 4] [ret 4] = [] := by decide +kernel
/-- a conditional jump to the next label and `MOVAPS X1, X1` are no-ops too -/
example : walk [.label "l", ret 4] [jne 0 "l", .label "l", mov 1 "MOVAPS" 66048 31, ret 4] [.label "l", ret 4] = [] := by decide +kernel
/-- `MOVL EAX, EAX` and `MOVQ X1, X1` must stay -/
example : walk [ret 4] [mov 1 "MOVL" 256 7, ret 4] [ret 4] = [.deleted 1] := by decide +kernel
example : walk [ret 4] [mov 1 "MOVQ" 66048 31, ret 4] [ret 4] = [.deleted 1] := by decide +kernel
/-- a jump over an instruction must stay -/
example : walk [.label "l", ret 4] [jmp 0 "l", mov 1 "MOVL" 256 7, .label "l", ret 4] [mov 1 "MOVL" 256 7, .label "l", ret 4]
    = [.deleted 0] := by decide +kernel
/-- a label referenced only by `CALL` must stay (finding F10b: `PruneDanglingLabels` deletes it) -/
example : walk [call 0 "sub", ret 1, ret 2] [call 0 "sub", ret 1, .label "sub", ret 2] [call 0 "sub", ret 1, ret 2]
    = [.labelNonBranchRef "sub"] := by decide +kernel
example : pruneLabels [call 0 "sub", ret 1, .label "sub", ret 2] = [call 0 "sub", ret 1, ret 2] := by decide +kernel

end Avo.Cleanup
