/-
C11: non-vacuity.  A concrete file that satisfies the hypotheses of
`print_faithful`, and what the theorems say on it.
-/
import AvoVerif.Props.C11Tables
namespace Avo.Print
open Avo.Attr

def exNames : List (Nat × String) := [(4, "NOSPLIT"), (8, "RODATA"), (16, "NOPTR")]

def exCfg : Config := ⟨['a', 'v', 'o'], none, ['p']⟩

def exFn : Function :=
  { name := ['f'], attrs := 4#16, frame := 16, args := 8, isa := [['A', 'V', 'X']],
    stub := "func f(x uint64)".toList, doc := [], pragmas := [],
    nodes := [.instr ⟨"MOVQ".toList, [], ["x+0(FP)".toList, "AX".toList], false, false⟩,
              .label "loop".toList,
              .instr ⟨"DECQ".toList, [], ["AX".toList], false, false⟩,
              .instr ⟨"VZEROUPPER".toList, [], [], false, false⟩,
              .instr ⟨"JNE".toList, [], ["loop".toList], false, false⟩,
              .instr ⟨"JMP".toList, [], ["done".toList], false, true⟩,
              .comment ["unreachable".toList],
              .label "done".toList,
              .instr ⟨"VADDPD".toList, [['Z']], ["Z1".toList, "Z2".toList, "K1".toList, "Z3".toList], false, false⟩,
              .instr ⟨"RET".toList, [], [], true, false⟩,
              .label "end".toList] }

def exGl : Global := ⟨"tbl".toList, true, 24#16, 8, [⟨0, 8, "$0x0000000000000001".toList⟩]⟩

def exFile : File := ⟨true, ["//go:build amd64".toList], ["textflag.h".toList], [.fn exFn, .gl exGl]⟩

/-- The instruction lines are the function's instructions, each once, in order. -/
example : instrLines (printFunction exNames exFn) = (instrsOf exFn.nodes).map Instr.key3 :=
  flush_complete_function exNames exFn

/-- Blocks: MOVQ alone (flushed at the label), then DECQ/VZEROUPPER/JNE/JMP with
width 4 (VZEROUPPER has no operands and does not count), then VADDPD.Z/RET. -/
example : (printNodes exFn.nodes [] true).filterMap (fun l => match l with
    | .instr o _ _ w => some (o, w) | _ => none) =
    [("MOVQ".toList, 4), ("DECQ".toList, 4), ("VZEROUPPER".toList, 4), ("JNE".toList, 4), ("JMP".toList, 4),
     ("VADDPD".toList, 8), ("RET".toList, 8)] := by decide

/-- Label bindings: loop → instruction 1, done → 5, end → 7 (past the last). -/
example : labelsFrom exFn.nodes 0 = [("loop".toList, 1), ("done".toList, 5), ("end".toList, 7)] := by decide

theorem exFile_wf : WFFile exNames exCfg exFile := by decide

/-- `print_faithful` applies to the example (its hypotheses are satisfiable). -/
example : parseFile (lexText (render (printFile exNames exCfg exFile))) = some (fileSum exNames exFile) :=
  print_faithful exNames exCfg exFile exFile_wf

/-- The rendered TEXT line of the example. -/
example : renderLine (.text exFn.name (textClause exNames exFn.attrs) exFn.frame exFn.args) =
    "TEXT ·f(SB), NOSPLIT, $16-8".toList := by decide

end Avo.Print
