import AvoVerif.Props.C04Rows
import AvoVerif.Gen.FormActions_04
namespace Avo.FormActions.Tables
open Avo.FormActions Avo.Gen
/-- every row of shard 4 of the regenerated form table passes every structural check -/
theorem shard_04 : formActions_04.all rowOK = true := by decide +kernel
end Avo.FormActions.Tables
