/-
C01, composed: liveness (C02) + allocation on the models give exactly the
hypotheses of the preservation theorem — for every program.
-/
import AvoVerif.Props.C01Tables
import AvoVerif.Props.C02Term
import AvoVerif.Props.C09
import AvoVerif.Props.C03Pipeline
namespace Avo.Pipeline
open Avo.Reg Avo.MaskSet Avo.Live Avo.LiveBool Avo.Alloc Avo.AllocCheck Avo.Machine

/-- The checked program made of a liveness input and the analysis result. -/
def cAt (P : LProg) (st : LState) (i : Nat) : CInstr :=
  ⟨(P.getD i default).uses, (P.getD i default).defs, (P.getD i default).succ, getMS st.ins i, getMS st.outs i⟩

def toCProg (P : LProg) (st : LState) : CProg := (Array.range P.size).map (cAt P st)

theorem toCProg_size (P : LProg) (st : LState) : (toCProg P st).size = P.size := by simp [toCProg]

theorem toCProg_get (P : LProg) (st : LState) (i : Nat) (hi : i < P.size) :
    (toCProg P st).getD i default = cAt P st i := by
  simp [toCProg, Array.getD_eq_getD_getElem?, hi]

/-- every lane of `a` in `b` ⇒ the executable subset test succeeds -/
theorem subsetMS_of_mem (a b : MS) (h : ∀ id lane, mem a id lane = true → mem b id lane = true) :
    subsetMS a b = true := by
  unfold subsetMS
  apply List.all_eq_true.mpr
  intro p hp
  rcases p with ⟨k, v⟩
  simp only [beq_iff_eq]
  apply Nat.eq_of_testBit_eq
  intro lane
  rw [Nat.testBit_and]
  cases hv : v.testBit lane with
  | false => simp
  | true =>
    have hm : mem a k lane = true := by
      unfold mem
      have := get_entry_sub a k v hp
      have h2 := congrArg (fun x => x.testBit lane) this
      simp only [Nat.testBit_and, hv, Bool.and_true] at h2
      exact h2
    have := h k lane hm
    unfold mem at this
    simp [this]

/-- **The liveness result is a post-fixpoint** in the executable sense required
by the allocation acceptor — for every well-formed program. -/
theorem liveness_postfix (P : LProg) (hwf : WF P) :
    checkPostFix (toCProg P (liveness P (fuelBound P)).1) = true := by
  have hstop := liveness_terminates P
  have hlt : ∀ j ∈ order P, j < P.size := fun j hj => (mem_order P j).mp hj
  have hsz : Sized P (initState P) := by simp [Sized, initState]
  have hs0 : ∀ id lane, Sound (progAt P id lane) (proj (initState P) id lane) := by
    intro id lane; rw [proj_init]; intro j; exact ⟨fun h => LiveIn.here h, fun h => by cases h⟩
  have hi0 : ∀ id lane, Infl (progAt P id lane) (proj (initState P) id lane) := by
    intro id lane; rw [proj_init]; intro j hj; exact hj
  obtain ⟨_, hinf, hfix⟩ := iter_result P (order P) hlt (fuelBound P) _ hsz hs0 hi0 hstop
  generalize hst : (liveness P (fuelBound P)).1 = st at *
  have hst' : (iter P (order P) (fuelBound P) (initState P)).1 = st := hst
  rw [hst'] at hinf hfix
  unfold checkPostFix
  apply List.all_eq_true.mpr
  intro c hc
  rw [Array.mem_toList_iff] at hc
  obtain ⟨i, hi, hci⟩ := Array.mem_iff_getElem.mp hc
  have hiP : i < P.size := by rw [toCProg_size] at hi; exact hi
  have hcg : c = cAt P st i := by
    rw [← toCProg_get P st i hiP, ← hci]
    simp [Array.getD_eq_getD_getElem?, hi]
  subst hcg
  have hfi := fun id lane => hfix i ((mem_order P i).mpr hiP) id lane
  unfold checkPostFixAt cAt
  simp only [Bool.and_eq_true]
  refine ⟨⟨?_, ?_⟩, ?_⟩
  · -- use ⊆ in
    apply subsetMS_of_mem
    intro id lane hm
    rw [mem_ofRegs] at hm
    exact hinf id lane i hm
  · -- out ∖ def ⊆ in
    apply subsetMS_of_mem
    intro id lane hm
    rw [mem_difference, mem_ofRegs] at hm
    have hm' := Bool.and_eq_true _ _ |>.mp hm
    obtain ⟨fo, fi⟩ := hfi id lane
    have hout : (proj st id lane).outS i = true := hm'.1
    have hnd : (progAt P id lane).dfn i = false := by simpa [progAt, covers] using hm'.2
    have : LiveBool.newIn (progAt P id lane) (proj st id lane) i = true := by
      unfold LiveBool.newIn; rw [fo, hout, hnd]; simp
    rw [fi] at this; exact this
  · -- in(succ) ⊆ out
    apply List.all_eq_true.mpr
    intro s hs
    cases s with
    | none => rfl
    | some s =>
      have hsP : s < P.size := hwf i hiP s hs
      simp only [Bool.and_eq_true, decide_eq_true_eq]
      refine ⟨by rw [toCProg_size]; exact hsP, ?_⟩
      apply subsetMS_of_mem
      intro id lane hm
      have hin : (proj st id lane).inS s = true := by
        unfold liveInAt at hm
        rw [toCProg_get P st s hsP] at hm
        exact hm
      obtain ⟨fo, _⟩ := hfi id lane
      show (proj st id lane).outS i = true
      rw [← fo]; unfold LiveBool.newOut
      have : (progAt P id lane).succ i = (P.getD i default).succ.filterMap (fun x => x) := rfl
      have hmem : s ∈ (progAt P id lane).succ i := by
        rw [this]; exact List.mem_filterMap.mpr ⟨some s, hs, rfl⟩
      have : ((progAt P id lane).succ i).any (proj st id lane).inS = true :=
        List.any_eq_true.mpr ⟨s, hmem, hin⟩
      simp [this]

/-- **C01 for the model of the whole pipeline.** For every program (any CFG,
any use/def sets): run the liveness model to its fixed point, run the allocator
model on avo's register file with the resulting live-out sets; if it returns an
allocation `A`, then for every meaning of the instructions that depends only on
the declared use slots, and all initial states agreeing on what is live at
entry, the allocated program and the private-storage program have the same
memory and control at every step. -/
theorem pipeline_preserves (P : LProg) (hwf : WF P) (is : List AInstr) (A : List (Nat × Nat))
    (his : ∀ i, i < P.size → ∃ a ∈ is, a.outs = (P.getD i default).defs ∧
        a.liveOut = getMS (liveness P (fuelBound P)).1.outs i)
    (hA : allocate Avo.Gen.regs is = .ok A)
    (sems : Nat → List Val → Mem → List Val × Mem × Nat)
    (hsem : WFSem (toProg (toCProg P (liveness P (fuelBound P)).1) sems))
    (σ σ' : State Loc) (h0 : Rel (liveOf (toCProg P (liveness P (fuelBound P)).1)) (ρ A) σ σ') (k : Nat) :
    let Q := toProg (toCProg P (liveness P (fuelBound P)).1) sems
    (run Q k σ).mem = (run (rename (ρ A) Q) k σ').mem ∧ (run Q k σ).pc = (run (rename (ρ A) Q) k σ').pc := by
  intro Q
  have hpf := liveness_postfix P hwf
  have hv := (avo_alloc_valid_installed is A hA (toCProg P (liveness P (fuelBound P)).1) (by
    intro c hc
    rw [Array.mem_toList_iff] at hc
    obtain ⟨i, hi, hci⟩ := Array.mem_iff_getElem.mp hc
    have hiP : i < P.size := by rw [toCProg_size] at hi; exact hi
    obtain ⟨a, ha, ho, hl⟩ := his i hiP
    refine ⟨a, ha, ?_, ?_⟩
    · rw [ho, ← hci]; simp [toCProg, cAt]
    · rw [hl, ← hci]; simp [toCProg, cAt])).1
  exact accepted_preserves _ A sems hpf hv hsem σ σ' h0 k

end Avo.Pipeline

namespace Avo.Pipeline
open Avo.Reg Avo.Live Avo.Func

/-- The liveness input made of a CFG (C09) and per-instruction use/def lists. -/
def mkLProg (g : Graph) (ud : List (List R × List R)) : LProg :=
  ((List.range ud.length).map (fun i => (⟨(ud.getD i ([], [])).1, (ud.getD i ([], [])).2, g.succ.getD i []⟩ : LInstr))).toArray

/-- **C09 ⇒ the hypothesis of C02/C01.** The program handed to liveness after a
successful `LabelTarget`/`CFG` is well formed: every successor is an
instruction of the function. Hence `liveness_exact_total`, `liveness_postfix`
and `pipeline_preserves` apply to every function the CFG pass accepts. -/
theorem mkLProg_wf (nodes : List Node) (g : Graph) (h : buildCFG nodes = .ok g)
    (ud : List (List R × List R)) (hlen : ud.length = (instrs nodes).length) : WF (mkLProg g ud) := by
  intro i hi s hs
  have hsz : (mkLProg g ud).size = ud.length := by simp [mkLProg]
  rw [hsz] at hi ⊢
  have hget : ((mkLProg g ud).getD i default).succ = g.succ.getD i [] := by
    simp [mkLProg, Array.getD_eq_getD_getElem?, hi]
  rw [hget] at hs
  rw [hlen]
  exact buildCFG_succ_in_range nodes g h i (by rw [← hlen]; exact hi) s hs

end Avo.Pipeline

/-! ### From the renamed program to the program BindRegisters produces (composition with C03) -/
namespace Avo.Pipeline
open Avo.Reg Avo.MaskSet Avo.Live Avo.Alloc Avo.AllocCheck Avo.Machine

theorem locsOf_of_id_mask (A : List (Nat × Nat)) (o b : R) (hid : b.id = lookupDefault A o.id) (hm : b.mask = o.mask) :
    locsOf b = (locsOf o).map (ρ A) := by
  unfold locsOf
  rw [hid, hm, List.map_map]
  rfl

/-- **Binding a register is renaming its byte locations**: what the statement of C03 (`BoundOK`) says about the
register found after `BindRegisters` is exactly that its locations are the `ρ A`-images of the original ones. -/
theorem locsOf_bound (tbl : List RegRow) (A : List (Nat × Nat)) (o b : R) (hs : checkAllocShape A = true)
    (h : BoundOK tbl A o b) : locsOf b = (locsOf o).map (ρ A) := by
  obtain ⟨_, hphys, hvirt⟩ := h
  by_cases hv : idIsVirtual o.id = true
  · obtain ⟨p, row, hf, _, hb, hid, hm, _, _⟩ := hvirt hv
    apply locsOf_of_id_mask
    · rw [hb]; simp only [lookupDefault, hf]; exact hid
    · rw [hb]; exact hm
  · have hv' : idIsVirtual o.id = false := by simpa using hv
    rw [hphys hv']
    exact locsOf_of_id_mask A o o (lookupDefault_phys A hs o.id hv').symm rfl

/-- `locsOf (bindReg … r) = (locsOf r).map ρ` for whatever the allocator model returns. -/
theorem locsOf_bindReg (is : List AInstr) (A : List (Nat × Nat)) (h : allocate Avo.Gen.regs is = .ok A)
    (o b : R) (hb : bindReg Avo.Gen.regs A o = some b) : locsOf b = (locsOf o).map (ρ A) :=
  locsOf_bound _ A o b (avo_alloc_valid_installed is A h #[] (by intro c hc; simp at hc)).2
    (compile_bound_ok is A h o b hb)

/-- `bs` is `os` bound register by register with the model of `BindRegisters`. -/
def BoundList (A : List (Nat × Nat)) : List R → List R → Prop
  | [], [] => True
  | o :: os, b :: bs => bindReg Avo.Gen.regs A o = some b ∧ BoundList A os bs
  | _, _ => False

/-- `c'` is instruction `c` after `BindRegisters`: every declared input and output register replaced by what the
bind model returns; control flow untouched. -/
def BoundInstr (A : List (Nat × Nat)) (c c' : CInstr) : Prop :=
  BoundList A c.uses c'.uses ∧ BoundList A c.defs c'.defs ∧ c'.succ = c.succ

instance decBoundList (A : List (Nat × Nat)) : (xs ys : List R) → Decidable (BoundList A xs ys)
  | [], [] => isTrue trivial
  | o :: os, b :: bs =>
    have := decBoundList A os bs
    inferInstanceAs (Decidable (bindReg Avo.Gen.regs A o = some b ∧ BoundList A os bs))
  | [], _ :: _ => isFalse (fun h => h)
  | _ :: _, [] => isFalse (fun h => h)

instance (A : List (Nat × Nat)) (c c' : CInstr) : Decidable (BoundInstr A c c') := by
  unfold BoundInstr; infer_instance

theorem flatMap_locs_bound (A : List (Nat × Nat))
    (hR : ∀ o b, bindReg Avo.Gen.regs A o = some b → locsOf b = (locsOf o).map (ρ A)) :
    ∀ xs ys, BoundList A xs ys → ys.flatMap locsOf = (xs.flatMap locsOf).map (ρ A)
  | [], [], _ => rfl
  | o :: os, b :: bs, h => by
    simp only [List.flatMap_cons, List.map_append, hR _ _ h.1, flatMap_locs_bound A hR os bs h.2]
  | [], _ :: _, h => by cases h
  | _ :: _, [], h => by cases h

theorem toInstr_bound (is : List AInstr) (A : List (Nat × Nat)) (h : allocate Avo.Gen.regs is = .ok A)
    (c c' : CInstr) (hb : BoundInstr A c c') (sem : List Val → Mem → List Val × Mem × Nat) :
    toInstr sem c' = renameI (ρ A) (toInstr sem c) := by
  obtain ⟨hu, hd, hs⟩ := hb
  have hR := fun o b hb => locsOf_bindReg is A h o b hb
  simp only [toInstr, renameI, flatMap_locs_bound A hR _ _ hu, flatMap_locs_bound A hR _ _ hd, hs]

/-- The program whose registers were bound instruction by instruction IS the renamed program of the preservation theorem. -/
theorem bound_prog_is_renamed (is : List AInstr) (A : List (Nat × Nat)) (h : allocate Avo.Gen.regs is = .ok A)
    (P P' : CProg) (hsz : P'.size = P.size)
    (hb : ∀ n, n < P.size → BoundInstr A (P.getD n default) (P'.getD n default))
    (sems : Nat → List Val → Mem → List Val × Mem × Nat) :
    toProg P' sems = rename (ρ A) (toProg P sems) := by
  unfold toProg rename
  congr 1
  funext n
  by_cases hn : n < P.size
  · have hn' : n < P'.size := by omega
    have h1 : P[n]? = some (P.getD n default) := by simp [Array.getD_eq_getD_getElem?, hn]
    have h2 : P'[n]? = some (P'.getD n default) := by simp [Array.getD_eq_getD_getElem?, hn']
    simp only [h1, h2, Option.map_some]
    rw [toInstr_bound is A h _ _ (hb n hn)]
  · have hn' : ¬ n < P'.size := by omega
    simp [hn, hn']

/-- **C01 for the code that is emitted.** As `pipeline_preserves`, but the second execution runs the program `P'`
obtained by binding every declared register with the model of `BindRegisters` (the program C03's statement speaks
about), not an abstractly renamed one. -/
theorem compiled_preserves (P : LProg) (hwf : WF P) (is : List AInstr) (A : List (Nat × Nat))
    (his : ∀ i, i < P.size → ∃ a ∈ is, a.outs = (P.getD i default).defs ∧
        a.liveOut = getMS (liveness P (fuelBound P)).1.outs i)
    (hA : allocate Avo.Gen.regs is = .ok A)
    (P' : CProg) (hsz : P'.size = P.size)
    (hb : ∀ n, n < P.size → BoundInstr A ((toCProg P (liveness P (fuelBound P)).1).getD n default) (P'.getD n default))
    (sems : Nat → List Val → Mem → List Val × Mem × Nat)
    (hsem : WFSem (toProg (toCProg P (liveness P (fuelBound P)).1) sems))
    (σ σ' : State Loc) (h0 : Rel (liveOf (toCProg P (liveness P (fuelBound P)).1)) (ρ A) σ σ') (k : Nat) :
    let Q := toProg (toCProg P (liveness P (fuelBound P)).1) sems
    (run Q k σ).mem = (run (toProg P' sems) k σ').mem ∧ (run Q k σ).pc = (run (toProg P' sems) k σ').pc := by
  intro Q
  have hren := bound_prog_is_renamed is A hA (toCProg P (liveness P (fuelBound P)).1) P'
    (by rw [toCProg_size]; exact hsz) (by intro n hn; rw [toCProg_size] at hn; exact hb n hn) sems
  rw [hren]
  exact pipeline_preserves P hwf is A his hA sems hsem σ σ' h0 k

end Avo.Pipeline

/-! ### The whole chain with every hypothesis discharged, and non-vacuity -/
namespace Avo.Pipeline
open Avo.Reg Avo.MaskSet Avo.Live Avo.Alloc Avo.AllocCheck Avo.Machine Avo.Func

/-- What `AllocateRegisters` is given for a liveness input: per instruction the registers, the outputs and the
live-out set computed by the liveness model. -/
def aInstrsOf (P : LProg) : List AInstr :=
  (List.range P.size).map (fun i => ⟨(P.getD i default).uses ++ (P.getD i default).defs, (P.getD i default).defs,
    getMS (liveness P (fuelBound P)).1.outs i, []⟩)

theorem aInstrsOf_spec (P : LProg) (i : Nat) (hi : i < P.size) :
    ∃ a ∈ aInstrsOf P, a.outs = (P.getD i default).defs ∧ a.liveOut = getMS (liveness P (fuelBound P)).1.outs i :=
  ⟨_, List.mem_map.mpr ⟨i, List.mem_range.mpr hi, rfl⟩, rfl, rfl⟩

/-- **C01, closed form.** For every well-formed program that reads only register bytes it has written: if the
allocator model succeeds on the liveness model's result, then — for every instruction meaning that is a function of
the declared reads, from the first instruction, with equal memory and equal physical registers, whatever the private
storage of the virtual registers holds — the private-storage execution and the execution of the bound program agree
on memory and control at every step. No premise about liveness, validity of the allocation or the initial relation
is left. -/
theorem compiled_preserves_from_entry (P : LProg) (hwf : WF P) (A : List (Nat × Nat))
    (hA : allocate Avo.Gen.regs (aInstrsOf P) = .ok A)
    (he : checkEntry (toCProg P (liveness P (fuelBound P)).1) = true)
    (P' : CProg) (hsz : P'.size = P.size)
    (hb : ∀ n, n < P.size → BoundInstr A ((toCProg P (liveness P (fuelBound P)).1).getD n default) (P'.getD n default))
    (sems : Nat → List Val → Mem → List Val × Mem × Nat)
    (hsem : WFSem (toProg (toCProg P (liveness P (fuelBound P)).1) sems))
    (σ σ' : State Loc) (hpc : σ.pc = some 0) (hpc' : σ'.pc = some 0) (hmem : σ.mem = σ'.mem)
    (hphys : ∀ ℓ : Loc, idIsVirtual ℓ.1 = false → σ.regs ℓ = σ'.regs ℓ) (k : Nat) :
    let Q := toProg (toCProg P (liveness P (fuelBound P)).1) sems
    (run Q k σ).mem = (run (toProg P' sems) k σ').mem ∧ (run Q k σ).pc = (run (toProg P' sems) k σ').pc :=
  compiled_preserves P hwf (aInstrsOf P) A (aInstrsOf_spec P) hA P' hsz hb sems hsem σ σ'
    (entry_rel _ A he (avo_alloc_valid_installed _ A hA #[] (by intro c hc; simp at hc)).2 σ σ' hpc hpc' hmem hphys) k

/-- A three-instruction loop: `v := …; w := f(v); use v.8L, w; branch back to the second instruction or leave`. -/
def exP : LProg :=
  #[⟨[], [⟨257, 15⟩], [some 1]⟩, ⟨[⟨257, 15⟩], [⟨65793, 15⟩], [some 2]⟩, ⟨[⟨257, 1⟩, ⟨65793, 15⟩], [], [some 1, none]⟩]

theorem exP_wf : WF exP := by
  intro i hi s hs
  have hi' : i < 3 := hi
  have : i = 0 ∨ i = 1 ∨ i = 2 := by omega
  show s < 3
  rcases this with rfl | rfl | rfl
  · have : s = 1 := by simpa [exP] using hs
    omega
  · have : s = 2 := by simpa [exP] using hs
    omega
  · have : s = 1 := by simpa [exP] using hs
    omega

theorem exP_allocates : allocate Avo.Gen.regs (aInstrsOf exP) = .ok [(257, 256), (65793, 65792)] := by
  have h : (allocate Avo.Gen.regs (aInstrsOf exP)).toOption = some [(257, 256), (65793, 65792)] := by decide +kernel
  cases hx : allocate Avo.Gen.regs (aInstrsOf exP) with
  | error e => rw [hx] at h; simp [Except.toOption] at h
  | ok a => rw [hx] at h; simp [Except.toOption] at h; rw [h]

/-- the bound program: v ↦ RAX, w ↦ RCX -/
def exP' : CProg :=
  #[⟨[], [⟨256, 15⟩], [some 1], [], []⟩, ⟨[⟨256, 15⟩], [⟨65792, 15⟩], [some 2], [], []⟩,
    ⟨[⟨256, 1⟩, ⟨65792, 15⟩], [], [some 1, none], [], []⟩]

/-- Non-vacuity of `liveness_postfix`, `avo_alloc_valid_installed`, `pipeline_preserves`, `compiled_preserves` and
`compiled_preserves_from_entry`: all hypotheses hold for `exP`, `exP'`, a meaning that returns one value per
definition, and one initial state for both executions. -/
example (k : Nat) :
    let sems : Nat → List Val → Mem → List Val × Mem × Nat :=
      fun n vs m => (List.replicate (((toCProg exP (liveness exP (fuelBound exP)).1).getD n default).defs.flatMap locsOf).length vs.sum, m, vs.sum % 2)
    let σ : State Loc := ⟨fun _ => 7, fun _ => 0, some 0⟩
    (run (toProg (toCProg exP (liveness exP (fuelBound exP)).1) sems) k σ).mem = (run (toProg exP' sems) k σ).mem := by
  intro sems σ
  refine (compiled_preserves_from_entry exP exP_wf _ exP_allocates (by decide +kernel) exP' rfl ?_ sems ?_ σ σ rfl rfl rfl
    (fun _ _ => rfl) k).1
  · intro n hn
    have hn' : n < 3 := hn
    have : n = 0 ∨ n = 1 ∨ n = 2 := by omega
    rcases this with rfl | rfl | rfl <;> decide +kernel
  · intro n i hc vs m
    simp only [toProg, Option.map_eq_some_iff] at hc
    obtain ⟨c, hc, rfl⟩ := hc
    simp [toInstr, sems, hc]

example : checkPostFix (toCProg exP (liveness exP (fuelBound exP)).1) = true := liveness_postfix exP exP_wf

example : checkValid (toCProg exP (liveness exP (fuelBound exP)).1) [(257, 256), (65793, 65792)] = true :=
  (avo_alloc_valid_installed (aInstrsOf exP) _ exP_allocates _ (by
    intro c hc
    rw [Array.mem_toList_iff] at hc
    obtain ⟨i, hi, hci⟩ := Array.mem_iff_getElem.mp hc
    have hiP : i < exP.size := by rw [toCProg_size] at hi; exact hi
    obtain ⟨a, ha, ho, hl⟩ := aInstrsOf_spec exP i hiP
    exact ⟨a, ha, by rw [ho, ← hci]; simp [toCProg, cAt], by rw [hl, ← hci]; simp [toCProg, cAt]⟩)).1

/-- Non-vacuity of `mkLProg_wf`: the loop of C09's example with use/def lists attached. -/
example : WF (mkLProg ⟨[[some 1], [some 0, some 2], []], [[1], [0], [1]]⟩ [([], [⟨257, 15⟩]), ([⟨257, 15⟩], []), ([], [])]) :=
  mkLProg_wf [.label "top", .instr ⟨false, false, false, none⟩, .instr ⟨true, true, false, some "top"⟩,
    .instr ⟨false, false, true, none⟩] _ rfl _ rfl

end Avo.Pipeline
