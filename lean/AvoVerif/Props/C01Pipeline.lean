/-
C01, composed: liveness (C02) + allocation on the models give exactly the
hypotheses of the preservation theorem — for every program.
-/
import AvoVerif.Props.C01Tables
import AvoVerif.Props.C02Term
import AvoVerif.Props.C09
namespace Avo.Pipeline
open Avo.Reg Avo.MaskSet Avo.Live Avo.LiveBool Avo.Alloc Avo.AllocCheck Avo.Machine

/-- The checked program made of a liveness input and the analysis result. -/
def cAt (P : LProg) (st : LState) (i : Nat) : CInstr :=
  ⟨(P.getD i default).uses, (P.getD i default).defs, (P.getD i default).succ, getMS st.ins i, getMS st.outs i⟩

def toCProg (P : LProg) (st : LState) : CProg := (Array.range P.size).map (cAt P st)

theorem toCProg_size (P : LProg) (st : LState) : (toCProg P st).size = P.size := by simp [toCProg]

theorem toCProg_get (P : LProg) (st : LState) (i : Nat) (hi : i < P.size) :
    (toCProg P st).getD i default = cAt P st i := by
  simp [toCProg, Array.getD_eq_getD_getElem?, hi]

/-- every lane of `a` in `b` ⇒ the executable subset test succeeds -/
theorem subsetMS_of_mem (a b : MS) (h : ∀ id lane, mem a id lane = true → mem b id lane = true) :
    subsetMS a b = true := by
  unfold subsetMS
  apply List.all_eq_true.mpr
  intro p hp
  rcases p with ⟨k, v⟩
  simp only [beq_iff_eq]
  apply Nat.eq_of_testBit_eq
  intro lane
  rw [Nat.testBit_and]
  cases hv : v.testBit lane with
  | false => simp
  | true =>
    have hm : mem a k lane = true := by
      unfold mem
      have := get_entry_sub a k v hp
      have h2 := congrArg (fun x => x.testBit lane) this
      simp only [Nat.testBit_and, hv, Bool.and_true] at h2
      exact h2
    have := h k lane hm
    unfold mem at this
    simp [this]

/-- **The liveness result is a post-fixpoint** in the executable sense required
by the allocation acceptor — for every well-formed program. -/
theorem liveness_postfix (P : LProg) (hwf : WF P) :
    checkPostFix (toCProg P (liveness P (fuelBound P)).1) = true := by
  have hstop := liveness_terminates P
  have hlt : ∀ j ∈ order P, j < P.size := fun j hj => (mem_order P j).mp hj
  have hsz : Sized P (initState P) := by simp [Sized, initState]
  have hs0 : ∀ id lane, Sound (progAt P id lane) (proj (initState P) id lane) := by
    intro id lane; rw [proj_init]; intro j; exact ⟨fun h => LiveIn.here h, fun h => by cases h⟩
  have hi0 : ∀ id lane, Infl (progAt P id lane) (proj (initState P) id lane) := by
    intro id lane; rw [proj_init]; intro j hj; exact hj
  obtain ⟨_, hinf, hfix⟩ := iter_result P (order P) hlt (fuelBound P) _ hsz hs0 hi0 hstop
  generalize hst : (liveness P (fuelBound P)).1 = st at *
  have hst' : (iter P (order P) (fuelBound P) (initState P)).1 = st := hst
  rw [hst'] at hinf hfix
  unfold checkPostFix
  apply List.all_eq_true.mpr
  intro c hc
  rw [Array.mem_toList_iff] at hc
  obtain ⟨i, hi, hci⟩ := Array.mem_iff_getElem.mp hc
  have hiP : i < P.size := by rw [toCProg_size] at hi; exact hi
  have hcg : c = cAt P st i := by
    rw [← toCProg_get P st i hiP, ← hci]
    simp [Array.getD_eq_getD_getElem?, hi]
  subst hcg
  have hfi := fun id lane => hfix i ((mem_order P i).mpr hiP) id lane
  unfold checkPostFixAt cAt
  simp only [Bool.and_eq_true]
  refine ⟨⟨?_, ?_⟩, ?_⟩
  · -- use ⊆ in
    apply subsetMS_of_mem
    intro id lane hm
    rw [mem_ofRegs] at hm
    exact hinf id lane i hm
  · -- out ∖ def ⊆ in
    apply subsetMS_of_mem
    intro id lane hm
    rw [mem_difference, mem_ofRegs] at hm
    have hm' := Bool.and_eq_true _ _ |>.mp hm
    obtain ⟨fo, fi⟩ := hfi id lane
    have hout : (proj st id lane).outS i = true := hm'.1
    have hnd : (progAt P id lane).dfn i = false := by simpa [progAt, covers] using hm'.2
    have : LiveBool.newIn (progAt P id lane) (proj st id lane) i = true := by
      unfold LiveBool.newIn; rw [fo, hout, hnd]; simp
    rw [fi] at this; exact this
  · -- in(succ) ⊆ out
    apply List.all_eq_true.mpr
    intro s hs
    cases s with
    | none => rfl
    | some s =>
      have hsP : s < P.size := hwf i hiP s hs
      simp only [Bool.and_eq_true, decide_eq_true_eq]
      refine ⟨by rw [toCProg_size]; exact hsP, ?_⟩
      apply subsetMS_of_mem
      intro id lane hm
      have hin : (proj st id lane).inS s = true := by
        unfold liveInAt at hm
        rw [toCProg_get P st s hsP] at hm
        exact hm
      obtain ⟨fo, _⟩ := hfi id lane
      show (proj st id lane).outS i = true
      rw [← fo]; unfold LiveBool.newOut
      have : (progAt P id lane).succ i = (P.getD i default).succ.filterMap (fun x => x) := rfl
      have hmem : s ∈ (progAt P id lane).succ i := by
        rw [this]; exact List.mem_filterMap.mpr ⟨some s, hs, rfl⟩
      have : ((progAt P id lane).succ i).any (proj st id lane).inS = true :=
        List.any_eq_true.mpr ⟨s, hmem, hin⟩
      simp [this]

/-- **C01 for the model of the whole pipeline.** For every program (any CFG,
any use/def sets): run the liveness model to its fixed point, run the allocator
model on avo's register file with the resulting live-out sets; if it returns an
allocation `A`, then for every meaning of the instructions that depends only on
the declared use slots, and all initial states agreeing on what is live at
entry, the allocated program and the private-storage program have the same
memory and control at every step. -/
theorem pipeline_preserves (P : LProg) (hwf : WF P) (is : List AInstr) (A : List (Nat × Nat))
    (his : ∀ i, i < P.size → ∃ a ∈ is, a.outs = (P.getD i default).defs ∧
        a.liveOut = getMS (liveness P (fuelBound P)).1.outs i)
    (hA : allocate Avo.Gen.regs is = .ok A)
    (sems : Nat → List Val → Mem → List Val × Mem × Nat)
    (hsem : WFSem (toProg (toCProg P (liveness P (fuelBound P)).1) sems))
    (σ σ' : State Loc) (h0 : Rel (liveOf (toCProg P (liveness P (fuelBound P)).1)) (ρ A) σ σ') (k : Nat) :
    let Q := toProg (toCProg P (liveness P (fuelBound P)).1) sems
    (run Q k σ).mem = (run (rename (ρ A) Q) k σ').mem ∧ (run Q k σ).pc = (run (rename (ρ A) Q) k σ').pc := by
  intro Q
  have hpf := liveness_postfix P hwf
  have hv := (avo_alloc_valid_installed is A hA (toCProg P (liveness P (fuelBound P)).1) (by
    intro c hc
    rw [Array.mem_toList_iff] at hc
    obtain ⟨i, hi, hci⟩ := Array.mem_iff_getElem.mp hc
    have hiP : i < P.size := by rw [toCProg_size] at hi; exact hi
    obtain ⟨a, ha, ho, hl⟩ := his i hiP
    refine ⟨a, ha, ?_, ?_⟩
    · rw [ho, ← hci]; simp [toCProg, cAt]
    · rw [hl, ← hci]; simp [toCProg, cAt])).1
  exact accepted_preserves _ A sems hpf hv hsem σ σ' h0 k

end Avo.Pipeline

namespace Avo.Pipeline
open Avo.Reg Avo.Live Avo.Func

/-- The liveness input made of a CFG (C09) and per-instruction use/def lists. -/
def mkLProg (g : Graph) (ud : List (List R × List R)) : LProg :=
  ((List.range ud.length).map (fun i => (⟨(ud.getD i ([], [])).1, (ud.getD i ([], [])).2, g.succ.getD i []⟩ : LInstr))).toArray

/-- **C09 ⇒ the hypothesis of C02/C01.** The program handed to liveness after a
successful `LabelTarget`/`CFG` is well formed: every successor is an
instruction of the function. Hence `liveness_exact_total`, `liveness_postfix`
and `pipeline_preserves` apply to every function the CFG pass accepts. -/
theorem mkLProg_wf (nodes : List Node) (g : Graph) (h : buildCFG nodes = .ok g)
    (ud : List (List R × List R)) (hlen : ud.length = (instrs nodes).length) : WF (mkLProg g ud) := by
  intro i hi s hs
  have hsz : (mkLProg g ud).size = ud.length := by simp [mkLProg]
  rw [hsz] at hi ⊢
  have hget : ((mkLProg g ud).getD i default).succ = g.succ.getD i [] := by
    simp [mkLProg, Array.getD_eq_getD_getElem?, hi]
  rw [hget] at hs
  rw [hlen]
  exact buildCFG_succ_in_range nodes g h i (by rw [← hlen]; exact hi) s hs

end Avo.Pipeline
