/-
C20 — distinct virtual registers are distinct, through EVERY route that hands
them out and over whole HISTORIES.

`virt_fresh` (Props/C20.lean) speaks of two allocations from one fresh
`reg.Collection`.  Users hardly ever hold a Collection: they get registers
from a `build.Context` (which embeds one) through its methods GP8 … K, through
the package-level functions `build.GP8()` … on the global context, and —
without asking — from `Dereference`.  In between they call everything else a
Context offers: `Function` (several times: several functions in one file),
`TEXT`, `Implement`, `Signature…`, `AllocLocal`, `Load`, `Store`, instructions,
data sections, `Result`, and the compiler on the result.

Model/RegCtx.lean is the Context as a state machine whose only effect on its
collection is `Coll.alloc`.  Proved here, for ALL histories:

* `coll_run_fresh`   all registers a Collection hands out along a history have
                     pairwise different ids (all kinds together), as long as no
                     kind is asked for more than 2¹⁶ registers;
* `ctx_run_coll`     a Context history hands out exactly what its collection
                     hands out for the requests the history contains;
* `ctx_others_irrelevant`  deleting every call that is not a register request
                     from a history changes no register handed out;
* `ctx_fresh`        all registers handed out along a Context history — before
                     the first `Function`, between functions, after compiling,
                     by whatever route — have pairwise different ids;
* `ctx_fresh_ok`     per kind, the ids satisfy `CtxFreshOK`, the statement the
                     driver evaluates on the implementation's own ids
                     (`accept-ctxfresh`, sound by `acceptCtxFresh_sound`);
* `ctx_reset_collides`  what the statement excludes: a Context that restarted
                     its numbering at a call would hand out one id twice.
-/
import AvoVerif.Props.C20
import AvoVerif.Model.RegCtx
namespace Avo.Reg

/-! ### Collections: whole histories, all kinds -/

theorem kindCount_cons (k k' s : Nat) (rest : List (Nat × Nat)) :
    kindCount k ((k', s) :: rest) = kindCount k rest + (if k' = k then 1 else 0) := by
  unfold kindCount; rw [List.countP_cons]; simp

/-- Every register handed out along a history from a collection whose counters
are in `uint16` range has the index `start + m` (on `uint16`) where `m` is
smaller than the number of requests of its kind. -/
theorem Coll.run_idx (reqs : List (Nat × Nat)) :
    ∀ c : Coll, (∀ k, c.get k < 65536) → ∀ w ∈ c.run reqs,
      ∃ m, m < kindCount w.kind reqs ∧ w.idx = (c.get w.kind + m) % 65536 := by
  induction reqs with
  | nil => intro c _ w hw; simp [Coll.run] at hw
  | cons q rest ih =>
    obtain ⟨k, s⟩ := q
    intro c hc w hw
    simp only [Coll.run, List.mem_cons] at hw
    rcases hw with rfl | hw
    · refine ⟨0, ?_, ?_⟩
      · simp only [Coll.alloc]; rw [kindCount_cons]; simp
      · have := hc k; simp only [Coll.alloc]; omega
    · have hc' : ∀ k2, ((c.alloc k s).2).get k2 < 65536 := by
        intro k2; simp only [Coll.alloc]; rw [Coll.get_set]; split
        · omega
        · exact hc k2
      obtain ⟨m, hm, hidx⟩ := ih _ hc' w hw
      simp only [Coll.alloc] at hidx
      rw [Coll.get_set] at hidx
      rw [kindCount_cons]
      by_cases hk : w.kind = k
      · refine ⟨m + 1, ?_, ?_⟩
        · have : k = w.kind := hk.symm
          simp [this]; omega
        · simp only [hk, ↓reduceIte] at hidx; rw [hidx, hk]; omega
      · refine ⟨m, ?_, ?_⟩
        · have : ¬ k = w.kind := fun h => hk h.symm
          simp [this]; exact hm
        · simp only [hk, ↓reduceIte] at hidx; exact hidx

theorem Coll.run_kind (reqs : List (Nat × Nat)) : ∀ c : Coll, ∀ w ∈ c.run reqs, w.kind ∈ reqs.map (·.1) := by
  induction reqs with
  | nil => intro c w hw; simp [Coll.run] at hw
  | cons q rest ih =>
    obtain ⟨k, s⟩ := q
    intro c w hw
    simp only [Coll.run, List.mem_cons] at hw
    rcases hw with rfl | hw
    · simp [Coll.alloc]
    · simp only [List.map_cons, List.mem_cons]; exact Or.inr (ih _ w hw)

/-- **C20 (fresh virtual registers, whole histories).**  Along ANY history of
requests from a collection whose counters are within `uint16`, all registers
handed out have pairwise different ids — of the same kind or not — provided no
kind is asked for more than 2¹⁶ registers (kinds are `uint8`). -/
theorem Coll.run_fresh (reqs : List (Nat × Nat)) :
    ∀ c : Coll, (∀ k, c.get k < 65536) → (∀ q ∈ reqs, q.1 < 256) →
      (∀ k, kindCount k reqs ≤ 65536) →
      (c.run reqs).Pairwise (fun a b => a.id ≠ b.id) := by
  induction reqs with
  | nil => intro c _ _ _; simp [Coll.run]
  | cons q rest ih =>
    obtain ⟨k, s⟩ := q
    intro c hc hkinds hguard
    have hc' : ∀ k2, ((c.alloc k s).2).get k2 < 65536 := by
      intro k2; simp only [Coll.alloc]; rw [Coll.get_set]; split
      · omega
      · exact hc k2
    have hk : k < 256 := hkinds (k, s) (by simp)
    simp only [Coll.run]
    rw [List.pairwise_cons]
    refine ⟨?_, ih _ hc' (fun q hq => hkinds q (by simp [hq])) ?_⟩
    · intro w hw hid
      obtain ⟨m, hm, hidx⟩ := Coll.run_idx rest _ hc' w hw
      have hwk : w.kind < 256 := by
        have := Coll.run_kind rest _ w hw
        obtain ⟨q, hq, hq1⟩ := List.mem_map.mp this
        rw [← hq1]; exact hkinds q (by simp [hq])
      have hwi : w.idx < 65536 := by rw [hidx]; omega
      have hci := hc k
      simp only [Coll.alloc, Virt.id] at hid
      obtain ⟨_, hkk, hii⟩ := newid_inj (by omega) hk hci (by omega) hwk hwi hid
      simp only [Coll.alloc] at hidx
      rw [Coll.get_set, ← hkk] at hidx
      simp only [↓reduceIte] at hidx
      have hg := hguard k
      rw [kindCount_cons] at hg
      simp only [↓reduceIte] at hg
      rw [← hkk] at hm
      omega
    · intro k2
      have := hguard k2
      rw [kindCount_cons] at this
      omega

/-- From a fresh collection. -/
theorem coll_run_fresh (reqs : List (Nat × Nat)) (hkinds : ∀ q ∈ reqs, q.1 < 256)
    (hguard : ∀ k, kindCount k reqs ≤ 65536) :
    (Coll.run [] reqs).Pairwise (fun a b => a.id ≠ b.id) :=
  Coll.run_fresh reqs [] (fun k => by rw [Coll.get_empty]; omega) hkinds hguard

/-! ### Contexts -/

/-- A Context history hands out exactly what its collection hands out for the
requests the history contains: no other call takes part. -/
theorem ctx_run_coll (ops : List CtxOp) : ∀ c : CtxS,
    (ctxRun c ops).map (·.reg) = Coll.run c.coll (ctxReqs ops) := by
  induction ops with
  | nil => intro c; rfl
  | cons op rest ih =>
    intro c
    cases op with
    | alloc k s => simp [ctxRun, ctxStep, ctxReqs, Coll.run, ih]
    | deref seen => simp [ctxRun, ctxStep, ctxReqs, Coll.run, ih]
    | other tag => simp [ctxRun, ctxStep, ctxReqs, ih]

theorem ctxReqs_filter (ops : List CtxOp) : ctxReqs (ops.filter CtxOp.isRequest) = ctxReqs ops := by
  induction ops with
  | nil => rfl
  | cons op rest ih => cases op <;> simp [List.filter, CtxOp.isRequest, ctxReqs, ih]

/-- **Interleaved calls are irrelevant.**  Deleting from a history every call
that is not a register request (`Function`, `Implement`, `AllocLocal`, `Load`,
compiling, …) changes no register handed out. -/
theorem ctx_others_irrelevant (ops : List CtxOp) (c : CtxS) :
    (ctxRun c (ops.filter CtxOp.isRequest)).map (·.reg) = (ctxRun c ops).map (·.reg) := by
  rw [ctx_run_coll, ctx_run_coll, ctxReqs_filter]

/-- Calls that are not requests leave the collection alone. -/
theorem ctx_after_coll (ops : List CtxOp) : ∀ c : CtxS,
    (ctxAfter c ops).coll = Coll.after c.coll (ctxReqs ops) := by
  induction ops with
  | nil => intro c; rfl
  | cons op rest ih =>
    intro c
    cases op <;> simp [ctxAfter, ctxStep, ctxReqs, Coll.after, ih]

theorem ctxReqs_kinds (ops : List CtxOp) (hk : ∀ k s, CtxOp.alloc k s ∈ ops → k < 256) :
    ∀ q ∈ ctxReqs ops, q.1 < 256 := by
  induction ops with
  | nil => intro q hq; simp [ctxReqs] at hq
  | cons op rest ih =>
    have ih' := ih (fun k s h => hk k s (List.mem_cons_of_mem _ h))
    intro q hq
    cases op with
    | alloc k s =>
      simp only [ctxReqs, List.mem_cons] at hq
      rcases hq with rfl | hq
      · exact hk k s (by simp)
      · exact ih' q hq
    | deref seen =>
      simp only [ctxReqs, List.mem_cons] at hq
      rcases hq with rfl | hq
      · decide
      · exact ih' q hq
    | other tag => exact ih' q hq

/-- **C20 (fresh virtual registers, Context histories).**  In ANY history of
calls on a fresh `build.Context`, all registers it ever hands out — through the
constructor methods, the package-level functions, `Dereference`; before the
first `Function`, between functions, after compiling — have pairwise different
ids, whatever is called in between, as long as no kind is asked for more than
2¹⁶ registers. -/
theorem ctx_fresh (ops : List CtxOp) (hk : ∀ k s, CtxOp.alloc k s ∈ ops → k < 256)
    (hguard : ∀ k, kindCount k (ctxReqs ops) ≤ 65536) :
    (ctxRun {} ops).Pairwise (fun a b => a.reg.id ≠ b.reg.id) := by
  have h := coll_run_fresh (ctxReqs ops) (ctxReqs_kinds ops hk) hguard
  have e := ctx_run_coll ops {}
  have : ((ctxRun {} ops).map (·.reg)).Pairwise (fun a b => a.id ≠ b.id) := by rw [e]; exact h
  exact (List.pairwise_map (f := fun (x : Handed) => x.reg) (R := fun a b => a.id ≠ b.id)).mp this

/-- The ids handed out for kind `k` along a history (seen by the caller or not). -/
def ctxIds (k : Nat) (ops : List CtxOp) : List Nat :=
  (((ctxRun {} ops).map (·.reg)).filter (fun v => v.kind == k)).map Virt.id

/-- The model satisfies the statement the driver evaluates (`accept-ctxfresh`):
per kind, the ids are virtual, of that kind and pairwise different. -/
theorem ctx_fresh_ok (ops : List CtxOp) (k : Nat) (hk : ∀ k s, CtxOp.alloc k s ∈ ops → k < 256)
    (hk' : k < 256) (hguard : ∀ k, kindCount k (ctxReqs ops) ≤ 65536) :
    CtxFreshOK k (kindCount k (ctxReqs ops)) (ctxIds k ops) := by
  intro _
  refine ⟨?_, ?_⟩
  · intro id hid
    unfold ctxIds at hid
    obtain ⟨v, hv, rfl⟩ := List.mem_map.mp hid
    have hvk : v.kind = k := by simpa using (List.mem_filter.mp hv).2
    refine ⟨?_, ?_⟩
    · unfold Virt.id; rw [idIsVirtual_newid 1 _ _ (by omega)]; rfl
    · unfold Virt.id; rw [hvk]; exact idKind_newid 1 _ _ hk'
  · unfold ctxIds
    rw [List.pairwise_map]
    have h := ctx_fresh ops hk hguard
    have h2 : ((ctxRun {} ops).map (·.reg)).Pairwise (fun a b => a.id ≠ b.id) := (List.pairwise_map (f := fun (x : Handed) => x.reg) (R := fun a b => a.id ≠ b.id)).mpr h
    exact h2.filter _

/-- The subset the caller sees is fresh as well. -/
theorem ctx_fresh_seen (ops : List CtxOp) (hk : ∀ k s, CtxOp.alloc k s ∈ ops → k < 256)
    (hguard : ∀ k, kindCount k (ctxReqs ops) ≤ 65536) :
    ((ctxRun {} ops).filter (·.seen)).Pairwise (fun a b => a.reg.id ≠ b.reg.id) :=
  (ctx_fresh ops hk hguard).filter _

/-- What the statement excludes.  A Context whose numbering restarted at some
call (collection `[]` again after the prefix `pre`) hands out, for the first
request of a kind after the restart, the id of the first register of that kind
before it: two different registers, one identity. -/
theorem ctx_reset_collides (k s s' : Nat) (pre post : List CtxOp) :
    ((ctxRun {} (.alloc k s :: pre)).map (·.reg.id)).head? =
      ((ctxRun {} (.alloc k s' :: post)).map (·.reg.id)).head? ∧
    ¬ CtxFreshOK k 2 [((ctxStep {} (.alloc k s)).2.map (·.reg.id)).headD 0,
                      ((ctxStep {} (.alloc k s')).2.map (·.reg.id)).headD 0] := by
  refine ⟨by simp [ctxRun, ctxStep, Coll.alloc, Virt.id], ?_⟩
  intro h
  have := (h (by omega)).2
  simp [ctxStep, Coll.alloc, Virt.id] at this

-- non-vacuity: a history with registers before the first function, two functions, a compile, a hidden Dereference
example : (ctxRun {} [.alloc kindGP S64, .other "Function", .alloc kindGP S32, .deref true, .alloc kindVector S128,
    .other "Function", .deref false, .alloc kindGP S8L, .other "Compile", .alloc kindGP S64, .alloc kindVector S512]).map
      (fun h => (h.reg.kind, h.reg.idx, h.reg.spec, h.seen))
    = [(kindGP, 0, S64, true), (kindGP, 1, S32, true), (kindGP, 2, S64, true), (kindVector, 0, S128, true),
       (kindGP, 3, S64, false), (kindGP, 4, S8L, true), (kindGP, 5, S64, true), (kindVector, 1, S512, true)] := by decide
example : CtxFreshOK kindGP 3 [257, 65793, 131329] := by decide
-- the ids a Context that restarts its numbering at `Function` hands out: rejected
example : ¬ CtxFreshOK kindGP 2 [257, 257] := by decide
example : ¬ CtxFreshOK kindGP 3 [257, 65793, 513] := by decide      -- an id of another kind
example : ¬ CtxFreshOK kindGP 2 [257, 65792] := by decide           -- a physical id
example : CtxFreshOK kindGP 65537 [257, 257] := by decide           -- beyond the guard nothing is claimed (F13)

section
open Avo.Drv.C20
theorem acceptCtxFresh_sound {k nreq : Nat} {ids : List Nat} (h : acceptCtxFresh k nreq ids = "ok") :
    CtxFreshOK k nreq ids := verdict_sound (by decide) h
end

end Avo.Reg
