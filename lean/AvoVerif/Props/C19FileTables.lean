/-
C19 file-level theorems on the regenerated tables: avo's flag names
(Gen.attrname) and the installed toolchain's textflag.h (Oracle.textflagH).
-/
import AvoVerif.Props.C19File
import AvoVerif.Props.C19Tables
namespace Avo.Attr

/-- **C19 (file), installed toolchain.**  For every user include list, in every
world where "textflag.h" is the installed header and no other included file
defines a flag name, the file the model prints satisfies the file statement. -/
theorem printed_file_ok_installed (env : String → List (String × Nat))
    (hw : World Avo.Gen.attrname Avo.Oracle.textflagH env)
    (incl : List String) (secs : List (Bool × BitVec 16)) :
    FileOK env (includeTextFlagHeader Avo.Gen.attrname incl (secs.map (·.2)))
      (secs.map (fun s => (s.2, printedClause Avo.Gen.attrname s.1 s.2))) :=
  printed_file_ok _ _ env names_agree hw incl secs

/-- ... in particular in the environment the driver's acceptor evaluates in. -/
theorem printed_file_accepted_installed (incl : List String) (secs : List (Bool × BitVec 16)) :
    acceptFile (stdEnv Avo.Oracle.textflagH) (includeTextFlagHeader Avo.Gen.attrname incl (secs.map (·.2)))
      (secs.map (fun s => (s.2, printedClause Avo.Gen.attrname s.1 s.2))) = true :=
  (acceptFile_sound _ _ _).mpr
    (printed_file_ok_installed _ (stdEnv_world _ _) incl secs)

/-- With the installed names: a file without exactly "textflag.h" gives no
value to a clause with a named flag. -/
theorem header_necessary_installed (incl : List String) (hm : textflagHeader ∉ incl) (a : BitVec 16)
    (hu : containsTextFlags Avo.Gen.attrname a = true) :
    evalToks (macroEnv (stdEnv Avo.Oracle.textflagH) incl) (asmToks Avo.Gen.attrname a) = none :=
  header_necessary _ _ _ (stdEnv_world _ _) incl hm a (by rw [attr_include]; exact hu)

/-- non-vacuity on the installed tables: NOSPLIT (4) behind a near miss -/
example : containsTextFlags Avo.Gen.attrname 4#16 = true := by decide
example : includeTextFlagHeader Avo.Gen.attrname ["crc_textflag.h"] [4#16] = ["crc_textflag.h", "textflag.h"] := by
  decide

end Avo.Attr
