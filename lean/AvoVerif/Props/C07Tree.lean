import AvoVerif.Props.C07
/-!
C07, persistence of `Component` values.  A user keeps component values and
derives several children from the same parent value, resolving them in any
order.  For EVERY session (list of `derive parent step` / `resolve i` commands on
a store of values):

* `tree_store`, `tree_out` — every store entry is the root navigated along the
  entry's OWN path, every `Resolve` answers what the model computes on the
  resolved component's own path: no other command (siblings derived before or
  after, earlier or later resolutions, the parent resolved again) matters;
* `store_persistent`, `resolve_sibling_independent` — commands executed later
  never change what an existing component is or resolves to;
* `resolve_depends_on_own_path` — two components with the same own path, in any
  two sessions, are the same;
* `tree_resolve_spec` — hence every address a session returns satisfies C07's
  `ResolveSpec` for the component's own path.
-/
namespace Avo.Layout

theorem navigateE_snoc (root : Except Err Comp) (p : List Step) (s : Step) :
    navigateE root (p ++ [s]) = stepE (navigateE root p) s := by
  cases root with
  | error e => rfl
  | ok c =>
    simp only [navigateE, navigate_append]
    cases hn : navigate c p with
    | error e => rfl
    | ok c' =>
      simp only [navigate_cons, navigate_nil, stepE]
      cases c'.step s <;> rfl

theorem getD_map_atPath (root : Except Err Comp) (ps : List (Option (List Step))) (p : Nat) :
    (ps.map (atPath root)).getD p (.error .unknownVar) = atPath root (ps.getD p none) := by
  simp only [List.getD_eq_getElem?_getD, List.getElem?_map]
  cases ps[p]? <;> simp [atPath]

theorem derive_agree (root : Except Err Comp) (ps : List (Option (List Step))) (p : Nat) (s : Step) :
    stepE ((ps.map (atPath root)).getD p (.error .unknownVar)) s =
      atPath root ((ps.getD p none).map (· ++ [s])) := by
  rw [getD_map_atPath]
  cases ps.getD p none with
  | none => rfl
  | some path => simp [atPath, navigateE_snoc]

theorem tree_from (root : Except Err Comp) (cmds : List TCmd) :
    ∀ (st : TState) (ps : List (Option (List Step))), st.store = ps.map (atPath root) →
      (runTreeFrom st cmds).store = (nodePathsFrom ps cmds).map (atPath root) ∧
      (runTreeFrom st cmds).out = st.out ++ (resolvePathsFrom ps cmds).map (fun p => resolveE (atPath root p)) := by
  induction cmds with
  | nil => intro st ps h; simp [runTreeFrom, nodePathsFrom, resolvePathsFrom, h]
  | cons c cs ih =>
    intro st ps h
    cases c with
    | derive p s =>
      have := ih (st.exec (.derive p s)) (ps ++ [(ps.getD p none).map (· ++ [s])]) (by
        simp only [TState.exec, h, List.map_append, List.map_cons, List.map_nil]
        rw [derive_agree])
      simpa [runTreeFrom, nodePathsFrom, resolvePathsFrom, TState.exec] using this
    | resolve i =>
      have := ih (st.exec (.resolve i)) ps (by simp [TState.exec, h])
      obtain ⟨h1, h2⟩ := this
      refine ⟨by simpa [runTreeFrom, nodePathsFrom] using h1, ?_⟩
      simp only [runTreeFrom, List.foldl_cons, resolvePathsFrom, List.map_cons] at h2 ⊢
      rw [h2]
      simp only [TState.exec, h, getD_map_atPath, List.append_assoc, List.singleton_append]

/-- **Persistence (1).** In every session every component in the store is the
root navigated along the component's own path. -/
theorem tree_store (root : Except Err Comp) (cmds : List TCmd) :
    (runTree root cmds).store = (nodePaths cmds).map (atPath root) :=
  (tree_from root cmds ⟨[root], []⟩ [some []] (by cases root <;> simp [atPath, navigateE, navigate_nil])).1

/-- **Persistence (2).** Every `Resolve` of a session answers what the model
computes on the resolved component's own path — whatever was derived or
resolved before, in whatever order. -/
theorem tree_out (root : Except Err Comp) (cmds : List TCmd) :
    (runTree root cmds).out = (resolvePaths cmds).map (fun p => resolveE (atPath root p)) := by
  have := (tree_from root cmds ⟨[root], []⟩ [some []] (by cases root <;> simp [atPath, navigateE, navigate_nil])).2
  simpa [runTree, resolvePaths] using this

theorem store_grows (cmds : List TCmd) : ∀ st : TState, ∃ ext, (runTreeFrom st cmds).store = st.store ++ ext := by
  induction cmds with
  | nil => intro st; exact ⟨[], by simp [runTreeFrom]⟩
  | cons c cs ih =>
    intro st
    obtain ⟨ext, h⟩ := ih (st.exec c)
    cases c with
    | derive p s =>
      exact ⟨stepE (st.store.getD p (.error .unknownVar)) s :: ext, by
        simp only [runTreeFrom, List.foldl_cons] at h ⊢; rw [h]; simp [TState.exec]⟩
    | resolve i => exact ⟨ext, by simp only [runTreeFrom, List.foldl_cons] at h ⊢; rw [h]; simp [TState.exec]⟩

/-- **Persistence (3).** Commands executed later (siblings derived from the same
parent, anything else) leave every existing component as it is. -/
theorem store_persistent (root : Except Err Comp) (c1 c2 : List TCmd) :
    ∃ ext, (runTree root (c1 ++ c2)).store = (runTree root c1).store ++ ext := by
  simp only [runTree, runTreeFrom, List.foldl_append]
  exact store_grows c2 _

/-- **Persistence (4).** What a component resolves to does not change when other
children are derived afterwards. -/
theorem resolve_sibling_independent (root : Except Err Comp) (c1 c2 : List TCmd) (i : Nat)
    (hi : i < (runTree root c1).store.length) (d : Except Err Comp) :
    resolveE ((runTree root (c1 ++ c2)).store.getD i d) = resolveE ((runTree root c1).store.getD i d) := by
  obtain ⟨ext, h⟩ := store_persistent root c1 c2
  rw [h]
  simp [List.getD_eq_getElem?_getD, List.getElem?_append_left hi]

/-- **Persistence (5).** … nor on what was derived before: two components with the
same own path, in any two sessions on the same variable, are the same. -/
theorem resolve_depends_on_own_path (root : Except Err Comp) (ca cb : List TCmd) (i j : Nat) (p : List Step)
    (ha : (nodePaths ca)[i]? = some (some p)) (hb : (nodePaths cb)[j]? = some (some p)) :
    (runTree root ca).store[i]? = (runTree root cb).store[j]? := by
  simp [tree_store, List.getElem?_map, ha, hb]

theorem resolveE_navigateE (s : Sig) (isRet : Bool) (sel : Sel) (p : List Step) :
    resolveE (navigateE ((s.tuple isRet).select sel) p) = resolve s isRet sel p := by
  simp only [resolve]
  cases (s.tuple isRet).select sel with
  | error e => rfl
  | ok c =>
    simp only [navigateE]
    cases navigate c p <;> rfl

/-- **Persistence (6).** Every address any session on a variable of a well-formed
signature returns satisfies `ResolveSpec` for the resolved component's own path. -/
theorem tree_resolve_spec (s : Sig) (hwf : s.WF) (isRet : Bool) (sel : Sel) (cmds : List TCmd) (k : Nat)
    (p : List Step) (a : Addr) (b : Basic) (hp : (resolvePaths cmds)[k]? = some (some p))
    (ho : (runTree ((s.tuple isRet).select sel) cmds).out[k]? = some (.ok (a, b))) :
    ResolveSpec s isRet sel p ⟨a, b⟩ := by
  rw [tree_out] at ho
  simp only [List.getElem?_map, hp, Option.map_some, atPath, resolveE_navigateE] at ho
  exact resolve_in_asmdecl s hwf isRet sel p a b (by simpa using ho)

/-! ## Non-vacuity: `func(s []uint64)`, `Len()` and `Cap()` derived from the same `s`, `Len` resolved last -/

def exSliceSig : Sig := ⟨[⟨[['s']], .slice (.basic .uint64)⟩], []⟩
def exSession : List TCmd := [.derive 0 .len, .derive 0 .cap, .resolve 2, .resolve 1, .resolve 0, .resolve 1]

example : (runTree ((exSliceSig.tuple false).select (.name ['s'])) exSession).out =
    [.ok (⟨['s', '_', 'c', 'a', 'p'], 16, .fp⟩, .int), .ok (⟨['s', '_', 'l', 'e', 'n'], 8, .fp⟩, .int),
     .error .notPrimitive, .ok (⟨['s', '_', 'l', 'e', 'n'], 8, .fp⟩, .int)] := by rfl
example : resolvePaths exSession = [some [.cap], some [.len], some [], some [.len]] := by decide
/-- The answer a shared backing slot produces for `Len()` (the `_cap` slot) violates the specification. -/
example : ¬ ResolveSpec exSliceSig false (.name ['s']) [.len] ⟨⟨['s', '_', 'c', 'a', 'p'], 16, .fp⟩, .int⟩ := by decide

end Avo.Layout
