/-
C05 — soundness of the acceptor for decoded machine instructions (`Model/AsmJudge.lean`).

`judgeO g dec = none` (the driver answers `ok`) implies the declarative statement `Agrees g dec`:
the decoded mnemonic is admitted for the opcode, the explicit operands (in the decoder's order, either
order for XCHG/TEST) are aligned with the decoded arguments — extra decoded arguments only where they
look like implicit operands — and every aligned pair agrees: the decoder's register name denotes the very
hardware register given (class, number, width, high-byte), a memory reference has the same base, index,
scale, displacement and (where the form names one) access width, a constant is representable at the
operation's width and the decoded immediate is its two's-complement encoding at that width.

What is NOT proved here (glue, stated in the evidence file): that the harness reports the decoders'
output faithfully, that `hwReg`/`mnemTable`/`immCtxOf`/`intelOrder` describe x86 (they are models,
validated by the measurement itself), and that the assembler maps text to that machine instruction.
-/
import AvoVerif.Model.AsmJudge
import AvoVerif.Props.C05
namespace Avo.AsmJudge
open Avo.AsmText

theorem orElse_none {α} {a : Option α} {f : Unit → Option α} :
    a.orElse f = none ↔ a = none ∧ f () = none := by
  cases a <;> simp [Option.orElse]

theorem joinErrs2_none {a b : Option String} : joinErrs [a, b] = none ↔ a = none ∧ b = none := by
  cases a <;> cases b <;> simp [joinErrs]

theorem joinErrs4_none {a b c d : Option String} :
    joinErrs [a, b, c, d] = none ↔ a = none ∧ b = none ∧ c = none ∧ d = none := by
  cases a <;> cases b <;> cases c <;> cases d <;> simp [joinErrs]

/-! ## Registers -/

/-- the decoder's register name denotes exactly the hardware register given -/
def RegAgrees (r : HReg) (d : String) : Prop := hwReg d = some r.hw

/-- the one admitted deviation: a 64-bit destination written through its 32-bit view by an operation whose
32-bit form zero-extends to the same 64-bit result (`zeroExtEquiv`), the register being the destination -/
def ZeroExtWrite (opcode mnem : String) (args : List DArg) (r : HReg) (d : String) : Prop :=
  r.kind = 1 ∧ r.size = 8 ∧ hwReg d = some ⟨1, r.idx, 4, false⟩ ∧ zeroExtEquiv opcode mnem args = true ∧
    args.head? = some (.reg d)

theorem regMatch_sound {opcode mnem : String} {args : List DArg} {r : HReg} {d : String}
    (h : regMatch opcode mnem args r d = none) : RegAgrees r d ∨ ZeroExtWrite opcode mnem args r d := by
  unfold regMatch at h
  cases hh : hwReg d with
  | none => simp [hh] at h
  | some hw =>
    simp only [hh] at h
    by_cases e : hw = r.hw
    · left; unfold RegAgrees; rw [hh, e]
    · right
      simp only [beq_iff_eq, e, if_false] at h
      split at h
      · rename_i hc
        simp only [Bool.and_eq_true, beq_iff_eq] at hc
        obtain ⟨⟨⟨⟨h1, h2⟩, h3⟩, h4⟩, h5⟩ := hc
        exact ⟨h1, h2, by rw [hh, h3], h4, h5⟩
      · simp at h

/-- an address register: absent on both sides, or the same hardware register -/
def AddrRegAgrees (r : Option HReg) (d : String) : Prop :=
  match r with
  | none => d = "-"
  | some r => d ≠ "-" ∧ hwReg d = some r.hw

theorem addrRegMatch_sound {what : String} {r : Option HReg} {d : String}
    (h : addrRegMatch what r d = none) : AddrRegAgrees r d := by
  unfold addrRegMatch at h
  cases r with
  | none =>
    simp only at h
    split at h
    · rename_i hd; simpa [AddrRegAgrees] using hd
    · simp at h
  | some r =>
    simp only at h
    split at h
    · simp at h
    · rename_i hd
      cases hh : hwReg d with
      | none => simp [hh] at h
      | some hw =>
        simp only [hh] at h
        split at h
        · rename_i e
          exact ⟨by simpa using hd, by rw [hh, eq_of_beq e]⟩
        · simp at h

/-! ## Memory references -/

theorem widthErr_sound {dec : Decoded} {ty : String} {w : Nat} {bcst : Bool} (h : widthErr dec ty w bcst = none) :
    ∀ n, typeBytes ty = some n → (w = 0 ∨ w = n) ∧ (dec.xw = 0 ∨ dec.xw = n ∨ bcst = true) := by
  intro n hn
  unfold widthErr at h
  simp only [hn] at h
  split at h
  · simp at h
  · rename_i h1
    split at h
    · simp at h
    · rename_i h2
      constructor
      · by_cases a : w = 0
        · exact Or.inl a
        · by_cases b : w = n
          · exact Or.inr b
          · exfalso; apply h1; simp [a, b]
      · by_cases a : dec.xw = 0
        · exact Or.inl a
        · by_cases b : dec.xw = n
          · exact Or.inr (Or.inl b)
          · cases bcst with
            | true => exact Or.inr (Or.inr rfl)
            | false => exfalso; apply h2; simp [a, b]

theorem bcstErr_sound {g : Given} {bcst : Bool} (h : bcstErr g bcst = none) : bcst = g.sfx.contains "BCST" := by
  unfold bcstErr at h
  split at h
  · simp at h
  · rename_i hb; simpa using hb

theorem idxErr_sound {index : Option HReg} {scale : Nat} {dindex : String} {dscale : Nat}
    (h : idxErr index scale dindex dscale = none) :
    AddrRegAgrees (usedIndex index scale) dindex ∧ ((usedIndex index scale).isSome = true → dscale = scale) := by
  unfold idxErr at h
  obtain ⟨h1, h2⟩ := joinErrs2_none.1 h
  refine ⟨addrRegMatch_sound h1, ?_⟩
  intro hs
  split at h2
  · simp at h2
  · rename_i hc
    simp only [hs, Bool.true_and] at hc
    simpa using hc

/-- base and displacement: a hardware base register is the same register with the same displacement; FP is
the stack pointer plus the return address (frame size 0), SP the stack pointer; SB is a relocation against the
very symbol whose addend (PC-relative: corrected by the distance to the end of the instruction) is the displacement -/
def BaseAgrees (dec : Decoded) (sym : String) (static : Bool) (disp : Int) (base : Option HReg)
    (dbase : String) (ddisp : Int) : Prop :=
  match base with
  | none => dbase = "-" ∧ ddisp = disp
  | some b =>
    if b.kind ≠ 0 then AddrRegAgrees (some b) dbase ∧ ddisp = disp
    else if b.name = "FP" then dbase = "rsp" ∧ ddisp = disp + 8
    else if b.name = "SP" then dbase = "rsp" ∧ ddisp = disp
    else b.name = "SB" ∧ ∃ r, relocOf dec sym static = some r ∧
      ((r.kind = "R_PCREL" ∧ dbase = "rip" ∧ r.add + ((dec.codeLen : Int) - r.hi) = disp) ∨
       (r.kind = "R_ADDR" ∧ r.add = disp))

theorem baseDispErr_sound {dec : Decoded} {sym : String} {static : Bool} {disp : Int} {base : Option HReg}
    {dbase : String} {ddisp : Int} (h : baseDispErr dec sym static disp base dbase ddisp = none) :
    BaseAgrees dec sym static disp base dbase ddisp := by
  unfold baseDispErr at h
  unfold BaseAgrees
  cases base with
  | none =>
    simp only at h ⊢
    split at h
    · rename_i hc; simpa using hc
    · simp at h
  | some b =>
    simp only at h ⊢
    split at h
    · -- hardware base register
      rename_i hk
      have hk' : b.kind ≠ 0 := by simpa using hk
      rw [if_pos hk']
      obtain ⟨h1, h2⟩ := joinErrs2_none.1 h
      refine ⟨addrRegMatch_sound h1, ?_⟩
      split at h2
      · rename_i hd; simpa using hd
      · simp at h2
    · rename_i hk
      have hk' : ¬ b.kind ≠ 0 := by simpa using hk
      rw [if_neg hk']
      split at h
      · -- FP
        rename_i hfp
        have hfp' : b.name = "FP" := by simpa using hfp
        rw [if_pos hfp']
        split at h
        · simp at h
        · rename_i hb
          split at h
          · rename_i hd; exact ⟨by simpa using hb, by simpa using hd⟩
          · simp at h
      · rename_i hfp
        have hfp' : ¬ b.name = "FP" := by simpa using hfp
        rw [if_neg hfp']
        split at h
        · -- SP
          rename_i hsp
          have hsp' : b.name = "SP" := by simpa using hsp
          rw [if_pos hsp']
          split at h
          · simp at h
          · rename_i hb
            split at h
            · rename_i hd; exact ⟨by simpa using hb, by simpa using hd⟩
            · simp at h
        · rename_i hsp
          have hsp' : ¬ b.name = "SP" := by simpa using hsp
          rw [if_neg hsp']
          split at h
          · -- SB
            rename_i hsb
            refine ⟨by simpa using hsb, ?_⟩
            split at h
            · simp at h
            · rename_i r hr
              refine ⟨r, hr, ?_⟩
              split at h
              · rename_i hp
                left
                split at h
                · simp at h
                · rename_i hb
                  split at h
                  · rename_i hd; exact ⟨by simpa using hp, by simpa using hb, by simpa using hd⟩
                  · simp at h
              · right
                split at h
                · rename_i ha
                  split at h
                  · rename_i hd; exact ⟨by simpa using ha, by simpa using hd⟩
                  · simp at h
                · simp at h
          · simp at h

/-- the memory reference decoded is the memory reference given -/
structure MemAgrees (g : Given) (dec : Decoded) (ty sym : String) (static : Bool) (disp : Int) (base index : Option HReg)
    (scale w : Nat) (dbase dindex : String) (dscale : Nat) (ddisp : Int) (bcst : Bool) : Prop where
  baseOK : BaseAgrees dec sym static disp base dbase ddisp
  indexOK : AddrRegAgrees (usedIndex index scale) dindex
  scaleOK : (usedIndex index scale).isSome = true → dscale = scale
  /-- access width: both decoders report the width the form's operand type names, when they report one -/
  widthOK : ∀ n, typeBytes ty = some n → (w = 0 ∨ w = n) ∧ (dec.xw = 0 ∨ dec.xw = n ∨ bcst = true)
  bcstOK : bcst = g.sfx.contains "BCST"

theorem memMatch_sound {g : Given} {dec : Decoded} {ty sym : String} {static : Bool} {disp : Int} {base index : Option HReg}
    {scale w : Nat} {dbase dindex : String} {dscale : Nat} {ddisp : Int} {bcst : Bool}
    (h : memMatch g dec ty sym static disp base index scale w dbase dindex dscale ddisp bcst = none) :
    MemAgrees g dec ty sym static disp base index scale w dbase dindex dscale ddisp bcst := by
  unfold memMatch at h
  obtain ⟨h1, h2, h3, h4⟩ := joinErrs4_none.1 h
  exact ⟨baseDispErr_sound h1, (idxErr_sound h2).1, (idxErr_sound h2).2, widthErr_sound h3, bcstErr_sound h4⟩

/-! ## Constants -/

/-- the constant is a number of the operation's width and the decoded immediate (as the decoders print it:
extended to the operation's width, unsigned) is its encoding at that width -/
def ImmAgrees (g : Given) (ty : String) (v : Int) (d : Nat) : Prop :=
  ImmRepresentable (immCtxOf g.opcode g.sig ty) v ∧ d = immWanted (immCtxOf g.opcode g.sig ty) v

theorem immMatch_sound {g : Given} {ty : String} {t : ImmTy} {v : Int} {d : Nat}
    (h : immMatch g ty t v d = none) : ImmAgrees g ty v d := by
  unfold immMatch at h
  simp only at h
  split at h
  · simp at h
  · split at h
    · simp at h
    · rename_i hr
      split at h
      · simp at h
      · rename_i hd
        exact ⟨by simpa using hr, by simpa using hd⟩

/-- **the constant is never reinterpreted**: an accepted immediate IS the constant given — the number itself when
non-negative, its two's complement at the operation's width when negative -/
theorem immAgrees_value {g : Given} {ty : String} {v : Int} {d : Nat} (h : ImmAgrees g ty v d)
    (hw : 1 ≤ (immCtxOf g.opcode g.sig ty).width) :
    (0 ≤ v → (d : Int) = v) ∧ (v < 0 → (d : Int) = v + 2 ^ (immCtxOf g.opcode g.sig ty).width) := by
  obtain ⟨hr, hd⟩ := h
  subst hd
  exact immWanted_faithful _ v hw hr

/-! ## One operand, the operand sequence, the instruction -/

/-- operand given vs decoded argument (the declarative reading of `opMatch`) -/
def OpAgrees (g : Given) (dec : Decoded) (ty : String) : XOp → DArg → Prop
  | .reg r, .reg n => RegAgrees r n ∨ ZeroExtWrite g.opcode dec.mnem dec.args r n
  | .reg r, .kmask n => RegAgrees r n ∨ ZeroExtWrite g.opcode dec.mnem dec.args r n
  | .mem sym st disp b i sc, .mem w _ db di dsc dd bc => MemAgrees g dec ty sym st disp b i sc w db di dsc dd bc
  | .imm _ v, .imm dv => ImmAgrees g ty v dv
  | .label _, .jmp rel => rel = 0
  | .rel v, .jmp rel => rel = v
  | _, _ => False

theorem opMatch_sound {g : Given} {dec : Decoded} {ty : String} {e : XOp} {d : DArg}
    (h : opMatch g dec ty e d = none) : OpAgrees g dec ty e d := by
  cases e <;> cases d <;> simp only [opMatch, OpAgrees] at h ⊢ <;> try (simp at h; done)
  · exact regMatch_sound h
  · exact regMatch_sound h
  · exact memMatch_sound h
  · exact immMatch_sound h
  · split at h
    · rename_i hr; simpa using hr
    · simp at h
  · split at h
    · rename_i hr; simpa using hr
    · simp at h

/-- The operands are aligned with the decoded arguments: in order, each operand with an argument it agrees with;
decoded arguments without a partner only where they look like implicit operands. -/
inductive Aligned (g : Given) (dec : Decoded) : List (String × XOp) → List DArg → Prop
  | nil : Aligned g dec [] []
  | skip {es d ds} : looksImplicit d = true → Aligned g dec es ds → Aligned g dec es (d :: ds)
  | step {ty e es d ds} : OpAgrees g dec ty e d → Aligned g dec es ds → Aligned g dec ((ty, e) :: es) (d :: ds)

theorem matchSeq_sound {g : Given} {dec : Decoded} :
    ∀ (ds : List DArg) (es : List (String × XOp)), matchSeq g dec es ds = none → Aligned g dec es ds := by
  intro ds
  induction ds with
  | nil =>
    intro es h
    cases es with
    | nil => exact .nil
    | cons e es => simp [matchSeq] at h
  | cons d ds ih =>
    intro es h
    cases es with
    | nil =>
      simp only [matchSeq] at h
      split at h
      · rename_i hl; exact .skip hl (ih [] h)
      · simp at h
    | cons e es =>
      obtain ⟨ty, e⟩ := e
      simp only [matchSeq] at h
      split at h
      · rename_i ho; exact .step (opMatch_sound ho) (ih es h)
      · split at h
        · rename_i hc
          simp only [Bool.and_eq_true] at hc
          exact .skip hc.2 (ih _ h)
        · simp at h

/-- every operand given has a decoded partner: an alignment consumes all operands -/
theorem Aligned.length_le {g : Given} {dec : Decoded} {es : List (String × XOp)} {ds : List DArg}
    (h : Aligned g dec es ds) : es.length ≤ ds.length := by
  induction h with
  | nil => simp
  | skip _ _ ih => simp; omega
  | step _ _ ih => simp; omega

/-- suffix decorations: zeroing shown iff `Z` was given; the rounding/SAE decorations are those of the suffixes -/
def SfxAgrees (g : Given) (args : List DArg) : Prop := sfxMatch g args = none

/-- **The statement the acceptor decides** for an assembled and decoded instruction. -/
def Agrees (g : Given) (dec : Decoded) : Prop :=
  selfXchgIsNop g dec = true ∨
  (mnemOK g.opcode g.ops.length dec.mnem ≠ some false ∧
   (g.sig.zip g.ops).length = g.ops.length ∧
   (Aligned g dec (wanted g) (plainArgs dec.args) ∨
    (symmetric dec.mnem = true ∧ Aligned g dec (wanted g).reverse (plainArgs dec.args))) ∧
   SfxAgrees g dec.args)

theorem seqErr_sound {g : Given} {dec : Decoded} (h : seqErr g dec = none) :
    Aligned g dec (wanted g) (plainArgs dec.args) ∨
    (symmetric dec.mnem = true ∧ Aligned g dec (wanted g).reverse (plainArgs dec.args)) := by
  unfold seqErr at h
  simp only at h
  split at h
  · rename_i h1; exact Or.inl (matchSeq_sound _ _ h1)
  · split at h
    · rename_i hs
      split at h
      · rename_i h2; exact Or.inr ⟨hs, matchSeq_sound _ _ h2⟩
      · split at h <;> simp at h
    · simp at h

/-- **Soundness of the acceptor** (`accept-asm`): when the judge accepts, the decoded machine instruction is the
named operation on the operands given, in the sense of `Agrees`. -/
theorem judgeO_sound {g : Given} {dec : Decoded} (h : judgeO g dec = none) : Agrees g dec := by
  unfold judgeO at h
  split at h
  · rename_i hx; exact Or.inl hx
  · split at h
    · simp at h
    · split at h
      · simp at h
      · rename_i hz
        split at h
        · simp at h
        · rename_i hm
          obtain ⟨h1, h2⟩ := orElse_none.1 h
          refine Or.inr ⟨?_, by simpa using hz, seqErr_sound h1, h2⟩
          intro hc; apply hm; simp [hc]

/-- the driver answers `ok` exactly when `judgeO` accepts (no error text can masquerade as `ok`) -/
theorem judge_ok_iff (g : Given) (dec : Decoded) : judge g dec = "ok" ↔ judgeO g dec = none := by
  unfold judge
  cases hj : judgeO g dec with
  | none => simp
  | some why =>
    simp only [reduceCtorEq, iff_false]
    split
    · decide
    · rename_i hw; simpa using hw

theorem judge_sound {g : Given} {dec : Decoded} (h : judge g dec = "ok") : Agrees g dec :=
  judgeO_sound ((judge_ok_iff g dec).1 h)

/-! ## Non-vacuity: the acceptor accepts right instructions and rejects each kind of wrong one -/

def exAdd : Given := ⟨"ADDQ", [], ["r64", "r64"], [.reg ⟨1, 3, 15, 8, "BX"⟩, .reg ⟨1, 0, 15, 8, "AX"⟩]⟩
/-- `ADDQ BX, AX` = `48 01 d8  add rax, rbx` -/
example : Agrees exAdd ⟨3, 0, [], "add", [.reg "rax", .reg "rbx"]⟩ := judgeO_sound (by decide +kernel)
/-- a different register is rejected -/
example : judgeO exAdd ⟨3, 0, [], "add", [.reg "rax", .reg "rcx"]⟩ = some "bad-reg want 1.3.8 got rcx" := by decide +kernel
/-- the 32-bit view of the same registers is rejected -/
example : (judgeO exAdd ⟨2, 0, [], "add", [.reg "eax", .reg "ebx"]⟩).isSome = true := by decide +kernel
/-- a different operation is rejected -/
example : judgeO exAdd ⟨3, 0, [], "sub", [.reg "rax", .reg "rbx"]⟩ = some "bad-mnemonic sub" := by decide +kernel

def exMovl : Given := ⟨"MOVL", [], ["m32", "r32"],
  [.mem "" false 8 (some ⟨1, 3, 15, 8, "BX"⟩) (some ⟨1, 6, 15, 8, "SI"⟩) 4, .reg ⟨1, 1, 7, 4, "CX"⟩]⟩
/-- `MOVL 8(BX)(SI*4), CX` = `mov ecx, DWORD PTR [rbx+rsi*4+8]` -/
example : Agrees exMovl ⟨5, 4, [], "mov", [.reg "ecx", .mem 4 "-" "rbx" "rsi" 4 8 false]⟩ := judgeO_sound (by decide +kernel)
/-- "a 4-byte form never becomes an 8-byte access" -/
example : judgeO exMovl ⟨5, 8, [], "mov", [.reg "ecx", .mem 8 "-" "rbx" "rsi" 4 8 false]⟩ = some "bad-width want 4 got 8" := by
  decide +kernel
/-- another scale, another displacement, a missing index are rejected -/
example : (judgeO exMovl ⟨5, 4, [], "mov", [.reg "ecx", .mem 4 "-" "rbx" "rsi" 8 8 false]⟩).isSome = true := by decide +kernel
example : (judgeO exMovl ⟨5, 4, [], "mov", [.reg "ecx", .mem 4 "-" "rbx" "rsi" 4 16 false]⟩).isSome = true := by decide +kernel
example : (judgeO exMovl ⟨5, 4, [], "mov", [.reg "ecx", .mem 4 "-" "rbx" "-" 1 8 false]⟩).isSome = true := by decide +kernel

def exAndq (t : ImmTy) (v : Int) : Given := ⟨"ANDQ", [], ["imm32", "r64"], [.imm t v, .reg ⟨1, 3, 15, 8, "BX"⟩]⟩
/-- `ANDQ $-1, BX`: the sign-extended immediate is the constant -/
example : Agrees (exAndq .i32 (-1)) ⟨7, 0, [], "and", [.reg "rbx", .imm 0xffffffffffffffff]⟩ := judgeO_sound (by decide +kernel)
/-- F6: `ANDQ(U32(0xffffffff), BX)` assembles to the same bytes — a different constant: rejected -/
example : (judgeO (exAndq .u32 0xffffffff) ⟨7, 0, [], "and", [.reg "rbx", .imm 0xffffffffffffffff]⟩).isSome = true := by
  decide +kernel
/-- the contexts of a few forms (how the immediate of the form is used) -/
example : immCtxOf "ANDQ" ["imm32", "r64"] "imm32" = .sx64 ∧ immCtxOf "ADDL" ["imm8", "m32"] "imm8" = .op 32 ∧
    immCtxOf "MOVQ" ["imm64", "r64"] "imm64" = .mov64 ∧ immCtxOf "SHLQ" ["imm8", "r64"] "imm8" = .raw 8 ∧
    immCtxOf "PSHUFD" ["imm8", "xmm", "xmm"] "imm8" = .raw 8 ∧ immCtxOf "PUSHQ" ["imm32"] "imm32" = .sx64 := by decide +kernel

/-- a label reference assembled as an indirect jump through a register (finding C05-label-regname-indirect) is rejected -/
example : judgeO ⟨"JMP", [], ["rel32"], [.label "AX"]⟩ ⟨2, 0, [], "jmp", [.reg "rax"]⟩ = some "bad-label-as-register rax" := by
  decide +kernel
example : Agrees ⟨"JMP", [], ["rel32"], [.label "done"]⟩ ⟨2, 0, [], "jmp", [.jmp 0]⟩ := judgeO_sound (by decide +kernel)

end Avo.AsmJudge
