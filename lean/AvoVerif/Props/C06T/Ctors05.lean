/-
C06, table obligations of constructor shard 05 (kernel evaluation over the
regenerated rows; one module per shard so that Lake checks them in parallel).
-/
import AvoVerif.Model.Instr
import AvoVerif.Gen.Forms
import AvoVerif.Gen.Ctors_05
namespace Avo.C06T
open Avo Avo.Instr Avo.Gen
set_option maxRecDepth 1000000

/-- every constructor row of the shard is judged OK against the entry of its
opcode constant and the forms of that opcode (streaming join, see `ctorPass_sound`) -/
theorem ctors_05_pass : ctorPass (ctorOK formsMeta) 1 0 formsMeta.entries forms ctors_05 = true := by
  decide +kernel

/-- constructor / Context method / package-level function rows pairwise -/
theorem layers_05_ok : layersOK ctors_05 methods_05 globals_05 = true := by
  decide +kernel

end Avo.C06T
