/-
C06, well-formedness and branch/terminal features of form rows, shard 15.
-/
import AvoVerif.Model.Instr
import AvoVerif.Gen.FormsMeta
import AvoVerif.Gen.Forms_15
namespace Avo.C06T
open Avo Avo.Instr Avo.Gen
set_option maxRecDepth 1000000

theorem forms_15_wf : forms_15.all (Form.wf formsMeta) = true := by
  decide +kernel

/-- the feature column of every row says what the mnemonic of its opcode says (`J…` = branch, conditional unless
`JMP`; `RET` = terminal; nothing else) -/
theorem forms_15_feat : forms_15.all (Form.featOK formsMeta) = true := by
  decide +kernel

end Avo.C06T
