/-
C06, table obligations of constructor shard 01 (kernel evaluation over the
regenerated rows; one module per shard so that Lake checks them in parallel).
-/
import AvoVerif.Model.Instr
import AvoVerif.Gen.Forms
import AvoVerif.Gen.Ctors_01
namespace Avo.C06T
open Avo Avo.Instr Avo.Gen
set_option maxRecDepth 1000000

/-- every constructor row of the shard is judged OK against the entry of its
opcode constant and the forms of that opcode (streaming join, see `ctorPass_sound`) -/
theorem ctors_01_pass : ctorPass (ctorOK formsMeta) 1 0 formsMeta.entries forms ctors_01 = true := by
  decide +kernel

/-- constructor / Context method / package-level function rows pairwise -/
theorem layers_01_ok : layersOK ctors_01 methods_01 globals_01 = true := by
  decide +kernel

end Avo.C06T
