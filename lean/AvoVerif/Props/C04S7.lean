import AvoVerif.Props.C04Rows
import AvoVerif.Gen.FormActions_07
namespace Avo.FormActions.Tables
open Avo.FormActions Avo.Gen
/-- every row of shard 7 of the regenerated form table passes every structural check -/
theorem shard_07 : formActions_07.all rowOK = true := by decide +kernel
end Avo.FormActions.Tables
