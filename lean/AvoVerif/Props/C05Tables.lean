/-
C05 — the generic theorems of Props/C05.lean instantiated on the REGENERATED
register table (reg/x86.go via the compiled package) and on the constant texts
tabulated by running the real `Asm()` methods (Gen/C05ConstSamples).  Re-checked by the kernel whenever the tables change.
-/
import AvoVerif.Props.C05
import AvoVerif.Gen.Regs
import AvoVerif.Gen.C05ConstSamples
namespace Avo.AsmText

/-- the `Asm()` names of all physical and pseudo registers -/
def regNames : List (List Char) := Avo.Gen.regs.map (·.name.toList)

/-- Every register name of the current table is free of operand-syntax
characters, non-empty, and starts neither like a number nor like `.`/`$`. -/
theorem regNames_ok : ∀ n ∈ regNames, nameOK n = true := by decide +kernel

/-- **Rendering is invertible on the current register table**: for every
well-formed operand over the registers avo defines. -/
theorem parseOp_asm_regs (op : Op) (hwf : WF regNames op) : parseOp regNames (asm op) = some (canon op) :=
  parseOp_asm regNames regNames_ok op hwf

/-- the operand list of a printed line reads back, on the current register table -/
theorem line_roundtrip_regs (ops : List Op) (hne : ops ≠ []) (hwf : ∀ op ∈ ops, WF regNames op) :
    (splitOps (joinOps (ops.map asm)) []).map (parseOp regNames) = ops.map (fun op => some (canon op)) :=
  line_roundtrip regNames regNames_ok ops hne hwf

/-- Every tabulated constant text of the implementation (the table is produced by RUNNING
`operand.U8 … I64.Asm()` on boundary values of each type: 0, ±1, the decimal/hex digit boundaries, 2^(n-1)-1,
2^(n-1), 2^n-1, -2^(n-1)) is read by the assembler as the constant given, i.e. exactly as the model's rendering
`immAsm` is (`readImm_asm`); every tabulated value is in range of its type.  Stated on the VALUE read back, not on
the spelling: a respelling of the same constant (`$5` for `$0x05`) keeps it true. -/
theorem const_asm_samples :
    ∀ s ∈ Avo.Gen.constAsmSamples, readImm s.2.2.toList = some s.2.1 ∧ readImm s.2.2.toList = readImm (immAsm s.1 s.2.1) ∧
      InRange s.1 s.2.1 := by decide +kernel

/-- the table covers all eight constant types (non-vacuity of `const_asm_samples`) -/
theorem const_asm_samples_cover :
    [ImmTy.u8, .u16, .u32, .u64, .i8, .i16, .i32, .i64].all (fun t => (Avo.Gen.constAsmSamples.filter (·.1 == t)).length ≥ 5) = true := by
  decide +kernel

/-- the register table has the rows the hardware comparison relies on (name ↦ kind, index, size) for a few anchors -/
theorem reg_anchors :
    (Avo.Gen.regs.filter (fun r => r.name == "R9" && r.kind == 1)).map (fun r => (r.idx, r.size)) = [(9, 1), (9, 2), (9, 4), (9, 8)] ∧
    (Avo.Gen.regs.filter (fun r => r.name == "AH")).map (fun r => (r.kind, r.idx, r.mask, r.size)) = [(1, 0, 2, 1)] := by decide +kernel

example : WF regNames (.mem ⟨"x".toList, false, 8, some "FP".toList, none, 0⟩) := by
  refine ⟨⟨"FP".toList, rfl, by decide +kernel⟩, ?_, by decide, ?_, by decide⟩
  · intro i hi; cases hi
  · intro c rest h; cases h; decide

end Avo.AsmText
