/-
C05 — the generic theorems of Props/C05.lean instantiated on the REGENERATED
register table (reg/x86.go via the compiled package) and constant table
(operand/zconst.go).  Re-checked by the kernel whenever the tables change.
-/
import AvoVerif.Props.C05
import AvoVerif.Gen.Regs
import AvoVerif.Gen.Consts
namespace Avo.AsmText

/-- the `Asm()` names of all physical and pseudo registers -/
def regNames : List (List Char) := Avo.Gen.regs.map (·.name.toList)

/-- Every register name of the current table is free of operand-syntax
characters, non-empty, and starts neither like a number nor like `.`/`$`. -/
theorem regNames_ok : ∀ n ∈ regNames, nameOK n = true := by decide +kernel

/-- **Rendering is invertible on the current register table**: for every
well-formed operand over the registers avo defines. -/
theorem parseOp_asm_regs (op : Op) (hwf : WF regNames op) : parseOp regNames (asm op) = some (canon op) :=
  parseOp_asm regNames regNames_ok op hwf

/-- the operand list of a printed line reads back, on the current register table -/
theorem line_roundtrip_regs (ops : List Op) (hne : ops ≠ []) (hwf : ∀ op ∈ ops, WF regNames op) :
    (splitOps (joinOps (ops.map asm)) []).map (parseOp regNames) = ops.map (fun op => some (canon op)) :=
  line_roundtrip regNames regNames_ok ops hne hwf

/-- The format verbs of the eight integer constant types are the ones the renderer
`immAsm` models (`$%+d` signed; `$%#0Nx` with N = 2·bytes unsigned). -/
theorem const_verbs :
    (Avo.Gen.constTable.filter (fun r => ["I8", "I16", "I32", "I64", "U8", "U16", "U32", "U64"].contains r.1)).map
        (fun r => (r.1, r.2.2.1)) =
      [("I16", "$%+d"), ("I32", "$%+d"), ("I64", "$%+d"), ("I8", "$%+d"),
       ("U16", "$%#04x"), ("U32", "$%#08x"), ("U64", "$%#016x"), ("U8", "$%#02x")] := by decide +kernel

/-- the register table has the rows the hardware comparison relies on (name ↦ kind, index, size) for a few anchors -/
theorem reg_anchors :
    (Avo.Gen.regs.filter (fun r => r.name == "R9" && r.kind == 1)).map (fun r => (r.idx, r.size)) = [(9, 1), (9, 2), (9, 4), (9, 8)] ∧
    (Avo.Gen.regs.filter (fun r => r.name == "AH")).map (fun r => (r.kind, r.idx, r.mask, r.size)) = [(1, 0, 2, 1)] := by decide +kernel

example : WF regNames (.mem ⟨"x".toList, false, 8, some "FP".toList, none, 0⟩) := by
  refine ⟨⟨"FP".toList, rfl, by decide +kernel⟩, ?_, by decide, ?_, by decide⟩
  · intro i hi; cases hi
  · intro c rest h; cases h; decide

end Avo.AsmText
