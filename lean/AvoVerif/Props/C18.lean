/-
C18 — Invalid requests are reported as errors; nothing is emitted and nothing
panics.  Statements and property theorems about the executable model
`Model/Ctx.lean`, for ALL states, requests, histories and pass lists.

"Does not panic" cannot be a theorem about total Lean functions; it is carried
by the correspondence (every real call runs under `recover`, a panic is a
distinct outcome the model never produces) and by the acceptor `Spec` below,
whose first clause is `panics = 0`.
-/
import AvoVerif.Model.Ctx
namespace Avo.Ctx

-- the toolchain's tag-character predicate: every statement below holds for all of them
variable (tc : Char → Bool)

/-! ## What a builder-time fault is (declarative; independent of `step`) -/

def noFn (c : Ctx) : Option ErrClass := if c.cur.isNone then some .noFunc else none
def noGl (c : Ctx) : Option ErrClass := if c.glob.isNone then some .noGlobal else none

/-- `fault tc c op = some e`: request `op` is invalid in state `c`, and `e` is what is wrong with it.
* anything that needs the active function / data section while there is none;
* operands matching no form; a signature expression the type checker rejects;
* Load/Store/Dereference of a component that does not resolve to a primitive
  (unknown name, index out of range, navigation on the wrong type, …), or for
  which no MOV can be deduced;
* a datum overlapping an existing one or placed at a negative offset; an invalid build constraint. -/
def fault (tc : Char → Bool) (c : Ctx) : Op → Option ErrClass
  | .function _ | .staticGlobal _ | .pressure _ _ _ | .nav _ _ | .nilArg _ => none
  | .implement _ => some .noPackage
  | .attributes _ | .doc _ | .pragma _ | .label _ | .comment | .rawInstr _ | .allocLocal _
  | .param _ | .paramIndex _ | .ret _ | .retIndex _ | .signature (some _) | .instr true _ => noFn c
  | .signature none => some .sigExpr
  | .instr false _ => some .badOperands
  | .load s _ ded | .store s _ ded | .dereference s ded =>
      match (c.getComp s).resolveErr with
      | some e => some e
      | none => if ded then noFn c else some .movDeduce
  | .dataAttributes _ | .appendDatum _ => noGl c
  | .addDatum off sz =>
      match c.glob with
      | none => some .noGlobal
      | some g => if g.overlapsAny off sz then some .overlap else none
  | .addDatumNeg _ _ => some (if c.glob.isNone then .noGlobal else .negOffset)
  | .constraints cs => if constraintsValid tc cs then none else some .constraint
  | .constraint k =>
      if constraintsValid tc (c.cons ++ [k]) then none else some .constraint
  | .constraintExpr text =>
      if constraintsValid tc (c.cons ++ [parseConstraint text]) then none else some .constraint

/-- The faults of a history started in state `c`, in order. -/
def faults (tc : Char → Bool) (c : Ctx) : List Op → List ErrClass
  | [] => []
  | op :: ops => (fault tc c op).toList ++ faults tc (step tc c op) ops

/-- State before the `k`-th request of a history started in `c`. -/
def stateAt (tc : Char → Bool) (c : Ctx) (ops : List Op) (k : Nat) : Ctx := run tc c (ops.take k)

/-- The `k`-th request of the history is a fault in the state it is issued in. -/
def faultAt (tc : Char → Bool) (c : Ctx) (ops : List Op) (k : Nat) : Bool :=
  match ops[k]? with
  | some op => (fault tc (stateAt tc c ops k) op).isSome
  | none => false

/-- Number of faulting requests of a history. -/
def numFaults (tc : Char → Bool) (c : Ctx) (ops : List Op) : Nat :=
  ((List.range ops.length).filter (faultAt tc c ops)).length

/-! ## Basic facts about the state updates -/

@[simp] theorem addErr_errs (c : Ctx) (e) : (c.addErr e).errs = c.errs ++ [e] := rfl
@[simp] theorem pushComp_errs (c : Ctx) (k) : (c.pushComp k).errs = c.errs := rfl
@[simp] theorem newFn_errs (c : Ctx) (n) : (c.newFn n).errs = c.errs := rfl
@[simp] theorem newFn_cur (c : Ctx) (n) : (c.newFn n).cur.isNone = false := rfl

theorem withFn_errs (c : Ctx) (f) : (c.withFn f).errs = c.errs ++ (noFn c).toList := by
  unfold Ctx.withFn noFn; cases h : c.cur <;> simp

theorem withGlob_errs (c : Ctx) (f) : (c.withGlob f).errs = c.errs ++ (noGl c).toList := by
  unfold Ctx.withGlob noGl; cases h : c.glob <;> simp

theorem addNode_errs (c : Ctx) (n) : (c.addNode n).errs = c.errs ++ (noFn c).toList :=
  withFn_errs c _

theorem rootComp_errs (c : Ctx) (p) : (c.rootComp p).errs = c.errs ++ (noFn c).toList := by
  unfold Ctx.rootComp noFn; cases h : c.cur <;> simp

theorem loadStore_errs (c : Ctx) (s rk : Nat) (ded st : Bool) :
    (c.loadStore s rk ded st).errs = c.errs ++
      (match (c.getComp s).resolveErr with
       | some e => some e
       | none => if ded then noFn c else some .movDeduce).toList := by
  unfold Ctx.loadStore
  cases hk : c.getComp s with
  | err e => simp [Comp.resolveErr]
  | ok t g =>
    by_cases hp : t.isPrimitive = true
    · by_cases hd : ded = true
      · simp [Comp.resolveErr, hp, hd, addNode_errs]
      · simp [Comp.resolveErr, hp, hd]
    · simp [Comp.resolveErr, hp]

theorem constraintsValid_append (cs : List Constraint) (k : Constraint) :
    constraintsValid tc (cs ++ [k]) = (constraintsValid tc cs && constraintValid tc k) := by
  simp [constraintsValid, List.all_append]

/-! ## errs_monotone -/

/-- **errs_monotone.** For every state and every request, the request leaves all
earlier errors in place and appends exactly one error if it is a builder-time
fault in that state, and none otherwise. -/
theorem errs_monotone (c : Ctx) (op : Op) :
    (step tc c op).errs = c.errs ++ (fault tc c op).toList := by
  cases op with
  | function n => simp [step, fault]
  | attributes a => simp [step, fault, withFn_errs]
  | doc nl => simp [step, fault, withFn_errs]
  | pragma nl => simp [step, fault, withFn_errs]
  | implement n => simp [step, fault]
  | nilArg k => simp [step, fault]
  | signature s => cases s <;> simp [step, fault, withFn_errs]
  | instr v i => cases v <;> simp [step, fault, addNode_errs]
  | rawInstr i => simp [step, fault, addNode_errs]
  | label n => simp [step, fault, addNode_errs]
  | comment => simp [step, fault, addNode_errs]
  | param n => simp [step, fault, rootComp_errs]
  | paramIndex i => simp [step, fault, rootComp_errs]
  | ret n => simp [step, fault, rootComp_errs]
  | retIndex i => simp [step, fault, rootComp_errs]
  | nav s n => simp [step, fault]
  | load s rk d => simp only [step, fault, loadStore_errs]
  | store s rk d => simp only [step, fault, loadStore_errs]
  | dereference s d => simp only [step, fault, pushComp_errs, loadStore_errs]
  | allocLocal n => simp [step, fault, withFn_errs]
  | staticGlobal n => simp [step, fault]
  | dataAttributes a => simp [step, fault, withGlob_errs]
  | addDatum off sz =>
    simp only [step, fault]
    cases c.glob with
    | none => simp
    | some g => by_cases h : g.overlapsAny off sz = true <;> simp [h]
  | addDatumNeg b sz => simp [step, fault]
  | appendDatum sz => simp [step, fault, withGlob_errs]
  | constraints cs => by_cases h : constraintsValid tc cs = true <;> simp [step, fault, h]
  | constraint k => by_cases h : constraintsValid tc (c.cons ++ [k]) = true <;> simp [step, fault, h]
  | constraintExpr text =>
    simp only [step, fault, constraintsValid_append]
    by_cases hk : constraintValid tc (parseConstraint text) = true <;>
      by_cases hc : constraintsValid tc c.cons = true <;> simp [hk, hc]
  | pressure n k m => simp [step, fault, addNode_errs, noFn]

/-- One request adds at most one error, and exactly one iff it is a fault. -/
theorem step_errs_length (c : Ctx) (op : Op) :
    (step tc c op).errs.length = c.errs.length + (if (fault tc c op).isSome then 1 else 0) := by
  rw [errs_monotone]; cases fault tc c op <;> simp

/-! ## Histories -/

theorem run_cons (c : Ctx) (op : Op) (ops : List Op) : run tc c (op :: ops) = run tc (step tc c op) ops := rfl

theorem run_append (c : Ctx) (xs ys : List Op) : run tc c (xs ++ ys) = run tc (run tc c xs) ys := by
  simp [run, List.foldl_append]

/-- The errors after a history are the errors before it followed by exactly its faults. -/
theorem run_errs (c : Ctx) (ops : List Op) : (run tc c ops).errs = c.errs ++ faults tc c ops := by
  induction ops generalizing c with
  | nil => simp [run, faults]
  | cons op ops ih => rw [run_cons, ih, errs_monotone, faults, List.append_assoc]

/-- An error, once recorded, is never dropped or reordered by any later sequence of requests. -/
theorem errs_prefix (c : Ctx) (ops : List Op) : c.errs <+: (run tc c ops).errs := by
  rw [run_errs]; exact List.prefix_append _ _

theorem faultAt_zero (c : Ctx) (op : Op) (ops : List Op) :
    faultAt tc c (op :: ops) 0 = (fault tc c op).isSome := by
  simp [faultAt, stateAt, run]

theorem faultAt_succ (c : Ctx) (op : Op) (ops : List Op) (k : Nat) :
    faultAt tc c (op :: ops) (k + 1) = faultAt tc (step tc c op) ops k := by
  simp [faultAt, stateAt, run_cons]

/-- The list of faults has one entry per faulting position. -/
theorem faults_length (c : Ctx) (ops : List Op) : (faults tc c ops).length = numFaults tc c ops := by
  induction ops generalizing c with
  | nil => simp [faults, numFaults]
  | cons op ops ih =>
    have hr : List.range (ops.length + 1) = 0 :: (List.range ops.length).map (· + 1) := by
      rw [List.range_succ_eq_map]
    simp only [faults, numFaults, List.length_cons, List.length_append, hr, List.filter_cons,
      faultAt_zero, List.filter_map, ih]
    have hf : (faultAt tc c (op :: ops) ∘ fun x => x + 1) = faultAt tc (step tc c op) ops := by
      funext k; simp [Function.comp, faultAt_succ]
    rw [hf]
    cases fault tc c op <;> simp <;> omega

theorem faults_eq_nil_iff (c : Ctx) (ops : List Op) :
    faults tc c ops = [] ↔ ∀ k, faultAt tc c ops k = false := by
  induction ops generalizing c with
  | nil => simp [faults, faultAt]
  | cons op ops ih =>
    simp only [faults, List.append_eq_nil_iff, ih]
    constructor
    · intro ⟨h0, hs⟩ k
      cases k with
      | zero => rw [faultAt_zero]; cases h : fault tc c op <;> simp_all
      | succ k => rw [faultAt_succ]; exact hs k
    · intro h
      refine ⟨?_, fun k => ?_⟩
      · have := h 0; rw [faultAt_zero] at this; cases hf : fault tc c op <;> simp_all
      · have := h (k + 1); rwa [faultAt_succ] at this

/-- **bad_never_masked.** For every history: if any request is a fault in the
state it is issued in, then — whatever valid or invalid requests follow —
`Result()` is an error, carrying exactly one message per faulting request (in
request order). -/
theorem bad_never_masked (ops : List Op) (h : ∃ k, faultAt tc Ctx.init ops k = true) :
    ∃ es, result (run tc Ctx.init ops) = .error es ∧ es = faults tc Ctx.init ops ∧
      es.length = numFaults tc Ctx.init ops ∧ es ≠ [] := by
  have hne : faults tc Ctx.init ops ≠ [] := by
    intro hnil
    obtain ⟨k, hk⟩ := h
    have := (faults_eq_nil_iff tc _ _).mp hnil k
    simp [hk] at this
  have he : (run tc Ctx.init ops).errs = faults tc Ctx.init ops := by
    rw [run_errs]; rfl
  refine ⟨faults tc Ctx.init ops, ?_, rfl, faults_length tc _ _, hne⟩
  unfold result
  rw [he]
  cases hf : faults tc Ctx.init ops with
  | nil => exact absurd hf hne
  | cons a as => simp

/-- **valid_no_error.** A history in which no request is a fault produces no error. -/
theorem valid_no_error (ops : List Op) (h : ∀ k, faultAt tc Ctx.init ops k = false) :
    result (run tc Ctx.init ops) = .ok ∧ (run tc Ctx.init ops).errs = [] := by
  have he : (run tc Ctx.init ops).errs = [] := by
    rw [run_errs, (faults_eq_nil_iff tc _ _).mpr h]; rfl
  exact ⟨by simp [result, he], he⟩

/-- The number of error messages always equals the number of faulting requests. -/
theorem errs_count (ops : List Op) : (run tc Ctx.init ops).errs.length = numFaults tc Ctx.init ops := by
  rw [run_errs, ← faults_length]; simp [Ctx.init]

/-! ## Component chaining -/

/-- **component_chain.** An error component stays the same error through every
sequence of navigation methods, up to `Resolve`. -/
theorem component_chain (e : ErrClass) (navs : List Nav) :
    (navs.foldl Comp.nav (.err e)).resolveErr = some e := by
  induction navs with
  | nil => rfl
  | cons n ns ih => simpa [List.foldl, Comp.nav] using ih

/-- … and Load/Store/Dereference of it is a fault reporting that very error, in every state. -/
theorem component_chain_reported (c : Ctx) (s rk : Nat) (ded : Bool) (e : ErrClass) (navs : List Nav)
    (h : c.getComp s = navs.foldl Comp.nav (.err e)) :
    fault tc c (.load s rk ded) = some e ∧ fault tc c (.store s rk ded) = some e ∧
      fault tc c (.dereference s ded) = some e := by
  simp [fault, h, component_chain]

/-- Navigation itself never reports anything: the error surfaces only at `Resolve`. -/
theorem nav_no_fault (c : Ctx) (s : Nat) (n : Nav) : fault tc c (.nav s n) = none := rfl

/-! ## Concat and Main -/

/-- Positions (counted from `k`) of the Output passes in a list. -/
def outputsFrom (k : Nat) : List Pass → List Nat
  | [] => []
  | p :: ps => if p.output then k :: outputsFrom (k + 1) ps else outputsFrom (k + 1) ps

theorem outputsFrom_nil_of_no_output (k : Nat) (ps : List Pass) (h : ∀ q ∈ ps, q.output = false) :
    outputsFrom k ps = [] := by
  induction ps generalizing k with
  | nil => rfl
  | cons p ps ih =>
    have hp : p.output = false := h p List.mem_cons_self
    simp [outputsFrom, hp, ih (k + 1) (fun q hq => h q (List.mem_cons_of_mem _ hq))]

theorem concatFrom_stops (k : Nat) (pre : List Pass) (p : Pass) (post : List Pass)
    (hpre : ∀ q ∈ pre, q.fails = false) (hp : p.fails = true) :
    concatFrom k (pre ++ p :: post) = ⟨false, pre.length + 1, outputsFrom k pre⟩ := by
  induction pre generalizing k with
  | nil => simp [concatFrom, hp, outputsFrom]
  | cons q qs ih =>
    have hq : q.fails = false := hpre q List.mem_cons_self
    have := ih (k + 1) (fun r hr => hpre r (List.mem_cons_of_mem _ hr))
    simp only [List.cons_append, concatFrom, hq, Bool.false_eq_true, if_false, this, outputsFrom,
      List.length_cons]

theorem concatFrom_all_ok (k : Nat) (ps : List Pass) (h : ∀ q ∈ ps, q.fails = false) :
    concatFrom k ps = ⟨true, ps.length, outputsFrom k ps⟩ := by
  induction ps generalizing k with
  | nil => rfl
  | cons q qs ih =>
    have hq : q.fails = false := h q List.mem_cons_self
    have := ih (k + 1) (fun r hr => h r (List.mem_cons_of_mem _ hr))
    simp only [concatFrom, hq, Bool.false_eq_true, if_false, this, outputsFrom, List.length_cons]

/-- **pass_error_stops.** `Concat` semantics for every pass list: the first
failing pass ends the pipeline — exactly the passes up to and including it were
executed, the only printers that ran are those before it, and when the Output
passes come after it (they come last) no printer ran at all. -/
theorem pass_error_stops (pre : List Pass) (p : Pass) (post : List Pass)
    (hpre : ∀ q ∈ pre, q.fails = false) (hp : p.fails = true) :
    let r := concat (pre ++ p :: post)
    r.ok = false ∧ r.executed = pre.length + 1 ∧ r.printed = outputsFrom 0 pre ∧
      ((∀ q ∈ pre, q.output = false) → r.printed = []) := by
  simp only [concat, concatFrom_stops 0 pre p post hpre hp, true_and]
  exact fun h => outputsFrom_nil_of_no_output 0 pre h

/-- Without a failing pass everything runs, every printer prints. -/
theorem pass_all_ok (ps : List Pass) (h : ∀ q ∈ ps, q.fails = false) :
    concat ps = ⟨true, ps.length, outputsFrom 0 ps⟩ := concatFrom_all_ok 0 ps h

/-- **main_stops.** When `Result()` is an error, `Main` returns status 1 having
executed no pass and run no printer, for every pass list and error limit; it
logs one line per error (when unlimited). -/
theorem main_stops (mx : Nat) (passes : List Pass) (c : Ctx) (es : List ErrClass)
    (h : result c = .error es) :
    main mx passes c = ⟨1, 0, [], logLines mx es.length⟩ ∧ logLines 0 es.length = es.length := by
  simp [main, h, logLines]

/-- `Result()` is an error exactly when an error was recorded. -/
theorem result_error_iff (c : Ctx) : (∃ es, result c = .error es) ↔ c.errs ≠ [] := by
  unfold result
  cases h : c.errs <;> simp

/-! ## The property, end to end, and its executable acceptor -/

/-- What is observed of one generation run (model or implementation). -/
structure Observed where
  /-- number of error messages in `Result()` -/
  errs : Nat
  /-- what `Main` returned (in-process routes) or the exit code read from the operating
  system (child-process route); judged through `exit` -/
  status : Int
  /-- bytes written to the assembly output -/
  asm : Nat
  /-- bytes written to the stub output -/
  stubs : Nat
  /-- lines written to the diagnostics output (error limit 0 = unlimited) -/
  diag : Nat
  /-- builder calls / Main invocations that panicked -/
  panics : Nat
  /-- class of the reported compile error, when its message is a recognised one -/
  passErr : Option PassErr
  /-- the error limit of the configuration (`Config.MaxErrors`; 0 = unlimited) -/
  mx : Nat := 0
  deriving Repr, DecidableEq

/-- The status of the generation as the operating system reports it. -/
def Observed.exit (o : Observed) : Nat := exitCode o.status

@[simp] theorem exitCode_zero : exitCode 0 = 0 := by decide
@[simp] theorem exitCode_one : exitCode 1 = 1 := by decide

/-- The reported compile error, when its message is a recognised one, is among the faults present. -/
def passErrAmong (pf : List PassErr) (o : Observed) : Prop := ∀ e, o.passErr = some e → e ∈ pf

instance (pf o) : Decidable (passErrAmong pf o) :=
  match h : o.passErr with
  | none => isTrue (by simp [passErrAmong, h])
  | some e => if hm : e ∈ pf then isTrue (by simpa [passErrAmong, h] using hm)
              else isFalse (by simpa [passErrAmong, h] using hm)

/-- **The property.**  Parameters (facts about the history): `nf` = number of
builder-time faults, `na` = number of builder calls that were handed a nil
argument, `sb` = the stub text of some function is not Go syntax, `pf` = the
compile-time faults present in the built file.

"Status" is throughout the status of the generator *process* as the operating
system reports it (`o.exit` = the low 8 bits of what `Main` returned): that is
what `go generate`, make and CI look at.

1. nothing panics;
2. a failing generation (non-zero status) has written nothing to either output;
3. any builder-time fault ⇒ non-zero status and one message per fault (a call
   with a nil argument may, but need not, be reported as well), every message logged
   (up to the configured limit `mx`, then one line "too many errors");
4. without a builder-time fault the only messages there may be are those for
   nil arguments, and any message means failure;
5. only compile-time faults ⇒ non-zero status and the reported error — when its
   message is recognised — is one of them;
6. no fault at all (and printable stubs) ⇒ status 0, no diagnostics, both outputs written;
7. all or nothing: without a fault, status 0 means both outputs were written (also
   when a stub is unprintable: then either is acceptable, success with both outputs
   or failure with none — but not a status 0 with an output missing). -/
def Spec (nf na : Nat) (sb : Bool) (pf : List PassErr) (o : Observed) : Prop :=
  o.panics = 0 ∧
  (o.exit ≠ 0 → o.asm = 0 ∧ o.stubs = 0) ∧
  (nf > 0 → o.exit ≠ 0 ∧ nf ≤ o.errs ∧ o.errs ≤ nf + na ∧ o.diag = logLines o.mx o.errs) ∧
  (nf = 0 → o.errs ≤ na ∧ (o.errs > 0 → o.exit ≠ 0 ∧ o.diag = logLines o.mx o.errs)) ∧
  (nf = 0 → na = 0 → pf ≠ [] → o.exit ≠ 0 ∧ passErrAmong pf o) ∧
  (nf = 0 → na = 0 → pf = [] → sb = false → o.exit = 0 ∧ o.diag = 0 ∧ o.asm > 0 ∧ o.stubs > 0) ∧
  (nf = 0 → na = 0 → pf = [] → o.exit = 0 → o.asm > 0 ∧ o.stubs > 0)

instance (nf na sb pf o) : Decidable (Spec nf na sb pf o) := by
  unfold Spec
  refine @instDecidableAnd _ _ inferInstance (@instDecidableAnd _ _ inferInstance
    (@instDecidableAnd _ _ inferInstance (@instDecidableAnd _ _ inferInstance
      (@instDecidableAnd _ _ inferInstance (@instDecidableAnd _ _ inferInstance inferInstance)))))

/-- Executable acceptor used on the implementation's outcome. -/
def c18Accept (nf na : Nat) (sb : Bool) (pf : List PassErr) (o : Observed) : Bool :=
  decide (Spec nf na sb pf o)

theorem c18Accept_sound (nf na sb pf o) : c18Accept nf na sb pf o = true → Spec nf na sb pf o := by
  simp [c18Accept]

theorem c18Accept_complete (nf na sb pf o) : Spec nf na sb pf o → c18Accept nf na sb pf o = true := by
  simp [c18Accept]

/-- With no nil arguments the message count is pinned down: exactly one per fault. -/
theorem Spec_exact_count (nf sb pf o) (h : Spec nf 0 sb pf o) : o.errs = nf := by
  obtain ⟨_, _, h3, h4, _⟩ := h
  by_cases hz : nf = 0
  · have := (h4 hz).1; omega
  · have := h3 (by omega); omega

/-- Any fault (builder-time, or compile-time on a history without nil arguments) ⇒ nothing is written. -/
theorem Spec_nothing_emitted (nf na sb pf o) (h : Spec nf na sb pf o)
    (hf : nf > 0 ∨ (na = 0 ∧ pf ≠ [])) : o.exit ≠ 0 ∧ o.asm = 0 ∧ o.stubs = 0 := by
  obtain ⟨_, h2, h3, _, h5, _⟩ := h
  have hs : o.exit ≠ 0 := by
    rcases hf with hf | ⟨hna, hpf⟩
    · exact (h3 hf).1
    · by_cases hz : nf = 0
      · exact (h5 hz hna hpf).1
      · exact (h3 (by omega)).1
  exact ⟨hs, h2 hs⟩

def Op.isNil : Op → Bool
  | .nilArg _ => true
  | _ => false

/-- Number of calls with a nil argument in a history. -/
def numNil (ops : List Op) : Nat := (ops.filter Op.isNil).length

/-- What the model observes for a history under the standard configuration
(`Compile`, assembly printer, stub printer; unlimited errors). -/
def observeAt (tc : Char → Bool) (lim : Nat → Nat) (mx : Nat) (ops : List Op) : Observed :=
  let c := run tc Ctx.init ops
  let o := main mx (stdPasses lim c) c
  { errs := c.errs.length, status := o.status,
    asm := if o.printed.contains 1 then 1 else 0,
    stubs := if o.printed.contains 2 then 1 else 0,
    diag := o.diag, panics := 0,
    passErr := if c.errs.isEmpty then (passFaults lim c.fns).head? else none,
    mx := mx }

/-- … with unlimited errors (`-e`). -/
def observe (tc : Char → Bool) (lim : Nat → Nat) (ops : List Op) : Observed := observeAt tc lim 0 ops

/-- The stub printer is reached (no builder-time fault, no compile-time fault) and fails. -/
def stubFailureReached (tc : Char → Bool) (lim : Nat → Nat) (ops : List Op) : Prop :=
  numFaults tc Ctx.init ops = 0 ∧ passFaults lim (run tc Ctx.init ops).fns = [] ∧ stubFails (run tc Ctx.init ops) = true

instance (lim ops) : Decidable (stubFailureReached tc lim ops) := by
  unfold stubFailureReached; exact inferInstance

def C18_statement (tc : Char → Bool) : Prop :=
  ∀ (lim : Nat → Nat) (mx : Nat) (ops : List Op), ¬ stubFailureReached tc lim ops →
    Spec (numFaults tc Ctx.init ops) (numNil ops) (stubFails (run tc Ctx.init ops))
      (passFaults lim (run tc Ctx.init ops).fns) (observeAt tc lim mx ops)

/-- **C18.** The model of the builder and of `Main` meets the property for all
histories (all register-file sizes, all error limits) on which the stub printer is
not reached or does not fail. -/
theorem C18 : C18_statement tc := by
  intro lim mx ops hstub
  have hcount := errs_count tc ops
  unfold stubFailureReached at hstub
  generalize hc : run tc Ctx.init ops = c at hcount hstub
  generalize numFaults tc Ctx.init ops = nf at hcount hstub
  unfold Spec observeAt
  simp only [hc]
  have herr : nf > 0 → result c = .error c.errs := by
    intro hpos
    unfold result; cases h : c.errs <;> simp_all
  have hok : nf = 0 → c.errs = [] ∧ result c = .ok := by
    intro hz
    have he : c.errs = [] := by
      cases h : c.errs with
      | nil => rfl
      | cons a as => rw [h] at hcount; simp at hcount; omega
    exact ⟨he, by simp [result, he]⟩
  by_cases hz : nf = 0
  · obtain ⟨he, hres⟩ := hok hz
    cases hh : passFaults lim c.fns with
    | nil =>
      have hsf : stubFails c = false := by
        cases hs : stubFails c with
        | false => rfl
        | true => exact absurd ⟨hz, hh, hs⟩ hstub
      simp [main, hres, stdPasses, concat, concatFrom, hh, he, hsf, hz, Observed.exit]
    | cons a as =>
      simp [main, hres, stdPasses, concat, concatFrom, hh, he, hz, passErrAmong, Observed.exit]
  · have hpos : nf > 0 := by omega
    have hres := herr hpos
    simp [main, hres, logLines, hcount, hz, Observed.exit]

/-- **stub_failure_violates.** Whenever the stub printer is reached and fails,
the model — which here does what the implementation does: `pass.Output` of the
assembly printer has already written — violates the property: non-zero status
with the assembly output written. -/
theorem stub_failure_violates (lim : Nat → Nat) (ops : List Op) (h : stubFailureReached tc lim ops) :
    (observe tc lim ops).status = 1 ∧ (observe tc lim ops).asm = 1 ∧
    ¬ Spec (numFaults tc Ctx.init ops) (numNil ops) (stubFails (run tc Ctx.init ops))
      (passFaults lim (run tc Ctx.init ops).fns) (observe tc lim ops) := by
  obtain ⟨hz, hpf, hsf⟩ := h
  have hcount := errs_count tc ops
  rw [hz] at hcount
  have he : (run tc Ctx.init ops).errs = [] := by
    cases h : (run tc Ctx.init ops).errs with
    | nil => rfl
    | cons a as => rw [h] at hcount; simp at hcount
  have hres : result (run tc Ctx.init ops) = .ok := by simp [result, he]
  have hst : (observe tc lim ops).status = 1 ∧ (observe tc lim ops).asm = 1 := by
    simp [observe, observeAt, main, hres, stdPasses, concat, concatFrom, hpf, hsf]
  refine ⟨hst.1, hst.2, ?_⟩
  intro hspec
  have := hspec.2.1 (by unfold Observed.exit; rw [hst.1]; decide)
  rw [hst.2] at this
  exact absurd this.1 (by decide)

/-- The two together: the model meets the property exactly on the histories
where a failing stub printer is not reached. -/
theorem C18_iff (lim : Nat → Nat) (ops : List Op) :
    Spec (numFaults tc Ctx.init ops) (numNil ops) (stubFails (run tc Ctx.init ops))
      (passFaults lim (run tc Ctx.init ops).fns) (observe tc lim ops) ↔ ¬ stubFailureReached tc lim ops :=
  ⟨fun hs hr => (stub_failure_violates tc lim ops hr).2.2 hs, C18 tc lim 0 ops⟩

/-! ## Non-vacuity: concrete histories meeting the hypotheses -/

/-- a history with a fault in the middle, followed by valid requests -/
def exBad : List Op :=
  [.function "f", .instr false default, .instr true default, .label "a", .function "g", .comment]

example : ∃ k, faultAt asciiTag Ctx.init exBad k = true := ⟨1, by decide⟩
example : result (run asciiTag Ctx.init exBad) = .error [.badOperands] := by decide
example : numFaults asciiTag Ctx.init exBad = 1 := by decide

/-- a valid history -/
def exGood : List Op :=
  [.function "f", .signature (some ⟨[("x", .int 8 true)], []⟩), .param "x", .load 0 1 true,
   .instr true default, .staticGlobal "d", .addDatum 0 8, .addDatum 8 8]

example : ∀ k, k < exGood.length → faultAt asciiTag Ctx.init exGood k = false := by decide
example : result (run asciiTag Ctx.init exGood) = .ok := by decide

/-- an instruction before any function, and an overlapping datum -/
example : faults asciiTag Ctx.init [.instr true default, .staticGlobal "d", .addDatum 0 8, .addDatum 4 8]
    = [.noFunc, .overlap] := by decide

/-- a chain that starts at an unknown parameter -/
example : ((([Nav.base, Nav.index 3, Nav.field "y", Nav.deref]).foldl Comp.nav
    (tupleLookup [("x", .int 8 true)] "nope"))).resolveErr = some .unknownVar := by decide

/-- Concat: Compile fails, the two printers after it never run -/
example : concat [⟨false, true⟩, ⟨true, false⟩, ⟨true, false⟩] = ⟨false, 1, []⟩ := by decide
example : concat [⟨false, false⟩, ⟨true, false⟩, ⟨true, false⟩] = ⟨true, 3, [1, 2]⟩ := by decide

/-- Main on the faulty history: status 1, no pass executed, no printer, one diagnostic line -/
example : main 0 (stdPasses (fun _ => 15) (run asciiTag Ctx.init exBad)) (run asciiTag Ctx.init exBad) = ⟨1, 0, [], 1⟩ := by decide
/-- … and with an error limit of 2 on five errors: two lines and "too many errors" -/
example : logLines 2 5 = 3 := by decide
/-- Main on the valid history: status 0, all three passes, both printers -/
example : main 0 (stdPasses (fun _ => 15) (run asciiTag Ctx.init exGood)) (run asciiTag Ctx.init exGood) = ⟨0, 3, [1, 2], 0⟩ := by decide
/-- the acceptor rejects a panic, a written output next to a fault, and a dropped message -/
example : c18Accept 0 0 false [] ⟨0, 0, 10, 10, 0, 1, none, 0⟩ = false := by decide
example : c18Accept 1 0 false [] ⟨1, 1, 10, 0, 1, 0, none, 0⟩ = false := by decide
example : c18Accept 2 0 false [] ⟨1, 1, 0, 0, 1, 0, none, 0⟩ = false := by decide
example : c18Accept 2 0 false [] ⟨2, 1, 0, 0, 2, 0, none, 0⟩ = true := by decide
example : c18Accept 0 0 false [.dupLabel] ⟨0, 1, 0, 0, 1, 0, some .dupLabel, 0⟩ = true := by decide
example : c18Accept 0 0 false [.dupLabel] ⟨0, 0, 9, 9, 0, 0, none, 0⟩ = false := by decide
/-- … a failure after one printer has written (whatever the stubs look like) -/
example : c18Accept 0 0 true [] ⟨0, 1, 74, 0, 1, 0, none, 0⟩ = false := by decide
example : c18Accept 0 0 true [] ⟨0, 1, 0, 0, 1, 0, none, 0⟩ = true := by decide
example : c18Accept 0 0 true [] ⟨0, 0, 74, 60, 0, 0, none, 0⟩ = true := by decide
example : c18Accept 0 0 true [] ⟨0, 0, 74, 0, 0, 0, none, 0⟩ = false := by decide
/-- … a nil argument may be reported or ignored, but must not panic -/
example : c18Accept 0 1 false [] ⟨0, 0, 79, 68, 0, 1, none, 0⟩ = false := by decide
example : c18Accept 0 1 false [] ⟨0, 0, 79, 68, 0, 0, none, 0⟩ = true := by decide
example : c18Accept 0 1 false [] ⟨1, 1, 0, 0, 1, 0, none, 0⟩ = true := by decide
example : c18Accept 0 1 false [] ⟨2, 1, 0, 0, 2, 0, none, 0⟩ = false := by decide
example : c18Accept 0 1 false [] ⟨1, 0, 79, 68, 1, 0, none, 0⟩ = false := by decide

/-- hypotheses of `C18` and of `stub_failure_violates` are satisfiable -/
example : ¬ stubFailureReached asciiTag (fun _ => 15) exGood := by decide
example : stubFailureReached asciiTag (fun _ => 15) [.function "", .instr true default] := by decide
example : stubFailureReached asciiTag (fun _ => 15) [.function "1 f", .instr true default] := by decide
example : stubFailureReached asciiTag (fun _ => 15) [.function "f", .pragma true, .instr true default] := by decide
/-- a later `Doc` replaces the broken one; a later plain `Pragma` does not -/
example : ¬ stubFailureReached asciiTag (fun _ => 15) [.function "f", .doc true, .doc false, .instr true default] := by decide
example : stubFailureReached asciiTag (fun _ => 15) [.function "f", .pragma true, .pragma false, .instr true default] := by decide
example : isGoIdent "f1" = true ∧ isGoIdent "_x" = true ∧ isGoIdent "func" = false ∧ isGoIdent "a b" = false := by decide

/-- compile-time faults of a concrete function: undefined label and a label at the end -/
example : fnPassFaults (fun _ => 15)
    { name := "f", nodes := [.instr ⟨1, [], [.lbl "x"]⟩, .instr ⟨2, [], [.lbl "e"]⟩, .label "e"] }
    = [.endLabel, .unknownLabel] := by decide

example : fnPassFaults (fun _ => 15) { name := "f", nodes := [.press 1 16] } = [.alloc] := by decide
example : fnPassFaults (fun _ => 15) { name := "f", nodes := [.press 1 15] } = [] := by decide

/-! ## What the property demands at the witnesses of the listed findings

The implementation's behaviour at these inputs (a panic, a silently accepted
request) is observed by the harness on every run; these theorems fix what the
property requires there, so that the disagreement is a violation and not a
modelling choice. -/

/-- `ParamIndex(-1)` is an invalid request that must surface as exactly one
"index out of range" error when the component is loaded (F3: the implementation panics). -/
theorem witness_paramIndex_negative :
    faults tc Ctx.init [.function "f", .signature (some ⟨[("x", .int 8 true)], []⟩), .paramIndex (-1),
      .load 0 1 false] = [.indexRange] := by rfl

/-- `Param("x").Index(-1)` on `[2]float64` must be reported as out of bounds
when loaded (F3: the implementation reports nothing and emits the MOV). -/
theorem witness_index_negative :
    faults tc Ctx.init [.function "f", .signature (some ⟨[("x", .array 2 (.float 8))], []⟩), .param "x",
      .nav 0 (.index (-1)), .load 1 2 false] = [.arrayBounds] := by rfl

/-- `RDTSC; CDQ; RET` is a valid history with no compile-time fault for any
register file, so the property demands status 0 and both outputs written (F4: `Main` panics). -/
theorem witness_implicit_only_valid (lim : Nat → Nat) :
    let ops := [Op.function "f", .instr true ⟨0, [1], []⟩, .instr true ⟨0, [1], []⟩, .instr true ⟨0, [], []⟩]
    faults tc Ctx.init ops = [] ∧ passFaults lim (run tc Ctx.init ops).fns = [] ∧
      (observe tc lim ops).status = 0 ∧ (observe tc lim ops).asm = 1 ∧ (observe tc lim ops).stubs = 1 := by
  refine ⟨by rfl, ?_⟩
  have h : passFaults lim (run tc Ctx.init [Op.function "f", .instr true ⟨0, [1], []⟩, .instr true ⟨0, [1], []⟩,
      .instr true ⟨0, [], []⟩]).fns = [] := by
    simp [passFaults, fnPassFaults, run, step, Ctx.newFn, Ctx.addNode, Ctx.withFn, Ctx.init, Ctx.fns,
      Node.memFaults, pruneJumps, pruneDangling, isJumpTo, referenced, Node.target, Instr.target, labelScan]
  refine ⟨h, ?_⟩
  simp only [observe, main, stdPasses, h]
  exact ⟨rfl, rfl, rfl⟩

/-! ## Declarative reading of the faults that depend on the history

`fault` above is stated on the model state.  The theorems of this section say
what that means in terms of the history alone (no reference to `step`):
a request that acts on the active function / data section is a fault exactly
when no `Function` / `StaticGlobal` call precedes it, and no history whatsoever
stores two overlapping data in a section. -/

def Op.opensFn : Op → Bool
  | .function _ | .pressure _ _ _ => true
  | _ => false

def Op.opensGlob : Op → Bool
  | .staticGlobal _ => true
  | _ => false

@[simp] theorem withFn_cur_isSome (c : Ctx) (f) : (c.withFn f).cur.isSome = c.cur.isSome := by
  unfold Ctx.withFn; cases h : c.cur <;> simp [Ctx.addErr, h]
@[simp] theorem withFn_glob (c : Ctx) (f) : (c.withFn f).glob = c.glob := by
  unfold Ctx.withFn; cases h : c.cur <;> simp [Ctx.addErr]
@[simp] theorem withFn_doneGlobs (c : Ctx) (f) : (c.withFn f).doneGlobs = c.doneGlobs := by
  unfold Ctx.withFn; cases h : c.cur <;> simp [Ctx.addErr]
@[simp] theorem withGlob_cur (c : Ctx) (f) : (c.withGlob f).cur = c.cur := by
  unfold Ctx.withGlob; cases h : c.glob <;> simp [Ctx.addErr]
@[simp] theorem withGlob_glob_isSome (c : Ctx) (f) : (c.withGlob f).glob.isSome = c.glob.isSome := by
  unfold Ctx.withGlob; cases h : c.glob <;> simp [Ctx.addErr, h]
@[simp] theorem withGlob_doneGlobs (c : Ctx) (f) : (c.withGlob f).doneGlobs = c.doneGlobs := by
  unfold Ctx.withGlob; cases h : c.glob <;> simp [Ctx.addErr]
@[simp] theorem rootComp_cur (c : Ctx) (p) : (c.rootComp p).cur = c.cur := by
  unfold Ctx.rootComp; cases h : c.cur <;> simp [Ctx.addErr, Ctx.pushComp, h]
@[simp] theorem rootComp_glob (c : Ctx) (p) : (c.rootComp p).glob = c.glob := by
  unfold Ctx.rootComp; cases h : c.cur <;> simp [Ctx.addErr, Ctx.pushComp]
@[simp] theorem rootComp_doneGlobs (c : Ctx) (p) : (c.rootComp p).doneGlobs = c.doneGlobs := by
  unfold Ctx.rootComp; cases h : c.cur <;> simp [Ctx.addErr, Ctx.pushComp]
@[simp] theorem loadStore_cur_isSome (c : Ctx) (s rk d st) : (c.loadStore s rk d st).cur.isSome = c.cur.isSome := by
  unfold Ctx.loadStore; split <;> (try split) <;> (try split) <;> simp [Ctx.addErr, Ctx.addNode]
@[simp] theorem loadStore_glob (c : Ctx) (s rk d st) : (c.loadStore s rk d st).glob = c.glob := by
  unfold Ctx.loadStore; split <;> (try split) <;> (try split) <;> simp [Ctx.addErr, Ctx.addNode]
@[simp] theorem loadStore_doneGlobs (c : Ctx) (s rk d st) : (c.loadStore s rk d st).doneGlobs = c.doneGlobs := by
  unfold Ctx.loadStore; split <;> (try split) <;> (try split) <;> simp [Ctx.addErr, Ctx.addNode]

theorem step_cur_isSome (c : Ctx) (op : Op) : (step tc c op).cur.isSome = (c.cur.isSome || op.opensFn) := by
  cases op with
  | signature s => cases s <;> simp [step, Op.opensFn, Ctx.addErr]
  | instr v i => cases v <;> simp [step, Op.opensFn, Ctx.addErr, Ctx.addNode]
  | addDatum off sz =>
    simp only [step, Op.opensFn]
    cases c.glob with
    | none => simp [Ctx.addErr]
    | some g => by_cases h : g.overlapsAny off sz = true <;> simp [h, Ctx.addErr]
  | constraints cs => by_cases h : constraintsValid tc cs = true <;> simp [step, h, Ctx.addErr, Op.opensFn]
  | constraint k => by_cases h : constraintsValid tc (c.cons ++ [k]) = true <;> simp [step, h, Ctx.addErr, Op.opensFn]
  | constraintExpr text =>
    by_cases h : constraintsValid tc (c.cons ++ [parseConstraint text]) = true <;>
      by_cases h2 : constraintValid tc (parseConstraint text) = true <;>
      simp [step, h, h2, Ctx.addErr, Op.opensFn]
  | _ => simp [step, Op.opensFn, Ctx.addNode, Ctx.addErr, Ctx.pushComp, Ctx.newFn]

theorem run_cur_isSome (c : Ctx) (ops : List Op) :
    (run tc c ops).cur.isSome = (c.cur.isSome || ops.any Op.opensFn) := by
  induction ops generalizing c with
  | nil => simp [run]
  | cons op ops ih => rw [run_cons, ih, step_cur_isSome]; simp [Bool.or_assoc]

theorem step_glob_isSome (c : Ctx) (op : Op) : (step tc c op).glob.isSome = (c.glob.isSome || op.opensGlob) := by
  cases op with
  | signature s => cases s <;> simp [step, Op.opensGlob, Ctx.addErr]
  | instr v i => cases v <;> simp [step, Op.opensGlob, Ctx.addErr, Ctx.addNode]
  | addDatum off sz =>
    simp only [step, Op.opensGlob]
    cases hg : c.glob with
    | none => simp [Ctx.addErr, hg]
    | some g => by_cases h : g.overlapsAny off sz = true <;> simp [h, Ctx.addErr, hg]
  | constraints cs => by_cases h : constraintsValid tc cs = true <;> simp [step, h, Ctx.addErr, Op.opensGlob]
  | constraint k => by_cases h : constraintsValid tc (c.cons ++ [k]) = true <;> simp [step, h, Ctx.addErr, Op.opensGlob]
  | constraintExpr text =>
    by_cases h : constraintsValid tc (c.cons ++ [parseConstraint text]) = true <;>
      by_cases h2 : constraintValid tc (parseConstraint text) = true <;>
      simp [step, h, h2, Ctx.addErr, Op.opensGlob]
  | _ => simp [step, Op.opensGlob, Ctx.addNode, Ctx.addErr, Ctx.pushComp, Ctx.newFn]

theorem run_glob_isSome (c : Ctx) (ops : List Op) :
    (run tc c ops).glob.isSome = (c.glob.isSome || ops.any Op.opensGlob) := by
  induction ops generalizing c with
  | nil => simp [run]
  | cons op ops ih => rw [run_cons, ih, step_glob_isSome]; simp [Bool.or_assoc]

/-- requests that act on the active function and are otherwise well-formed -/
def Op.needsFn : Op → Bool
  | .attributes _ | .doc _ | .pragma _ | .label _ | .comment | .rawInstr _ | .allocLocal _
  | .param _ | .paramIndex _ | .ret _ | .retIndex _ | .signature (some _) | .instr true _ => true
  | _ => false

/-- requests that act on the active data section -/
def Op.needsGlob : Op → Bool
  | .dataAttributes _ | .appendDatum _ | .addDatum _ _ | .addDatumNeg _ _ => true
  | _ => false

/-- **outside_function_iff** ("instruction outside a function").  For every history
`pre` and every request that acts on the active function: the request is a fault
exactly when no `Function` call precedes it, and the message is "no active function". -/
theorem outside_function_iff (pre : List Op) (op : Op) (h : op.needsFn = true) :
    fault tc (run tc Ctx.init pre) op = (if pre.any Op.opensFn then none else some .noFunc) := by
  have hc := run_cur_isSome tc Ctx.init pre
  simp only [Ctx.init, Option.isSome_none, Bool.false_or] at hc
  have hn : noFn (run tc Ctx.init pre) = (if pre.any Op.opensFn then none else some .noFunc) := by
    unfold noFn
    cases hh : pre.any Op.opensFn <;> cases hcur : (run tc Ctx.init pre).cur <;> simp_all [Ctx.init]
  cases op with
  | signature s => cases s <;> simp_all [fault, Op.needsFn]
  | instr v i => cases v <;> simp_all [fault, Op.needsFn]
  | _ => simp_all [fault, Op.needsFn]

/-- … and for the data section: without a preceding `StaticGlobal` every datum /
attribute request is a fault ("no active global"). -/
theorem outside_global_fault (pre : List Op) (op : Op) (h : op.needsGlob = true)
    (hpre : pre.any Op.opensGlob = false) : fault tc (run tc Ctx.init pre) op = some .noGlobal := by
  have hc : (run tc Ctx.init pre).glob.isSome = false := by
    rw [run_glob_isSome, hpre]; rfl
  have hg : (run tc Ctx.init pre).glob = none := by
    cases hh : (run tc Ctx.init pre).glob with
    | none => rfl
    | some g => rw [hh] at hc; simp at hc
  cases op <;> simp_all [fault, Op.needsGlob, noGl]

/-- **negative_offset_fault** ("bad data placement").  With an active data section
— opened anywhere earlier in the history — a datum at a negative offset is a
fault of its own class and leaves every section as it was. -/
theorem negative_offset_fault (pre : List Op) (below sz : Nat) (h : pre.any Op.opensGlob = true) :
    fault tc (run tc Ctx.init pre) (.addDatumNeg below sz) = some .negOffset ∧
    (step tc (run tc Ctx.init pre) (.addDatumNeg below sz)).globs = (run tc Ctx.init pre).globs := by
  have hc : (run tc Ctx.init pre).glob.isSome = true := by rw [run_glob_isSome, h]; simp
  have hn : (run tc Ctx.init pre).glob.isNone = false := by
    cases hg : (run tc Ctx.init pre).glob <;> simp_all
  exact ⟨by simp [fault, hn], by simp [step, Ctx.addErr, Ctx.globs]⟩

example : faults asciiTag Ctx.init [.staticGlobal "d", .addDatum 0 8, .addDatumNeg 3 4, .addDatum 8 8] = [.negOffset] := by
  decide

/-! ### No history stores overlapping data -/

/-- `later` does not overlap `earlier` (in the sense of `Datum.Overlaps`, the new datum being the receiver). -/
def disjointFrom (earlier later : Nat × Nat) : Prop :=
  overlaps later.1 (later.1 + later.2) earlier.1 (earlier.1 + earlier.2) = false

/-- A data section is well formed: its data are pairwise non-overlapping and all lie below its size. -/
def Glob.wf (g : Glob) : Prop :=
  g.data.Pairwise disjointFrom ∧ ∀ d ∈ g.data, d.1 + d.2 ≤ g.size

theorem Glob.wf_empty (n : String) : ({ name := n } : Glob).wf := by
  simp [Glob.wf]

theorem Glob.add_wf (g : Glob) (off sz : Nat) (hw : g.wf) (hno : g.overlapsAny off sz = false) :
    (g.add off sz).wf := by
  obtain ⟨hp, hs⟩ := hw
  refine ⟨?_, ?_⟩
  · simp only [Glob.add, List.pairwise_append, List.pairwise_cons, List.not_mem_nil, false_imp_iff,
      implies_true, List.Pairwise.nil, and_self, List.mem_singleton, true_and]
    refine ⟨hp, ?_⟩
    intro a ha b hb
    subst hb
    simp only [Glob.overlapsAny, List.any_eq_false] at hno
    have := hno a ha
    simpa [disjointFrom] using this
  · intro d hd
    simp only [Glob.add, List.mem_append, List.mem_singleton] at hd ⊢
    rcases hd with hd | hd
    · have := hs d hd; split <;> omega
    · subst hd; simp only; split <;> omega

theorem Glob.append_no_overlap (g : Glob) (sz : Nat) (hw : g.wf) : g.overlapsAny g.size sz = false := by
  simp only [Glob.overlapsAny, List.any_eq_false]
  intro d hd
  have := hw.2 d hd
  simp [overlaps, this]

/-- the invariant: every data section of the context is well formed -/
def Ctx.dataWf (c : Ctx) : Prop := (∀ g ∈ c.doneGlobs, g.wf) ∧ (∀ g, c.glob = some g → g.wf)

theorem step_dataWf (c : Ctx) (op : Op) (h : c.dataWf) : (step tc c op).dataWf := by
  obtain ⟨hd, hg⟩ := h
  cases op with
  | signature s => cases s <;> simpa [step, Ctx.dataWf, Ctx.addErr] using ⟨hd, hg⟩
  | instr v i => cases v <;> simpa [step, Ctx.dataWf, Ctx.addErr, Ctx.addNode] using ⟨hd, hg⟩
  | staticGlobal n =>
    refine ⟨?_, ?_⟩
    · intro g hm
      simp only [step, List.mem_append] at hm
      rcases hm with hm | hm
      · exact hd g hm
      · cases hc : c.glob with
        | none => simp [hc] at hm
        | some g' => simp [hc] at hm; exact hm ▸ hg g' hc
    · intro g hm
      simp only [step, Option.some.injEq] at hm
      subst hm; exact Glob.wf_empty n
  | dataAttributes a =>
    refine ⟨by simpa [step] using hd, ?_⟩
    intro g hm
    simp only [step, Ctx.withGlob] at hm
    cases hc : c.glob with
    | none => simp [hc, Ctx.addErr] at hm
    | some g' =>
      simp [hc] at hm; subst hm
      have := hg g' hc
      exact ⟨this.1, this.2⟩
  | addDatum off sz =>
    simp only [step]
    cases hc : c.glob with
    | none => simpa [Ctx.dataWf, Ctx.addErr, hc] using hd
    | some g' =>
      by_cases ho : g'.overlapsAny off sz = true
      · simpa [ho, Ctx.dataWf, Ctx.addErr, hc] using ⟨hd, hg g' hc⟩
      · simp only [ho, Bool.false_eq_true, if_false]
        refine ⟨hd, ?_⟩
        intro g hm
        simp only [Option.some.injEq] at hm
        subst hm
        exact Glob.add_wf g' off sz (hg g' hc) (by simpa using ho)
  | appendDatum sz =>
    refine ⟨by simpa [step] using hd, ?_⟩
    intro g hm
    simp only [step, Ctx.withGlob] at hm
    cases hc : c.glob with
    | none => simp [hc, Ctx.addErr] at hm
    | some g' =>
      simp [hc] at hm; subst hm
      exact Glob.add_wf g' g'.size sz (hg g' hc) (Glob.append_no_overlap g' sz (hg g' hc))
  | constraints cs => by_cases h : constraintsValid tc cs = true <;> simpa [step, h, Ctx.addErr, Ctx.dataWf] using ⟨hd, hg⟩
  | constraint k =>
    by_cases h : constraintsValid tc (c.cons ++ [k]) = true <;> simpa [step, h, Ctx.addErr, Ctx.dataWf] using ⟨hd, hg⟩
  | constraintExpr text =>
    by_cases h : constraintsValid tc (c.cons ++ [parseConstraint text]) = true <;>
      by_cases h2 : constraintValid tc (parseConstraint text) = true <;>
      simpa [step, h, h2, Ctx.addErr, Ctx.dataWf] using ⟨hd, hg⟩
  | _ => simpa [step, Ctx.dataWf, Ctx.addNode, Ctx.addErr, Ctx.pushComp, Ctx.newFn] using ⟨hd, hg⟩

/-- **data_disjoint.** Whatever the history — valid or not, in any interleaving
with functions and other sections — no data section of the built file ever holds
two overlapping data, and every datum lies within the section's size: an
overlapping datum is never stored. -/
theorem data_disjoint (ops : List Op) : ∀ g ∈ (run tc Ctx.init ops).globs, g.wf := by
  have hinv : ∀ (c : Ctx), c.dataWf → (run tc c ops).dataWf := by
    induction ops with
    | nil => intro c h; exact h
    | cons op ops ih => intro c h; rw [run_cons]; exact ih _ (step_dataWf tc c op h)
  have h := hinv Ctx.init ⟨by simp [Ctx.init], by simp [Ctx.init]⟩
  intro g hm
  simp only [Ctx.globs, List.mem_append, Option.mem_toList] at hm
  rcases hm with hm | hm
  · exact h.1 g hm
  · exact h.2 g hm

/-- non-vacuity: a section with three data, one request refused in between -/
example : (run asciiTag Ctx.init [.staticGlobal "d", .addDatum 0 8, .addDatum 4 8, .appendDatum 4, .addDatum 16 2]).globs.map
    (·.data) = [[(0, 8), (8, 4), (16, 2)]] := by decide

/-! ## Build constraints: what an invalid constraint is, and that nothing masks one

Everything in this section holds for every tag-character predicate `tc`;
`Props/C18Tables.lean` instantiates it with the table measured from the installed
`go/build/constraint`, so that "invalid" means *invalid to the Go toolchain*. -/

/-- A tag: a non-empty word of tag characters. -/
def IsTag (n : List Char) : Prop := n ≠ [] ∧ ∀ c ∈ n, tc c = true

/-- **termValid_iff.** Declarative reading of term validity: a term is valid
exactly when it is a tag or `!` followed by a tag (`!` itself not being a tag character). -/
theorem termValid_iff (hbang : tc '!' = false) (t : List Char) :
    termValid tc t = true ↔ ∃ n, IsTag tc n ∧ (t = n ∨ t = '!' :: n) := by
  have notTag : ∀ r : List Char, ¬ IsTag tc ('!' :: r) := by
    intro r h; have := h.2 '!' List.mem_cons_self; simp [hbang] at this
  unfold termValid
  split
  · -- `!!…`
    rename_i r
    constructor
    · intro h; simp at h
    · rintro ⟨n, hn, h | h⟩
      · subst h; exact absurd hn (notTag _)
      · simp only [List.cons.injEq, true_and] at h; subst h; exact absurd hn (notTag _)
  · rename_i hne
    cases t with
    | nil =>
      constructor
      · intro h; simp [termName] at h
      · rintro ⟨n, hn, h | h⟩
        · subst h; exact absurd rfl hn.1
        · simp at h
    | cons c r =>
      by_cases hc : c = '!'
      · subst hc
        have hname : termName ('!' :: r) = r := rfl
        rw [hname]
        constructor
        · intro h
          simp only [Bool.and_eq_true, Bool.not_eq_true', List.isEmpty_eq_false_iff, List.all_eq_true] at h
          exact ⟨r, ⟨h.1, h.2⟩, Or.inr rfl⟩
        · rintro ⟨n, hn, h | h⟩
          · subst h; exact absurd hn (notTag _)
          · simp only [List.cons.injEq, true_and] at h; subst h
            simp only [Bool.and_eq_true, Bool.not_eq_true', List.isEmpty_eq_false_iff, List.all_eq_true]
            exact ⟨hn.1, hn.2⟩
      · have hname : termName (c :: r) = c :: r := by
          unfold termName; split
          · rename_i h; simp at h; exact absurd h.1 hc
          · rfl
        rw [hname]
        constructor
        · intro h
          simp only [Bool.and_eq_true, Bool.not_eq_true', List.isEmpty_eq_false_iff, List.all_eq_true] at h
          exact ⟨c :: r, ⟨h.1, h.2⟩, Or.inl rfl⟩
        · rintro ⟨n, hn, h | h⟩
          · subst h
            simp only [Bool.and_eq_true, Bool.not_eq_true', List.isEmpty_eq_false_iff, List.all_eq_true]
            exact ⟨hn.1, hn.2⟩
          · simp only [List.cons.injEq] at h; exact absurd h.1 hc

/-- One character of the tag name that is not a tag character makes the term invalid,
wherever it stands (first, middle, last; negated term or not). -/
theorem bad_char_invalid (t : List Char) (c : Char) (hc : c ∈ termName t) (hbad : tc c = false) :
    termValid tc t = false := by
  unfold termValid
  split
  · rfl
  · have : (termName t).all tc = false := by
      simp only [List.all_eq_false]; exact ⟨c, hc, by simp [hbad]⟩
    simp [this]

/-- A constraint line with an invalid term anywhere — whichever option, whichever
position in the option — is invalid. -/
theorem constraintValid_false_of_term (k : Constraint) (o : Option') (t : List Char)
    (ho : o ∈ k) (ht : t ∈ o) (hbad : termValid tc t = false) : constraintValid tc k = false := by
  have hov : optionValid tc o = false := by
    unfold optionValid
    have : o.all (termValid tc) = false := by
      simp only [List.all_eq_false]; exact ⟨t, ht, by simp [hbad]⟩
    simp [this]
  unfold constraintValid
  have : k.all (optionValid tc) = false := by
    simp only [List.all_eq_false]; exact ⟨o, ho, by simp [hov]⟩
  simp [this]

theorem constraintsValid_false_of_mem (ks : List Constraint) (k : Constraint) (hk : k ∈ ks)
    (hbad : constraintValid tc k = false) : constraintsValid tc ks = false := by
  unfold constraintsValid
  simp only [List.all_eq_false]; exact ⟨k, hk, by simp [hbad]⟩

/-- An empty constraint line and an empty option are invalid. -/
theorem constraintValid_nil : constraintValid tc [] = false := rfl
theorem constraintValid_empty_option (k : Constraint) (h : [] ∈ k) : constraintValid tc k = false := by
  unfold constraintValid
  have : k.all (optionValid tc) = false := by
    simp only [List.all_eq_false]; exact ⟨[], h, by simp [optionValid]⟩
  simp [this]

/-- The constraint lines a request submits, by any of the three routes
(`Constraints`, `Constraint`, `ConstraintExpr`; the package-level functions call the same methods). -/
def Op.submitted : Op → Option (List Constraint)
  | .constraints cs => some cs
  | .constraint k => some [k]
  | .constraintExpr text => some [parseConstraint text]
  | _ => none

@[simp] theorem withFn_cons (c : Ctx) (f) : (c.withFn f).cons = c.cons := by
  unfold Ctx.withFn; cases h : c.cur <;> simp [Ctx.addErr]
@[simp] theorem withGlob_cons (c : Ctx) (f) : (c.withGlob f).cons = c.cons := by
  unfold Ctx.withGlob; cases h : c.glob <;> simp [Ctx.addErr]
@[simp] theorem rootComp_cons (c : Ctx) (p) : (c.rootComp p).cons = c.cons := by
  unfold Ctx.rootComp; cases h : c.cur <;> simp [Ctx.addErr, Ctx.pushComp]
@[simp] theorem loadStore_cons (c : Ctx) (s rk d st) : (c.loadStore s rk d st).cons = c.cons := by
  unfold Ctx.loadStore; split <;> (try split) <;> (try split) <;> simp [Ctx.addErr, Ctx.addNode]

/-- Invariant: the constraints a context holds are valid after every request. -/
theorem step_cons_valid (c : Ctx) (op : Op) (h : constraintsValid tc c.cons = true) :
    constraintsValid tc (step tc c op).cons = true := by
  cases op with
  | signature s => cases s <;> simpa [step, Ctx.addErr] using h
  | instr v i => cases v <;> simpa [step, Ctx.addErr, Ctx.addNode] using h
  | addDatum off sz =>
    simp only [step]
    cases c.glob with
    | none => simpa [Ctx.addErr] using h
    | some g => by_cases ho : g.overlapsAny off sz = true <;> simpa [ho, Ctx.addErr] using h
  | constraints cs => by_cases hv : constraintsValid tc cs = true <;> simp [step, hv, Ctx.addErr, h]
  | constraint k =>
    by_cases hv : constraintsValid tc (c.cons ++ [k]) = true <;> simp [step, hv, Ctx.addErr, h]
  | constraintExpr text =>
    by_cases hv : constraintsValid tc (c.cons ++ [parseConstraint text]) = true <;>
      by_cases h2 : constraintValid tc (parseConstraint text) = true <;> simp [step, hv, h2, Ctx.addErr, h]
  | _ => simpa [step, Ctx.addNode, Ctx.addErr, Ctx.pushComp, Ctx.newFn] using h

/-- **cons_always_valid.** Whatever the history, the file never holds an invalid constraint. -/
theorem cons_always_valid (ops : List Op) : constraintsValid tc (run tc Ctx.init ops).cons = true := by
  have hinv : ∀ c : Ctx, constraintsValid tc c.cons = true → constraintsValid tc (run tc c ops).cons = true := by
    induction ops with
    | nil => intro c h; exact h
    | cons op ops ih => intro c h; rw [run_cons]; exact ih _ (step_cons_valid tc c op h)
  exact hinv Ctx.init rfl

/-- **constraint_fault_iff** ("invalid constraint").  After ANY history, a
constraint request — by whichever route — is a fault exactly when one of the
lines it submits is invalid; nothing the context holds can mask it or make a
valid request fail. -/
theorem constraint_fault_iff (pre : List Op) (op : Op) (ks : List Constraint) (h : op.submitted = some ks) :
    fault tc (run tc Ctx.init pre) op = (if constraintsValid tc ks then none else some .constraint) := by
  have hinv := cons_always_valid tc pre
  cases op <;> simp only [Op.submitted, Option.some.injEq, reduceCtorEq] at h
  · subst h; rfl
  · subst h; simp only [fault]; rw [constraintsValid_append, hinv]; simp [constraintsValid]
  · subst h; simp only [fault]; rw [constraintsValid_append, hinv]; simp [constraintsValid]

theorem faultAt_mid (pre post : List Op) (op : Op) :
    faultAt tc Ctx.init (pre ++ op :: post) pre.length = (fault tc (run tc Ctx.init pre) op).isSome := by
  simp [faultAt, stateAt]

/-- **any_fault_stops.** End to end, for every history and register file: if any
request is a builder-time fault, generation fails with status 1, no pass was
executed, neither printer ran, nothing was written, and there is one diagnostic
line per fault. -/
theorem any_fault_stops (lim : Nat → Nat) (ops : List Op) (k : Nat) (h : faultAt tc Ctx.init ops k = true) :
    (observe tc lim ops).status = 1 ∧ (observe tc lim ops).asm = 0 ∧ (observe tc lim ops).stubs = 0 ∧
    (observe tc lim ops).errs = numFaults tc Ctx.init ops ∧ 0 < (observe tc lim ops).errs ∧
    (observe tc lim ops).diag = (observe tc lim ops).errs ∧ (observe tc lim ops).panics = 0 ∧
    (main 0 (stdPasses lim (run tc Ctx.init ops)) (run tc Ctx.init ops)).executed = 0 := by
  obtain ⟨es, hres, hes, hlen, hne⟩ := bad_never_masked tc ops ⟨k, h⟩
  have hm := (main_stops 0 (stdPasses lim (run tc Ctx.init ops)) (run tc Ctx.init ops) es hres)
  have hcount := errs_count tc ops
  have hpos : 0 < es.length := by cases es with
    | nil => exact absurd rfl hne
    | cons a as => simp
  rw [← hlen] at hcount
  simp only [observe, observeAt, hm.1, hcount]
  exact ⟨by simp, by simp, by simp, hlen, hpos, hm.2, trivial, trivial⟩

/-- **fault_exit_nonzero** (the status is what the operating system sees).  For every
history, register file and error limit: if any request is a builder-time fault,
the generator process — `Generate` = `Main`, then `os.Exit(status)` — ends with
exit code 1, having written nothing, with `min(faults, limit)` diagnostics (+1 for
"too many errors"); however many faults there are — 256, 512, 1024 of them too. -/
theorem fault_exit_nonzero (lim : Nat → Nat) (mx : Nat) (ops : List Op) (k : Nat)
    (h : faultAt tc Ctx.init ops k = true) :
    (observeAt tc lim mx ops).exit = 1 ∧
    generateExit mx (stdPasses lim (run tc Ctx.init ops)) (run tc Ctx.init ops) = 1 ∧
    (observeAt tc lim mx ops).asm = 0 ∧ (observeAt tc lim mx ops).stubs = 0 ∧
    (observeAt tc lim mx ops).diag = logLines mx (numFaults tc Ctx.init ops) := by
  obtain ⟨es, hres, hes, hlen, hne⟩ := bad_never_masked tc ops ⟨k, h⟩
  have hm := (main_stops mx (stdPasses lim (run tc Ctx.init ops)) (run tc Ctx.init ops) es hres)
  simp only [observeAt, generateExit, Observed.exit, hm.1, ← hlen]
  exact ⟨by simp, by simp, by simp, by simp, trivial⟩

/-- What the code must satisfy for that: `Main`'s result is 0 or 1 — in particular never a
multiple of 256 other than 0. -/
theorem main_status_range (mx : Nat) (passes : List Pass) (c : Ctx) :
    (main mx passes c).status = 0 ∨ (main mx passes c).status = 1 := by
  unfold main; split <;> simp

/-- The exit code is 0 exactly for the multiples of 256 … -/
theorem exitCode_eq_zero_iff (s : Int) : exitCode s = 0 ↔ (256 : Int) ∣ s := by
  unfold exitCode; omega

/-- … so a status in 1..255 is seen as a failure, unchanged. -/
theorem exitCode_of_small (s : Int) (h1 : 1 ≤ s) (h2 : s ≤ 255) : (exitCode s : Int) = s := by
  unfold exitCode; omega

/-- Whatever an acceptable outcome's raw status is, with a fault it is not a multiple of 256. -/
theorem Spec_status_not_multiple (nf na sb pf) (o : Observed) (h : Spec nf na sb pf o) (hf : nf > 0) :
    ¬ (256 : Int) ∣ o.status := by
  have := (h.2.2.1 hf).1
  rwa [Observed.exit, Ne, exitCode_eq_zero_iff] at this

/-! ### Why the status may not be the number of errors (seeded change C18-11)

`mainCount` is `Main` answering a failure with the number of errors.  It is a
non-zero `int` for every failing context, and yet the process of a history with
256 faults — one wrong operand in a 256 times unrolled loop — exits with 0. -/

/-- `Main` returning the number of errors instead of 1. -/
def mainCount (mx : Nat) (passes : List Pass) (c : Ctx) : Outcome :=
  match result c with
  | .error es => ⟨es.length, 0, [], logLines mx es.length⟩
  | .ok => main mx passes c

theorem faults_replicate_bad (c : Ctx) (i : Instr) (n : Nat) :
    faults tc c (List.replicate n (.instr false i)) = List.replicate n .badOperands := by
  induction n generalizing c with
  | zero => rfl
  | succ n ih => simp [List.replicate_succ, faults, fault, ih]

/-- **count_status_wraps.** With `mainCount`, for every `k > 0`: the history
`Function; 256·k × (instruction whose operands match no form)` has `256·k` faults,
`mainCount` returns `256·k ≠ 0`, and the exit code of the process is 0. -/
theorem count_status_wraps (lim : Nat → Nat) (mx : Nat) (i : Instr) (k : Nat) (hk : 0 < k) :
    let ops := Op.function "f" :: List.replicate (256 * k) (.instr false i)
    let c := run tc Ctx.init ops
    numFaults tc Ctx.init ops = 256 * k ∧
    (mainCount mx (stdPasses lim c) c).status = 256 * k ∧ (mainCount mx (stdPasses lim c) c).status ≠ 0 ∧
    exitCode (mainCount mx (stdPasses lim c) c).status = 0 := by
  intro ops c
  have hf : faults tc Ctx.init ops = List.replicate (256 * k) .badOperands := by
    simp only [ops, faults, fault, faults_replicate_bad]; rfl
  have hn : numFaults tc Ctx.init ops = 256 * k := by rw [← faults_length, hf]; simp
  have he : c.errs = List.replicate (256 * k) .badOperands := by
    simp only [c]; rw [run_errs, hf]; rfl
  have hres : result c = .error (List.replicate (256 * k) .badOperands) := by
    unfold result; rw [he]
    cases hr : List.replicate (256 * k) ErrClass.badOperands with
    | nil => simp at hr; omega
    | cons a as => simp
  have hs : (mainCount mx (stdPasses lim c) c).status = 256 * k := by
    simp only [mainCount, hres, List.length_replicate]
  refine ⟨hn, hs, by rw [hs]; omega, ?_⟩
  rw [hs, exitCode_eq_zero_iff]
  exact ⟨(k : Int), by omega⟩

/-- **bad_constraint_stops.** A history that contains — anywhere, by any of the
three routes, whatever precedes and follows — a constraint request submitting an
invalid line ends with status 1, nothing written, at least one diagnostic. -/
theorem bad_constraint_stops (lim : Nat → Nat) (pre post : List Op) (op : Op) (ks : List Constraint)
    (h : op.submitted = some ks) (hbad : constraintsValid tc ks = false) :
    (observe tc lim (pre ++ op :: post)).status = 1 ∧ (observe tc lim (pre ++ op :: post)).asm = 0 ∧
    (observe tc lim (pre ++ op :: post)).stubs = 0 ∧ 0 < (observe tc lim (pre ++ op :: post)).errs ∧
    (observe tc lim (pre ++ op :: post)).diag = (observe tc lim (pre ++ op :: post)).errs := by
  have hf : faultAt tc Ctx.init (pre ++ op :: post) pre.length = true := by
    rw [faultAt_mid, constraint_fault_iff tc pre op ks h, hbad]; rfl
  have := any_fault_stops tc lim _ _ hf
  exact ⟨this.1, this.2.1, this.2.2.1, this.2.2.2.2.1, this.2.2.2.2.2.1⟩

/-- … in particular when a single character of a single tag name, at any
position of any term of any option of any submitted line, is not a tag character. -/
theorem bad_tag_char_stops (lim : Nat → Nat) (pre post : List Op) (op : Op) (ks : List Constraint)
    (k : Constraint) (o : Option') (t : List Char) (ch : Char)
    (h : op.submitted = some ks) (hk : k ∈ ks) (ho : o ∈ k) (ht : t ∈ o) (hc : ch ∈ termName t)
    (hbad : tc ch = false) :
    (observe tc lim (pre ++ op :: post)).status = 1 ∧ (observe tc lim (pre ++ op :: post)).asm = 0 ∧
    (observe tc lim (pre ++ op :: post)).stubs = 0 ∧ 0 < (observe tc lim (pre ++ op :: post)).errs ∧
    (observe tc lim (pre ++ op :: post)).diag = (observe tc lim (pre ++ op :: post)).errs :=
  bad_constraint_stops tc lim pre post op ks h
    (constraintsValid_false_of_mem tc ks k hk
      (constraintValid_false_of_term tc k o t ho ht (bad_char_invalid tc t ch hc hbad)))

/-- … and a valid constraint request is never a fault (valid ⇒ no error), after any history. -/
theorem valid_constraint_no_fault (pre : List Op) (op : Op) (ks : List Constraint)
    (h : op.submitted = some ks) (hv : constraintsValid tc ks = true) :
    fault tc (run tc Ctx.init pre) op = none := by
  rw [constraint_fault_iff tc pre op ks h, hv]; rfl

/-! non-vacuity (ASCII table) -/
example : termValid asciiTag "linux".toList = true ∧ termValid asciiTag "!go1.18".toList = true ∧
    termValid asciiTag "!!x".toList = false ∧ termValid asciiTag "!".toList = false ∧
    termValid asciiTag "a-b".toList = false ∧ termValid asciiTag [] = false := by decide
example : parseConstraint "linux,386  darwin,!cgo\t".toList =
    [["linux".toList, "386".toList], ["darwin".toList, "!cgo".toList]] := by decide
example : parseConstraint " ".toList = [] ∧ parseConstraint "a,".toList = [["a".toList, []]] := by decide
example : (observe asciiTag (fun _ => 15)
    [.function "f", .constraint [["amd64".toList]], .constraintExpr "v-2".toList, .constraint [["linux".toList]],
     .instr true default]).status = 1 := by decide
example : (observe asciiTag (fun _ => 15)
    [.function "f", .constraint [["amd64".toList]], .constraintExpr "v2 !x,y".toList, .instr true default])
    = ⟨0, 0, 1, 1, 0, 0, none, 0⟩ := by decide
example : Op.submitted (.constraintExpr "a b".toList) = some [[["a".toList], ["b".toList]]] := by decide

/-! non-vacuity: the exit code, and the acceptor judging it -/
example : exitCode 256 = 0 ∧ exitCode 257 = 1 ∧ exitCode 255 = 255 ∧ exitCode 1024 = 0 ∧ exitCode (-1) = 255 := by decide
/-- 256 faults answered with status 256: rejected; with status 1: accepted; limit 10: eleven lines -/
example : c18Accept 256 0 false [] ⟨256, 256, 0, 0, 256, 0, none, 0⟩ = false := by decide
example : c18Accept 256 0 false [] ⟨256, 1, 0, 0, 256, 0, none, 0⟩ = true := by decide
example : c18Accept 256 0 false [] ⟨256, 1, 0, 0, 11, 0, none, 10⟩ = true := by decide
example : c18Accept 256 0 false [] ⟨256, 1, 0, 0, 256, 0, none, 10⟩ = false := by decide
example : c18Accept 3 0 false [] ⟨3, 3, 0, 0, 3, 0, none, 0⟩ = true := by decide
example : (observeAt asciiTag (fun _ => 15) 10
    (.function "f" :: List.replicate 256 (.instr false default))).exit = 1 := by decide +kernel

/-! ## Data placements at any scale

Whether a placement is a fault depends only on which bytes the data occupy — not
on where they lie relative to any boundary (64, 128, 4096 …): stated as "shares a
byte" and as invariance under translation. -/

/-- Two non-empty byte ranges overlap exactly when they have a byte in common. -/
theorem overlaps_iff_common_byte (s e so eo : Nat) (h1 : s < e) (h2 : so < eo) :
    overlaps s e so eo = true ↔ ∃ b, s ≤ b ∧ b < e ∧ so ≤ b ∧ b < eo := by
  unfold overlaps
  simp only [Bool.not_eq_true', Bool.or_eq_false_iff, decide_eq_false_iff_not, Nat.not_le]
  constructor
  · intro ⟨ha, hb⟩
    exact ⟨max s so, by omega, by omega, by omega, by omega⟩
  · intro ⟨b, h3, h4, h5, h6⟩
    exact ⟨by omega, by omega⟩

/-- Overlap is invariant under translation: no position in the section is special. -/
theorem overlaps_shift (s e so eo t : Nat) : overlaps (s + t) (e + t) (so + t) (eo + t) = overlaps s e so eo := by
  unfold overlaps
  have h1 : (eo + t ≤ s + t) = (eo ≤ s) := by simp
  have h2 : (e + t ≤ so + t) = (e ≤ so) := by simp
  simp only [h1, h2]

/-- **addDatum_fault_iff.** In every state with an active section, for every offset and
every size > 0: `AddDatum` is the fault "overlaps" exactly when the new datum shares
a byte with a stored non-empty datum, or a stored zero-width datum lies strictly inside it. -/
theorem addDatum_fault_iff (c : Ctx) (g : Glob) (off sz : Nat) (hg : c.glob = some g) (hsz : 0 < sz) :
    fault tc c (.addDatum off sz) = some .overlap ↔
      ∃ d ∈ g.data, (0 < d.2 ∧ ∃ b, off ≤ b ∧ b < off + sz ∧ d.1 ≤ b ∧ b < d.1 + d.2) ∨
                    (d.2 = 0 ∧ off < d.1 ∧ d.1 < off + sz) := by
  have hov : fault tc c (.addDatum off sz) = some .overlap ↔ g.overlapsAny off sz = true := by
    simp only [fault, hg]
    by_cases h : g.overlapsAny off sz = true <;> simp [h]
  rw [hov]
  unfold Glob.overlapsAny
  simp only [List.any_eq_true]
  constructor
  · intro ⟨d, hd, ho⟩
    refine ⟨d, hd, ?_⟩
    by_cases hz : d.2 = 0
    · right
      unfold overlaps at ho
      simp only [hz, Nat.add_zero, Bool.not_eq_true', Bool.or_eq_false_iff, decide_eq_false_iff_not, Nat.not_le] at ho
      exact ⟨hz, by omega, by omega⟩
    · left
      exact ⟨by omega, (overlaps_iff_common_byte _ _ _ _ (by omega) (by omega)).mp ho⟩
  · intro ⟨d, hd, h⟩
    refine ⟨d, hd, ?_⟩
    rcases h with ⟨hp, hb⟩ | ⟨hz, h1, h2⟩
    · exact (overlaps_iff_common_byte _ _ _ _ (by omega) (by omega)).mpr hb
    · unfold overlaps
      simp only [hz, Nat.add_zero, Bool.not_eq_true', Bool.or_eq_false_iff, decide_eq_false_iff_not, Nat.not_le]
      exact ⟨by omega, by omega⟩

/-- the witnesses of seeded change C18-12: the collision lies beyond a 64-byte boundary of the
earlier datum (`DATA 60/8` then `DATA 64/4`) or of the later one (`DATA 128/8` then `DATA 124/8`);
a 100-byte string from 30 and a byte at 70; and the neighbours that do not collide -/
example : faults asciiTag Ctx.init [.staticGlobal "d", .addDatum 60 8, .addDatum 64 4] = [.overlap] := by decide
example : faults asciiTag Ctx.init [.staticGlobal "d", .addDatum 128 8, .addDatum 124 8] = [.overlap] := by decide
example : faults asciiTag Ctx.init [.staticGlobal "d", .addDatum 30 100, .addDatum 70 1, .addDatum 129 1] = [.overlap, .overlap] := by decide
example : faults asciiTag Ctx.init [.staticGlobal "d", .addDatum 60 8, .addDatum 68 4, .addDatum 56 4, .addDatum 4090 6,
    .addDatum 4096 8] = [] := by decide

end Avo.Ctx
