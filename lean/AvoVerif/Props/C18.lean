/-
C18 — Invalid requests are reported as errors; nothing is emitted and nothing
panics.  Statements and property theorems about the executable model
`Model/Ctx.lean`, for ALL states, requests, histories and pass lists.

"Does not panic" cannot be a theorem about total Lean functions; it is carried
by the correspondence (every real call runs under `recover`, a panic is a
distinct outcome the model never produces) and by the acceptor `Spec` below,
whose first clause is `panics = 0`.
-/
import AvoVerif.Model.Ctx
namespace Avo.Ctx

/-! ## What a builder-time fault is (declarative; independent of `step`) -/

def noFn (c : Ctx) : Option ErrClass := if c.cur.isNone then some .noFunc else none
def noGl (c : Ctx) : Option ErrClass := if c.glob.isNone then some .noGlobal else none

/-- `fault c op = some e`: request `op` is invalid in state `c`, and `e` is what is wrong with it.
* anything that needs the active function / data section while there is none;
* operands matching no form; a signature expression the type checker rejects;
* Load/Store/Dereference of a component that does not resolve to a primitive
  (unknown name, index out of range, navigation on the wrong type, …), or for
  which no MOV can be deduced;
* a datum overlapping an existing one; an invalid build constraint. -/
def fault (c : Ctx) : Op → Option ErrClass
  | .function _ | .staticGlobal _ | .pressure _ _ _ | .nav _ _ | .nilArg _ => none
  | .implement _ => some .noPackage
  | .attributes _ | .doc _ | .pragma _ | .label _ | .comment | .rawInstr _ | .allocLocal _
  | .param _ | .paramIndex _ | .ret _ | .retIndex _ | .signature (some _) | .instr true _ => noFn c
  | .signature none => some .sigExpr
  | .instr false _ => some .badOperands
  | .load s _ ded | .store s _ ded | .dereference s ded =>
      match (c.getComp s).resolveErr with
      | some e => some e
      | none => if ded then noFn c else some .movDeduce
  | .dataAttributes _ | .appendDatum _ => noGl c
  | .addDatum off sz =>
      match c.glob with
      | none => some .noGlobal
      | some g => if g.overlapsAny off sz then some .overlap else none
  | .constraints cs => if constraintsValid cs then none else some .constraint
  | .constraint k | .constraintExpr k =>
      if constraintsValid (c.cons ++ [k]) then none else some .constraint

/-- The faults of a history started in state `c`, in order. -/
def faults (c : Ctx) : List Op → List ErrClass
  | [] => []
  | op :: ops => (fault c op).toList ++ faults (step c op) ops

/-- State before the `k`-th request of a history started in `c`. -/
def stateAt (c : Ctx) (ops : List Op) (k : Nat) : Ctx := run c (ops.take k)

/-- The `k`-th request of the history is a fault in the state it is issued in. -/
def faultAt (c : Ctx) (ops : List Op) (k : Nat) : Bool :=
  match ops[k]? with
  | some op => (fault (stateAt c ops k) op).isSome
  | none => false

/-- Number of faulting requests of a history. -/
def numFaults (c : Ctx) (ops : List Op) : Nat :=
  ((List.range ops.length).filter (faultAt c ops)).length

/-! ## Basic facts about the state updates -/

@[simp] theorem addErr_errs (c : Ctx) (e) : (c.addErr e).errs = c.errs ++ [e] := rfl
@[simp] theorem pushComp_errs (c : Ctx) (k) : (c.pushComp k).errs = c.errs := rfl
@[simp] theorem newFn_errs (c : Ctx) (n) : (c.newFn n).errs = c.errs := rfl
@[simp] theorem newFn_cur (c : Ctx) (n) : (c.newFn n).cur.isNone = false := rfl

theorem withFn_errs (c : Ctx) (f) : (c.withFn f).errs = c.errs ++ (noFn c).toList := by
  unfold Ctx.withFn noFn; cases h : c.cur <;> simp

theorem withGlob_errs (c : Ctx) (f) : (c.withGlob f).errs = c.errs ++ (noGl c).toList := by
  unfold Ctx.withGlob noGl; cases h : c.glob <;> simp

theorem addNode_errs (c : Ctx) (n) : (c.addNode n).errs = c.errs ++ (noFn c).toList :=
  withFn_errs c _

theorem rootComp_errs (c : Ctx) (p) : (c.rootComp p).errs = c.errs ++ (noFn c).toList := by
  unfold Ctx.rootComp noFn; cases h : c.cur <;> simp

theorem loadStore_errs (c : Ctx) (s rk : Nat) (ded st : Bool) :
    (c.loadStore s rk ded st).errs = c.errs ++
      (match (c.getComp s).resolveErr with
       | some e => some e
       | none => if ded then noFn c else some .movDeduce).toList := by
  unfold Ctx.loadStore
  cases hk : c.getComp s with
  | err e => simp [Comp.resolveErr]
  | ok t g =>
    by_cases hp : t.isPrimitive = true
    · by_cases hd : ded = true
      · simp [Comp.resolveErr, hp, hd, addNode_errs]
      · simp [Comp.resolveErr, hp, hd]
    · simp [Comp.resolveErr, hp]

theorem constraintsValid_append (cs : List Constraint) (k : Constraint) :
    constraintsValid (cs ++ [k]) = (constraintsValid cs && constraintValid k) := by
  simp [constraintsValid, List.all_append]

/-! ## errs_monotone -/

/-- **errs_monotone.** For every state and every request, the request leaves all
earlier errors in place and appends exactly one error if it is a builder-time
fault in that state, and none otherwise. -/
theorem errs_monotone (c : Ctx) (op : Op) :
    (step c op).errs = c.errs ++ (fault c op).toList := by
  cases op with
  | function n => simp [step, fault]
  | attributes a => simp [step, fault, withFn_errs]
  | doc nl => simp [step, fault, withFn_errs]
  | pragma nl => simp [step, fault, withFn_errs]
  | implement n => simp [step, fault]
  | nilArg k => simp [step, fault]
  | signature s => cases s <;> simp [step, fault, withFn_errs]
  | instr v i => cases v <;> simp [step, fault, addNode_errs]
  | rawInstr i => simp [step, fault, addNode_errs]
  | label n => simp [step, fault, addNode_errs]
  | comment => simp [step, fault, addNode_errs]
  | param n => simp [step, fault, rootComp_errs]
  | paramIndex i => simp [step, fault, rootComp_errs]
  | ret n => simp [step, fault, rootComp_errs]
  | retIndex i => simp [step, fault, rootComp_errs]
  | nav s n => simp [step, fault]
  | load s rk d => simp only [step, fault, loadStore_errs]
  | store s rk d => simp only [step, fault, loadStore_errs]
  | dereference s d => simp only [step, fault, pushComp_errs, loadStore_errs]
  | allocLocal n => simp [step, fault, withFn_errs]
  | staticGlobal n => simp [step, fault]
  | dataAttributes a => simp [step, fault, withGlob_errs]
  | addDatum off sz =>
    simp only [step, fault]
    cases c.glob with
    | none => simp
    | some g => by_cases h : g.overlapsAny off sz = true <;> simp [h]
  | appendDatum sz => simp [step, fault, withGlob_errs]
  | constraints cs => by_cases h : constraintsValid cs = true <;> simp [step, fault, h]
  | constraint k => by_cases h : constraintsValid (c.cons ++ [k]) = true <;> simp [step, fault, h]
  | constraintExpr k =>
    simp only [step, fault, constraintsValid_append]
    by_cases hk : constraintValid k = true <;> by_cases hc : constraintsValid c.cons = true <;> simp [hk, hc]
  | pressure n k m => simp [step, fault, addNode_errs, noFn]

/-- One request adds at most one error, and exactly one iff it is a fault. -/
theorem step_errs_length (c : Ctx) (op : Op) :
    (step c op).errs.length = c.errs.length + (if (fault c op).isSome then 1 else 0) := by
  rw [errs_monotone]; cases fault c op <;> simp

/-! ## Histories -/

theorem run_cons (c : Ctx) (op : Op) (ops : List Op) : run c (op :: ops) = run (step c op) ops := rfl

theorem run_append (c : Ctx) (xs ys : List Op) : run c (xs ++ ys) = run (run c xs) ys := by
  simp [run, List.foldl_append]

/-- The errors after a history are the errors before it followed by exactly its faults. -/
theorem run_errs (c : Ctx) (ops : List Op) : (run c ops).errs = c.errs ++ faults c ops := by
  induction ops generalizing c with
  | nil => simp [run, faults]
  | cons op ops ih => rw [run_cons, ih, errs_monotone, faults, List.append_assoc]

/-- An error, once recorded, is never dropped or reordered by any later sequence of requests. -/
theorem errs_prefix (c : Ctx) (ops : List Op) : c.errs <+: (run c ops).errs := by
  rw [run_errs]; exact List.prefix_append _ _

theorem faultAt_zero (c : Ctx) (op : Op) (ops : List Op) :
    faultAt c (op :: ops) 0 = (fault c op).isSome := by
  simp [faultAt, stateAt, run]

theorem faultAt_succ (c : Ctx) (op : Op) (ops : List Op) (k : Nat) :
    faultAt c (op :: ops) (k + 1) = faultAt (step c op) ops k := by
  simp [faultAt, stateAt, run_cons]

/-- The list of faults has one entry per faulting position. -/
theorem faults_length (c : Ctx) (ops : List Op) : (faults c ops).length = numFaults c ops := by
  induction ops generalizing c with
  | nil => simp [faults, numFaults]
  | cons op ops ih =>
    have hr : List.range (ops.length + 1) = 0 :: (List.range ops.length).map (· + 1) := by
      rw [List.range_succ_eq_map]
    simp only [faults, numFaults, List.length_cons, List.length_append, hr, List.filter_cons,
      faultAt_zero, List.filter_map, ih]
    have hf : (faultAt c (op :: ops) ∘ fun x => x + 1) = faultAt (step c op) ops := by
      funext k; simp [Function.comp, faultAt_succ]
    rw [hf]
    cases fault c op <;> simp <;> omega

theorem faults_eq_nil_iff (c : Ctx) (ops : List Op) :
    faults c ops = [] ↔ ∀ k, faultAt c ops k = false := by
  induction ops generalizing c with
  | nil => simp [faults, faultAt]
  | cons op ops ih =>
    simp only [faults, List.append_eq_nil_iff, ih]
    constructor
    · intro ⟨h0, hs⟩ k
      cases k with
      | zero => rw [faultAt_zero]; cases h : fault c op <;> simp_all
      | succ k => rw [faultAt_succ]; exact hs k
    · intro h
      refine ⟨?_, fun k => ?_⟩
      · have := h 0; rw [faultAt_zero] at this; cases hf : fault c op <;> simp_all
      · have := h (k + 1); rwa [faultAt_succ] at this

/-- **bad_never_masked.** For every history: if any request is a fault in the
state it is issued in, then — whatever valid or invalid requests follow —
`Result()` is an error, carrying exactly one message per faulting request (in
request order). -/
theorem bad_never_masked (ops : List Op) (h : ∃ k, faultAt Ctx.init ops k = true) :
    ∃ es, result (run Ctx.init ops) = .error es ∧ es = faults Ctx.init ops ∧
      es.length = numFaults Ctx.init ops ∧ es ≠ [] := by
  have hne : faults Ctx.init ops ≠ [] := by
    intro hnil
    obtain ⟨k, hk⟩ := h
    have := (faults_eq_nil_iff _ _).mp hnil k
    simp [hk] at this
  have he : (run Ctx.init ops).errs = faults Ctx.init ops := by
    rw [run_errs]; rfl
  refine ⟨faults Ctx.init ops, ?_, rfl, faults_length _ _, hne⟩
  unfold result
  rw [he]
  cases hf : faults Ctx.init ops with
  | nil => exact absurd hf hne
  | cons a as => simp

/-- **valid_no_error.** A history in which no request is a fault produces no error. -/
theorem valid_no_error (ops : List Op) (h : ∀ k, faultAt Ctx.init ops k = false) :
    result (run Ctx.init ops) = .ok ∧ (run Ctx.init ops).errs = [] := by
  have he : (run Ctx.init ops).errs = [] := by
    rw [run_errs, (faults_eq_nil_iff _ _).mpr h]; rfl
  exact ⟨by simp [result, he], he⟩

/-- The number of error messages always equals the number of faulting requests. -/
theorem errs_count (ops : List Op) : (run Ctx.init ops).errs.length = numFaults Ctx.init ops := by
  rw [run_errs, ← faults_length]; simp [Ctx.init]

/-! ## Component chaining -/

/-- **component_chain.** An error component stays the same error through every
sequence of navigation methods, up to `Resolve`. -/
theorem component_chain (e : ErrClass) (navs : List Nav) :
    (navs.foldl Comp.nav (.err e)).resolveErr = some e := by
  induction navs with
  | nil => rfl
  | cons n ns ih => simpa [List.foldl, Comp.nav] using ih

/-- … and Load/Store/Dereference of it is a fault reporting that very error, in every state. -/
theorem component_chain_reported (c : Ctx) (s rk : Nat) (ded : Bool) (e : ErrClass) (navs : List Nav)
    (h : c.getComp s = navs.foldl Comp.nav (.err e)) :
    fault c (.load s rk ded) = some e ∧ fault c (.store s rk ded) = some e ∧
      fault c (.dereference s ded) = some e := by
  simp [fault, h, component_chain]

/-- Navigation itself never reports anything: the error surfaces only at `Resolve`. -/
theorem nav_no_fault (c : Ctx) (s : Nat) (n : Nav) : fault c (.nav s n) = none := rfl

/-! ## Concat and Main -/

/-- Positions (counted from `k`) of the Output passes in a list. -/
def outputsFrom (k : Nat) : List Pass → List Nat
  | [] => []
  | p :: ps => if p.output then k :: outputsFrom (k + 1) ps else outputsFrom (k + 1) ps

theorem outputsFrom_nil_of_no_output (k : Nat) (ps : List Pass) (h : ∀ q ∈ ps, q.output = false) :
    outputsFrom k ps = [] := by
  induction ps generalizing k with
  | nil => rfl
  | cons p ps ih =>
    have hp : p.output = false := h p List.mem_cons_self
    simp [outputsFrom, hp, ih (k + 1) (fun q hq => h q (List.mem_cons_of_mem _ hq))]

theorem concatFrom_stops (k : Nat) (pre : List Pass) (p : Pass) (post : List Pass)
    (hpre : ∀ q ∈ pre, q.fails = false) (hp : p.fails = true) :
    concatFrom k (pre ++ p :: post) = ⟨false, pre.length + 1, outputsFrom k pre⟩ := by
  induction pre generalizing k with
  | nil => simp [concatFrom, hp, outputsFrom]
  | cons q qs ih =>
    have hq : q.fails = false := hpre q List.mem_cons_self
    have := ih (k + 1) (fun r hr => hpre r (List.mem_cons_of_mem _ hr))
    simp only [List.cons_append, concatFrom, hq, Bool.false_eq_true, if_false, this, outputsFrom,
      List.length_cons]

theorem concatFrom_all_ok (k : Nat) (ps : List Pass) (h : ∀ q ∈ ps, q.fails = false) :
    concatFrom k ps = ⟨true, ps.length, outputsFrom k ps⟩ := by
  induction ps generalizing k with
  | nil => rfl
  | cons q qs ih =>
    have hq : q.fails = false := h q List.mem_cons_self
    have := ih (k + 1) (fun r hr => h r (List.mem_cons_of_mem _ hr))
    simp only [concatFrom, hq, Bool.false_eq_true, if_false, this, outputsFrom, List.length_cons]

/-- **pass_error_stops.** `Concat` semantics for every pass list: the first
failing pass ends the pipeline — exactly the passes up to and including it were
executed, the only printers that ran are those before it, and when the Output
passes come after it (they come last) no printer ran at all. -/
theorem pass_error_stops (pre : List Pass) (p : Pass) (post : List Pass)
    (hpre : ∀ q ∈ pre, q.fails = false) (hp : p.fails = true) :
    let r := concat (pre ++ p :: post)
    r.ok = false ∧ r.executed = pre.length + 1 ∧ r.printed = outputsFrom 0 pre ∧
      ((∀ q ∈ pre, q.output = false) → r.printed = []) := by
  simp only [concat, concatFrom_stops 0 pre p post hpre hp, true_and]
  exact fun h => outputsFrom_nil_of_no_output 0 pre h

/-- Without a failing pass everything runs, every printer prints. -/
theorem pass_all_ok (ps : List Pass) (h : ∀ q ∈ ps, q.fails = false) :
    concat ps = ⟨true, ps.length, outputsFrom 0 ps⟩ := concatFrom_all_ok 0 ps h

/-- **main_stops.** When `Result()` is an error, `Main` returns status 1 having
executed no pass and run no printer, for every pass list and error limit; it
logs one line per error (when unlimited). -/
theorem main_stops (mx : Nat) (passes : List Pass) (c : Ctx) (es : List ErrClass)
    (h : result c = .error es) :
    main mx passes c = ⟨1, 0, [], logLines mx es.length⟩ ∧ logLines 0 es.length = es.length := by
  simp [main, h, logLines]

/-- `Result()` is an error exactly when an error was recorded. -/
theorem result_error_iff (c : Ctx) : (∃ es, result c = .error es) ↔ c.errs ≠ [] := by
  unfold result
  cases h : c.errs <;> simp

/-! ## The property, end to end, and its executable acceptor -/

/-- What is observed of one generation run (model or implementation). -/
structure Observed where
  /-- number of error messages in `Result()` -/
  errs : Nat
  status : Nat
  /-- bytes written to the assembly output -/
  asm : Nat
  /-- bytes written to the stub output -/
  stubs : Nat
  /-- lines written to the diagnostics output (error limit 0 = unlimited) -/
  diag : Nat
  /-- builder calls / Main invocations that panicked -/
  panics : Nat
  /-- class of the reported compile error, when its message is a recognised one -/
  passErr : Option PassErr
  deriving Repr, DecidableEq

/-- The reported compile error, when its message is a recognised one, is among the faults present. -/
def passErrAmong (pf : List PassErr) (o : Observed) : Prop := ∀ e, o.passErr = some e → e ∈ pf

instance (pf o) : Decidable (passErrAmong pf o) :=
  match h : o.passErr with
  | none => isTrue (by simp [passErrAmong, h])
  | some e => if hm : e ∈ pf then isTrue (by simpa [passErrAmong, h] using hm)
              else isFalse (by simpa [passErrAmong, h] using hm)

/-- **The property.**  Parameters (facts about the history): `nf` = number of
builder-time faults, `na` = number of builder calls that were handed a nil
argument, `sb` = the stub text of some function is not Go syntax, `pf` = the
compile-time faults present in the built file.

1. nothing panics;
2. a failing generation (non-zero status) has written nothing to either output;
3. any builder-time fault ⇒ non-zero status and one message per fault (a call
   with a nil argument may, but need not, be reported as well), every message logged;
4. without a builder-time fault the only messages there may be are those for
   nil arguments, and any message means failure;
5. only compile-time faults ⇒ non-zero status and the reported error — when its
   message is recognised — is one of them;
6. no fault at all (and printable stubs) ⇒ status 0, no diagnostics, both outputs written;
7. all or nothing: without a fault, status 0 means both outputs were written (also
   when a stub is unprintable: then either is acceptable, success with both outputs
   or failure with none — but not a status 0 with an output missing). -/
def Spec (nf na : Nat) (sb : Bool) (pf : List PassErr) (o : Observed) : Prop :=
  o.panics = 0 ∧
  (o.status ≠ 0 → o.asm = 0 ∧ o.stubs = 0) ∧
  (nf > 0 → o.status ≠ 0 ∧ nf ≤ o.errs ∧ o.errs ≤ nf + na ∧ o.diag = o.errs) ∧
  (nf = 0 → o.errs ≤ na ∧ (o.errs > 0 → o.status ≠ 0 ∧ o.diag = o.errs)) ∧
  (nf = 0 → na = 0 → pf ≠ [] → o.status ≠ 0 ∧ passErrAmong pf o) ∧
  (nf = 0 → na = 0 → pf = [] → sb = false → o.status = 0 ∧ o.diag = 0 ∧ o.asm > 0 ∧ o.stubs > 0) ∧
  (nf = 0 → na = 0 → pf = [] → o.status = 0 → o.asm > 0 ∧ o.stubs > 0)

instance (nf na sb pf o) : Decidable (Spec nf na sb pf o) := by
  unfold Spec
  refine @instDecidableAnd _ _ inferInstance (@instDecidableAnd _ _ inferInstance
    (@instDecidableAnd _ _ inferInstance (@instDecidableAnd _ _ inferInstance
      (@instDecidableAnd _ _ inferInstance (@instDecidableAnd _ _ inferInstance inferInstance)))))

/-- Executable acceptor used on the implementation's outcome. -/
def c18Accept (nf na : Nat) (sb : Bool) (pf : List PassErr) (o : Observed) : Bool :=
  decide (Spec nf na sb pf o)

theorem c18Accept_sound (nf na sb pf o) : c18Accept nf na sb pf o = true → Spec nf na sb pf o := by
  simp [c18Accept]

theorem c18Accept_complete (nf na sb pf o) : Spec nf na sb pf o → c18Accept nf na sb pf o = true := by
  simp [c18Accept]

/-- With no nil arguments the message count is pinned down: exactly one per fault. -/
theorem Spec_exact_count (nf sb pf o) (h : Spec nf 0 sb pf o) : o.errs = nf := by
  obtain ⟨_, _, h3, h4, _⟩ := h
  by_cases hz : nf = 0
  · have := (h4 hz).1; omega
  · have := h3 (by omega); omega

/-- Any fault (builder-time, or compile-time on a history without nil arguments) ⇒ nothing is written. -/
theorem Spec_nothing_emitted (nf na sb pf o) (h : Spec nf na sb pf o)
    (hf : nf > 0 ∨ (na = 0 ∧ pf ≠ [])) : o.status ≠ 0 ∧ o.asm = 0 ∧ o.stubs = 0 := by
  obtain ⟨_, h2, h3, _, h5, _⟩ := h
  have hs : o.status ≠ 0 := by
    rcases hf with hf | ⟨hna, hpf⟩
    · exact (h3 hf).1
    · by_cases hz : nf = 0
      · exact (h5 hz hna hpf).1
      · exact (h3 (by omega)).1
  exact ⟨hs, h2 hs⟩

def Op.isNil : Op → Bool
  | .nilArg _ => true
  | _ => false

/-- Number of calls with a nil argument in a history. -/
def numNil (ops : List Op) : Nat := (ops.filter Op.isNil).length

/-- What the model observes for a history under the standard configuration
(`Compile`, assembly printer, stub printer; unlimited errors). -/
def observe (lim : Nat → Nat) (ops : List Op) : Observed :=
  let c := run Ctx.init ops
  let o := main 0 (stdPasses lim c) c
  { errs := c.errs.length, status := o.status,
    asm := if o.printed.contains 1 then 1 else 0,
    stubs := if o.printed.contains 2 then 1 else 0,
    diag := o.diag, panics := 0,
    passErr := if c.errs.isEmpty then (passFaults lim c.fns).head? else none }

/-- The stub printer is reached (no builder-time fault, no compile-time fault) and fails. -/
def stubFailureReached (lim : Nat → Nat) (ops : List Op) : Prop :=
  numFaults Ctx.init ops = 0 ∧ passFaults lim (run Ctx.init ops).fns = [] ∧ stubFails (run Ctx.init ops) = true

instance (lim ops) : Decidable (stubFailureReached lim ops) := by
  unfold stubFailureReached; exact inferInstance

def C18_statement : Prop :=
  ∀ (lim : Nat → Nat) (ops : List Op), ¬ stubFailureReached lim ops →
    Spec (numFaults Ctx.init ops) (numNil ops) (stubFails (run Ctx.init ops))
      (passFaults lim (run Ctx.init ops).fns) (observe lim ops)

/-- **C18.** The model of the builder and of `Main` meets the property for all
histories (and all register-file sizes) on which the stub printer is not reached
or does not fail. -/
theorem C18 : C18_statement := by
  intro lim ops hstub
  have hcount := errs_count ops
  unfold stubFailureReached at hstub
  generalize hc : run Ctx.init ops = c at hcount hstub
  generalize numFaults Ctx.init ops = nf at hcount hstub
  unfold Spec observe
  simp only [hc]
  have herr : nf > 0 → result c = .error c.errs := by
    intro hpos
    unfold result; cases h : c.errs <;> simp_all
  have hok : nf = 0 → c.errs = [] ∧ result c = .ok := by
    intro hz
    have he : c.errs = [] := by
      cases h : c.errs with
      | nil => rfl
      | cons a as => rw [h] at hcount; simp at hcount; omega
    exact ⟨he, by simp [result, he]⟩
  by_cases hz : nf = 0
  · obtain ⟨he, hres⟩ := hok hz
    cases hh : passFaults lim c.fns with
    | nil =>
      have hsf : stubFails c = false := by
        cases hs : stubFails c with
        | false => rfl
        | true => exact absurd ⟨hz, hh, hs⟩ hstub
      simp [main, hres, stdPasses, concat, concatFrom, hh, he, hsf, hz]
    | cons a as =>
      simp [main, hres, stdPasses, concat, concatFrom, hh, he, hz, passErrAmong]
  · have hpos : nf > 0 := by omega
    have hres := herr hpos
    simp [main, hres, logLines, hcount, hz]

/-- **stub_failure_violates.** Whenever the stub printer is reached and fails,
the model — which here does what the implementation does: `pass.Output` of the
assembly printer has already written — violates the property: non-zero status
with the assembly output written. -/
theorem stub_failure_violates (lim : Nat → Nat) (ops : List Op) (h : stubFailureReached lim ops) :
    (observe lim ops).status = 1 ∧ (observe lim ops).asm = 1 ∧
    ¬ Spec (numFaults Ctx.init ops) (numNil ops) (stubFails (run Ctx.init ops))
      (passFaults lim (run Ctx.init ops).fns) (observe lim ops) := by
  obtain ⟨hz, hpf, hsf⟩ := h
  have hcount := errs_count ops
  rw [hz] at hcount
  have he : (run Ctx.init ops).errs = [] := by
    cases h : (run Ctx.init ops).errs with
    | nil => rfl
    | cons a as => rw [h] at hcount; simp at hcount
  have hres : result (run Ctx.init ops) = .ok := by simp [result, he]
  have hst : (observe lim ops).status = 1 ∧ (observe lim ops).asm = 1 := by
    simp [observe, main, hres, stdPasses, concat, concatFrom, hpf, hsf]
  refine ⟨hst.1, hst.2, ?_⟩
  intro hspec
  have := hspec.2.1 (by rw [hst.1]; decide)
  rw [hst.2] at this
  exact absurd this.1 (by decide)

/-- The two together: the model meets the property exactly on the histories
where a failing stub printer is not reached. -/
theorem C18_iff (lim : Nat → Nat) (ops : List Op) :
    Spec (numFaults Ctx.init ops) (numNil ops) (stubFails (run Ctx.init ops))
      (passFaults lim (run Ctx.init ops).fns) (observe lim ops) ↔ ¬ stubFailureReached lim ops :=
  ⟨fun hs hr => (stub_failure_violates lim ops hr).2.2 hs, C18 lim ops⟩

/-! ## Non-vacuity: concrete histories meeting the hypotheses -/

/-- a history with a fault in the middle, followed by valid requests -/
def exBad : List Op :=
  [.function "f", .instr false default, .instr true default, .label "a", .function "g", .comment]

example : ∃ k, faultAt Ctx.init exBad k = true := ⟨1, by decide⟩
example : result (run Ctx.init exBad) = .error [.badOperands] := by decide
example : numFaults Ctx.init exBad = 1 := by decide

/-- a valid history -/
def exGood : List Op :=
  [.function "f", .signature (some ⟨[("x", .int 8 true)], []⟩), .param "x", .load 0 1 true,
   .instr true default, .staticGlobal "d", .addDatum 0 8, .addDatum 8 8]

example : ∀ k, k < exGood.length → faultAt Ctx.init exGood k = false := by decide
example : result (run Ctx.init exGood) = .ok := by decide

/-- an instruction before any function, and an overlapping datum -/
example : faults Ctx.init [.instr true default, .staticGlobal "d", .addDatum 0 8, .addDatum 4 8]
    = [.noFunc, .overlap] := by decide

/-- a chain that starts at an unknown parameter -/
example : ((([Nav.base, Nav.index 3, Nav.field "y", Nav.deref]).foldl Comp.nav
    (tupleLookup [("x", .int 8 true)] "nope"))).resolveErr = some .unknownVar := by decide

/-- Concat: Compile fails, the two printers after it never run -/
example : concat [⟨false, true⟩, ⟨true, false⟩, ⟨true, false⟩] = ⟨false, 1, []⟩ := by decide
example : concat [⟨false, false⟩, ⟨true, false⟩, ⟨true, false⟩] = ⟨true, 3, [1, 2]⟩ := by decide

/-- Main on the faulty history: status 1, no pass executed, no printer, one diagnostic line -/
example : main 0 (stdPasses (fun _ => 15) (run Ctx.init exBad)) (run Ctx.init exBad) = ⟨1, 0, [], 1⟩ := by decide
/-- … and with an error limit of 2 on five errors: two lines and "too many errors" -/
example : logLines 2 5 = 3 := by decide
/-- Main on the valid history: status 0, all three passes, both printers -/
example : main 0 (stdPasses (fun _ => 15) (run Ctx.init exGood)) (run Ctx.init exGood) = ⟨0, 3, [1, 2], 0⟩ := by decide
/-- the acceptor rejects a panic, a written output next to a fault, and a dropped message -/
example : c18Accept 0 0 false [] ⟨0, 0, 10, 10, 0, 1, none⟩ = false := by decide
example : c18Accept 1 0 false [] ⟨1, 1, 10, 0, 1, 0, none⟩ = false := by decide
example : c18Accept 2 0 false [] ⟨1, 1, 0, 0, 1, 0, none⟩ = false := by decide
example : c18Accept 2 0 false [] ⟨2, 1, 0, 0, 2, 0, none⟩ = true := by decide
example : c18Accept 0 0 false [.dupLabel] ⟨0, 1, 0, 0, 1, 0, some .dupLabel⟩ = true := by decide
example : c18Accept 0 0 false [.dupLabel] ⟨0, 0, 9, 9, 0, 0, none⟩ = false := by decide
/-- … a failure after one printer has written (whatever the stubs look like) -/
example : c18Accept 0 0 true [] ⟨0, 1, 74, 0, 1, 0, none⟩ = false := by decide
example : c18Accept 0 0 true [] ⟨0, 1, 0, 0, 1, 0, none⟩ = true := by decide
example : c18Accept 0 0 true [] ⟨0, 0, 74, 60, 0, 0, none⟩ = true := by decide
example : c18Accept 0 0 true [] ⟨0, 0, 74, 0, 0, 0, none⟩ = false := by decide
/-- … a nil argument may be reported or ignored, but must not panic -/
example : c18Accept 0 1 false [] ⟨0, 0, 79, 68, 0, 1, none⟩ = false := by decide
example : c18Accept 0 1 false [] ⟨0, 0, 79, 68, 0, 0, none⟩ = true := by decide
example : c18Accept 0 1 false [] ⟨1, 1, 0, 0, 1, 0, none⟩ = true := by decide
example : c18Accept 0 1 false [] ⟨2, 1, 0, 0, 2, 0, none⟩ = false := by decide
example : c18Accept 0 1 false [] ⟨1, 0, 79, 68, 1, 0, none⟩ = false := by decide

/-- hypotheses of `C18` and of `stub_failure_violates` are satisfiable -/
example : ¬ stubFailureReached (fun _ => 15) exGood := by decide
example : stubFailureReached (fun _ => 15) [.function "", .instr true default] := by decide
example : stubFailureReached (fun _ => 15) [.function "1 f", .instr true default] := by decide
example : stubFailureReached (fun _ => 15) [.function "f", .pragma true, .instr true default] := by decide
/-- a later `Doc` replaces the broken one; a later plain `Pragma` does not -/
example : ¬ stubFailureReached (fun _ => 15) [.function "f", .doc true, .doc false, .instr true default] := by decide
example : stubFailureReached (fun _ => 15) [.function "f", .pragma true, .pragma false, .instr true default] := by decide
example : isGoIdent "f1" = true ∧ isGoIdent "_x" = true ∧ isGoIdent "func" = false ∧ isGoIdent "a b" = false := by decide

/-- compile-time faults of a concrete function: undefined label and a label at the end -/
example : fnPassFaults (fun _ => 15)
    { name := "f", nodes := [.instr ⟨1, [], [.lbl "x"]⟩, .instr ⟨2, [], [.lbl "e"]⟩, .label "e"] }
    = [.endLabel, .unknownLabel] := by decide

example : fnPassFaults (fun _ => 15) { name := "f", nodes := [.press 1 16] } = [.alloc] := by decide
example : fnPassFaults (fun _ => 15) { name := "f", nodes := [.press 1 15] } = [] := by decide

/-! ## What the property demands at the witnesses of the listed findings

The implementation's behaviour at these inputs (a panic, a silently accepted
request) is observed by the harness on every run; these theorems fix what the
property requires there, so that the disagreement is a violation and not a
modelling choice. -/

/-- `ParamIndex(-1)` is an invalid request that must surface as exactly one
"index out of range" error when the component is loaded (F3: the implementation panics). -/
theorem witness_paramIndex_negative :
    faults Ctx.init [.function "f", .signature (some ⟨[("x", .int 8 true)], []⟩), .paramIndex (-1),
      .load 0 1 false] = [.indexRange] := by decide

/-- `Param("x").Index(-1)` on `[2]float64` must be reported as out of bounds
when loaded (F3: the implementation reports nothing and emits the MOV). -/
theorem witness_index_negative :
    faults Ctx.init [.function "f", .signature (some ⟨[("x", .array 2 (.float 8))], []⟩), .param "x",
      .nav 0 (.index (-1)), .load 1 2 false] = [.arrayBounds] := by decide

/-- `RDTSC; CDQ; RET` is a valid history with no compile-time fault for any
register file, so the property demands status 0 and both outputs written (F4: `Main` panics). -/
theorem witness_implicit_only_valid (lim : Nat → Nat) :
    let ops := [Op.function "f", .instr true ⟨0, [1], []⟩, .instr true ⟨0, [1], []⟩, .instr true ⟨0, [], []⟩]
    faults Ctx.init ops = [] ∧ passFaults lim (run Ctx.init ops).fns = [] ∧
      (observe lim ops).status = 0 ∧ (observe lim ops).asm = 1 ∧ (observe lim ops).stubs = 1 := by
  refine ⟨by decide, ?_⟩
  have h : passFaults lim (run Ctx.init [Op.function "f", .instr true ⟨0, [1], []⟩, .instr true ⟨0, [1], []⟩,
      .instr true ⟨0, [], []⟩]).fns = [] := by
    simp [passFaults, fnPassFaults, run, step, Ctx.newFn, Ctx.addNode, Ctx.withFn, Ctx.init, Ctx.fns,
      Node.memFaults, pruneJumps, pruneDangling, isJumpTo, referenced, Node.target, Instr.target, labelScan]
  refine ⟨h, ?_⟩
  simp only [observe, main, stdPasses, h]
  decide

/-! ## Declarative reading of the faults that depend on the history

`fault` above is stated on the model state.  The theorems of this section say
what that means in terms of the history alone (no reference to `step`):
a request that acts on the active function / data section is a fault exactly
when no `Function` / `StaticGlobal` call precedes it, and no history whatsoever
stores two overlapping data in a section. -/

def Op.opensFn : Op → Bool
  | .function _ | .pressure _ _ _ => true
  | _ => false

def Op.opensGlob : Op → Bool
  | .staticGlobal _ => true
  | _ => false

@[simp] theorem withFn_cur_isSome (c : Ctx) (f) : (c.withFn f).cur.isSome = c.cur.isSome := by
  unfold Ctx.withFn; cases h : c.cur <;> simp [Ctx.addErr, h]
@[simp] theorem withFn_glob (c : Ctx) (f) : (c.withFn f).glob = c.glob := by
  unfold Ctx.withFn; cases h : c.cur <;> simp [Ctx.addErr]
@[simp] theorem withFn_doneGlobs (c : Ctx) (f) : (c.withFn f).doneGlobs = c.doneGlobs := by
  unfold Ctx.withFn; cases h : c.cur <;> simp [Ctx.addErr]
@[simp] theorem withGlob_cur (c : Ctx) (f) : (c.withGlob f).cur = c.cur := by
  unfold Ctx.withGlob; cases h : c.glob <;> simp [Ctx.addErr]
@[simp] theorem withGlob_glob_isSome (c : Ctx) (f) : (c.withGlob f).glob.isSome = c.glob.isSome := by
  unfold Ctx.withGlob; cases h : c.glob <;> simp [Ctx.addErr, h]
@[simp] theorem withGlob_doneGlobs (c : Ctx) (f) : (c.withGlob f).doneGlobs = c.doneGlobs := by
  unfold Ctx.withGlob; cases h : c.glob <;> simp [Ctx.addErr]
@[simp] theorem rootComp_cur (c : Ctx) (p) : (c.rootComp p).cur = c.cur := by
  unfold Ctx.rootComp; cases h : c.cur <;> simp [Ctx.addErr, Ctx.pushComp, h]
@[simp] theorem rootComp_glob (c : Ctx) (p) : (c.rootComp p).glob = c.glob := by
  unfold Ctx.rootComp; cases h : c.cur <;> simp [Ctx.addErr, Ctx.pushComp]
@[simp] theorem rootComp_doneGlobs (c : Ctx) (p) : (c.rootComp p).doneGlobs = c.doneGlobs := by
  unfold Ctx.rootComp; cases h : c.cur <;> simp [Ctx.addErr, Ctx.pushComp]
@[simp] theorem loadStore_cur_isSome (c : Ctx) (s rk d st) : (c.loadStore s rk d st).cur.isSome = c.cur.isSome := by
  unfold Ctx.loadStore; split <;> (try split) <;> (try split) <;> simp [Ctx.addErr, Ctx.addNode]
@[simp] theorem loadStore_glob (c : Ctx) (s rk d st) : (c.loadStore s rk d st).glob = c.glob := by
  unfold Ctx.loadStore; split <;> (try split) <;> (try split) <;> simp [Ctx.addErr, Ctx.addNode]
@[simp] theorem loadStore_doneGlobs (c : Ctx) (s rk d st) : (c.loadStore s rk d st).doneGlobs = c.doneGlobs := by
  unfold Ctx.loadStore; split <;> (try split) <;> (try split) <;> simp [Ctx.addErr, Ctx.addNode]

theorem step_cur_isSome (c : Ctx) (op : Op) : (step c op).cur.isSome = (c.cur.isSome || op.opensFn) := by
  cases op with
  | signature s => cases s <;> simp [step, Op.opensFn, Ctx.addErr]
  | instr v i => cases v <;> simp [step, Op.opensFn, Ctx.addErr, Ctx.addNode]
  | addDatum off sz =>
    simp only [step, Op.opensFn]
    cases c.glob with
    | none => simp [Ctx.addErr]
    | some g => by_cases h : g.overlapsAny off sz = true <;> simp [h, Ctx.addErr]
  | constraints cs => by_cases h : constraintsValid cs = true <;> simp [step, h, Ctx.addErr, Op.opensFn]
  | constraint k => by_cases h : constraintsValid (c.cons ++ [k]) = true <;> simp [step, h, Ctx.addErr, Op.opensFn]
  | constraintExpr k =>
    by_cases h : constraintsValid (c.cons ++ [k]) = true <;> by_cases h2 : constraintValid k = true <;>
      simp [step, h, h2, Ctx.addErr, Op.opensFn]
  | _ => simp [step, Op.opensFn, Ctx.addNode, Ctx.addErr, Ctx.pushComp, Ctx.newFn]

theorem run_cur_isSome (c : Ctx) (ops : List Op) :
    (run c ops).cur.isSome = (c.cur.isSome || ops.any Op.opensFn) := by
  induction ops generalizing c with
  | nil => simp [run]
  | cons op ops ih => rw [run_cons, ih, step_cur_isSome]; simp [Bool.or_assoc]

theorem step_glob_isSome (c : Ctx) (op : Op) : (step c op).glob.isSome = (c.glob.isSome || op.opensGlob) := by
  cases op with
  | signature s => cases s <;> simp [step, Op.opensGlob, Ctx.addErr]
  | instr v i => cases v <;> simp [step, Op.opensGlob, Ctx.addErr, Ctx.addNode]
  | addDatum off sz =>
    simp only [step, Op.opensGlob]
    cases hg : c.glob with
    | none => simp [Ctx.addErr, hg]
    | some g => by_cases h : g.overlapsAny off sz = true <;> simp [h, Ctx.addErr, hg]
  | constraints cs => by_cases h : constraintsValid cs = true <;> simp [step, h, Ctx.addErr, Op.opensGlob]
  | constraint k => by_cases h : constraintsValid (c.cons ++ [k]) = true <;> simp [step, h, Ctx.addErr, Op.opensGlob]
  | constraintExpr k =>
    by_cases h : constraintsValid (c.cons ++ [k]) = true <;> by_cases h2 : constraintValid k = true <;>
      simp [step, h, h2, Ctx.addErr, Op.opensGlob]
  | _ => simp [step, Op.opensGlob, Ctx.addNode, Ctx.addErr, Ctx.pushComp, Ctx.newFn]

theorem run_glob_isSome (c : Ctx) (ops : List Op) :
    (run c ops).glob.isSome = (c.glob.isSome || ops.any Op.opensGlob) := by
  induction ops generalizing c with
  | nil => simp [run]
  | cons op ops ih => rw [run_cons, ih, step_glob_isSome]; simp [Bool.or_assoc]

/-- requests that act on the active function and are otherwise well-formed -/
def Op.needsFn : Op → Bool
  | .attributes _ | .doc _ | .pragma _ | .label _ | .comment | .rawInstr _ | .allocLocal _
  | .param _ | .paramIndex _ | .ret _ | .retIndex _ | .signature (some _) | .instr true _ => true
  | _ => false

/-- requests that act on the active data section -/
def Op.needsGlob : Op → Bool
  | .dataAttributes _ | .appendDatum _ | .addDatum _ _ => true
  | _ => false

/-- **outside_function_iff** ("instruction outside a function").  For every history
`pre` and every request that acts on the active function: the request is a fault
exactly when no `Function` call precedes it, and the message is "no active function". -/
theorem outside_function_iff (pre : List Op) (op : Op) (h : op.needsFn = true) :
    fault (run Ctx.init pre) op = (if pre.any Op.opensFn then none else some .noFunc) := by
  have hc := run_cur_isSome Ctx.init pre
  simp only [Ctx.init, Option.isSome_none, Bool.false_or] at hc
  have hn : noFn (run Ctx.init pre) = (if pre.any Op.opensFn then none else some .noFunc) := by
    unfold noFn
    cases hh : pre.any Op.opensFn <;> cases hcur : (run Ctx.init pre).cur <;> simp_all [Ctx.init]
  cases op with
  | signature s => cases s <;> simp_all [fault, Op.needsFn]
  | instr v i => cases v <;> simp_all [fault, Op.needsFn]
  | _ => simp_all [fault, Op.needsFn]

/-- … and for the data section: without a preceding `StaticGlobal` every datum /
attribute request is a fault ("no active global"). -/
theorem outside_global_fault (pre : List Op) (op : Op) (h : op.needsGlob = true)
    (hpre : pre.any Op.opensGlob = false) : fault (run Ctx.init pre) op = some .noGlobal := by
  have hc : (run Ctx.init pre).glob.isSome = false := by
    rw [run_glob_isSome, hpre]; rfl
  have hg : (run Ctx.init pre).glob = none := by
    cases hh : (run Ctx.init pre).glob with
    | none => rfl
    | some g => rw [hh] at hc; simp at hc
  cases op <;> simp_all [fault, Op.needsGlob, noGl]

/-! ### No history stores overlapping data -/

/-- `later` does not overlap `earlier` (in the sense of `Datum.Overlaps`, the new datum being the receiver). -/
def disjointFrom (earlier later : Nat × Nat) : Prop :=
  overlaps later.1 (later.1 + later.2) earlier.1 (earlier.1 + earlier.2) = false

/-- A data section is well formed: its data are pairwise non-overlapping and all lie below its size. -/
def Glob.wf (g : Glob) : Prop :=
  g.data.Pairwise disjointFrom ∧ ∀ d ∈ g.data, d.1 + d.2 ≤ g.size

theorem Glob.wf_empty (n : String) : ({ name := n } : Glob).wf := by
  simp [Glob.wf]

theorem Glob.add_wf (g : Glob) (off sz : Nat) (hw : g.wf) (hno : g.overlapsAny off sz = false) :
    (g.add off sz).wf := by
  obtain ⟨hp, hs⟩ := hw
  refine ⟨?_, ?_⟩
  · simp only [Glob.add, List.pairwise_append, List.pairwise_cons, List.not_mem_nil, false_imp_iff,
      implies_true, List.Pairwise.nil, and_self, List.mem_singleton, true_and]
    refine ⟨hp, ?_⟩
    intro a ha b hb
    subst hb
    simp only [Glob.overlapsAny, List.any_eq_false] at hno
    have := hno a ha
    simpa [disjointFrom] using this
  · intro d hd
    simp only [Glob.add, List.mem_append, List.mem_singleton] at hd ⊢
    rcases hd with hd | hd
    · have := hs d hd; split <;> omega
    · subst hd; simp only; split <;> omega

theorem Glob.append_no_overlap (g : Glob) (sz : Nat) (hw : g.wf) : g.overlapsAny g.size sz = false := by
  simp only [Glob.overlapsAny, List.any_eq_false]
  intro d hd
  have := hw.2 d hd
  simp [overlaps, this]

/-- the invariant: every data section of the context is well formed -/
def Ctx.dataWf (c : Ctx) : Prop := (∀ g ∈ c.doneGlobs, g.wf) ∧ (∀ g, c.glob = some g → g.wf)

theorem step_dataWf (c : Ctx) (op : Op) (h : c.dataWf) : (step c op).dataWf := by
  obtain ⟨hd, hg⟩ := h
  cases op with
  | signature s => cases s <;> simpa [step, Ctx.dataWf, Ctx.addErr] using ⟨hd, hg⟩
  | instr v i => cases v <;> simpa [step, Ctx.dataWf, Ctx.addErr, Ctx.addNode] using ⟨hd, hg⟩
  | staticGlobal n =>
    refine ⟨?_, ?_⟩
    · intro g hm
      simp only [step, List.mem_append] at hm
      rcases hm with hm | hm
      · exact hd g hm
      · cases hc : c.glob with
        | none => simp [hc] at hm
        | some g' => simp [hc] at hm; exact hm ▸ hg g' hc
    · intro g hm
      simp only [step, Option.some.injEq] at hm
      subst hm; exact Glob.wf_empty n
  | dataAttributes a =>
    refine ⟨by simpa [step] using hd, ?_⟩
    intro g hm
    simp only [step, Ctx.withGlob] at hm
    cases hc : c.glob with
    | none => simp [hc, Ctx.addErr] at hm
    | some g' =>
      simp [hc] at hm; subst hm
      have := hg g' hc
      exact ⟨this.1, this.2⟩
  | addDatum off sz =>
    simp only [step]
    cases hc : c.glob with
    | none => simpa [Ctx.dataWf, Ctx.addErr, hc] using hd
    | some g' =>
      by_cases ho : g'.overlapsAny off sz = true
      · simpa [ho, Ctx.dataWf, Ctx.addErr, hc] using ⟨hd, hg g' hc⟩
      · simp only [ho, Bool.false_eq_true, if_false]
        refine ⟨hd, ?_⟩
        intro g hm
        simp only [Option.some.injEq] at hm
        subst hm
        exact Glob.add_wf g' off sz (hg g' hc) (by simpa using ho)
  | appendDatum sz =>
    refine ⟨by simpa [step] using hd, ?_⟩
    intro g hm
    simp only [step, Ctx.withGlob] at hm
    cases hc : c.glob with
    | none => simp [hc, Ctx.addErr] at hm
    | some g' =>
      simp [hc] at hm; subst hm
      exact Glob.add_wf g' g'.size sz (hg g' hc) (Glob.append_no_overlap g' sz (hg g' hc))
  | constraints cs => by_cases h : constraintsValid cs = true <;> simpa [step, h, Ctx.addErr, Ctx.dataWf] using ⟨hd, hg⟩
  | constraint k =>
    by_cases h : constraintsValid (c.cons ++ [k]) = true <;> simpa [step, h, Ctx.addErr, Ctx.dataWf] using ⟨hd, hg⟩
  | constraintExpr k =>
    by_cases h : constraintsValid (c.cons ++ [k]) = true <;> by_cases h2 : constraintValid k = true <;>
      simpa [step, h, h2, Ctx.addErr, Ctx.dataWf] using ⟨hd, hg⟩
  | _ => simpa [step, Ctx.dataWf, Ctx.addNode, Ctx.addErr, Ctx.pushComp, Ctx.newFn] using ⟨hd, hg⟩

/-- **data_disjoint.** Whatever the history — valid or not, in any interleaving
with functions and other sections — no data section of the built file ever holds
two overlapping data, and every datum lies within the section's size: an
overlapping datum is never stored. -/
theorem data_disjoint (ops : List Op) : ∀ g ∈ (run Ctx.init ops).globs, g.wf := by
  have hinv : ∀ (c : Ctx), c.dataWf → (run c ops).dataWf := by
    induction ops with
    | nil => intro c h; exact h
    | cons op ops ih => intro c h; rw [run_cons]; exact ih _ (step_dataWf c op h)
  have h := hinv Ctx.init ⟨by simp [Ctx.init], by simp [Ctx.init]⟩
  intro g hm
  simp only [Ctx.globs, List.mem_append, Option.mem_toList] at hm
  rcases hm with hm | hm
  · exact h.1 g hm
  · exact h.2 g hm

/-- non-vacuity: a section with three data, one request refused in between -/
example : (run Ctx.init [.staticGlobal "d", .addDatum 0 8, .addDatum 4 8, .appendDatum 4, .addDatum 16 2]).globs.map
    (·.data) = [[(0, 8), (8, 4), (16, 2)]] := by decide

end Avo.Ctx
