/-
C18 — Invalid requests are reported as errors; nothing is emitted and nothing
panics.  Statements and property theorems about the executable model
`Model/Ctx.lean`, for ALL states, requests, histories and pass lists.

"Does not panic" cannot be a theorem about total Lean functions; it is carried
by the correspondence (every real call runs under `recover`, a panic is a
distinct outcome the model never produces) and by the acceptor `Spec` below,
whose first clause is `panics = 0`.
-/
import AvoVerif.Model.Ctx
namespace Avo.Ctx

/-! ## What a builder-time fault is (declarative; independent of `step`) -/

def noFn (c : Ctx) : Option ErrClass := if c.cur.isNone then some .noFunc else none
def noGl (c : Ctx) : Option ErrClass := if c.glob.isNone then some .noGlobal else none

/-- `fault c op = some e`: request `op` is invalid in state `c`, and `e` is what is wrong with it.
* anything that needs the active function / data section while there is none;
* operands matching no form; a signature expression the type checker rejects;
* Load/Store/Dereference of a component that does not resolve to a primitive
  (unknown name, index out of range, navigation on the wrong type, …), or for
  which no MOV can be deduced;
* a datum overlapping an existing one; an invalid build constraint. -/
def fault (c : Ctx) : Op → Option ErrClass
  | .function _ | .staticGlobal _ | .pressure _ _ _ | .nav _ _ => none
  | .attributes _ | .doc | .pragma | .label _ | .comment | .rawInstr _ | .allocLocal _
  | .param _ | .paramIndex _ | .ret _ | .retIndex _ | .signature (some _) | .instr true _ => noFn c
  | .signature none => some .sigExpr
  | .instr false _ => some .badOperands
  | .load s _ ded | .store s _ ded | .dereference s ded =>
      match (c.getComp s).resolveErr with
      | some e => some e
      | none => if ded then noFn c else some .movDeduce
  | .dataAttributes _ | .appendDatum _ => noGl c
  | .addDatum off sz =>
      match c.glob with
      | none => some .noGlobal
      | some g => if g.overlapsAny off sz then some .overlap else none
  | .constraints cs => if constraintsValid cs then none else some .constraint
  | .constraint k | .constraintExpr k =>
      if constraintsValid (c.cons ++ [k]) then none else some .constraint

/-- The faults of a history started in state `c`, in order. -/
def faults (c : Ctx) : List Op → List ErrClass
  | [] => []
  | op :: ops => (fault c op).toList ++ faults (step c op) ops

/-- State before the `k`-th request of a history started in `c`. -/
def stateAt (c : Ctx) (ops : List Op) (k : Nat) : Ctx := run c (ops.take k)

/-- The `k`-th request of the history is a fault in the state it is issued in. -/
def faultAt (c : Ctx) (ops : List Op) (k : Nat) : Bool :=
  match ops[k]? with
  | some op => (fault (stateAt c ops k) op).isSome
  | none => false

/-- Number of faulting requests of a history. -/
def numFaults (c : Ctx) (ops : List Op) : Nat :=
  ((List.range ops.length).filter (faultAt c ops)).length

/-! ## Basic facts about the state updates -/

@[simp] theorem addErr_errs (c : Ctx) (e) : (c.addErr e).errs = c.errs ++ [e] := rfl
@[simp] theorem pushComp_errs (c : Ctx) (k) : (c.pushComp k).errs = c.errs := rfl
@[simp] theorem newFn_errs (c : Ctx) (n) : (c.newFn n).errs = c.errs := rfl
@[simp] theorem newFn_cur (c : Ctx) (n) : (c.newFn n).cur.isNone = false := rfl

theorem withFn_errs (c : Ctx) (f) : (c.withFn f).errs = c.errs ++ (noFn c).toList := by
  unfold Ctx.withFn noFn; cases h : c.cur <;> simp

theorem withGlob_errs (c : Ctx) (f) : (c.withGlob f).errs = c.errs ++ (noGl c).toList := by
  unfold Ctx.withGlob noGl; cases h : c.glob <;> simp

theorem addNode_errs (c : Ctx) (n) : (c.addNode n).errs = c.errs ++ (noFn c).toList :=
  withFn_errs c _

theorem rootComp_errs (c : Ctx) (p) : (c.rootComp p).errs = c.errs ++ (noFn c).toList := by
  unfold Ctx.rootComp noFn; cases h : c.cur <;> simp

theorem loadStore_errs (c : Ctx) (s rk : Nat) (ded st : Bool) :
    (c.loadStore s rk ded st).errs = c.errs ++
      (match (c.getComp s).resolveErr with
       | some e => some e
       | none => if ded then noFn c else some .movDeduce).toList := by
  unfold Ctx.loadStore
  cases hk : c.getComp s with
  | err e => simp [Comp.resolveErr]
  | ok t g =>
    by_cases hp : t.isPrimitive = true
    · by_cases hd : ded = true
      · simp [Comp.resolveErr, hp, hd, addNode_errs]
      · simp [Comp.resolveErr, hp, hd]
    · simp [Comp.resolveErr, hp]

theorem constraintsValid_append (cs : List Constraint) (k : Constraint) :
    constraintsValid (cs ++ [k]) = (constraintsValid cs && constraintValid k) := by
  simp [constraintsValid, List.all_append]

/-! ## errs_monotone -/

/-- **errs_monotone.** For every state and every request, the request leaves all
earlier errors in place and appends exactly one error if it is a builder-time
fault in that state, and none otherwise. -/
theorem errs_monotone (c : Ctx) (op : Op) :
    (step c op).errs = c.errs ++ (fault c op).toList := by
  cases op with
  | function n => simp [step, fault]
  | attributes a => simp [step, fault, withFn_errs]
  | doc => simp [step, fault, withFn_errs]
  | pragma => simp [step, fault, withFn_errs]
  | signature s => cases s <;> simp [step, fault, withFn_errs]
  | instr v i => cases v <;> simp [step, fault, addNode_errs]
  | rawInstr i => simp [step, fault, addNode_errs]
  | label n => simp [step, fault, addNode_errs]
  | comment => simp [step, fault, addNode_errs]
  | param n => simp [step, fault, rootComp_errs]
  | paramIndex i => simp [step, fault, rootComp_errs]
  | ret n => simp [step, fault, rootComp_errs]
  | retIndex i => simp [step, fault, rootComp_errs]
  | nav s n => simp [step, fault]
  | load s rk d => simp only [step, fault, loadStore_errs]
  | store s rk d => simp only [step, fault, loadStore_errs]
  | dereference s d => simp only [step, fault, pushComp_errs, loadStore_errs]
  | allocLocal n => simp [step, fault, withFn_errs]
  | staticGlobal n => simp [step, fault]
  | dataAttributes a => simp [step, fault, withGlob_errs]
  | addDatum off sz =>
    simp only [step, fault]
    cases c.glob with
    | none => simp
    | some g => by_cases h : g.overlapsAny off sz = true <;> simp [h]
  | appendDatum sz => simp [step, fault, withGlob_errs]
  | constraints cs => by_cases h : constraintsValid cs = true <;> simp [step, fault, h]
  | constraint k => by_cases h : constraintsValid (c.cons ++ [k]) = true <;> simp [step, fault, h]
  | constraintExpr k =>
    simp only [step, fault, constraintsValid_append]
    by_cases hk : constraintValid k = true <;> by_cases hc : constraintsValid c.cons = true <;> simp [hk, hc]
  | pressure n k m => simp [step, fault, addNode_errs, noFn]

/-- One request adds at most one error, and exactly one iff it is a fault. -/
theorem step_errs_length (c : Ctx) (op : Op) :
    (step c op).errs.length = c.errs.length + (if (fault c op).isSome then 1 else 0) := by
  rw [errs_monotone]; cases fault c op <;> simp

/-! ## Histories -/

theorem run_cons (c : Ctx) (op : Op) (ops : List Op) : run c (op :: ops) = run (step c op) ops := rfl

theorem run_append (c : Ctx) (xs ys : List Op) : run c (xs ++ ys) = run (run c xs) ys := by
  simp [run, List.foldl_append]

/-- The errors after a history are the errors before it followed by exactly its faults. -/
theorem run_errs (c : Ctx) (ops : List Op) : (run c ops).errs = c.errs ++ faults c ops := by
  induction ops generalizing c with
  | nil => simp [run, faults]
  | cons op ops ih => rw [run_cons, ih, errs_monotone, faults, List.append_assoc]

/-- An error, once recorded, is never dropped or reordered by any later sequence of requests. -/
theorem errs_prefix (c : Ctx) (ops : List Op) : c.errs <+: (run c ops).errs := by
  rw [run_errs]; exact List.prefix_append _ _

theorem faultAt_zero (c : Ctx) (op : Op) (ops : List Op) :
    faultAt c (op :: ops) 0 = (fault c op).isSome := by
  simp [faultAt, stateAt, run]

theorem faultAt_succ (c : Ctx) (op : Op) (ops : List Op) (k : Nat) :
    faultAt c (op :: ops) (k + 1) = faultAt (step c op) ops k := by
  simp [faultAt, stateAt, run_cons]

/-- The list of faults has one entry per faulting position. -/
theorem faults_length (c : Ctx) (ops : List Op) : (faults c ops).length = numFaults c ops := by
  induction ops generalizing c with
  | nil => simp [faults, numFaults]
  | cons op ops ih =>
    have hr : List.range (ops.length + 1) = 0 :: (List.range ops.length).map (· + 1) := by
      rw [List.range_succ_eq_map]
    simp only [faults, numFaults, List.length_cons, List.length_append, hr, List.filter_cons,
      faultAt_zero, List.filter_map, ih]
    have hf : (faultAt c (op :: ops) ∘ fun x => x + 1) = faultAt (step c op) ops := by
      funext k; simp [Function.comp, faultAt_succ]
    rw [hf]
    cases fault c op <;> simp <;> omega

theorem faults_eq_nil_iff (c : Ctx) (ops : List Op) :
    faults c ops = [] ↔ ∀ k, faultAt c ops k = false := by
  induction ops generalizing c with
  | nil => simp [faults, faultAt]
  | cons op ops ih =>
    simp only [faults, List.append_eq_nil_iff, ih]
    constructor
    · intro ⟨h0, hs⟩ k
      cases k with
      | zero => rw [faultAt_zero]; cases h : fault c op <;> simp_all
      | succ k => rw [faultAt_succ]; exact hs k
    · intro h
      refine ⟨?_, fun k => ?_⟩
      · have := h 0; rw [faultAt_zero] at this; cases hf : fault c op <;> simp_all
      · have := h (k + 1); rwa [faultAt_succ] at this

/-- **bad_never_masked.** For every history: if any request is a fault in the
state it is issued in, then — whatever valid or invalid requests follow —
`Result()` is an error, carrying exactly one message per faulting request (in
request order). -/
theorem bad_never_masked (ops : List Op) (h : ∃ k, faultAt Ctx.init ops k = true) :
    ∃ es, result (run Ctx.init ops) = .error es ∧ es = faults Ctx.init ops ∧
      es.length = numFaults Ctx.init ops ∧ es ≠ [] := by
  have hne : faults Ctx.init ops ≠ [] := by
    intro hnil
    obtain ⟨k, hk⟩ := h
    have := (faults_eq_nil_iff _ _).mp hnil k
    simp [hk] at this
  have he : (run Ctx.init ops).errs = faults Ctx.init ops := by
    rw [run_errs]; rfl
  refine ⟨faults Ctx.init ops, ?_, rfl, faults_length _ _, hne⟩
  unfold result
  rw [he]
  cases hf : faults Ctx.init ops with
  | nil => exact absurd hf hne
  | cons a as => simp

/-- **valid_no_error.** A history in which no request is a fault produces no error. -/
theorem valid_no_error (ops : List Op) (h : ∀ k, faultAt Ctx.init ops k = false) :
    result (run Ctx.init ops) = .ok ∧ (run Ctx.init ops).errs = [] := by
  have he : (run Ctx.init ops).errs = [] := by
    rw [run_errs, (faults_eq_nil_iff _ _).mpr h]; rfl
  exact ⟨by simp [result, he], he⟩

/-- The number of error messages always equals the number of faulting requests. -/
theorem errs_count (ops : List Op) : (run Ctx.init ops).errs.length = numFaults Ctx.init ops := by
  rw [run_errs, ← faults_length]; simp [Ctx.init]

/-! ## Component chaining -/

/-- **component_chain.** An error component stays the same error through every
sequence of navigation methods, up to `Resolve`. -/
theorem component_chain (e : ErrClass) (navs : List Nav) :
    (navs.foldl Comp.nav (.err e)).resolveErr = some e := by
  induction navs with
  | nil => rfl
  | cons n ns ih => simpa [List.foldl, Comp.nav] using ih

/-- … and Load/Store/Dereference of it is a fault reporting that very error, in every state. -/
theorem component_chain_reported (c : Ctx) (s rk : Nat) (ded : Bool) (e : ErrClass) (navs : List Nav)
    (h : c.getComp s = navs.foldl Comp.nav (.err e)) :
    fault c (.load s rk ded) = some e ∧ fault c (.store s rk ded) = some e ∧
      fault c (.dereference s ded) = some e := by
  simp [fault, h, component_chain]

/-- Navigation itself never reports anything: the error surfaces only at `Resolve`. -/
theorem nav_no_fault (c : Ctx) (s : Nat) (n : Nav) : fault c (.nav s n) = none := rfl

/-! ## Concat and Main -/

/-- Positions (counted from `k`) of the Output passes in a list. -/
def outputsFrom (k : Nat) : List Pass → List Nat
  | [] => []
  | p :: ps => if p.output then k :: outputsFrom (k + 1) ps else outputsFrom (k + 1) ps

theorem outputsFrom_nil_of_no_output (k : Nat) (ps : List Pass) (h : ∀ q ∈ ps, q.output = false) :
    outputsFrom k ps = [] := by
  induction ps generalizing k with
  | nil => rfl
  | cons p ps ih =>
    have hp : p.output = false := h p List.mem_cons_self
    simp [outputsFrom, hp, ih (k + 1) (fun q hq => h q (List.mem_cons_of_mem _ hq))]

theorem concatFrom_stops (k : Nat) (pre : List Pass) (p : Pass) (post : List Pass)
    (hpre : ∀ q ∈ pre, q.fails = false) (hp : p.fails = true) :
    concatFrom k (pre ++ p :: post) = ⟨false, pre.length + 1, outputsFrom k pre⟩ := by
  induction pre generalizing k with
  | nil => simp [concatFrom, hp, outputsFrom]
  | cons q qs ih =>
    have hq : q.fails = false := hpre q List.mem_cons_self
    have := ih (k + 1) (fun r hr => hpre r (List.mem_cons_of_mem _ hr))
    simp only [List.cons_append, concatFrom, hq, Bool.false_eq_true, if_false, this, outputsFrom,
      List.length_cons]

theorem concatFrom_all_ok (k : Nat) (ps : List Pass) (h : ∀ q ∈ ps, q.fails = false) :
    concatFrom k ps = ⟨true, ps.length, outputsFrom k ps⟩ := by
  induction ps generalizing k with
  | nil => rfl
  | cons q qs ih =>
    have hq : q.fails = false := h q List.mem_cons_self
    have := ih (k + 1) (fun r hr => h r (List.mem_cons_of_mem _ hr))
    simp only [concatFrom, hq, Bool.false_eq_true, if_false, this, outputsFrom, List.length_cons]

/-- **pass_error_stops.** `Concat` semantics for every pass list: the first
failing pass ends the pipeline — exactly the passes up to and including it were
executed, the only printers that ran are those before it, and when the Output
passes come after it (they come last) no printer ran at all. -/
theorem pass_error_stops (pre : List Pass) (p : Pass) (post : List Pass)
    (hpre : ∀ q ∈ pre, q.fails = false) (hp : p.fails = true) :
    let r := concat (pre ++ p :: post)
    r.ok = false ∧ r.executed = pre.length + 1 ∧ r.printed = outputsFrom 0 pre ∧
      ((∀ q ∈ pre, q.output = false) → r.printed = []) := by
  simp only [concat, concatFrom_stops 0 pre p post hpre hp, true_and]
  exact fun h => outputsFrom_nil_of_no_output 0 pre h

/-- Without a failing pass everything runs, every printer prints. -/
theorem pass_all_ok (ps : List Pass) (h : ∀ q ∈ ps, q.fails = false) :
    concat ps = ⟨true, ps.length, outputsFrom 0 ps⟩ := concatFrom_all_ok 0 ps h

/-- **main_stops.** When `Result()` is an error, `Main` returns status 1 having
executed no pass and run no printer, for every pass list and error limit; it
logs one line per error (when unlimited). -/
theorem main_stops (mx : Nat) (passes : List Pass) (c : Ctx) (es : List ErrClass)
    (h : result c = .error es) :
    main mx passes c = ⟨1, 0, [], logLines mx es.length⟩ ∧ logLines 0 es.length = es.length := by
  simp [main, h, logLines]

/-- `Result()` is an error exactly when an error was recorded. -/
theorem result_error_iff (c : Ctx) : (∃ es, result c = .error es) ↔ c.errs ≠ [] := by
  unfold result
  cases h : c.errs <;> simp

/-! ## The property, end to end, and its executable acceptor -/

/-- What is observed of one generation run (model or implementation). -/
structure Observed where
  /-- number of error messages in `Result()` -/
  errs : Nat
  status : Nat
  /-- bytes written to the assembly output -/
  asm : Nat
  /-- bytes written to the stub output -/
  stubs : Nat
  /-- lines written to the diagnostics output (error limit 0 = unlimited) -/
  diag : Nat
  /-- builder calls / Main invocations that panicked -/
  panics : Nat
  /-- class of the reported compile error, when its message is a recognised one -/
  passErr : Option PassErr
  deriving Repr, DecidableEq

/-- **The property.** `nf` = number of builder-time faults of the history, `pf` =
the compile-time faults present in the built file.  Nothing panics; any
builder-time fault ⇒ non-zero status, nothing written to either output, exactly
one message per fault; only compile-time faults ⇒ non-zero status, nothing
written, and the reported error — when its message is recognised — is one of
them; no fault ⇒ status 0, no error, both outputs written. -/
def Spec (nf : Nat) (pf : List PassErr) (o : Observed) : Prop :=
  o.panics = 0 ∧
  (nf > 0 → o.status ≠ 0 ∧ o.asm = 0 ∧ o.stubs = 0 ∧ o.errs = nf ∧ o.diag = nf) ∧
  (nf = 0 → pf ≠ [] → o.status ≠ 0 ∧ o.asm = 0 ∧ o.stubs = 0 ∧ o.errs = 0 ∧
      ∀ e, o.passErr = some e → e ∈ pf) ∧
  (nf = 0 → pf = [] → o.status = 0 ∧ o.errs = 0 ∧ o.diag = 0 ∧ o.asm > 0 ∧ o.stubs > 0)

instance (nf pf o) : Decidable (Spec nf pf o) := by
  unfold Spec
  have : Decidable (∀ e, o.passErr = some e → e ∈ pf) :=
    match h : o.passErr with
    | none => isTrue (by simp)
    | some e => if hm : e ∈ pf then isTrue (by simpa using hm) else isFalse (by simpa using hm)
  exact inferInstance

/-- Executable acceptor used on the implementation's outcome. -/
def c18Accept (nf : Nat) (pf : List PassErr) (o : Observed) : Bool := decide (Spec nf pf o)

theorem c18Accept_sound (nf pf o) : c18Accept nf pf o = true → Spec nf pf o := by
  simp [c18Accept]

theorem c18Accept_complete (nf pf o) : Spec nf pf o → c18Accept nf pf o = true := by
  simp [c18Accept]

/-- What the model observes for a history under the standard configuration
(`Compile`, assembly printer, stub printer; unlimited errors). -/
def observe (lim : Nat → Nat) (ops : List Op) : Observed :=
  let c := run Ctx.init ops
  let o := main 0 (stdPasses lim c) c
  { errs := c.errs.length, status := o.status,
    asm := if o.printed.contains 1 then 1 else 0,
    stubs := if o.printed.contains 2 then 1 else 0,
    diag := o.diag, panics := 0,
    passErr := if c.errs.isEmpty then (passFaults lim c.fns).head? else none }

def C18_statement : Prop :=
  ∀ (lim : Nat → Nat) (ops : List Op),
    Spec (numFaults Ctx.init ops) (passFaults lim (run Ctx.init ops).fns) (observe lim ops)

/-- **C18.** The model of the builder and of `Main` meets the property for all
histories (and all register-file sizes). -/
theorem C18 : C18_statement := by
  intro lim ops
  have hcount := errs_count ops
  generalize hc : run Ctx.init ops = c at hcount
  generalize numFaults Ctx.init ops = nf at hcount
  unfold Spec observe
  simp only [hc]
  refine ⟨trivial, ?_, ?_, ?_⟩
  · intro hpos
    have hne : c.errs ≠ [] := by intro h; rw [h] at hcount; simp at hcount; omega
    have hres : result c = .error c.errs := by
      unfold result; cases h : c.errs <;> simp_all
    simp [main, hres, logLines, hcount]
  · intro hz hpf
    have he : c.errs = [] := by
      cases h : c.errs with
      | nil => rfl
      | cons a as => rw [h] at hcount; simp at hcount; omega
    have hres : result c = .ok := by simp [result, he]
    have hfail : (passFaults lim c.fns).isEmpty = false := by
      cases h : passFaults lim c.fns <;> simp_all
    cases hh : passFaults lim c.fns with
    | nil => exact absurd hh hpf
    | cons a as => simp [main, hres, stdPasses, concat, concatFrom, hh, he]
  · intro hz hpf
    have he : c.errs = [] := by
      cases h : c.errs with
      | nil => rfl
      | cons a as => rw [h] at hcount; simp at hcount; omega
    have hres : result c = .ok := by simp [result, he]
    simp [main, hres, stdPasses, concat, concatFrom, hpf, he]

/-! ## Non-vacuity: concrete histories meeting the hypotheses -/

/-- a history with a fault in the middle, followed by valid requests -/
def exBad : List Op :=
  [.function "f", .instr false default, .instr true default, .label "a", .function "g", .comment]

example : ∃ k, faultAt Ctx.init exBad k = true := ⟨1, by decide⟩
example : result (run Ctx.init exBad) = .error [.badOperands] := by decide
example : numFaults Ctx.init exBad = 1 := by decide

/-- a valid history -/
def exGood : List Op :=
  [.function "f", .signature (some ⟨[("x", .int 8 true)], []⟩), .param "x", .load 0 1 true,
   .instr true default, .staticGlobal "d", .addDatum 0 8, .addDatum 8 8]

example : ∀ k, k < exGood.length → faultAt Ctx.init exGood k = false := by decide
example : result (run Ctx.init exGood) = .ok := by decide

/-- an instruction before any function, and an overlapping datum -/
example : faults Ctx.init [.instr true default, .staticGlobal "d", .addDatum 0 8, .addDatum 4 8]
    = [.noFunc, .overlap] := by decide

/-- a chain that starts at an unknown parameter -/
example : ((([Nav.base, Nav.index 3, Nav.field "y", Nav.deref]).foldl Comp.nav
    (tupleLookup [("x", .int 8 true)] "nope"))).resolveErr = some .unknownVar := by decide

/-- Concat: Compile fails, the two printers after it never run -/
example : concat [⟨false, true⟩, ⟨true, false⟩, ⟨true, false⟩] = ⟨false, 1, []⟩ := by decide
example : concat [⟨false, false⟩, ⟨true, false⟩, ⟨true, false⟩] = ⟨true, 3, [1, 2]⟩ := by decide

/-- Main on the faulty history: status 1, no pass executed, no printer, one diagnostic line -/
example : main 0 (stdPasses (fun _ => 15) (run Ctx.init exBad)) (run Ctx.init exBad) = ⟨1, 0, [], 1⟩ := by decide
/-- … and with an error limit of 2 on five errors: two lines and "too many errors" -/
example : logLines 2 5 = 3 := by decide
/-- Main on the valid history: status 0, all three passes, both printers -/
example : main 0 (stdPasses (fun _ => 15) (run Ctx.init exGood)) (run Ctx.init exGood) = ⟨0, 3, [1, 2], 0⟩ := by decide
/-- the acceptor rejects a panic, a written output next to a fault, and a dropped message -/
example : c18Accept 0 [] ⟨0, 0, 10, 10, 0, 1, none⟩ = false := by decide
example : c18Accept 1 [] ⟨1, 1, 10, 0, 1, 0, none⟩ = false := by decide
example : c18Accept 2 [] ⟨1, 1, 0, 0, 1, 0, none⟩ = false := by decide
example : c18Accept 2 [] ⟨2, 1, 0, 0, 2, 0, none⟩ = true := by decide
example : c18Accept 0 [.dupLabel] ⟨0, 1, 0, 0, 1, 0, some .dupLabel⟩ = true := by decide
example : c18Accept 0 [.dupLabel] ⟨0, 0, 9, 9, 0, 0, none⟩ = false := by decide

/-- compile-time faults of a concrete function: undefined label and a label at the end -/
example : fnPassFaults (fun _ => 15)
    { name := "f", nodes := [.instr ⟨1, [], [.lbl "x"]⟩, .instr ⟨2, [], [.lbl "e"]⟩, .label "e"] }
    = [.endLabel, .unknownLabel] := by decide

example : fnPassFaults (fun _ => 15) { name := "f", nodes := [.press 1 16] } = [.alloc] := by decide
example : fnPassFaults (fun _ => 15) { name := "f", nodes := [.press 1 15] } = [] := by decide

/-! ## What the property demands at the witnesses of the listed findings

The implementation's behaviour at these inputs (a panic, a silently accepted
request) is observed by the harness on every run; these theorems fix what the
property requires there, so that the disagreement is a violation and not a
modelling choice. -/

/-- `ParamIndex(-1)` is an invalid request that must surface as exactly one
"index out of range" error when the component is loaded (F3: the implementation panics). -/
theorem witness_paramIndex_negative :
    faults Ctx.init [.function "f", .signature (some ⟨[("x", .int 8 true)], []⟩), .paramIndex (-1),
      .load 0 1 false] = [.indexRange] := by decide

/-- `Param("x").Index(-1)` on `[2]float64` must be reported as out of bounds
when loaded (F3: the implementation reports nothing and emits the MOV). -/
theorem witness_index_negative :
    faults Ctx.init [.function "f", .signature (some ⟨[("x", .array 2 (.float 8))], []⟩), .param "x",
      .nav 0 (.index (-1)), .load 1 2 false] = [.arrayBounds] := by decide

/-- `RDTSC; CDQ; RET` is a valid history with no compile-time fault for any
register file, so the property demands status 0 and both outputs written (F4: `Main` panics). -/
theorem witness_implicit_only_valid (lim : Nat → Nat) :
    let ops := [Op.function "f", .instr true ⟨0, [1], []⟩, .instr true ⟨0, [1], []⟩, .instr true ⟨0, [], []⟩]
    faults Ctx.init ops = [] ∧ passFaults lim (run Ctx.init ops).fns = [] ∧
      (observe lim ops).status = 0 ∧ (observe lim ops).asm = 1 ∧ (observe lim ops).stubs = 1 := by
  refine ⟨by decide, ?_⟩
  have h : passFaults lim (run Ctx.init [Op.function "f", .instr true ⟨0, [1], []⟩, .instr true ⟨0, [1], []⟩,
      .instr true ⟨0, [], []⟩]).fns = [] := by
    simp [passFaults, fnPassFaults, run, step, Ctx.newFn, Ctx.addNode, Ctx.withFn, Ctx.init, Ctx.fns,
      Node.memFaults, pruneJumps, pruneDangling, isJumpTo, referenced, Node.target, Instr.target, labelScan]
  refine ⟨h, ?_⟩
  simp only [observe, main, stdPasses, h]
  decide

end Avo.Ctx
