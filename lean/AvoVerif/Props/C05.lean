/-
C05 — An accepted instruction assembles to exactly the operation and operands given.

PROVED here (avo side, for ALL values):
 * number formats read back: `%+d`, `%d`, `$%#0Nx`;
 * `parseOp (asm op) = some (canon op)` for every well-formed operand: the
   printed text determines the operand (registers by name, memory reference,
   constant value and signedness, relative offset, label);
 * `asmImm ctx (asm c) = value of c at the operation's width` under the
   decidable guard `ImmFits`, and the negation at the F6 witness;
 * `build` returns the instruction of the FIRST matching form with the operands
   in the given order (generic over the match predicate).
MEASURED (harness, every run): `asmImm`, the register names and the access
widths against `go tool asm` + decoders.
-/
import AvoVerif.Model.AsmText
import AvoVerif.Lemmas.NumText
namespace Avo.AsmText
open Avo.NumText

/-! ## Number formats -/

/-- `%+d` reads back, every integer. -/
theorem parseSigned_fmtPlusD (n : Int) : parseIntLit (intDecPlus n) = some n := parseIntLit_intDecPlus n

/-- `%d` reads back, every integer. -/
theorem parseSigned_fmtD (n : Int) : parseIntLit (intDec n) = some n := parseIntLit_intDec n

/-- `%#0Nx` reads back, every width and number. -/
theorem parseHex_fmtHex (w n : Nat) : parseIntLit (hexPad w n) = some (n : Int) := parseIntLit_hexPad w n

theorem digitsFuel_length_le (b : Nat) (hb : 2 ≤ b) :
    ∀ fuel n w, n < fuel → n < b ^ w → 1 ≤ w → (digitsFuel b fuel n).length ≤ w := by
  intro fuel
  induction fuel with
  | zero => intro n w h; omega
  | succ fuel ih =>
    intro n w hn hw h1
    unfold digitsFuel
    by_cases h : n < b
    · simp [h]; omega
    · simp only [h, if_false, List.length_append, List.length_singleton]
      have hw2 : 2 ≤ w := by
        rcases Nat.lt_or_ge w 2 with h2 | h2
        · have : w = 1 := by omega
          subst this
          simp at hw; omega
        · exact h2
      have hdiv : n / b < b ^ (w - 1) := by
        apply Nat.div_lt_of_lt_mul
        have : b ^ w = b * b ^ (w - 1) := by
          have : w = (w - 1) + 1 := by omega
          rw [this, Nat.pow_succ, Nat.mul_comm]; simp
        omega
      have hlt : n / b < fuel := by
        have : n / b < n := Nat.div_lt_self (by omega) (by omega)
        omega
      have := ih (n / b) (w - 1) hlt hdiv (by omega)
      omega

/-- a number below `16^w` prints as exactly `w` hexadecimal digits with `%#0wx` -/
theorem hexPad_digits_length (w n : Nat) (hw : 1 ≤ w) (hn : n < 16 ^ w) :
    (padZero w (digits 16 n)).length = w := by
  have h := digitsFuel_length_le 16 (by omega) (n + 1) n w (by omega) hn hw
  unfold padZero digits
  simp only [List.length_append, List.length_replicate]
  omega

/-! ## Characters of printed numbers -/

theorem digitChar_isDigit : ∀ d, d < 10 → isDigit (digitChar d) = true := by decide

theorem digitChar_notStructural : ∀ d, d < 16 → structural (digitChar d) = false ∧ digitChar d ≠ '(' ∧ digitChar d ≠ ')' ∧ digitChar d ≠ '*' := by decide

theorem mem_digits10 : ∀ fuel n c, c ∈ digitsFuel 10 fuel n → isDigit c = true := by
  intro fuel
  induction fuel with
  | zero => intro n c h; simp [digitsFuel] at h
  | succ fuel ih =>
    intro n c h
    unfold digitsFuel at h
    by_cases hn : n < 10
    · simp only [hn, if_true, List.mem_singleton] at h
      subst h; exact digitChar_isDigit n hn
    · simp only [hn, if_false, List.mem_append, List.mem_singleton] at h
      rcases h with h | h
      · exact ih _ _ h
      · subst h; exact digitChar_isDigit _ (Nat.mod_lt _ (by omega))

theorem isDigit_ne {c : Char} (h : isDigit c = true) :
    c ≠ '(' ∧ c ≠ ')' ∧ c ≠ '*' ∧ c ≠ '-' ∧ c ≠ '+' ∧ c ≠ '<' ∧ c ≠ '$' ∧ c ≠ '.' := by
  simp only [isDigit, Bool.and_eq_true, decide_eq_true_eq] at h
  have h1 : ('0' : Char).val.toNat = 48 := by decide
  have h2 : ('9' : Char).val.toNat = 57 := by decide
  have hlo : 48 ≤ c.val.toNat := by have := h.1; simp only [Char.le_def, UInt32.le_iff_toNat_le] at this; omega
  have hhi : c.val.toNat ≤ 57 := by have := h.2; simp only [Char.le_def, UInt32.le_iff_toNat_le] at this; omega
  refine ⟨?_, ?_, ?_, ?_, ?_, ?_, ?_, ?_⟩ <;> (intro hc; subst hc; revert hlo hhi; decide)

/-- the head of a printed decimal number is a digit -/
theorem digits10_head (n : Nat) : ∃ c cs, digits 10 n = c :: cs ∧ isDigit c = true := by
  have hne := digitsFuel_ne_nil 10 n n
  unfold digits
  cases hd : digitsFuel 10 (n + 1) n with
  | nil => exact absurd hd hne
  | cons c cs =>
    refine ⟨c, cs, rfl, ?_⟩
    exact mem_digits10 (n + 1) n c (by rw [hd]; exact List.mem_cons_self)

theorem digits10_all (n : Nat) : ∀ c ∈ digits 10 n, isDigit c = true :=
  fun c hc => mem_digits10 _ _ c hc

/-! ## takeWhile / dropWhile on `xs ++ stop :: rest` -/

theorem span_stop {p : Char → Bool} (xs : List Char) (y : Char) (ys : List Char)
    (hx : ∀ x ∈ xs, p x = true) (hy : p y = false) :
    (xs ++ y :: ys).takeWhile p = xs ∧ (xs ++ y :: ys).dropWhile p = y :: ys :=
  takeWhile_append_stop p xs y ys hx hy

/-! ## The operand round trip -/

theorem nameOK_noStructural {n : List Char} (h : nameOK n = true) : ∀ c ∈ n, structural c = false := by
  intro c hc
  unfold nameOK at h
  cases n with
  | nil => simp at hc
  | cons a as =>
    simp only [Bool.and_eq_true, Bool.not_eq_true', List.any_eq_false] at h
    have := h.2 c hc
    simpa using this

theorem nameOK_head {n : List Char} (h : nameOK n = true) :
    ∃ c cs, n = c :: cs ∧ isDigit c = false ∧ c ≠ '.' ∧ structural c = false := by
  cases n with
  | nil => simp [nameOK] at h
  | cons a as =>
    refine ⟨a, as, rfl, ?_, ?_, nameOK_noStructural h a List.mem_cons_self⟩
    · simp only [nameOK, Bool.and_eq_true, Bool.not_eq_true'] at h; exact h.1.1
    · simp only [nameOK, Bool.and_eq_true, Bool.not_eq_true', bne_iff_ne, ne_eq] at h; exact h.1.2

theorem structural_of_eq {c : Char} :
    (c = '+' ∨ c = '-' ∨ c = '<' ∨ c = '(' ∨ c = ')' ∨ c = '*' ∨ c = ',' ∨ c = ' ' ∨ c = '$' ∨ c = '>') → structural c = true := by
  intro h
  rcases h with h | h | h | h | h | h | h | h | h | h <;> subst h <;> decide

theorem not_structural {c : Char} (h : structural c = false) :
    c ≠ '+' ∧ c ≠ '-' ∧ c ≠ '<' ∧ c ≠ '(' ∧ c ≠ ')' ∧ c ≠ '*' ∧ c ≠ ',' ∧ c ≠ ' ' ∧ c ≠ '$' ∧ c ≠ '>' := by
  refine ⟨?_, ?_, ?_, ?_, ?_, ?_, ?_, ?_, ?_, ?_⟩ <;>
    (intro hc; have := structural_of_eq (c := c) (by simp [hc]); rw [h] at this; cases this)

/-- a text containing a structural character is not a register name -/
theorem not_name_of_structural {names : List (List Char)} (hn : ∀ n ∈ names, nameOK n = true)
    {t : List Char} {c : Char} (hc : c ∈ t) (hs : structural c = true) : names.contains t = false := by
  cases h : names.contains t with
  | false => rfl
  | true =>
    have hm : t ∈ names := by simpa using h
    have := nameOK_noStructural (hn t hm) c hc
    rw [hs] at this; cases this

theorem parseOp_reg {names : List (List Char)} (hn : ∀ n ∈ names, nameOK n = true)
    {n : List Char} (h : n ∈ names) : parseOp names n = some (.reg n) := by
  obtain ⟨c, cs, rfl, _, hdot, hs⟩ := nameOK_head (hn n h)
  have hd := (not_structural hs).2.2.2.2.2.2.2.2.1
  have hc : names.contains (c :: cs) = true := by simpa using h
  unfold parseOp
  split
  · rename_i heq; cases heq
  · rename_i heq; cases heq; exact absurd rfl hd
  · rename_i heq; cases heq; exact absurd rfl hdot
  · simp [h]

theorem parseOp_label {names : List (List Char)} {l : List Char} (hok : nameOK l = true) (hnot : l ∉ names) :
    parseOp names l = some (.label l) := by
  obtain ⟨c, cs, rfl, _, hdot, hs⟩ := nameOK_head hok
  have hd := (not_structural hs).2.2.2.2.2.2.2.2.1
  have hc : names.contains (c :: cs) = false := by
    cases h : names.contains (c :: cs) with
    | false => rfl
    | true => exact absurd (by simpa using h) hnot
  have hall := nameOK_noStructural hok
  have hpar : (c :: cs).contains '(' = false := by
    cases h : (c :: cs).contains '(' with
    | false => rfl
    | true =>
      have hm : '(' ∈ c :: cs := by simpa using h
      have := hall _ hm
      revert this; decide
  have hany : (c :: cs).any structural = false := by
    simp only [List.any_eq_false]
    intro x hx; simp [hall x hx]
  unfold parseOp
  split
  · rename_i heq; cases heq
  · rename_i heq; cases heq; exact absurd rfl hd
  · rename_i heq; cases heq; exact absurd rfl hdot
  · have hp1 : ¬ ('(' = c ∨ '(' ∈ cs) := by
      intro h
      have hm : '(' ∈ c :: cs := by
        rcases h with h | h
        · rw [← h]; exact List.mem_cons_self
        · exact List.mem_cons_of_mem _ h
      have := hall _ hm
      revert this; decide
    have hp2 : ¬ (structural c = true ∨ ∃ x, x ∈ cs ∧ structural x = true) := by
      intro h
      rcases h with h | ⟨x, hx, h⟩
      · rw [hs] at h; cases h
      · rw [hall x (List.mem_cons_of_mem _ hx)] at h; cases h
    simp [hnot, hp1, hp2]

theorem intDecPlus_cons (v : Int) : ∃ s ds, intDecPlus v = s :: ds ∧ (s = '+' ∨ s = '-') := by
  unfold intDecPlus
  by_cases h : v < 0
  · exact ⟨'-', digits 10 v.natAbs, by simp [h], Or.inr rfl⟩
  · exact ⟨'+', digits 10 v.natAbs, by simp [h], Or.inl rfl⟩

theorem parseOp_rel (names : List (List Char)) (v : Int) : parseOp names (asm (.rel v)) = some (.rel v) := by
  obtain ⟨s, ds, hs, hsign⟩ := intDecPlus_cons v
  have hp := parseSigned_fmtPlusD v
  simp only [asm, parseOp]
  rw [hs] at hp ⊢
  rcases hsign with rfl | rfl <;> simp [hp]

theorem parseImm_signed (v : Int) : parseImm (intDecPlus v) = some (.imm .i64 v) := by
  obtain ⟨s, ds, hs, hsign⟩ := intDecPlus_cons v
  have hp := parseSigned_fmtPlusD v
  rw [hs] at hp ⊢
  rcases hsign with rfl | rfl <;> simp [parseImm, hp]

theorem parseImm_unsigned (t : ImmTy) (ht : t.signed = false) (v : Int) (hr : InRange t v) :
    parseImm (hexPad t.hexWidth v.toNat) = some (.imm t v) := by
  have hv0 : 0 ≤ v := by unfold InRange at hr; simp [ht] at hr; exact hr.1
  have hvlt : v < 2 ^ t.bits := by unfold InRange at hr; simp [ht] at hr; exact hr.2
  have hcast : ((v.toNat : Nat) : Int) = v := Int.toNat_of_nonneg hv0
  have hw : 1 ≤ t.hexWidth := by cases t <;> decide
  have hpow : (16 : Nat) ^ t.hexWidth = 2 ^ t.bits := by cases t <;> decide
  have hn : v.toNat < 16 ^ t.hexWidth := by
    rw [hpow]
    have : ((v.toNat : Nat) : Int) < ((2 ^ t.bits : Nat) : Int) := by rw [hcast]; simpa using hvlt
    exact Int.ofNat_lt.mp this
  have hlen := hexPad_digits_length t.hexWidth v.toNat hw hn
  have hparse : parseNat 16 (padZero t.hexWidth (digits 16 v.toNat)) = some v.toNat := by
    rw [parseNat_padZero 16 (by omega) t.hexWidth (digits 16 v.toNat) (by unfold digits; exact digitsFuel_ne_nil 16 _ _)]
    exact parseNat_digits 16 (by omega) (by omega) _
  unfold hexPad parseImm
  simp only [hparse, Option.bind_some, hlen]
  cases t <;> simp_all [ImmTy.hexWidth, ImmTy.bits, ImmTy.signed]

theorem parseOp_imm (names : List (List Char)) (t : ImmTy) (v : Int) (hr : InRange t v) :
    parseOp names (asm (.imm t v)) = some (canon (.imm t v)) := by
  simp only [asm, immAsm, canon]
  by_cases hs : t.signed = true
  · simp [hs, parseOp, parseImm_signed]
  · have hs' : t.signed = false := by simpa using hs
    simp [hs', parseOp, parseImm_unsigned t hs' v hr]

/-! ### memory operands -/

theorem intDec_chars (v : Int) : ∀ c ∈ intDec v, c = '-' ∨ isDigit c = true := by
  intro c hc
  unfold intDec at hc
  by_cases h : v < 0
  · simp only [h, if_true, List.mem_cons] at hc
    rcases hc with rfl | hc
    · exact Or.inl rfl
    · exact Or.inr (digits10_all _ c hc)
  · simp only [h, if_false] at hc
    exact Or.inr (digits10_all _ c hc)

theorem intDecPlus_chars (v : Int) : ∀ c ∈ intDecPlus v, c = '-' ∨ c = '+' ∨ isDigit c = true := by
  intro c hc
  unfold intDecPlus at hc
  by_cases h : v < 0
  · simp only [h, if_true, List.mem_cons] at hc
    rcases hc with rfl | hc
    · exact Or.inl rfl
    · exact Or.inr (Or.inr (digits10_all _ c hc))
  · simp only [h, if_false, List.mem_cons] at hc
    rcases hc with rfl | hc
    · exact Or.inr (Or.inl rfl)
    · exact Or.inr (Or.inr (digits10_all _ c hc))

/-- the head of `%d` output is a digit or the minus sign -/
theorem intDec_cons (v : Int) : ∃ c cs, intDec v = c :: cs ∧ (isDigit c = true ∨ c = '-') := by
  unfold intDec
  by_cases h : v < 0
  · exact ⟨'-', digits 10 v.natAbs, by simp [h], Or.inr rfl⟩
  · obtain ⟨c, cs, hd, hc⟩ := digits10_head v.natAbs
    exact ⟨c, cs, by simp [h, hd], Or.inl hc⟩

/-- no `(` in the text printed before the base register -/
theorem memPrefix_noParen (m : Mem) (hsym : m.sym.all (fun c => !structural c) = true) :
    ∀ c ∈ memPrefix m, (c != '(') = true := by
  intro c hc
  have hsym' : ∀ x ∈ m.sym, structural x = false := by
    intro x hx
    have := List.all_eq_true.mp hsym x hx
    simpa using this
  unfold memPrefix at hc
  split at hc
  · simp only [List.mem_append] at hc
    rcases hc with hc | hc
    · unfold symString at hc
      split at hc
      · simp only [List.mem_append, List.mem_cons, List.mem_nil_iff, or_false] at hc
        rcases hc with hc | rfl | rfl
        · have := (not_structural (hsym' c hc)).2.2.2.1; simpa using this
        · decide
        · decide
      · have := (not_structural (hsym' c hc)).2.2.2.1; simpa using this
    · rcases intDecPlus_chars _ c hc with rfl | rfl | hd
      · decide
      · decide
      · have := (isDigit_ne hd).1; simpa using this
  · split at hc
    · rcases intDec_chars _ c hc with rfl | hd
      · decide
      · have := (isDigit_ne hd).1; simpa using this
    · simp at hc

theorem parsePrefix_memPrefix (m : Mem)
    (hsym : m.sym.all (fun c => !structural c) = true)
    (hhead : ∀ c rest, m.sym = c :: rest → isDigit c = false ∧ c ≠ '.')
    (hstat : m.sym = [] → m.static = false) :
    parsePrefix (memPrefix m) = some (m.sym, m.static, m.disp) := by
  have hsym' : ∀ x ∈ m.sym, structural x = false := by
    intro x hx
    have := List.all_eq_true.mp hsym x hx
    simpa using this
  cases hs : m.sym with
  | nil =>
    have hst := hstat hs
    by_cases hd : m.disp = 0
    · simp [memPrefix, symString, hs, hst, hd, parsePrefix]
    · obtain ⟨c, cs, hcons, hc⟩ := intDec_cons m.disp
      have hp := parseSigned_fmtD m.disp
      have hpre : memPrefix m = c :: cs := by simp [memPrefix, symString, hs, hst, hd, hcons]
      rw [hpre]
      rw [hcons] at hp
      unfold parsePrefix
      have hcond : (isDigit c || c == '-') = true := by
        rcases hc with hc | hc
        · simp [hc]
        · simp [hc]
      simp [hcond, hp, hst]
  | cons a as =>
    have ha_dig : isDigit a = false := (hhead a as hs).1
    have ha_ns := not_structural (hsym' a (by rw [hs]; exact List.mem_cons_self))
    obtain ⟨s, ds, hplus, hsign⟩ := intDecPlus_cons m.disp
    have hp := parseSigned_fmtPlusD m.disp
    rw [hplus] at hp
    have hstopSym : ∀ x ∈ a :: as, (!symStop x) = true := by
      intro x hx
      have hh := not_structural (hsym' x (by rw [hs]; exact hx))
      simp [symStop, hh.1, hh.2.1, hh.2.2.1, hh.2.2.2.1]
    have hs_stop : (!symStop s) = false := by rcases hsign with rfl | rfl <;> decide
    have hs_lt : s ≠ '<' := by rcases hsign with rfl | rfl <;> decide
    have hs_cond : (s == '+' || s == '-') = true := by rcases hsign with rfl | rfl <;> decide
    by_cases hst : m.static = true
    · have hpre : memPrefix m = (a :: as) ++ '<' :: '>' :: s :: ds := by
        simp [memPrefix, symString, hs, hst, hplus]
      rw [hpre]
      have hsp := span_stop (p := fun c => !symStop c) (a :: as) '<' ('>' :: s :: ds) hstopSym (by decide)
      unfold parsePrefix
      simp only [List.cons_append]
      have hcond : (isDigit a || a == '-') = false := by simp [ha_dig, ha_ns.2.1]
      simp only [hcond]
      have e1 : List.takeWhile (fun c => !symStop c) (a :: (as ++ '<' :: '>' :: s :: ds)) = a :: as := by
        simpa using hsp.1
      have e2 : List.dropWhile (fun c => !symStop c) (a :: (as ++ '<' :: '>' :: s :: ds)) = '<' :: '>' :: s :: ds := by
        simpa using hsp.2
      simp [e1, e2, hs_cond, hp, hst]
    · have hst' : m.static = false := by simpa using hst
      have hpre : memPrefix m = (a :: as) ++ s :: ds := by
        simp [memPrefix, symString, hs, hst', hplus]
      rw [hpre]
      have hsp := span_stop (p := fun c => !symStop c) (a :: as) s ds hstopSym hs_stop
      unfold parsePrefix
      simp only [List.cons_append]
      have hcond : (isDigit a || a == '-') = false := by simp [ha_dig, ha_ns.2.1]
      simp only [hcond]
      have e1 : List.takeWhile (fun c => !symStop c) (a :: (as ++ s :: ds)) = a :: as := by
        simpa using hsp.1
      have e2 : List.dropWhile (fun c => !symStop c) (a :: (as ++ s :: ds)) = s :: ds := by
        simpa using hsp.2
      rw [e1, e2]
      rcases hsign with rfl | rfl <;> simp [hp, hst']

theorem parseIndexInner_ok {names : List (List Char)} (hn : ∀ n ∈ names, nameOK n = true)
    {i : List Char} (hi : i ∈ names) (scale : Nat) :
    parseIndexInner names (i ++ '*' :: digits 10 scale) = some (i, scale) := by
  have hall := nameOK_noStructural (hn i hi)
  have hstar : ∀ x ∈ i, (x != '*') = true := by
    intro x hx
    have := (not_structural (hall x hx)).2.2.2.2.2.1
    simpa using this
  have hsp := span_stop (p := fun c => c != '*') i '*' (digits 10 scale) hstar (by decide)
  have hc : names.contains i = true := by simpa using hi
  unfold parseIndexInner
  simp [hsp.1, hsp.2, hi, parseNat_digits 10 (by omega) (by omega) scale]

theorem parseGroups_ok {names : List (List Char)} (hn : ∀ n ∈ names, nameOK n = true)
    {b : List Char} (hb : b ∈ names) (index : Option (List Char)) (hidx : ∀ i, index = some i → i ∈ names) (scale : Nat) :
    parseGroups names (basePart (some b) ++ indexPart index scale) =
      some (some b, if index.isNone || scale == 0 then (none, 0) else (index, scale)) := by
  have hallb := nameOK_noStructural (hn b hb)
  have hbclose : ∀ x ∈ b, (x != ')') = true := by
    intro x hx
    have := (not_structural (hallb x hx)).2.2.2.2.1
    simpa using this
  have hbstar : b.contains '*' = false := by
    cases h : b.contains '*' with
    | false => rfl
    | true =>
      have hm : '*' ∈ b := by simpa using h
      have := hallb _ hm
      revert this; decide
  have hbc : names.contains b = true := by simpa using hb
  -- the text after "(" is b ++ ")" :: I
  have hshape : basePart (some b) ++ indexPart index scale = '(' :: (b ++ ')' :: indexPart index scale) := by
    simp [basePart]
  rw [hshape]
  have hsp := span_stop (p := fun c => c != ')') b ')' (indexPart index scale) hbclose (by decide)
  unfold parseGroups
  simp only [hsp.1, hsp.2, hbstar, hbc]
  cases index with
  | none => simp [indexPart]
  | some i =>
    by_cases hs0 : scale = 0
    · simp [indexPart, hs0]
    · have hi := hidx i rfl
      have halli := nameOK_noStructural (hn i hi)
      have hinner : ∀ x ∈ i ++ '*' :: digits 10 scale, (x != ')') = true := by
        intro x hx
        simp only [List.mem_append, List.mem_cons] at hx
        rcases hx with hx | rfl | hx
        · have := (not_structural (halli x hx)).2.2.2.2.1; simpa using this
        · decide
        · have := (isDigit_ne (digits10_all _ x hx)).2.1; simpa using this
      have hsp2 := span_stop (p := fun c => c != ')') (i ++ '*' :: digits 10 scale) ')' [] hinner (by decide)
      have hI : indexPart (some i) scale = '(' :: ((i ++ '*' :: digits 10 scale) ++ [')']) := by
        simp [indexPart, hs0]
      rw [hI]
      simp only [hsp2.1, hsp2.2, parseIndexInner_ok hn hi scale]
      simp [hs0]

theorem parseMem_memAsm {names : List (List Char)} (hn : ∀ n ∈ names, nameOK n = true)
    (m : Mem) (hwf : MemWF names m) :
    parseMem names (memAsm m) = some
      (if m.index.isNone || m.scale == 0 then { m with index := none, scale := 0 } else m) := by
  obtain ⟨⟨b, hbase, hb⟩, hidx, hsym, hhead, hstat⟩ := hwf
  have hnp := memPrefix_noParen m hsym
  have hpp := parsePrefix_memPrefix m hsym hhead hstat
  have hgr := parseGroups_ok hn hb m.index hidx m.scale
  have hg : basePart (some b) ++ indexPart m.index m.scale = '(' :: (b ++ ')' :: indexPart m.index m.scale) := by
    simp [basePart]
  have htext : memAsm m = memPrefix m ++ '(' :: (b ++ ')' :: indexPart m.index m.scale) := by
    unfold memAsm; rw [List.append_assoc, hbase, hg]
  have hsp := span_stop (p := fun c => c != '(') (memPrefix m) '(' (b ++ ')' :: indexPart m.index m.scale) hnp (by decide)
  rw [hg] at hgr
  unfold parseMem
  rw [htext]
  simp only [hsp.1, hsp.2, hpp, hgr]
  obtain ⟨sym, static, disp, base, index, scale⟩ := m
  simp only at hbase
  subst hbase
  by_cases hc : (index.isNone || scale == 0) = true
  · simp [hc]
  · simp [hc]

theorem memAsm_shape {names : List (List Char)} (m : Mem) (hwf : MemWF names m) :
    ∃ c cs, memAsm m = c :: cs ∧ c ≠ '$' ∧ c ≠ '.' ∧ '(' ∈ memAsm m := by
  obtain ⟨⟨b, hbase, hb⟩, hidx, hsym, hhead, hstat⟩ := hwf
  have hsym' : ∀ x ∈ m.sym, structural x = false := by
    intro x hx
    have := List.all_eq_true.mp hsym x hx
    simpa using this
  have hmem : '(' ∈ memAsm m := by
    unfold memAsm; simp [hbase, basePart]
  have hg : basePart m.base = '(' :: (b ++ [')']) := by simp [hbase, basePart]
  cases hs : m.sym with
  | nil =>
    have hst := hstat hs
    by_cases hd : m.disp = 0
    · refine ⟨'(', b ++ [')'] ++ indexPart m.index m.scale, ?_, by decide, by decide, hmem⟩
      simp [memAsm, memPrefix, symString, hs, hst, hd, hg]
    · obtain ⟨c, cs, hcons, hc⟩ := intDec_cons m.disp
      refine ⟨c, cs ++ basePart m.base ++ indexPart m.index m.scale, ?_, ?_, ?_, hmem⟩
      · simp [memAsm, memPrefix, symString, hs, hst, hd, hcons]
      · rcases hc with hc | rfl
        · exact (isDigit_ne hc).2.2.2.2.2.2.1
        · decide
      · rcases hc with hc | rfl
        · exact (isDigit_ne hc).2.2.2.2.2.2.2
        · decide
  | cons a as =>
    have ha := hhead a as hs
    have hns := not_structural (hsym' a (by rw [hs]; exact List.mem_cons_self))
    refine ⟨a, as ++ (if m.static then ['<', '>'] else []) ++ intDecPlus m.disp ++ basePart m.base ++ indexPart m.index m.scale,
      ?_, hns.2.2.2.2.2.2.2.2.1, ha.2, hmem⟩
    by_cases hst : m.static = true <;> simp [memAsm, memPrefix, symString, hs, hst]

theorem parseOp_mem {names : List (List Char)} (hn : ∀ n ∈ names, nameOK n = true)
    (m : Mem) (hwf : MemWF names m) : parseOp names (asm (.mem m)) = some (canon (.mem m)) := by
  obtain ⟨c, cs, hcons, hd, hdot, hpar⟩ := memAsm_shape m hwf
  have hnot : names.contains (memAsm m) = false := not_name_of_structural hn hpar (by decide)
  have hpm := parseMem_memAsm hn m hwf
  have hcont : (memAsm m).contains '(' = true := by simpa using hpar
  simp only [asm, canon]
  unfold parseOp
  rw [hcons] at hnot hpm hcont ⊢
  split
  · rename_i heq; cases heq
  · rename_i heq; cases heq; exact absurd rfl hd
  · rename_i heq; cases heq; exact absurd rfl hdot
  · rw [hnot]
    simp only [Bool.false_eq_true, if_false, hcont, if_true, hpm, Option.map_some]
    by_cases hc : (m.index.isNone || m.scale == 0) = true
    · simp [hc]
    · simp [hc]

/-- **Rendering is invertible** (C05-(2)): for every register name table whose
names contain no syntax characters and every well-formed operand, the
independently written parser reads the printed text back as the operand — up to
`canon` (declared width of a signed constant; unprinted index/scale). -/
theorem parseOp_asm (names : List (List Char)) (hn : ∀ n ∈ names, nameOK n = true)
    (op : Op) (hwf : WF names op) : parseOp names (asm op) = some (canon op) := by
  cases op with
  | reg n => exact parseOp_reg hn hwf
  | mem m => exact parseOp_mem hn m hwf
  | imm t v => exact parseOp_imm names t v hwf
  | rel v => exact parseOp_rel names v
  | label l => exact parseOp_label hwf.1 hwf.2

/-- `canon` keeps the value of a constant. -/
theorem canon_value (op : Op) : immValue (canon op) = immValue op := by
  cases op with
  | imm t v => by_cases h : t.signed = true <;> simp [canon, immValue, h]
  | mem m => by_cases h : (m.index.isNone || m.scale == 0) = true <;> simp [canon, immValue, h]
  | _ => rfl

/-- `canon` keeps signedness: an unsigned constant keeps its exact type. -/
theorem canon_unsigned (t : ImmTy) (v : Int) (h : t.signed = false) : canon (.imm t v) = .imm t v := by
  simp [canon, h]

/-- What `canon` forgets of a memory reference contributes nothing to the
address: afterwards an index register is present iff the scale is non-zero. -/
theorem canon_mem_address (m : Mem) :
    ∃ m', canon (.mem m) = .mem m' ∧ m'.sym = m.sym ∧ m'.static = m.static ∧ m'.disp = m.disp ∧ m'.base = m.base ∧
      ((m.index.isSome ∧ m.scale ≠ 0) → m'.index = m.index ∧ m'.scale = m.scale) ∧
      (¬ (m.index.isSome ∧ m.scale ≠ 0) → m'.index = none ∧ m'.scale = 0) := by
  by_cases h : (m.index.isNone || m.scale == 0) = true
  · refine ⟨{ m with index := none, scale := 0 }, by simp [canon, h], rfl, rfl, rfl, rfl, ?_, ?_⟩
    · intro ⟨h1, h2⟩
      simp only [Bool.or_eq_true, beq_iff_eq] at h
      rcases h with h | h
      · cases hm : m.index <;> simp_all
      · exact absurd h h2
    · intro _; exact ⟨rfl, rfl⟩
  · refine ⟨m, by simp [canon, h], rfl, rfl, rfl, rfl, ?_, ?_⟩
    · intro _; exact ⟨rfl, rfl⟩
    · intro hn
      simp only [Bool.or_eq_true, beq_iff_eq, not_or] at h
      exfalso; apply hn
      refine ⟨?_, h.2⟩
      cases hm : m.index <;> simp_all

/-! ## Immediates in context -/

theorem readImm_asm (t : ImmTy) (v : Int) (hr : InRange t v) : readImm (immAsm t v) = some v := by
  unfold immAsm readImm
  by_cases hs : t.signed = true
  · simp [hs, parseSigned_fmtPlusD]
  · have hs' : t.signed = false := by simpa using hs
    have hv0 : 0 ≤ v := by unfold InRange at hr; simp [hs'] at hr; exact hr.1
    simp [hs', parseHex_fmtHex, Int.toNat_of_nonneg hv0]

theorem signExtend32_eq (v : Int) (h1 : -(2 ^ 31 : Int) ≤ v) (h2 : v < 2 ^ 31) :
    signExtend32 v = (v % 2 ^ 64).toNat := by
  unfold signExtend32
  by_cases hv : 0 ≤ v
  · have e1 : v % 2 ^ 32 = v := Int.emod_eq_of_lt hv (by omega)
    have e2 : v % 2 ^ 64 = v := Int.emod_eq_of_lt hv (by omega)
    simp only [e1, e2]
    have : v.toNat < 2 ^ 31 := by omega
    simp [this]
  · have e1 : v % 2 ^ 32 = v + 2 ^ 32 := by omega
    have e2 : v % 2 ^ 64 = v + 2 ^ 64 := by omega
    simp only [e1, e2]
    have : ¬ (v + 2 ^ 32).toNat < 2 ^ 31 := by omega
    simp only [this, if_false]
    omega

/-- **C05-(3), `_partial`**: under the guard `ImmFits` the machine instruction
uses exactly the constant supplied (at the operation's width), for every
constant type, value and context.  Missing for the full statement: the guard
itself is NOT established by the constructors (F6) — see `asmImm_fails_at_F6`. -/
theorem asmImm_value_partial (ctx : ImmCtx) (t : ImmTy) (v : Int) (hr : InRange t v) (hf : ImmFits ctx v) :
    asmImm ctx (asm (.imm t v)) = some (immWanted ctx v) := by
  simp only [asm, asmImm, readImm_asm t v hr, Option.map_some]
  cases ctx with
  | op w => rfl
  | raw w => rfl
  | mov64 => rfl
  | sx64 =>
    have := hf rfl
    simp only [immWanted, ImmCtx.width]
    rw [signExtend32_eq v this.1 this.2]

/-- `immWanted` is the faithful `width`-bit encoding of a representable constant:
the number itself when non-negative, its two's complement when negative. -/
theorem immWanted_faithful (ctx : ImmCtx) (v : Int) (hw : 1 ≤ ctx.width) (h : ImmRepresentable ctx v) :
    (0 ≤ v → (immWanted ctx v : Int) = v) ∧ (v < 0 → (immWanted ctx v : Int) = v + 2 ^ ctx.width) := by
  obtain ⟨h1, h2⟩ := h
  have e : ctx.width = (ctx.width - 1) + 1 := by omega
  have hp : (2 : Int) ^ ctx.width = 2 ^ (ctx.width - 1) * 2 := by
    conv => lhs; rw [e]
    exact Int.pow_succ _ _
  have hpos' : (0 : Int) < 2 ^ (ctx.width - 1) := Int.pow_pos (by decide)
  unfold immWanted
  generalize hA : (2 : Int) ^ ctx.width = A at *
  generalize hB : (2 : Int) ^ (ctx.width - 1) = B at *
  have hApos : 0 < A := by omega
  constructor
  · intro h0
    rw [Int.toNat_of_nonneg (Int.emod_nonneg _ (by omega)), Int.emod_eq_of_lt h0 h2]
  · intro hneg
    rw [Int.toNat_of_nonneg (Int.emod_nonneg _ (by omega))]
    have : (v + A) % A = v % A := Int.add_emod_right _ _
    rw [← this]
    exact Int.emod_eq_of_lt (by omega) (by omega)

/-- what the assembler + CPU make of a constant depends on its text only through the integer read from it:
any spelling of the same integer is used like the model's rendering -/
theorem asmImm_spelling (ctx : ImmCtx) (t : ImmTy) (v : Int) (hr : InRange t v) (text : List Char)
    (h : readImm text = some v) : asmImm ctx text = asmImm ctx (asm (.imm t v)) := by
  simp only [asm, asmImm, readImm_asm t v hr, h]

/-- **C05-(3), value preservation**: for a constant that is a number of the operation's width
(`ImmRepresentable`) and satisfies the guard `ImmFits`, what the assembler + CPU use IS the constant given:
the number itself when non-negative, its two's complement at the operation's width when negative.
(`asmImm_value_partial` alone also holds where the value is NOT kept — see `asmImm_truncates`.) -/
theorem asmImm_preserves (ctx : ImmCtx) (t : ImmTy) (v : Int) (hr : InRange t v) (hf : ImmFits ctx v)
    (hw : 1 ≤ ctx.width) (hrep : ImmRepresentable ctx v) :
    ∃ n, asmImm ctx (asm (.imm t v)) = some n ∧ (0 ≤ v → (n : Int) = v) ∧ (v < 0 → (n : Int) = v + 2 ^ ctx.width) :=
  ⟨immWanted ctx v, asmImm_value_partial ctx t v hr hf, immWanted_faithful ctx v hw hrep⟩

example : ∃ n, asmImm .sx64 (asm (.imm .i32 (-2))) = some n ∧ (n : Int) = -2 + 2 ^ 64 :=
  let ⟨n, h1, _, h3⟩ := asmImm_preserves .sx64 .i32 (-2) (by decide) (by decide) (by decide) (by decide)
  ⟨n, h1, h3 (by decide)⟩

/-- without `ImmRepresentable` the low bits are kept and the value is lost: a 32-bit constant as the operand of
an 8-bit operation (no imm8 form admits it: the constructors reject it — checked by the near-miss stream) -/
theorem asmImm_truncates : asmImm (.op 8) (asm (.imm .u32 0x1ff)) = some 255 ∧ ¬ ImmRepresentable (.op 8) 0x1ff := by
  refine ⟨by decide, by decide⟩

/-- The guard is what separates right from wrong: in a sign-extending context a
constant outside the signed 32-bit range is read as a DIFFERENT value. -/
theorem asmImm_differs_without_guard (t : ImmTy) (v : Int) (hr : InRange t v)
    (h1 : (2 ^ 31 : Int) ≤ v) (h2 : v < 2 ^ 32) :
    asmImm .sx64 (asm (.imm t v)) ≠ some (immWanted .sx64 v) := by
  simp only [asm, asmImm, readImm_asm t v hr, Option.map_some, immWanted, ImmCtx.width, signExtend32]
  have e1 : v % 2 ^ 32 = v := Int.emod_eq_of_lt (by omega) (by omega)
  have e2 : v % 2 ^ 64 = v := Int.emod_eq_of_lt (by omega) (by omega)
  simp only [e1, e2]
  have : ¬ v.toNat < 2 ^ 31 := by omega
  simp only [this, if_false]
  intro h
  have := Option.some.inj h
  omega

/-- F6 witness: `ANDQ(Imm(0xffffffff), r64)` — U32 0xffffffff in a 64-bit
operation is used as 0xffffffffffffffff. -/
theorem asmImm_fails_at_F6 :
    ¬ ImmFits .sx64 0xffffffff ∧
    asmImm .sx64 (asm (.imm .u32 0xffffffff)) = some 0xffffffffffffffff ∧
    immWanted .sx64 0xffffffff = 0xffffffff := by
  refine ⟨by decide, by decide, by decide⟩

/-! ## First matching form (generic over the match predicate) -/

section Build
variable {Form Operand Instr : Type}

/-- `x86.build`: scan the forms in order, build from the first that matches. -/
def buildWith (matches_ : Form → List Operand → Bool) (mk : Form → List Operand → Instr) :
    List Form → List Operand → Option Instr
  | [], _ => none
  | f :: fs, ops => if matches_ f ops then some (mk f ops) else buildWith matches_ mk fs ops

/-- **C05-(1)**: `build` succeeds iff some form matches, and the instruction is
built from the FIRST matching form with the operands as given. -/
theorem build_first_match (matches_ : Form → List Operand → Bool) (mk : Form → List Operand → Instr)
    (forms : List Form) (ops : List Operand) :
    (buildWith matches_ mk forms ops = none ↔ ∀ f ∈ forms, matches_ f ops = false) ∧
    (∀ i, buildWith matches_ mk forms ops = some i →
      ∃ pre f post, forms = pre ++ f :: post ∧ (∀ g ∈ pre, matches_ g ops = false) ∧
        matches_ f ops = true ∧ i = mk f ops) := by
  induction forms with
  | nil => simp [buildWith]
  | cons f fs ih =>
    by_cases h : matches_ f ops = true
    · constructor
      · simp [buildWith, h]
      · intro i hi
        simp only [buildWith, h, if_true, Option.some.injEq] at hi
        exact ⟨[], f, fs, rfl, by simp, h, hi.symm⟩
    · have h' : matches_ f ops = false := by simpa using h
      constructor
      · simp [buildWith, h', ih.1]
      · intro i hi
        simp only [buildWith, h', Bool.false_eq_true, if_false] at hi
        obtain ⟨pre, g, post, e, hpre, hg, hi'⟩ := ih.2 i hi
        refine ⟨f :: pre, g, post, by simp [e], ?_, hg, hi'⟩
        intro x hx
        simp only [List.mem_cons] at hx
        rcases hx with rfl | hx
        · exact h'
        · exact hpre x hx

/-- operands are kept in the given order whenever the instruction constructor keeps them -/
theorem build_operands_kept (matches_ : Form → List Operand → Bool) (mk : Form → List Operand → Instr)
    (operands : Instr → List Operand) (hmk : ∀ f ops, operands (mk f ops) = ops)
    (forms : List Form) (ops : List Operand) (i : Instr)
    (h : buildWith matches_ mk forms ops = some i) : operands i = ops := by
  obtain ⟨_, f, _, _, _, _, rfl⟩ := (build_first_match matches_ mk forms ops).2 i h
  exact hmk f ops
end Build

/-! ## The operand list of an instruction line -/

theorem splitOps_append (t : List Char) (ht : ∀ c ∈ t, c ≠ ',') (rest cur : List Char) :
    splitOps (t ++ rest) cur = splitOps rest (t.reverse ++ cur) := by
  induction t generalizing cur with
  | nil => simp
  | cons c t ih =>
    have hc : c ≠ ',' := ht c List.mem_cons_self
    have ht' : ∀ x ∈ t, x ≠ ',' := fun x hx => ht x (List.mem_cons_of_mem _ hx)
    have step : splitOps (c :: (t ++ rest)) cur = splitOps (t ++ rest) (c :: cur) := by
      rw [splitOps]
      · intro rest' h1; exact absurd h1 hc
    rw [List.cons_append, step, ih ht']
    simp

/-- `strings.Join(texts, ", ")` splits back into the texts, when no text contains a comma. -/
theorem splitOps_joinOps (ts : List (List Char)) (hne : ts ≠ []) (h : ∀ t ∈ ts, ∀ c ∈ t, c ≠ ',') :
    splitOps (joinOps ts) [] = ts := by
  induction ts with
  | nil => exact absurd rfl hne
  | cons x xs ih =>
    have hx : ∀ c ∈ x, c ≠ ',' := h x List.mem_cons_self
    cases xs with
    | nil =>
      have := splitOps_append x hx [] []
      simp only [List.append_nil] at this
      simp [joinOps, this, splitOps]
    | cons y ys =>
      have ih' := ih (by simp) (fun t ht => h t (List.mem_cons_of_mem _ ht))
      have := splitOps_append x hx (',' :: ' ' :: joinOps (y :: ys)) []
      simp only [joinOps, this, List.append_nil]
      rw [splitOps]
      simp [ih']


theorem intDecPlus_noComma (v : Int) : ∀ c ∈ intDecPlus v, c ≠ ',' := by
  intro c hc
  rcases intDecPlus_chars v c hc with rfl | rfl | hd
  · decide
  · decide
  · intro h; subst h; revert hd; decide

theorem intDec_noComma (v : Int) : ∀ c ∈ intDec v, c ≠ ',' := by
  intro c hc
  rcases intDec_chars v c hc with rfl | hd
  · decide
  · intro h; subst h; revert hd; decide

theorem hexPad_noComma (w n : Nat) : ∀ c ∈ hexPad w n, c ≠ ',' := by
  intro c hc
  unfold hexPad padZero at hc
  simp only [List.mem_cons, List.mem_append, List.mem_replicate] at hc
  rcases hc with rfl | rfl | ⟨_, rfl⟩ | hc
  · decide
  · decide
  · decide
  · obtain ⟨d, hd, rfl⟩ := mem_digitsFuel 16 (by omega) (by omega) _ _ _ hc
    have := (digitChar_notStructural d hd).1
    intro h; rw [h] at this; revert this; decide

theorem name_noComma {n : List Char} (h : nameOK n = true) : ∀ c ∈ n, c ≠ ',' :=
  fun c hc => (not_structural (nameOK_noStructural h c hc)).2.2.2.2.2.2.1

/-- no operand text contains a comma -/
theorem asm_noComma {names : List (List Char)} (hn : ∀ n ∈ names, nameOK n = true) (op : Op) (hwf : WF names op) :
    ∀ c ∈ asm op, c ≠ ',' := by
  intro c hc
  cases op with
  | reg n => exact name_noComma (hn n hwf) c hc
  | label l => exact name_noComma hwf.1 c hc
  | rel v =>
    simp only [asm, List.mem_cons] at hc
    rcases hc with rfl | hc
    · decide
    · exact intDecPlus_noComma v c hc
  | imm t v =>
    simp only [asm, immAsm] at hc
    split at hc
    · simp only [List.mem_cons] at hc
      rcases hc with rfl | hc
      · decide
      · exact intDecPlus_noComma v c hc
    · simp only [List.mem_cons] at hc
      rcases hc with rfl | hc
      · decide
      · exact hexPad_noComma _ _ c (by simpa [hexPad] using hc)
  | mem m =>
    obtain ⟨⟨b, hbase, hb⟩, hidx, hsym, _, _⟩ := hwf
    have hsym' : ∀ x ∈ m.sym, x ≠ ',' := by
      intro x hx
      have := List.all_eq_true.mp hsym x hx
      exact (not_structural (by simpa using this)).2.2.2.2.2.2.1
    simp only [asm, memAsm, List.mem_append] at hc
    rcases hc with (hc | hc) | hc
    · unfold memPrefix at hc
      split at hc
      · simp only [List.mem_append] at hc
        rcases hc with hc | hc
        · unfold symString at hc
          split at hc
          · simp only [List.mem_append, List.mem_cons, List.mem_nil_iff, or_false] at hc
            rcases hc with hc | rfl | rfl
            · exact hsym' c hc
            · decide
            · decide
          · exact hsym' c hc
        · exact intDecPlus_noComma _ c hc
      · split at hc
        · exact intDec_noComma _ c hc
        · simp at hc
    · rw [hbase] at hc
      simp only [basePart, List.mem_cons, List.mem_append, List.mem_nil_iff, or_false] at hc
      rcases hc with (rfl | hc) | rfl
      · decide
      · exact name_noComma (hn b hb) c hc
      · decide
    · unfold indexPart at hc
      split at hc
      · rename_i i hi
        split at hc
        · simp only [List.mem_cons, List.mem_append, List.mem_nil_iff, or_false] at hc
          rcases hc with ((rfl | hc) | rfl | hc) | rfl
          · decide
          · exact name_noComma (hn i (hidx i hi)) c hc
          · decide
          · intro h; subst h; have := digits10_all _ _ hc; revert this; decide
          · decide
        · simp at hc
      · simp at hc

/-- **The operand list of a printed instruction line reads back as the operands
given, in order** (printer/goasm.go `joinOperands` + the operand round trip). -/
theorem line_roundtrip (names : List (List Char)) (hn : ∀ n ∈ names, nameOK n = true)
    (ops : List Op) (hne : ops ≠ []) (hwf : ∀ op ∈ ops, WF names op) :
    (splitOps (joinOps (ops.map asm)) []).map (parseOp names) = ops.map (fun op => some (canon op)) := by
  have hsplit := splitOps_joinOps (ops.map asm) (by simpa using hne) (by
    intro t ht
    obtain ⟨op, hop, rfl⟩ := List.mem_map.mp ht
    exact asm_noComma hn op (hwf op hop))
  rw [hsplit, List.map_map]
  apply List.map_congr_left
  intro op hop
  exact parseOp_asm names hn op (hwf op hop)

example : splitOps (joinOps ["$0x01".toList, "(AX)(BX*2)".toList, "X1".toList]) [] = ["$0x01".toList, "(AX)(BX*2)".toList, "X1".toList] := by decide


/-! ## Non-vacuity and samples -/

def sampleNames : List (List Char) := ["AX".toList, "R12".toList, "R13".toList, "X17".toList, "SB".toList, "FP".toList]
def sampleMem : Mem := ⟨"tbl".toList, true, -8, some "R12".toList, some "R13".toList, 8⟩

example : ∀ n ∈ sampleNames, nameOK n = true := by decide
example : WF sampleNames (.mem sampleMem) := by
  refine ⟨⟨"R12".toList, rfl, by decide⟩, ?_, by decide, ?_, by decide⟩
  · intro i hi; cases hi; decide
  · intro c rest h; cases h; decide
example : asm (.mem sampleMem) = "tbl<>-8(R12)(R13*8)".toList := by decide
example : parseOp sampleNames "tbl<>-8(R12)(R13*8)".toList = some (.mem sampleMem) := by decide
example : asm (.mem ⟨[], false, 0, some "AX".toList, none, 0⟩) = "(AX)".toList := by decide
example : asm (.mem ⟨"x".toList, false, 0, some "FP".toList, none, 0⟩) = "x+0(FP)".toList := by decide
example : asm (.imm .u8 0) = "$0x00".toList := by decide
example : asm (.imm .u32 0xffffffff) = "$0xffffffff".toList := by decide
example : asm (.imm .i8 (-128)) = "$-128".toList := by decide
example : asm (.rel (-2)) = ".-2".toList := by decide
example : InRange .u32 0xffffffff ∧ ¬ InRange .i32 0xffffffff := by decide
example : ImmFits (.op 32) 0xffffffff ∧ ImmFits .sx64 (-1) ∧ ImmFits .sx64 0x7fffffff := by decide
example : asmImm .sx64 "$-1".toList = some 0xffffffffffffffff := by decide
example : asmImm (.op 8) "$-1".toList = some 0xff := by decide
example : joinOps ["$0x01".toList, "AX".toList] = "$0x01, AX".toList := by decide
example : splitOps "$0x01, (AX)(BX*2), X1".toList [] = ["$0x01".toList, "(AX)(BX*2)".toList, "X1".toList] := by decide
example : buildWith (fun (f : Nat) (ops : List Nat) => f == ops.length) (fun f ops => (f, ops)) [3, 2, 2] [7, 8] = some (2, [7, 8]) := by decide

end Avo.AsmText
