import AvoVerif.Model.LayoutCtx
import AvoVerif.Props.C07
/-!
C07 at the level of `build.Context` histories: for EVERY sequence of builder
calls on one Context (any number of functions, any signatures, any interleaving
of allocations, loads, stores, dereferences, other instructions and labels)

* `hist_dom`     every memory operand based on a virtual register is preceded, in
                 the body of the SAME function, by the `MOVQ <pointer address>, v`
                 that loads it, with no label and no write to `v` in between;
* `hist_addr`    every memory operand of every function is an address of THAT
                 function's signature (symbol, displacement, FP or not), hence —
                 with `resolve_in_asmdecl` — the compiler's;
* `hist_pointee` an operand based on a virtual register is at the pointee's own
                 offsets of a pointer component of that function's signature, and
                 the body contains the load of exactly that pointer's address
                 into that register;
* `hist_fresh`   the register `Dereference` writes is new: no instruction emitted
                 before, in any function of the Context, mentions it;
* `domOKb_sound` the executable acceptor run on the implementation's own
                 instruction lists implies the declarative statement `DomOK`.
-/
namespace Avo.LayoutCtx
open Avo.Layout

/-! ## The statement about one function body, and the acceptor's soundness -/

/-- Every memory operand based on a virtual register `v` is dominated, in this
body, by a pointer load into `v`; between the load and the use (the use
included) nothing names `v` as a register operand and there is no label. -/
def DomOK (body : List Instr) : Prop :=
  ∀ pre ins post m v, body = pre ++ ins :: post → Arg.mem m ∈ ins.args → m.base = .virt v →
    ∃ a p mid, pre = a ++ ptrLoad p v :: mid ∧ ∀ x ∈ mid ++ [ins], x.clean v = true

def LInv (L : List Nat) (pre : List Instr) : Prop :=
  ∀ v ∈ L, ∃ a p mid, pre = a ++ ptrLoad p v :: mid ∧ ∀ x ∈ mid, x.clean v = true

theorem ptrLoadTarget_some (ins : Instr) (v : Nat) (h : ptrLoadTarget ins = some v) :
    ∃ p, ins = ptrLoad p v := by
  obtain ⟨op, args⟩ := ins
  unfold ptrLoadTarget at h
  split at h
  · rename_i hop
    split at h
    · rename_i m w heq
      simp at h; subst h
      simp at hop heq
      exact ⟨m, by simp [ptrLoad, hop, heq]⟩
    · simp at h
  · simp at h

theorem LInv_step (L : List Nat) (pre : List Instr) (x : Instr) (h : LInv L pre) :
    LInv (stepLoaded L x) (pre ++ [x]) := by
  intro v hv
  unfold stepLoaded at hv
  split at hv
  · simp at hv
  · rename_i hlab
    have keep : v ∈ L.filter (fun w => !x.hasReg w) →
        ∃ a p mid, pre ++ [x] = a ++ ptrLoad p v :: mid ∧ ∀ y ∈ mid, y.clean v = true := by
      intro hf
      simp only [List.mem_filter] at hf
      obtain ⟨a, p, mid, hp, hc⟩ := h v hf.1
      refine ⟨a, p, mid ++ [x], by simp [hp], ?_⟩
      intro y hy
      simp only [List.mem_append, List.mem_singleton] at hy
      rcases hy with hy | rfl
      · exact hc y hy
      · simp [Instr.clean, hlab]; simpa using hf.2
    split at hv
    · rename_i w hw
      simp only [List.mem_cons] at hv
      rcases hv with rfl | hv
      · obtain ⟨p, rfl⟩ := ptrLoadTarget_some x v hw
        exact ⟨pre, p, [], by simp, by simp⟩
      · exact keep hv
    · exact keep hv

theorem usesOK_arg (L : List Nat) (ins : Instr) (m : Mem) (v : Nat) (h : usesOK L ins = true)
    (hm : Arg.mem m ∈ ins.args) (hb : m.base = .virt v) : v ∈ L ∧ ins.clean v = true := by
  simp only [usesOK, List.all_eq_true] at h
  have := h _ hm
  obtain ⟨s, d, b⟩ := m
  simp at hb; subst hb
  simpa [argOK] using this

theorem sound_aux (rest : List Instr) : ∀ (pre : List Instr) (L : List Nat), LInv L pre → domOKb L rest = true →
    ∀ pre' ins post m v, rest = pre' ++ ins :: post → Arg.mem m ∈ ins.args → m.base = .virt v →
      ∃ a p mid, pre ++ pre' = a ++ ptrLoad p v :: mid ∧ ∀ x ∈ mid ++ [ins], x.clean v = true := by
  induction rest with
  | nil => intro pre L _ _ pre' ins post m v h; simp at h
  | cons x rest ih =>
    intro pre L hL hd pre' ins post m v hsplit hm hb
    simp only [domOKb, Bool.and_eq_true] at hd
    cases pre' with
    | nil =>
      simp at hsplit
      obtain ⟨rfl, rfl⟩ := hsplit
      obtain ⟨hv, hc⟩ := usesOK_arg L x m v hd.1 hm hb
      obtain ⟨a, p, mid, hp, hcl⟩ := hL v hv
      refine ⟨a, p, mid, by simp [hp], ?_⟩
      intro y hy
      simp only [List.mem_append, List.mem_singleton] at hy
      rcases hy with hy | rfl
      · exact hcl y hy
      · exact hc
    | cons y pre'' =>
      simp at hsplit
      obtain ⟨rfl, hrest⟩ := hsplit
      obtain ⟨a, p, mid, hp, hcl⟩ := ih (pre ++ [x]) (stepLoaded L x) (LInv_step L pre x hL) hd.2
        pre'' ins post m v hrest hm hb
      exact ⟨a, p, mid, by simpa using hp, hcl⟩

/-- **Soundness of the acceptor**: a body the forward scan accepts satisfies `DomOK`. -/
theorem domOKb_sound (body : List Instr) (h : domOKb [] body = true) : DomOK body := by
  intro pre ins post m v hsplit hm hb
  have := sound_aux body [] [] (by intro v hv; simp at hv) h pre ins post m v hsplit hm hb
  simpa using this

/-! ## Lemmas about the scan -/

theorem loadedAfter_append (L : List Nat) (body : List Instr) (ins : Instr) :
    loadedAfter L (body ++ [ins]) = stepLoaded (loadedAfter L body) ins := by
  simp [loadedAfter, List.foldl_append]

theorem domOKb_append (body : List Instr) : ∀ (L : List Nat) (ins : Instr),
    domOKb L (body ++ [ins]) = (domOKb L body && usesOK (loadedAfter L body) ins) := by
  induction body with
  | nil => intro L ins; simp [domOKb, loadedAfter]
  | cons x body ih =>
    intro L ins
    simp only [List.cons_append, domOKb, ih, loadedAfter, List.foldl_cons, Bool.and_assoc]

theorem mem_stepLoaded_of_clean (L : List Nat) (ins : Instr) (v : Nat) (hv : v ∈ L)
    (hc : ins.clean v = true) : v ∈ stepLoaded L ins := by
  simp only [Instr.clean, Bool.and_eq_true, Bool.not_eq_true', bne_iff_ne, ne_eq] at hc
  unfold stepLoaded
  rw [if_neg hc.2]
  have : v ∈ L.filter (fun w => !ins.hasReg w) := by simp [List.mem_filter, hv, hc.1]
  split
  · exact List.mem_cons_of_mem _ this
  · exact this

theorem ptrLoad_target (p : Mem) (v : Nat) : ptrLoadTarget (ptrLoad p v) = some v := by
  simp [ptrLoadTarget, ptrLoad]

theorem mem_stepLoaded_ptrLoad (L : List Nat) (p : Mem) (v : Nat) : v ∈ stepLoaded L (ptrLoad p v) := by
  unfold stepLoaded
  rw [if_neg (by simp [ptrLoad, movqOp, labelOp]), ptrLoad_target]
  simp

/-! ## Lemmas about the builder model -/

theorem lookupH_mem (hs : List (Nat × CComp)) (h : Nat) (cc : CComp) (hl : lookupH hs h = some cc) :
    (h, cc) ∈ hs := by
  induction hs with
  | nil => simp [lookupH] at hl
  | cons x r ih =>
    obtain ⟨k, c⟩ := x
    simp only [lookupH] at hl
    split at hl
    · rename_i hk; simp at hl; subst hk; subst hl; simp
    · exact List.mem_cons_of_mem _ (ih hl)

theorem lookupA_mem (as : List (Nat × RegCls)) (h : Nat) (c : RegCls) (hl : lookupA as h = some c) :
    (h, c) ∈ as := by
  induction as with
  | nil => simp [lookupA] at hl
  | cons x r ih =>
    obtain ⟨k, c'⟩ := x
    simp only [lookupA] at hl
    split at hl
    · rename_i hk; simp at hl; subst hk; subst hl; simp
    · exact List.mem_cons_of_mem _ (ih hl)

theorem evalRef_vbase (s : Sig) (hs : List (Nat × CComp)) (ref : CRef) (cc : CComp) (v : Nat)
    (h : evalRef s hs ref = .ok cc) (hv : cc.vbase = some v) :
    ∃ k cc0, (k, cc0) ∈ hs ∧ cc0.vbase = some v := by
  cases ref with
  | root isRet sel path =>
    simp only [evalRef] at h
    split at h
    · simp at h
    · split at h
      · simp at h
      · simp at h; subst h; simp at hv
  | handle k path =>
    simp only [evalRef] at h
    split at h
    · simp at h
    · rename_i cc0 hl
      split at h
      · simp at h
      · simp at h; subst h
        simp only at hv
        split at hv
        · simp at hv
        · exact ⟨k, cc0, lookupH_mem hs k cc0 hl, hv⟩

theorem memOf_virt (vb : Option Nat) (a : Addr) (v : Nat) (h : (memOf vb a).base = .virt v) : vb = some v := by
  unfold memOf at h
  simp only at h
  split at h
  · simp at h
  · split at h
    · simp at h; simp [h]
    · simp at h

theorem regOf_virt (as : List (Nat × RegCls)) (r : RegRef) (a : Nat) (cls : RegCls)
    (h : regOf as r = some (.virt a, cls)) : (a, cls) ∈ as := by
  cases r with
  | phys n c => simp [regOf] at h
  | alloc k =>
    simp only [regOf] at h
    cases hl : lookupA as k with
    | none => simp [hl] at h
    | some c =>
      simp [hl] at h
      obtain ⟨rfl, rfl⟩ := h
      exact lookupA_mem as k c hl

theorem regsOf_virt (as : List (Nat × RegCls)) (rs : List RegRef) : ∀ (xs : List Rg) (a : Nat),
    regsOf as rs = some xs → Rg.virt a ∈ xs → ∃ cls, (a, cls) ∈ as := by
  induction rs with
  | nil => intro xs a h hm; simp [regsOf] at h; subst h; simp at hm
  | cons r rs ih =>
    intro xs a h hm
    simp only [regsOf] at h
    split at h
    · rename_i x cls ys h1 h2
      simp at h; subst h
      simp only [List.mem_cons] at hm
      rcases hm with rfl | hm
      · exact ⟨cls, regOf_virt as r a cls h1⟩
      · exact ih ys a h2 hm
    · simp at h

theorem movSel_ne_label (b : Basic) (cls : RegCls) (opc : Name) (h : movSel b cls = some opc) : opc ≠ labelOp := by
  unfold movSel at h
  cases b <;> cases cls <;> simp [RegCls.isGP, RegCls.bytes, Basic.size, movqOp] at h <;> subst h <;> simp [labelOp]

theorem movSel_gp64 (b : Basic) (opc : Name) (h : movSel b .gp64 = some opc) : opc = movqOp := by
  unfold movSel at h
  cases b <;> simp [RegCls.isGP, RegCls.bytes, Basic.size] at h <;> exact h.symm

theorem movSel_ptr : movSel .uintptr .gp64 = some movqOp := by
  simp [movSel, RegCls.isGP, RegCls.bytes, Basic.size]

/-- `ptr.Dereference(r)` succeeds exactly on pointers, whose own address resolves as `uintptr`. -/
theorem deref_ok_resolve (c c2 : Comp) (r : Name) (h : c.step (.deref r) = .ok c2) :
    c.resolve = .ok (c.addr, .uintptr) := by
  simp only [Comp.step, Comp.stepWith] at h
  cases hu : c.ty.under <;> simp only [hu] at h <;> try (simp at h; done)
  simp [Comp.resolve, toPrimitive, hu]

/-! ## The invariant of a history -/

structure Inv (st : St) : Prop where
  doneOK : ∀ f ∈ st.done, domOKb [] f.body = true
  curOK : ∀ f, st.cur = some f → domOKb [] f.body = true
  hLoaded : ∀ f, st.cur = some f → ∀ k cc v, (k, cc) ∈ st.handles → cc.vbase = some v →
    v ∈ loadedAfter [] f.body
  hLt : ∀ k cc v, (k, cc) ∈ st.handles → cc.vbase = some v → v < st.n
  aLt : ∀ a cls, (a, cls) ∈ st.allocs → a < st.n
  disj : ∀ a cls k cc, (a, cls) ∈ st.allocs → (k, cc) ∈ st.handles → cc.vbase ≠ some a

theorem inv_init : Inv St.init := by
  constructor <;> simp [St.init]

theorem tick_inv (st : St) (e : Bool) (h : Inv st) : Inv (st.tick e) := by
  obtain ⟨h1, h2, h3, h4, h5, h6⟩ := h
  refine ⟨h1, h2, h3, ?_, ?_, h6⟩
  · intro k cc v hm hv; have := h4 k cc v hm hv; simp [St.tick]; omega
  · intro a cls hm; have := h5 a cls hm; simp [St.tick]; omega

/-- Appending an instruction that is not a label, whose register operands are
allocated registers or the brand-new one, and whose virtual memory bases come
from live handles. -/
theorem push_inv (st : St) (f : Fn) (ins : Instr) (e : Bool) (hI : Inv st) (hc : st.cur = some f)
    (hop : ins.op ≠ labelOp)
    (hregs : ∀ a, ins.hasReg a = true → (∃ cls, (a, cls) ∈ st.allocs) ∨ a = st.n)
    (hmems : ∀ m v, Arg.mem m ∈ ins.args → m.base = .virt v →
      ∃ k cc, (k, cc) ∈ st.handles ∧ cc.vbase = some v) :
    Inv { (st.tick e) with cur := some (f.push ins) } := by
  obtain ⟨h1, h2, h3, h4, h5, h6⟩ := hI
  have hclean : ∀ k cc v, (k, cc) ∈ st.handles → cc.vbase = some v → ins.clean v = true := by
    intro k cc v hm hv
    simp only [Instr.clean, Bool.and_eq_true, Bool.not_eq_true', bne_iff_ne, ne_eq]
    refine ⟨?_, hop⟩
    cases hr : ins.hasReg v with
    | false => rfl
    | true =>
      exfalso
      rcases hregs v hr with ⟨cls, ha⟩ | hn
      · exact h6 v cls k cc ha hm hv
      · have := h4 k cc v hm hv; omega
  refine ⟨h1, ?_, ?_, ?_, ?_, h6⟩
  · intro f' hf'
    simp at hf'; subst hf'
    simp only [Fn.push, domOKb_append, Bool.and_eq_true]
    refine ⟨h2 f hc, ?_⟩
    simp only [usesOK, List.all_eq_true]
    intro a ha
    cases a with
    | reg r => simp [argOK]
    | mem m =>
      obtain ⟨sy, d, b⟩ := m
      cases b with
      | fp => simp [argOK]
      | phys n => simp [argOK]
      | virt v =>
        obtain ⟨k, cc, hm, hv⟩ := hmems ⟨sy, d, .virt v⟩ v ha rfl
        simp only [argOK, Bool.and_eq_true, List.contains_eq_mem, decide_eq_true_eq]
        exact ⟨h3 f hc k cc v hm hv, hclean k cc v hm hv⟩
  · intro f' hf' k cc v hm hv
    simp at hf'; subst hf'
    simp only [Fn.push, loadedAfter_append]
    exact mem_stepLoaded_of_clean _ _ _ (h3 f hc k cc v hm hv) (hclean k cc v hm hv)
  · intro k cc v hm hv; have := h4 k cc v hm hv; simp [St.tick]; omega
  · intro a cls hm; have := h5 a cls hm; simp [St.tick]; omega

/-- Recording the component `Dereference` returns. -/
theorem addHandle_inv (st : St) (f : Fn) (k v : Nat) (c2 : Comp) (hI : Inv st) (hc : st.cur = some f)
    (hv : v < st.n) (hl : v ∈ loadedAfter [] f.body) (hd : ∀ a cls, (a, cls) ∈ st.allocs → a ≠ v) :
    Inv { st with handles := (k, ⟨c2, some v⟩) :: st.handles } := by
  obtain ⟨h1, h2, h3, h4, h5, h6⟩ := hI
  refine ⟨h1, h2, ?_, ?_, h5, ?_⟩
  · intro f' hf' k' cc v' hm hv'
    have hf : f' = f := by simp [hc] at hf'; exact hf'.symm
    subst hf
    simp only [List.mem_cons] at hm
    rcases hm with hm | hm
    · simp at hm; obtain ⟨_, rfl⟩ := hm; simp at hv'; subst hv'; exact hl
    · exact h3 f' hc k' cc v' hm hv'
  · intro k' cc v' hm hv'
    simp only [List.mem_cons] at hm
    rcases hm with hm | hm
    · simp at hm; obtain ⟨_, rfl⟩ := hm; simp at hv'; subst hv'; exact hv
    · exact h4 k' cc v' hm hv'
  · intro a cls k' cc ha hm
    simp only [List.mem_cons] at hm
    rcases hm with hm | hm
    · simp at hm; obtain ⟨_, rfl⟩ := hm; simp; intro h; exact hd a cls ha h.symm
    · exact h6 a cls k' cc ha hm

theorem movInstr_facts (f : Fn) (st : St) (c : CRef) (r : RegRef) (isLoad : Bool) (ins : Instr)
    (h : movInstr f st c r isLoad = some ins) :
    ins.op ≠ labelOp ∧ (∀ a, ins.hasReg a = true → ∃ cls, (a, cls) ∈ st.allocs) ∧
    (∀ m v, Arg.mem m ∈ ins.args → m.base = .virt v → ∃ k cc, (k, cc) ∈ st.handles ∧ cc.vbase = some v) := by
  unfold movInstr at h
  split at h
  · rename_i cc rg cls hev hreg
    split at h
    · rename_i a b hres
      split at h
      · rename_i opc hsel
        simp at h; subst h
        refine ⟨movSel_ne_label b cls opc hsel, ?_, ?_⟩
        · intro x hx
          have : rg = .virt x := by
            cases isLoad <;> simp [Instr.hasReg] at hx <;> exact hx.symm
          subst this
          exact ⟨cls, regOf_virt st.allocs r x cls hreg⟩
        · intro m v hm hb
          have : m = memOf cc.vbase a := by
            cases isLoad <;> simp at hm <;> exact hm
          subst this
          exact evalRef_vbase f.sig st.handles c cc v hev (memOf_virt _ _ _ hb)
      · simp at h
    · simp at h
  · simp at h

theorem mem_fns (st : St) (f : Fn) : f ∈ st.fns ↔ f ∈ st.done ∨ st.cur = some f := by
  simp only [St.fns, List.mem_append]
  cases st.cur <;> simp [eq_comm]

theorem step_inv (st : St) (op : Op) (hI : Inv st) : Inv (step st op) := by
  cases op with
  | func name s =>
    obtain ⟨h1, h2, h3, h4, h5, h6⟩ := hI
    simp only [step]
    refine ⟨?_, ?_, ?_, ?_, ?_, ?_⟩
    · intro f hf
      rcases (mem_fns st f).1 hf with hf | hf
      · exact h1 f hf
      · exact h2 f hf
    · intro f hf; simp at hf; subst hf; simp [domOKb]
    · intro f hf k cc v hm; simp at hm
    · intro k cc v hm; simp at hm
    · intro a cls hm; have := h5 a cls hm; simp [St.tick]; omega
    · intro a cls k cc ha hm; simp at hm
  | alloc cls =>
    obtain ⟨h1, h2, h3, h4, h5, h6⟩ := hI
    simp only [step]
    refine ⟨h1, h2, h3, ?_, ?_, ?_⟩
    · intro k cc v hm hv; have := h4 k cc v hm hv; simp [St.tick]; omega
    · intro a c hm
      simp only [List.mem_cons] at hm
      rcases hm with hm | hm
      · simp at hm; simp [hm.1, St.tick]
      · have := h5 a c hm; simp [St.tick]; omega
    · intro a c k cc ha hm
      simp only [St.tick, List.mem_cons] at ha hm
      rcases ha with ha | ha
      · simp at ha; obtain ⟨rfl, _⟩ := ha
        intro hv; have := h4 k cc st.n hm hv; omega
      · exact h6 a c k cc ha hm
  | label =>
    simp only [step]
    cases hc : st.cur with
    | none => exact tick_inv st true hI
    | some f =>
      obtain ⟨h1, h2, h3, h4, h5, h6⟩ := hI
      simp only
      refine ⟨h1, ?_, ?_, ?_, ?_, ?_⟩
      · intro f' hf'; simp at hf'; subst hf'
        simp only [Fn.push, domOKb_append, Bool.and_eq_true]
        exact ⟨h2 f hc, by simp [usesOK]⟩
      · intro f' hf' k cc v hm; simp at hm
      · intro k cc v hm; simp at hm
      · intro a cls hm; have := h5 a cls hm; simp [St.tick]; omega
      · intro a cls k cc ha hm; simp at hm
  | other opn rs =>
    simp only [step]
    split
    · rename_i f xs hc hrs
      split
      · exact tick_inv st true hI
      · rename_i hop
        refine push_inv st f ⟨opn, xs.map Arg.reg⟩ false hI hc hop ?_ ?_
        · intro a ha
          simp [Instr.hasReg] at ha
          exact Or.inl (regsOf_virt st.allocs rs xs a hrs ha)
        · intro m v hm; simp at hm
    · exact tick_inv st true hI
  | load c r =>
    simp only [step]
    cases hc : st.cur with
    | none => exact tick_inv st true hI
    | some f =>
      simp only
      cases hm : movInstr f st c r true with
      | none => exact tick_inv st true hI
      | some ins =>
        obtain ⟨a1, a2, a3⟩ := movInstr_facts f st c r true ins hm
        exact push_inv st f ins false hI hc a1 (fun a ha => Or.inl (a2 a ha)) a3
  | store r c =>
    simp only [step]
    cases hc : st.cur with
    | none => exact tick_inv st true hI
    | some f =>
      simp only
      cases hm : movInstr f st c r false with
      | none => exact tick_inv st true hI
      | some ins =>
        obtain ⟨a1, a2, a3⟩ := movInstr_facts f st c r false ins hm
        exact push_inv st f ins false hI hc a1 (fun a ha => Or.inl (a2 a ha)) a3
  | deref c =>
    simp only [step]
    cases hc : st.cur with
    | none => exact tick_inv st true hI
    | some f =>
      simp only
      unfold derefParts
      cases hev : evalRef f.sig st.handles c with
      | error e =>
        simp only
        have := tick_inv st true hI
        refine ⟨this.1, ?_, ?_, this.4, this.5, this.6⟩
        · intro f' hf'; simp at hf'; subst hf'; exact hI.curOK f hc
        · intro f' hf' k cc v hm hv; simp at hf'; subst hf'; exact hI.hLoaded f hc k cc v hm hv
      | ok cc =>
        simp only
        -- facts about the load, when one is emitted
        have hpush : ∀ a b opc, cc.c.resolve = .ok (a, b) → movSel b .gp64 = some opc →
            Inv { (st.tick false) with cur := some (f.push ⟨opc, [.mem (memOf cc.vbase a), .reg (.virt st.n)]⟩) } := by
          intro a b opc _ hsel
          refine push_inv st f _ false hI hc (movSel_ne_label b .gp64 opc hsel) ?_ ?_
          · intro x hx; simp [Instr.hasReg] at hx; exact Or.inr hx
          · intro m v hm hb
            simp at hm; subst hm
            exact evalRef_vbase f.sig st.handles c cc v hev (memOf_virt _ _ _ hb)
        cases hd : cc.c.step (.deref []) with
        | ok c2 =>
          have hres := deref_ok_resolve cc.c c2 [] hd
          simp only [hres, movSel_ptr]
          have h1 := hpush cc.c.addr .uintptr movqOp hres movSel_ptr
          have := addHandle_inv _ (f.push ⟨movqOp, [.mem (memOf cc.vbase cc.c.addr), .reg (.virt st.n)]⟩)
            st.n st.n c2 h1 rfl (by simp [St.tick]) (by
              simp only [Fn.push, loadedAfter_append]
              exact mem_stepLoaded_ptrLoad _ _ _) (by
              intro a cls ha; have := hI.aLt a cls ha; simp [St.tick] at ha; omega)
          exact this
        | error e =>
          simp only
          cases hres : cc.c.resolve with
          | error e' =>
            simp only
            have := tick_inv st true hI
            refine ⟨this.1, ?_, ?_, this.4, this.5, this.6⟩
            · intro f' hf'; simp at hf'; subst hf'; exact hI.curOK f hc
            · intro f' hf' k cc v hm hv; simp at hf'; subst hf'; exact hI.hLoaded f hc k cc v hm hv
          | ok ab =>
            obtain ⟨a, b⟩ := ab
            simp only
            cases hsel : movSel b .gp64 with
            | none =>
              simp only
              have := tick_inv st true hI
              refine ⟨this.1, ?_, ?_, this.4, this.5, this.6⟩
              · intro f' hf'; simp at hf'; subst hf'; exact hI.curOK f hc
              · intro f' hf' k cc v hm hv; simp at hf'; subst hf'; exact hI.hLoaded f hc k cc v hm hv
            | some opc => exact hpush a b opc hres hsel

theorem run_inv (ops : List Op) : Inv (run ops) := by
  have : ∀ st, Inv st → Inv (ops.foldl step st) := by
    induction ops with
    | nil => intro st h; exact h
    | cons op ops ih => intro st h; exact ih _ (step_inv st op h)
  exact this _ inv_init

/-- **C07, histories (1).** For every history of builder calls on one Context
and every function of the resulting file: each memory operand based on a virtual
register is dominated, in the body of that same function, by the `MOVQ` that
loads the register, with no label and no other write in between. -/
theorem hist_dom (ops : List Op) : ∀ f ∈ (run ops).fns, DomOK f.body := by
  intro f hf
  apply domOKb_sound
  rcases (mem_fns _ f).1 hf with hf | hf
  · exact (run_inv ops).doneOK f hf
  · exact (run_inv ops).curOK f hf

/-! ## Addresses: every operand belongs to the signature of its own function -/

/-- `m` is (symbol, displacement, FP-or-register) of a component of `s` as
`Param/Return…Resolve` computes it — for which `resolve_in_asmdecl` gives the
compiler's name and offset. -/
def AddrOf (s : Sig) (m : Mem) : Prop :=
  ∃ isRet sel path a b, resolve s isRet sel path = .ok (a, b) ∧ m.sym = a.sym ∧ m.disp = a.disp ∧
    (m.base = .fp ↔ a.base = .fp)

/-- `m`, based on the virtual register `v`, addresses a component of the pointee
of a pointer component of `f`'s signature at the pointee's own offsets, and the
body of `f` contains the load of that pointer's own address into `v`. -/
def PointeeOf (f : Fn) (m : Mem) (v : Nat) : Prop :=
  ∃ isRet sel pre post ap a b vb,
    resolve f.sig isRet sel pre = .ok (ap, .uintptr) ∧ ptrLoad (memOf vb ap) v ∈ f.body ∧
    resolve f.sig isRet sel (pre ++ .deref [] :: post) = .ok (a, b) ∧ m.sym = a.sym ∧ m.disp = a.disp ∧
    (∀ st ∈ post, st.isDeref = false)

def FnAddr (f : Fn) : Prop :=
  ∀ ins ∈ f.body, ∀ m, Arg.mem m ∈ ins.args →
    AddrOf f.sig m ∧ ∀ v, m.base = .virt v → PointeeOf f m v

def EvRoot (s : Sig) (c : Comp) : Prop :=
  ∃ isRet sel path c0, (s.tuple isRet).select sel = .ok c0 ∧ navigate c0 path = .ok c

def EvPtr (f : Fn) (c : Comp) (v : Nat) : Prop :=
  ∃ isRet sel pre post c0 cp c2 vb, (f.sig.tuple isRet).select sel = .ok c0 ∧ navigate c0 pre = .ok cp ∧
    cp.step (.deref []) = .ok c2 ∧ navigate c2 post = .ok c ∧ (∀ st ∈ post, st.isDeref = false) ∧
    ptrLoad (memOf vb cp.addr) v ∈ f.body

structure Inv2 (st : St) : Prop where
  doneA : ∀ f ∈ st.done, FnAddr f
  curA : ∀ f, st.cur = some f → FnAddr f
  hRoot : ∀ f, st.cur = some f → ∀ k cc, (k, cc) ∈ st.handles → EvRoot f.sig cc.c
  hPtr : ∀ f, st.cur = some f → ∀ k cc v, (k, cc) ∈ st.handles → cc.vbase = some v → EvPtr f cc.c v

theorem resolve_of_nav (s : Sig) (isRet : Bool) (sel : Sel) (path : List Step) (c0 c : Comp)
    (h1 : (s.tuple isRet).select sel = .ok c0) (h2 : navigate c0 path = .ok c) :
    resolve s isRet sel path = c.resolve := by
  simp [resolve, h1, h2]

theorem memOf_fp (vb : Option Nat) (a : Addr) : (memOf vb a).base = .fp ↔ a.base = .fp := by
  unfold memOf
  cases a.base <;> cases vb <;> simp

theorem evalRef_root (s : Sig) (hs : List (Nat × CComp)) (ref : CRef) (cc : CComp)
    (h : evalRef s hs ref = .ok cc) (hh : ∀ k c0, (k, c0) ∈ hs → EvRoot s c0.c) : EvRoot s cc.c := by
  cases ref with
  | root isRet sel path =>
    simp only [evalRef] at h
    cases hsel : (s.tuple isRet).select sel with
    | error e => simp [hsel] at h
    | ok c0 =>
      simp only [hsel] at h
      cases hn : navigate c0 path with
      | error e => simp [hn] at h
      | ok c' => simp [hn] at h; subst h; exact ⟨isRet, sel, path, c0, hsel, hn⟩
  | handle k path =>
    simp only [evalRef] at h
    cases hl : lookupH hs k with
    | none => simp [hl] at h
    | some cc0 =>
      simp only [hl] at h
      cases hn : navigate cc0.c path with
      | error e => simp [hn] at h
      | ok c' =>
        simp [hn] at h; subst h
        obtain ⟨isRet, sel, p0, c0, h1, h2⟩ := hh k cc0 (lookupH_mem hs k cc0 hl)
        exact ⟨isRet, sel, p0 ++ path, c0, h1, by rw [navigate_append, h2]; exact hn⟩

theorem evalRef_ptr (f : Fn) (hs : List (Nat × CComp)) (ref : CRef) (cc : CComp) (v : Nat)
    (h : evalRef f.sig hs ref = .ok cc) (hv : cc.vbase = some v)
    (hh : ∀ k c0 w, (k, c0) ∈ hs → c0.vbase = some w → EvPtr f c0.c w) : EvPtr f cc.c v := by
  cases ref with
  | root isRet sel path =>
    simp only [evalRef] at h
    split at h
    · simp at h
    · split at h
      · simp at h
      · simp at h; subst h; simp at hv
  | handle k path =>
    simp only [evalRef] at h
    cases hl : lookupH hs k with
    | none => simp [hl] at h
    | some cc0 =>
      simp only [hl] at h
      cases hn : navigate cc0.c path with
      | error e => simp [hn] at h
      | ok c' =>
        simp [hn] at h; subst h
        simp only at hv
        split at hv
        · simp at hv
        · rename_i hany
          obtain ⟨isRet, sel, pre, post, c0, cp, c2, vb, e1, e2, e3, e4, e5, e6⟩ :=
            hh k cc0 v (lookupH_mem hs k cc0 hl) hv
          refine ⟨isRet, sel, pre, post ++ path, c0, cp, c2, vb, e1, e2, e3, ?_, ?_, e6⟩
          · rw [navigate_append, e4]; exact hn
          · intro st hst
            simp only [List.mem_append] at hst
            rcases hst with hst | hst
            · exact e5 st hst
            · have h0 : path.any Step.isDeref = false := by simpa using hany
              have := (List.any_eq_false.1 h0) st hst; simpa using this

/-- The operand of an instruction emitted for an evaluated reference. -/
theorem operand_facts (f : Fn) (hs : List (Nat × CComp)) (ref : CRef) (cc : CComp)
    (a : Addr) (b : Basic)
    (hev : evalRef f.sig hs ref = .ok cc) (hres : cc.c.resolve = .ok (a, b))
    (hR : ∀ k c0, (k, c0) ∈ hs → EvRoot f.sig c0.c)
    (hP : ∀ k c0 w, (k, c0) ∈ hs → c0.vbase = some w → EvPtr f c0.c w) :
    AddrOf f.sig (memOf cc.vbase a) ∧ ∀ v, (memOf cc.vbase a).base = .virt v → PointeeOf f (memOf cc.vbase a) v := by
  constructor
  · obtain ⟨isRet, sel, path, c0, h1, h2⟩ := evalRef_root f.sig hs ref cc hev hR
    exact ⟨isRet, sel, path, a, b, by rw [resolve_of_nav f.sig isRet sel path c0 cc.c h1 h2, hres], rfl, rfl,
      memOf_fp _ _⟩
  · intro v hv
    have hvb := memOf_virt _ _ _ hv
    obtain ⟨isRet, sel, pre, post, c0, cp, c2, vb, e1, e2, e3, e4, e5, e6⟩ := evalRef_ptr f hs ref cc v hev hvb hP
    refine ⟨isRet, sel, pre, post, cp.addr, a, b, vb, ?_, e6, ?_, rfl, rfl, e5⟩
    · rw [resolve_of_nav f.sig isRet sel pre c0 cp e1 e2]; exact deref_ok_resolve cp c2 [] e3
    · have : navigate c0 (pre ++ .deref [] :: post) = .ok cc.c := by
        rw [navigate_append, e2]; simp only [navigate_cons, e3]; exact e4
      rw [resolve_of_nav f.sig isRet sel _ c0 cc.c e1 this]; exact hres

theorem PointeeOf_push (f : Fn) (x : Instr) (m : Mem) (v : Nat) (h : PointeeOf f m v) : PointeeOf (f.push x) m v := by
  obtain ⟨isRet, sel, pre, post, ap, a, b, vb, h1, h2, h3⟩ := h
  exact ⟨isRet, sel, pre, post, ap, a, b, vb, h1, by simp [Fn.push, h2], h3⟩

theorem EvPtr_push (f : Fn) (x : Instr) (c : Comp) (v : Nat) (h : EvPtr f c v) : EvPtr (f.push x) c v := by
  obtain ⟨isRet, sel, pre, post, c0, cp, c2, vb, e1, e2, e3, e4, e5, e6⟩ := h
  exact ⟨isRet, sel, pre, post, c0, cp, c2, vb, e1, e2, e3, e4, e5, by simp [Fn.push, e6]⟩

/-- Appending an instruction whose memory operands are right. -/
theorem push_inv2 (st : St) (f : Fn) (ins : Instr) (e : Bool) (hI : Inv2 st) (hc : st.cur = some f)
    (hm : ∀ m, Arg.mem m ∈ ins.args → AddrOf f.sig m ∧ ∀ v, m.base = .virt v → PointeeOf (f.push ins) m v) :
    Inv2 { (st.tick e) with cur := some (f.push ins) } := by
  obtain ⟨h1, h2, h3, h4⟩ := hI
  refine ⟨h1, ?_, ?_, ?_⟩
  · intro f' hf'; simp at hf'; subst hf'
    intro x hx m hmx
    simp only [Fn.push, List.mem_append, List.mem_singleton] at hx
    rcases hx with hx | rfl
    · obtain ⟨q1, q2⟩ := h2 f hc x hx m hmx
      exact ⟨q1, fun v hv => PointeeOf_push f ins m v (q2 v hv)⟩
    · exact hm m hmx
  · intro f' hf' k cc hk; simp at hf'; subst hf'; exact h3 f hc k cc hk
  · intro f' hf' k cc v hk hv; simp at hf'; subst hf'; exact EvPtr_push f ins cc.c v (h4 f hc k cc v hk hv)

theorem tick_inv2 (st : St) (e : Bool) (h : Inv2 st) : Inv2 (st.tick e) := ⟨h.1, h.2, h.3, h.4⟩

theorem movInstr_addr (f : Fn) (st : St) (c : CRef) (r : RegRef) (isLoad : Bool) (ins : Instr)
    (hI : Inv2 st) (hc : st.cur = some f) (h : movInstr f st c r isLoad = some ins) :
    ∀ m, Arg.mem m ∈ ins.args → AddrOf f.sig m ∧ ∀ v, m.base = .virt v → PointeeOf (f.push ins) m v := by
  unfold movInstr at h
  split at h
  · rename_i cc rg cls hev hreg
    split at h
    · rename_i a b hres
      split at h
      · rename_i opc hsel
        simp at h; subst h
        intro m hm
        have : m = memOf cc.vbase a := by cases isLoad <;> simp at hm <;> exact hm
        subst this
        obtain ⟨q1, q2⟩ := operand_facts f st.handles c cc a b hev hres (hI.hRoot f hc) (hI.hPtr f hc)
        exact ⟨q1, fun v hv => PointeeOf_push f _ _ v (q2 v hv)⟩
      · simp at h
    · simp at h
  · simp at h

theorem addHandle_inv2 (st : St) (f : Fn) (k v : Nat) (c2 : Comp) (hI : Inv2 st) (hc : st.cur = some f)
    (hr : EvRoot f.sig c2) (hp : EvPtr f c2 v) :
    Inv2 { st with handles := (k, ⟨c2, some v⟩) :: st.handles } := by
  obtain ⟨h1, h2, h3, h4⟩ := hI
  refine ⟨h1, h2, ?_, ?_⟩
  · intro f' hf' k' cc hm
    have hf : f' = f := by simp [hc] at hf'; exact hf'.symm
    subst hf
    simp only [List.mem_cons] at hm
    rcases hm with hm | hm
    · simp at hm; obtain ⟨_, rfl⟩ := hm; exact hr
    · exact h3 f' hc k' cc hm
  · intro f' hf' k' cc v' hm hv'
    have hf : f' = f := by simp [hc] at hf'; exact hf'.symm
    subst hf
    simp only [List.mem_cons] at hm
    rcases hm with hm | hm
    · simp at hm; obtain ⟨_, rfl⟩ := hm; simp at hv'; subst hv'; exact hp
    · exact h4 f' hc k' cc v' hm hv'

theorem dropHandles_inv2 (st : St) (hI : Inv2 st) : Inv2 { st with handles := [] } := by
  refine ⟨hI.1, hI.2, ?_, ?_⟩
  · intro f _ k cc hm; simp at hm
  · intro f _ k cc v hm; simp at hm

theorem inv2_init : Inv2 St.init := by
  constructor <;> simp [St.init]

theorem step_inv2 (st : St) (op : Op) (hI : Inv2 st) : Inv2 (step st op) := by
  cases op with
  | func name s =>
    simp only [step]
    refine ⟨?_, ?_, ?_, ?_⟩
    · intro f hf
      rcases (mem_fns st f).1 hf with hf | hf
      · exact hI.doneA f hf
      · exact hI.curA f hf
    · intro f hf; simp at hf; subst hf; intro x hx; simp at hx
    · intro f hf k cc hm; simp at hm
    · intro f hf k cc v hm; simp at hm
  | alloc cls => exact ⟨hI.1, hI.2, hI.3, hI.4⟩
  | label =>
    simp only [step]
    cases hc : st.cur with
    | none => exact tick_inv2 st true hI
    | some f =>
      simp only
      exact dropHandles_inv2 _ (push_inv2 st f ⟨labelOp, []⟩ false hI hc (by intro m hm; simp at hm))
  | other opn rs =>
    simp only [step]
    split
    · rename_i f xs hc hrs
      split
      · exact tick_inv2 st true hI
      · exact push_inv2 st f ⟨opn, xs.map Arg.reg⟩ false hI hc (by intro m hm; simp at hm)
    · exact tick_inv2 st true hI
  | load c r =>
    simp only [step]
    cases hc : st.cur with
    | none => exact tick_inv2 st true hI
    | some f =>
      simp only
      cases hm : movInstr f st c r true with
      | none => exact tick_inv2 st true hI
      | some ins => exact push_inv2 st f ins false hI hc (movInstr_addr f st c r true ins hI hc hm)
  | store r c =>
    simp only [step]
    cases hc : st.cur with
    | none => exact tick_inv2 st true hI
    | some f =>
      simp only
      cases hm : movInstr f st c r false with
      | none => exact tick_inv2 st true hI
      | some ins => exact push_inv2 st f ins false hI hc (movInstr_addr f st c r false ins hI hc hm)
  | deref c =>
    simp only [step]
    cases hc : st.cur with
    | none => exact tick_inv2 st true hI
    | some f =>
      simp only
      unfold derefParts
      have hsame : Inv2 { (st.tick true) with cur := some f, handles := st.handles } := by
        refine ⟨hI.1, ?_, ?_, ?_⟩
        · intro f' hf'; simp at hf'; subst hf'; exact hI.curA f hc
        · intro f' hf' k cc hm; simp at hf'; subst hf'; exact hI.hRoot f hc k cc hm
        · intro f' hf' k cc v hm hv; simp at hf'; subst hf'; exact hI.hPtr f hc k cc v hm hv
      cases hev : evalRef f.sig st.handles c with
      | error e => exact hsame
      | ok cc =>
        simp only
        have hpush : ∀ a b opc, cc.c.resolve = .ok (a, b) →
            Inv2 { (st.tick false) with cur := some (f.push ⟨opc, [.mem (memOf cc.vbase a), .reg (.virt st.n)]⟩) } := by
          intro a b opc hres
          refine push_inv2 st f _ false hI hc ?_
          intro m hm
          simp at hm; subst hm
          obtain ⟨q1, q2⟩ := operand_facts f st.handles c cc a b hev hres (hI.hRoot f hc) (hI.hPtr f hc)
          exact ⟨q1, fun v hv => PointeeOf_push f _ _ v (q2 v hv)⟩
        cases hd : cc.c.step (.deref []) with
        | ok c2 =>
          have hres := deref_ok_resolve cc.c c2 [] hd
          simp only [hres, movSel_ptr]
          have h1 := hpush cc.c.addr .uintptr movqOp hres
          obtain ⟨isRet, sel, path, c0, r1, r2⟩ := evalRef_root f.sig st.handles c cc hev (hI.hRoot f hc)
          refine addHandle_inv2 _ (f.push ⟨movqOp, [.mem (memOf cc.vbase cc.c.addr), .reg (.virt st.n)]⟩)
            st.n st.n c2 h1 rfl ?_ ?_
          · refine ⟨isRet, sel, path ++ [.deref []], c0, r1, ?_⟩
            rw [navigate_append, r2]; simp [navigate_cons, hd, navigate_nil]
          · exact ⟨isRet, sel, path, [], c0, cc.c, c2, cc.vbase, r1, r2, hd, navigate_nil c2, by simp,
              by simp [Fn.push, ptrLoad]⟩
        | error e =>
          simp only
          cases hres : cc.c.resolve with
          | error e' => exact hsame
          | ok ab =>
            obtain ⟨a, b⟩ := ab
            simp only
            cases hsel : movSel b .gp64 with
            | none => exact hsame
            | some opc => exact hpush a b opc hres

theorem run_inv2 (ops : List Op) : Inv2 (run ops) := by
  have : ∀ st, Inv2 st → Inv2 (ops.foldl step st) := by
    induction ops with
    | nil => intro st h; exact h
    | cons op ops ih => intro st h; exact ih _ (step_inv2 st op h)
  exact this _ inv2_init

theorem run_fnAddr (ops : List Op) : ∀ f ∈ (run ops).fns, FnAddr f := by
  intro f hf
  rcases (mem_fns _ f).1 hf with hf | hf
  · exact (run_inv2 ops).doneA f hf
  · exact (run_inv2 ops).curA f hf

/-- **C07, histories (2).** Every memory operand of every function built through
the Context is the address `Param/Return…Resolve` computes in the signature of
THAT function (never of an earlier one). -/
theorem hist_addr (ops : List Op) : ∀ f ∈ (run ops).fns, ∀ ins ∈ f.body, ∀ m, Arg.mem m ∈ ins.args →
    AddrOf f.sig m := fun f hf ins hi m hm => (run_fnAddr ops f hf ins hi m hm).1

/-- … hence, for a well-formed signature, it satisfies C07's `ResolveSpec`: the
compiler's name and frame offset, or the pointee's own offsets. -/
theorem hist_addr_spec (ops : List Op) : ∀ f ∈ (run ops).fns, f.sig.WF → ∀ ins ∈ f.body, ∀ m, Arg.mem m ∈ ins.args →
    ∃ isRet sel path a b, ResolveSpec f.sig isRet sel path ⟨a, b⟩ ∧ m.sym = a.sym ∧ m.disp = a.disp ∧
      (m.base = .fp ↔ a.base = .fp) := by
  intro f hf hwf ins hi m hm
  obtain ⟨isRet, sel, path, a, b, h1, h2, h3, h4⟩ := hist_addr ops f hf ins hi m hm
  exact ⟨isRet, sel, path, a, b, resolve_in_asmdecl f.sig hwf isRet sel path a b h1, h2, h3, h4⟩

/-- **C07, histories (3).** A memory operand based on a virtual register is at
the pointee's own offsets of a pointer component of that function's signature,
and the body of that function contains the load of that pointer's own address
into that register. -/
theorem hist_pointee (ops : List Op) : ∀ f ∈ (run ops).fns, ∀ ins ∈ f.body, ∀ m v, Arg.mem m ∈ ins.args →
    m.base = .virt v → PointeeOf f m v := fun f hf ins hi m v hm hv => (run_fnAddr ops f hf ins hi m hm).2 v hv

/-! ## Freshness of the register `Dereference` writes -/

def Arg.mentions (a : Arg) (v : Nat) : Prop := a = .reg (.virt v) ∨ ∃ m, a = .mem m ∧ m.base = .virt v

/-- Every virtual register named anywhere in the file is older than the next call. -/
def Inv3 (st : St) : Prop := ∀ f ∈ st.fns, ∀ ins ∈ f.body, ∀ a ∈ ins.args, ∀ v, a.mentions v → v < st.n

theorem fns_push (st : St) (f : Fn) (ins : Instr) (e : Bool) (hs : List (Nat × CComp)) (_hc : st.cur = some f) (g : Fn)
    (hg : g ∈ St.fns { (st.tick e) with cur := some (f.push ins), handles := hs }) :
    g ∈ st.fns ∨ g = f.push ins := by
  simp only [St.fns, List.mem_append, Option.toList] at hg ⊢
  rcases hg with hg | hg
  · exact Or.inl (Or.inl hg)
  · simp at hg; exact Or.inr hg

theorem push_inv3 (st : St) (f : Fn) (ins : Instr) (e : Bool) (hs : List (Nat × CComp)) (h3 : Inv3 st)
    (hc : st.cur = some f)
    (hins : ∀ a ∈ ins.args, ∀ v, a.mentions v → v ≤ st.n) :
    Inv3 { (st.tick e) with cur := some (f.push ins), handles := hs } := by
  intro g hg x hx a ha v hv
  have hn : (St.tick st e).n = st.n + 1 := rfl
  show v < st.n + 1
  rcases fns_push st f ins e hs hc g hg with hg | rfl
  · have := h3 g hg x hx a ha v hv; omega
  · simp only [Fn.push, List.mem_append, List.mem_singleton] at hx
    rcases hx with hx | rfl
    · have := h3 f ((mem_fns st f).2 (Or.inr hc)) x hx a ha v hv; omega
    · have := hins a ha v hv; omega

theorem keep_inv3 (st : St) (e : Bool) (h3 : Inv3 st) : Inv3 (st.tick e) := by
  intro g hg x hx a ha v hv
  have := h3 g hg x hx a ha v hv
  show v < st.n + 1
  omega

theorem facts_le (st : St) (ins : Instr) (hI : Inv st)
    (hregs : ∀ a, ins.hasReg a = true → (∃ cls, (a, cls) ∈ st.allocs) ∨ a = st.n)
    (hmems : ∀ m v, Arg.mem m ∈ ins.args → m.base = .virt v → ∃ k cc, (k, cc) ∈ st.handles ∧ cc.vbase = some v) :
    ∀ a ∈ ins.args, ∀ v, a.mentions v → v ≤ st.n := by
  intro a ha v hv
  rcases hv with rfl | ⟨m, rfl, hb⟩
  · have : ins.hasReg v = true := by simp [Instr.hasReg, ha]
    rcases hregs v this with ⟨cls, hm⟩ | h
    · have := hI.aLt v cls hm; omega
    · omega
  · obtain ⟨k, cc, hm, hvb⟩ := hmems m v ha hb
    have := hI.hLt k cc v hm hvb; omega

theorem step_inv3 (st : St) (op : Op) (hI : Inv st) (h3 : Inv3 st) : Inv3 (step st op) := by
  cases op with
  | func name s =>
    simp only [step]
    intro g hg x hx a ha v hv
    show v < st.n + 1
    rcases (mem_fns _ g).1 hg with hg | hg
    · have hg' : g ∈ st.fns := hg
      have := h3 g hg' x hx a ha v hv; omega
    · simp at hg; subst hg; simp at hx
  | alloc cls => exact keep_inv3 st false h3
  | label =>
    simp only [step]
    cases hc : st.cur with
    | none => exact keep_inv3 st true h3
    | some f => exact push_inv3 st f ⟨labelOp, []⟩ false [] h3 hc (by intro a ha; simp at ha)
  | other opn rs =>
    simp only [step]
    split
    · rename_i f xs hc hrs
      split
      · exact keep_inv3 st true h3
      · refine push_inv3 st f ⟨opn, xs.map Arg.reg⟩ false st.handles h3 hc (facts_le st _ hI ?_ ?_)
        · intro a ha
          simp [Instr.hasReg] at ha
          exact Or.inl (regsOf_virt st.allocs rs xs a hrs ha)
        · intro m v hm; simp at hm
    · exact keep_inv3 st true h3
  | load c r =>
    simp only [step]
    cases hc : st.cur with
    | none => exact keep_inv3 st true h3
    | some f =>
      simp only
      cases hm : movInstr f st c r true with
      | none => exact keep_inv3 st true h3
      | some ins =>
        obtain ⟨_, a2, a3⟩ := movInstr_facts f st c r true ins hm
        exact push_inv3 st f ins false st.handles h3 hc (facts_le st ins hI (fun a ha => Or.inl (a2 a ha)) a3)
  | store r c =>
    simp only [step]
    cases hc : st.cur with
    | none => exact keep_inv3 st true h3
    | some f =>
      simp only
      cases hm : movInstr f st c r false with
      | none => exact keep_inv3 st true h3
      | some ins =>
        obtain ⟨_, a2, a3⟩ := movInstr_facts f st c r false ins hm
        exact push_inv3 st f ins false st.handles h3 hc (facts_le st ins hI (fun a ha => Or.inl (a2 a ha)) a3)
  | deref c =>
    simp only [step]
    cases hc : st.cur with
    | none => exact keep_inv3 st true h3
    | some f =>
      simp only
      unfold derefParts
      have hsame : ∀ hs, Inv3 { (st.tick true) with cur := some f, handles := hs } := by
        intro hs g hg x hx a ha v hv
        show v < st.n + 1
        have hg' : g ∈ st.fns := by
          simp only [St.fns, List.mem_append, Option.toList] at hg ⊢
          rcases hg with hg | hg
          · exact Or.inl hg
          · simp at hg; subst hg; simp [hc]
        have := h3 g hg' x hx a ha v hv; omega
      cases hev : evalRef f.sig st.handles c with
      | error e => exact hsame _
      | ok cc =>
        simp only
        have hpush : ∀ a opc hs,
            Inv3 { (st.tick false) with
              cur := some (f.push ⟨opc, [.mem (memOf cc.vbase a), .reg (.virt st.n)]⟩), handles := hs } := by
          intro a opc hs
          refine push_inv3 st f _ false hs h3 hc (facts_le st _ hI ?_ ?_)
          · intro x hx; simp [Instr.hasReg] at hx; exact Or.inr hx
          · intro m v hm hb
            simp at hm; subst hm
            exact evalRef_vbase f.sig st.handles c cc v hev (memOf_virt _ _ _ hb)
        cases hd : cc.c.step (.deref []) with
        | ok c2 =>
          have hres := deref_ok_resolve cc.c c2 [] hd
          simp only [hres, movSel_ptr]
          exact hpush _ _ _
        | error e =>
          simp only
          cases hres : cc.c.resolve with
          | error e' => exact hsame _
          | ok ab =>
            obtain ⟨a, b⟩ := ab
            simp only
            cases hsel : movSel b .gp64 with
            | none => exact hsame _
            | some opc => exact hpush _ _ _

/-- **C07, histories (4).** The register a `Dereference` call writes (named by
the number of the call) is new: after any history, no instruction of any
function of the Context names it, and no allocation call has handed it out. -/
theorem hist_fresh (ops : List Op) :
    (∀ f ∈ (run ops).fns, ∀ ins ∈ f.body, ∀ a ∈ ins.args, ¬ a.mentions (run ops).n) ∧
    (∀ cls, ((run ops).n, cls) ∉ (run ops).allocs) := by
  have : ∀ st, Inv st → Inv3 st → Inv (ops.foldl step st) ∧ Inv3 (ops.foldl step st) := by
    induction ops with
    | nil => intro st h h3; exact ⟨h, h3⟩
    | cons op ops ih => intro st h h3; exact ih _ (step_inv st op h) (step_inv3 st op h h3)
  obtain ⟨hI, h3⟩ := this St.init inv_init (by intro f hf; simp [St.init, St.fns] at hf)
  constructor
  · intro f hf ins hi a ha hm
    have := h3 f hf ins hi a ha _ hm
    exact Nat.lt_irrefl _ this
  · intro cls hm
    have := hI.aLt _ cls hm
    exact Nat.lt_irrefl _ this

/-- What `Dereference` appends in the current function when the component is a
pointer: exactly one instruction, the `MOVQ` from the pointer's own address
into the new register; the returned component is based on that register. -/
theorem deref_emits (st : St) (f : Fn) (c : CRef) (cc : CComp) (c2 : Comp) (hc : st.cur = some f)
    (hev : evalRef f.sig st.handles c = .ok cc) (hd : cc.c.step (.deref []) = .ok c2) :
    (step st (.deref c)).cur = some (f.push (ptrLoad (memOf cc.vbase cc.c.addr) st.n)) ∧
    (step st (.deref c)).handles = (st.n, ⟨c2, some st.n⟩) :: st.handles ∧
    (step st (.deref c)).done = st.done := by
  have hres := deref_ok_resolve cc.c c2 [] hd
  simp [step, hc, derefParts, hev, hd, hres, movSel_ptr, ptrLoad, St.tick]

/-- Starting a function forgets every component of the previous one: the new
function's body is empty and no handle survives. -/
theorem func_resets (st : St) (name : Name) (s : Sig) :
    (step st (.func name s)).cur = some ⟨name, s, []⟩ ∧ (step st (.func name s)).handles = [] ∧
    (step st (.func name s)).done = st.fns := by
  simp [step, St.tick]

theorem mentionsB_iff (a : Arg) (v : Nat) : a.mentionsB v = true ↔ a.mentions v := by
  unfold Arg.mentionsB Arg.mentions
  cases a with
  | reg r => cases r <;> simp
  | mem m => obtain ⟨s, d, b⟩ := m; cases b <;> simp

/-- **Soundness of the freshness acceptor**: no instruction before the point names `v`. -/
theorem freshB_sound (fns : List (List Instr)) (fi pos v : Nat) (h : freshB fns fi pos v = true) :
    (∀ b ∈ fns.take fi, ∀ ins ∈ b, ∀ a ∈ ins.args, ¬ a.mentions v) ∧
    (∀ ins ∈ (fns.getD fi []).take pos, ∀ a ∈ ins.args, ¬ a.mentions v) := by
  simp only [freshB, Bool.and_eq_true, List.all_eq_true, Bool.not_eq_true', Instr.mentionsB, List.any_eq_false] at h
  constructor
  · intro b hb ins hi a ha hm
    exact h.1 b hb ins hi a ha ((mentionsB_iff a v).2 hm)
  · intro ins hi a ha hm
    exact h.2 ins hi a ha ((mentionsB_iff a v).2 hm)

/-- The model passes it at every point: after any history the next register (`n`) is fresh in the whole file. -/
theorem hist_freshB (ops : List Op) :
    freshB ((run ops).fns.map (·.body)) (run ops).fns.length 0 (run ops).n = true := by
  have hf := (hist_fresh ops).1
  simp only [freshB, Bool.and_eq_true, List.all_eq_true, Bool.not_eq_true', Instr.mentionsB, List.any_eq_false]
  constructor
  · intro b hb ins hi a ha
    have hb' : b ∈ (run ops).fns.map (·.body) := List.mem_of_mem_take hb
    obtain ⟨f, hfm, rfl⟩ := List.mem_map.1 hb'
    cases hm : a.mentionsB (run ops).n with
    | false => simp
    | true => exact absurd ((mentionsB_iff a _).1 hm) (hf f hfm ins hi a ha)
  · intro ins hi; simp at hi

/-! ## Non-vacuity: two functions of one signature built through one Context, each reading a
field through its pointer parameter (`func(i uint64, s *struct{A, B uint64}) uint64`) -/

def exPair : Ty := .struct (.cons ['A'] (.basic .uint64) (.cons ['B'] (.basic .uint64) .nil))
def exSigP : Sig := ⟨[⟨[['i']], .basic .uint64⟩, ⟨[['s']], .ptr exPair⟩], [⟨[], .basic .uint64⟩]⟩
def addq : Name := ['A', 'D', 'D', 'Q']

def exBody (base : Nat) (field : Name) : List Op :=
  [.alloc .gp64, .load (.root false (.name ['i']) []) (.alloc (base + 1)),
   .deref (.root false (.name ['s']) []),
   .alloc .gp64, .load (.handle (base + 3) [.field field]) (.alloc (base + 4)),
   .other addq [.alloc (base + 1), .alloc (base + 4)],
   .store (.alloc (base + 4)) (.root true (.at 0) [])]

def exHist : List Op :=
  [.func ['G', 'e', 't', 'A'] exSigP] ++ exBody 0 ['A'] ++ [.func ['G', 'e', 't', 'B'] exSigP] ++ exBody 8 ['B']

def exBodyB : List Instr :=
  [⟨movqOp, [.mem ⟨['i'], 0, .fp⟩, .reg (.virt 9)]⟩,
   ptrLoad ⟨['s'], 8, .fp⟩ 11,
   ⟨movqOp, [.mem ⟨[], 8, .virt 11⟩, .reg (.virt 12)]⟩,
   ⟨addq, [.reg (.virt 9), .reg (.virt 12)]⟩,
   ⟨movqOp, [.reg (.virt 12), .mem ⟨['r', 'e', 't'], 16, .fp⟩]⟩]

example : exSigP.WF := by
  constructor <;> intro g hg <;> simp [exSigP] at hg <;> (try rcases hg with rfl | rfl) <;> (try subst hg) <;>
    intro n hn <;> simp at hn <;> simp [hn]

/-- The second function loads ITS OWN pointer argument (into a register of its own) before use. -/
example : ((run exHist).fns.map (·.body))[1]? = some exBodyB := by decide
example : (run exHist).errs = [] := by decide
example : (run exHist).n = 16 := by decide
example : domOKb [] exBodyB = true := by decide
example : DomOK exBodyB := domOKb_sound _ (by decide)

/-- The body a Context produces for the second function when `Dereference` reuses, from the first
function, the register it loaded there (v3) and emits no load: rejected by the acceptor, and it does
not satisfy `DomOK`. -/
def exBodyBStale : List Instr :=
  [⟨movqOp, [.mem ⟨['i'], 0, .fp⟩, .reg (.virt 9)]⟩,
   ⟨movqOp, [.mem ⟨[], 8, .virt 3⟩, .reg (.virt 12)]⟩,
   ⟨addq, [.reg (.virt 9), .reg (.virt 12)]⟩,
   ⟨movqOp, [.reg (.virt 12), .mem ⟨['r', 'e', 't'], 16, .fp⟩]⟩]

example : domOKb [] exBodyBStale = false := by decide

example : ¬ DomOK exBodyBStale := by
  intro h
  obtain ⟨a, p, mid, hp, _⟩ := h [⟨movqOp, [.mem ⟨['i'], 0, .fp⟩, .reg (.virt 9)]⟩]
    ⟨movqOp, [.mem ⟨[], 8, .virt 3⟩, .reg (.virt 12)]⟩ _ ⟨[], 8, .virt 3⟩ 3 rfl (by simp) rfl
  cases a with
  | nil => simp [ptrLoad] at hp
  | cons x a => simp at hp

example : freshB [exBodyB] 0 1 11 = true := by decide
example : freshB [exBodyBStale] 0 1 3 = true ∧ freshB [exBodyB, exBodyBStale] 1 1 11 = false := by decide

/-- A label between the load and the use is not accepted either (the label may be reached by a jump). -/
example : domOKb [] [ptrLoad ⟨['s'], 8, .fp⟩ 1, ⟨labelOp, []⟩, ⟨movqOp, [.mem ⟨[], 0, .virt 1⟩, .reg (.phys ['A', 'X'])]⟩] = false := by
  decide

end Avo.LayoutCtx
