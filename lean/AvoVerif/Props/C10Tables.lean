/-
C10 on facts regenerated from pass/pass.go (pass list of `Compile`, evaluated)
and measured on the real `pass.PruneSelfMoves` (which `OPC r, r` it deletes).

Only what the models and the property need is stated — relative order of the
passes that matter, and an upper bound on the self-move opcodes — so that
appending a pass, wrapping passes differently, or pruning FEWER opcodes does not
break these theorems.
-/
import AvoVerif.Props.C10
import AvoVerif.Props.C10Moves
import AvoVerif.Gen.PassFacts
import AvoVerif.Gen.BranchOps
import AvoVerif.Gen.SelfMoveFacts
import AvoVerif.Oracle.MoveHW
namespace Avo.Cleanup

def hasSub (pat : List Char) : List Char → Bool
  | [] => pat.isEmpty
  | c :: cs => pat.isPrefixOf (c :: cs) || hasSub pat cs

/-- Positions in `Compile` of the passes whose rendering mentions the function `name`
(`FunctionPass(PruneSelfMoves)`, however it is wrapped). -/
def passIdx (name : String) : List Nat :=
  (List.range Avo.Gen.compileOrder.length).filter (fun k =>
    hasSub (name.toList ++ [')']) ((Avo.Gen.compileOrder.getD k "").toList))

/-- `a` occurs exactly once, `b` exactly once, and `a` runs before `b`. -/
def runsBefore (a b : String) : Bool :=
  match passIdx a, passIdx b with
  | [i], [j] => i < j
  | _, _ => false

/-- **The pass pipeline is the one the models need** (relative order only, and
only what correctness depends on): jumps and labels are pruned before labels are
bound and the CFG is built (neither pass repairs a CFG that already exists: a
stale edge of a deleted jump would corrupt liveness); labels are bound before the
CFG, the CFG is built before liveness, liveness before allocation, allocation
before binding; self-moves are pruned after allocation (that pass clears the CFG
which liveness and allocation read). Which of the two label passes runs first,
and whether self-moves go before or after binding/verification, is not pinned. -/
theorem compile_order :
    runsBefore "PruneJumpToFollowingLabel" "LabelTarget" = true ∧
    runsBefore "PruneDanglingLabels" "LabelTarget" = true ∧
    runsBefore "LabelTarget" "CFG" = true ∧
    runsBefore "CFG" "Liveness" = true ∧
    runsBefore "Liveness" "AllocateRegisters" = true ∧
    runsBefore "AllocateRegisters" "BindRegisters" = true ∧
    runsBefore "AllocateRegisters" "PruneSelfMoves" = true := by
  decide +kernel

/-- Of the two-operand general-purpose-register opcodes, `PruneSelfMoves` deletes
`OPC r, r` only for opcodes whose self-move is the identity at some operand width
(`isNoopKind`, exact by `selfMove_noop_iff`): today `MOVB`, `MOVW`, `MOVQ`; `MOVD`
(the assembler's alias of `MOVQ`) would be fine too — but never `MOVL` (a 32-bit
self-move clears the upper half) nor anything that is not a move.  (Kept for the
general-purpose view of `Gen/PassFacts`; `pruned_moves_are_noops` below says the
same per instruction, for every register class.) -/
theorem selfmove_opcodes :
    Avo.Gen.selfMoveOpcodes.all (fun o =>
      [Avo.Reg.S8L, Avo.Reg.S16, Avo.Reg.S32, Avo.Reg.S64].any (fun m => isNoopKind (movKind o ⟨65792, m⟩ ⟨65792, m⟩))) = true := by
  decide +kernel

/-- … and `MOVL` fails that test. -/
example : [Avo.Reg.S8L, Avo.Reg.S16, Avo.Reg.S32, Avo.Reg.S64].any (fun m => isNoopKind (movKind "MOVL" ⟨65792, m⟩ ⟨65792, m⟩)) = false := by
  decide +kernel

example : passIdx "PruneSelfMoves" ≠ [] := by decide +kernel

/-! ## What the real `PruneSelfMoves` deletes, over EVERY register-to-register shape of the form table

`Gen.selfMovePruned` is measured on every run (harness/c10facts.go): every opcode of
the compiled form table that has a form `OPC t, t` (t = r8 r16 r32 r64 xmm ymm zmm k)
or a masked form `OPC t, k, t`, with every suffix, instantiated as a self-move on
several registers of the class (and, for moves, between two different registers), is
run through the real pass; listed are the instructions that were deleted. -/

def measuredInstr (row : String × List (Nat × Nat)) : XInstr :=
  ⟨0, default, row.1, row.2.map (fun p => MOp.reg ⟨p.1, p.2⟩)⟩

/-- **Every instruction the real pass deletes — whatever the opcode, register class
and width — is a register move without architectural effect** (`isNoopMove`, exact by
`noEffectMove_iff`: the move's semantics is the identity on every register file).
The theorem does not mention the opcodes pruned today: pruning FEWER or MORE true
no-ops (`MOVAPS x,x`, `VMOVDQU64 z,z`, `KMOVQ k,k`) keeps it true, pruning a move that
clears part of the register (`MOVL r,r`, `MOVQ x,x`, `VMOVDQU y,y`, `KMOVW k,k`, a
zeroing-masked move) or a move between different registers makes it false. -/
theorem pruned_moves_are_noops :
    Avo.Gen.selfMovePruned.all (fun row => isNoopMove (measuredInstr row)) = true := by
  decide +kernel

theorem pruned_moves_no_effect (row : String × List (Nat × Nat)) (h : row ∈ Avo.Gen.selfMovePruned) :
    NoEffectMove (measuredInstr row) :=
  isNoopMove_spec _ ((List.all_eq_true.mp pruned_moves_are_noops) row h)

/-- Non-vacuity: the sweep ran (more than a thousand instructions) and the pass deleted some of them. -/
theorem selfmove_sweep_ran : 1000 ≤ Avo.Gen.selfMoveTried ∧ Avo.Gen.selfMovePruned ≠ [] := by decide +kernel

/-! ## The move semantics against the host CPU

`Oracle.moveHW` is measured on every run (harness/c10facts.go): every MOV-named shape
is assembled by the Go assembler as a self-move, executed on a register filled with
non-zero bytes, and the byte lanes of the FULL register that changed are recorded. -/

/-- Lanes (bit l = lane l) in which the model changes the all-ones register file. -/
def changedLanes (id : Nat) (σ' : RegFile) : Nat :=
  (List.range 7).foldl (fun acc l => if σ' id l = 1 then acc else acc + 2 ^ l) 0

/-- Wherever the model gives the measured self-move a meaning, it predicts the measured lanes:
two-operand moves lane by lane; masked moves (whose elements are finer than lanes) as
"changes nothing" ⇔ `isNoopMasked`. -/
def cpuAgrees (row : String × List (Nat × Nat) × Nat) : Bool :=
  match row.2.1 with
  | [a, b] =>
    a != b ||
    (match execMov row.1 ⟨a.1, a.2⟩ ⟨a.1, a.2⟩ ones with
     | none => true
     | some σ' => changedLanes a.1 σ' == row.2.2)
  | [a, k, b] =>
    a != b ||
    (match maskedKind row.1 ⟨a.1, a.2⟩ ⟨k.1, k.2⟩ ⟨a.1, a.2⟩ with
     | none => true
     | some _ => (row.2.2 == 0) == isNoopMasked row.1 ⟨a.1, a.2⟩ ⟨k.1, k.2⟩ ⟨a.1, a.2⟩)
  | _ => true

/-- Does the model give the row a meaning? -/
def cpuModelled (row : String × List (Nat × Nat) × Nat) : Bool :=
  match row.2.1 with
  | [a, b] => a == b && (execMov row.1 ⟨a.1, a.2⟩ ⟨a.1, a.2⟩ ones).isSome
  | [a, k, b] => a == b && (maskedKind row.1 ⟨a.1, a.2⟩ ⟨k.1, k.2⟩ ⟨a.1, a.2⟩).isSome
  | _ => false

/-- **The hand-written move semantics agrees with the CPU** on every measured self-move
it covers (GP 8/16/32/64 incl. `CH`, legacy SSE, VEX/EVEX at 128/256/512, `VMOVQ`,
`MOVD/MOVQ x,x`, `KMOVx`, merge- and zeroing-masked EVEX moves). -/
theorem movesem_matches_cpu : Avo.Oracle.moveHW.all cpuAgrees = true := by decide +kernel

/-- … and that is not vacuous: on a host with AVX-512 at least 100 measured rows are covered by the model. -/
theorem movesem_cpu_rows :
    Avo.Oracle.moveHWAvx512 = false ∨ 100 ≤ (Avo.Oracle.moveHW.filter cpuModelled).length := by decide +kernel

/-! ## `hcf` from the form table: a self-move is neither a branch nor a return -/

/-- The control-flow feature word of an instruction as the verif hook exports it
(bit0 terminal, bit1 branch, bit2 conditional). -/
def featureWord (cf : Avo.Func.Instr) : Nat :=
  (if cf.isTerminal then 1 else 0) + (if cf.isBranch then 2 else 0) + (if cf.isCond then 4 else 0)

/-- The instruction carries the control-flow flags that the regenerated form
table lists for its opcode (what `x86.build` copies from the matched form). -/
def TableFlags (i : XInstr) : Prop :=
  ∃ r ∈ Avo.Gen.branchOps, r.1 = i.opcode ∧ featureWord i.cf ∈ r.2.1

theorem mov_rows_plain :
    Avo.Gen.branchOps.all (fun r => !(r.1 == "MOVB" || r.1 == "MOVW" || r.1 == "MOVQ") || r.2.1 == [0]) = true := by
  decide +kernel

/-- **`hcf` discharged.** An instruction that `PruneSelfMoves` deletes and whose
flags are those of the form table is neither a return nor a branch: every form of
`MOVB`, `MOVW`, `MOVQ` has the feature word 0 in the regenerated table. -/
theorem selfMove_not_cf (i : XInstr) (hs : isSelfMove i = true) (ht : TableFlags i) :
    i.cf.isTerminal = false ∧ i.cf.isBranch = false := by
  obtain ⟨r, hr, hop, hw⟩ := ht
  have hrow := (List.all_eq_true.mp mov_rows_plain) r hr
  have hopc : (r.1 == "MOVB" || r.1 == "MOVW" || r.1 == "MOVQ") = true := by
    unfold isSelfMove at hs
    simp only [Bool.and_eq_true] at hs
    rw [hop]; exact hs.1
  simp only [hopc, Bool.not_true, Bool.false_or, beq_iff_eq] at hrow
  rw [hrow] at hw
  have h0 : featureWord i.cf = 0 := by simpa using hw
  unfold featureWord at h0
  cases h1 : i.cf.isTerminal <;> cases h2 : i.cf.isBranch <;> cases h3 : i.cf.isCond <;> simp_all

/-- Non-vacuity: `MOVQ RAX, RAX` with the table's flags. -/
example : TableFlags ⟨0, ⟨false, false, false, none⟩, "MOVQ", [.reg ⟨256, 15⟩, .reg ⟨256, 15⟩]⟩ := by
  refine ⟨("MOVQ", [0], false), ?_, rfl, by simp [featureWord]⟩
  decide +kernel

end Avo.Cleanup
