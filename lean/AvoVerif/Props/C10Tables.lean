/-
C10 on facts regenerated from pass/pass.go (pass list of `Compile`, evaluated)
and measured on the real `pass.PruneSelfMoves` (which `OPC r, r` it deletes).

Only what the models and the property need is stated — relative order of the
passes that matter, and an upper bound on the self-move opcodes — so that
appending a pass, wrapping passes differently, or pruning FEWER opcodes does not
break these theorems.
-/
import AvoVerif.Props.C10
import AvoVerif.Gen.PassFacts
import AvoVerif.Gen.BranchOps
namespace Avo.Cleanup

def hasSub (pat : List Char) : List Char → Bool
  | [] => pat.isEmpty
  | c :: cs => pat.isPrefixOf (c :: cs) || hasSub pat cs

/-- Positions in `Compile` of the passes whose rendering mentions the function `name`
(`FunctionPass(PruneSelfMoves)`, however it is wrapped). -/
def passIdx (name : String) : List Nat :=
  (List.range Avo.Gen.compileOrder.length).filter (fun k =>
    hasSub (name.toList ++ [')']) ((Avo.Gen.compileOrder.getD k "").toList))

/-- `a` occurs exactly once, `b` exactly once, and `a` runs before `b`. -/
def runsBefore (a b : String) : Bool :=
  match passIdx a, passIdx b with
  | [i], [j] => i < j
  | _, _ => false

/-- **The pass pipeline is the one the models need** (relative order only, and
only what correctness depends on): jumps and labels are pruned before labels are
bound and the CFG is built (neither pass repairs a CFG that already exists: a
stale edge of a deleted jump would corrupt liveness); labels are bound before the
CFG, the CFG is built before liveness, liveness before allocation, allocation
before binding; self-moves are pruned after allocation (that pass clears the CFG
which liveness and allocation read). Which of the two label passes runs first,
and whether self-moves go before or after binding/verification, is not pinned. -/
theorem compile_order :
    runsBefore "PruneJumpToFollowingLabel" "LabelTarget" = true ∧
    runsBefore "PruneDanglingLabels" "LabelTarget" = true ∧
    runsBefore "LabelTarget" "CFG" = true ∧
    runsBefore "CFG" "Liveness" = true ∧
    runsBefore "Liveness" "AllocateRegisters" = true ∧
    runsBefore "AllocateRegisters" "BindRegisters" = true ∧
    runsBefore "AllocateRegisters" "PruneSelfMoves" = true := by
  decide +kernel

/-- Of the two-operand general-purpose-register opcodes, `PruneSelfMoves` deletes
`OPC r, r` at most for `MOVB`, `MOVW`, `MOVQ` — the opcodes whose self-move the
model's `execMov` proves to be the identity — in particular not for `MOVL`
(a 32-bit self-move clears the upper half). -/
theorem selfmove_opcodes :
    Avo.Gen.selfMoveOpcodes.all (fun o => o == "MOVB" || o == "MOVW" || o == "MOVQ") = true := by
  decide +kernel

example : passIdx "PruneSelfMoves" ≠ [] := by decide +kernel

/-! ## `hcf` from the form table: a self-move is neither a branch nor a return -/

/-- The control-flow feature word of an instruction as the verif hook exports it
(bit0 terminal, bit1 branch, bit2 conditional). -/
def featureWord (cf : Avo.Func.Instr) : Nat :=
  (if cf.isTerminal then 1 else 0) + (if cf.isBranch then 2 else 0) + (if cf.isCond then 4 else 0)

/-- The instruction carries the control-flow flags that the regenerated form
table lists for its opcode (what `x86.build` copies from the matched form). -/
def TableFlags (i : XInstr) : Prop :=
  ∃ r ∈ Avo.Gen.branchOps, r.1 = i.opcode ∧ featureWord i.cf ∈ r.2.1

theorem mov_rows_plain :
    Avo.Gen.branchOps.all (fun r => !(r.1 == "MOVB" || r.1 == "MOVW" || r.1 == "MOVQ") || r.2.1 == [0]) = true := by
  decide +kernel

/-- **`hcf` discharged.** An instruction that `PruneSelfMoves` deletes and whose
flags are those of the form table is neither a return nor a branch: every form of
`MOVB`, `MOVW`, `MOVQ` has the feature word 0 in the regenerated table. -/
theorem selfMove_not_cf (i : XInstr) (hs : isSelfMove i = true) (ht : TableFlags i) :
    i.cf.isTerminal = false ∧ i.cf.isBranch = false := by
  obtain ⟨r, hr, hop, hw⟩ := ht
  have hrow := (List.all_eq_true.mp mov_rows_plain) r hr
  have hopc : (r.1 == "MOVB" || r.1 == "MOVW" || r.1 == "MOVQ") = true := by
    unfold isSelfMove at hs
    simp only [Bool.and_eq_true] at hs
    rw [hop]; exact hs.1
  simp only [hopc, Bool.not_true, Bool.false_or, beq_iff_eq] at hrow
  rw [hrow] at hw
  have h0 : featureWord i.cf = 0 := by simpa using hw
  unfold featureWord at h0
  cases h1 : i.cf.isTerminal <;> cases h2 : i.cf.isBranch <;> cases h3 : i.cf.isCond <;> simp_all

/-- Non-vacuity: `MOVQ RAX, RAX` with the table's flags. -/
example : TableFlags ⟨0, ⟨false, false, false, none⟩, "MOVQ", [.reg ⟨256, 15⟩, .reg ⟨256, 15⟩]⟩ := by
  refine ⟨("MOVQ", [0], false), ?_, rfl, by simp [featureWord]⟩
  decide +kernel

end Avo.Cleanup
