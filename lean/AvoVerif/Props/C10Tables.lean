/-
C10 on facts regenerated from pass/pass.go and pass/cleanup.go.
-/
import AvoVerif.Props.C10
import AvoVerif.Gen.PassFacts
namespace Avo.Cleanup

/-- The pass pipeline is the one the models assume: jumps and labels are pruned
before labels are bound and the CFG is built; self-moves are pruned after
binding and verification; liveness sees zero-extended 32-bit outputs. -/
theorem compile_order : Avo.Gen.compileOrder =
    ["InstructionPass(VerifyMemOperands)", "FunctionPass(PruneJumpToFollowingLabel)", "FunctionPass(PruneDanglingLabels)",
     "FunctionPass(LabelTarget)", "FunctionPass(CFG)", "InstructionPass(ZeroExtend32BitOutputs)",
     "FunctionPass(Liveness)", "FunctionPass(AllocateRegisters)", "FunctionPass(BindRegisters)",
     "FunctionPass(VerifyAllocation)", "FunctionPass(EnsureBasePointerCalleeSaved)",
     "Func(IncludeTextFlagHeader)", "FunctionPass(PruneSelfMoves)", "FunctionPass(RequiredISAExtensions)"] := by
  decide

/-- The opcodes PruneSelfMoves considers are exactly those of the model's
`isSelfMove` (no MOVL: a 32-bit self-move clears the upper half). -/
theorem selfmove_opcodes : Avo.Gen.selfMoveOpcodes = ["MOVB", "MOVW", "MOVQ"] := by decide

end Avo.Cleanup
