/-
C02, termination: the liveness iteration of `pass.Liveness` stops.  Every
sweep that reports a change adds at least one (instruction, in/out, register,
lane) fact, facts are never removed, and every fact that can ever hold concerns
a lane read by some instruction — a finite factUniverse.
-/
import AvoVerif.Props.C02
namespace Avo.Live
open Avo.Reg Avo.MaskSet Avo.LiveBool

/-! ### Strictness of MaskSet operations -/

theorem and_ne_exists (a m : Nat) (h : a &&& m ≠ m) : ∃ lane, m.testBit lane = true ∧ a.testBit lane = false := by
  apply Classical.byContradiction
  intro hn
  apply h
  apply Nat.eq_of_testBit_eq
  intro i
  rw [Nat.testBit_and]
  cases hm : m.testBit i with
  | false => simp
  | true =>
    cases ha : a.testBit i with
    | true => rfl
    | false => exact absurd ⟨i, hm, ha⟩ hn

theorem add_strict (s : MS) (id m : Nat) (h : (add s id m).2 = true) :
    ∃ lane, mem (add s id m).1 id lane = true ∧ mem s id lane = false := by
  have hne : ¬ (MaskSet.get s id &&& m = m) := by
    intro he
    have := (add_flag s id m).mpr he
    rw [this] at h; cases h
  obtain ⟨lane, hm, ha⟩ := and_ne_exists _ _ hne
  refine ⟨lane, ?_, ha⟩
  rw [mem_add]; simp [hm]

theorem add_mono (s : MS) (id m j lane : Nat) (h : mem s j lane = true) : mem (add s id m).1 j lane = true := by
  rw [mem_add, h]; rfl

theorem update_mono (s t : MS) (j lane : Nat) (h : mem s j lane = true) : mem (update s t).1 j lane = true := by
  rw [mem_update, h]; rfl

theorem update_strict (s t : MS) (h : (update s t).2 = true) :
    ∃ id lane, mem (update s t).1 id lane = true ∧ mem s id lane = false := by
  induction t generalizing s with
  | nil => simp [update] at h
  | cons p t ih =>
    rcases p with ⟨k, v⟩
    simp only [update, Bool.or_eq_true] at h ⊢
    rcases h with h | h
    · obtain ⟨lane, h1, h2⟩ := add_strict s k v h
      exact ⟨k, lane, update_mono _ _ _ _ h1, h2⟩
    · obtain ⟨id, lane, h1, h2⟩ := ih _ h
      refine ⟨id, lane, h1, ?_⟩
      cases hs : mem s id lane with
      | false => rfl
      | true => rw [add_mono s k v id lane hs] at h2; cases h2

theorem outLoop_mono (ins : Array MS) (j lane : Nat) : ∀ (ss : List (Option Nat)) (acc : MS × Bool),
    mem acc.1 j lane = true → mem (outLoop ins acc ss).1 j lane = true := by
  intro ss acc h; rw [outLoop_mem, h]; rfl

theorem outLoop_strict (ins : Array MS) : ∀ (ss : List (Option Nat)) (acc : MS × Bool),
    (outLoop ins acc ss).2 = true → acc.2 = true ∨
      ∃ id lane, mem (outLoop ins acc ss).1 id lane = true ∧ mem acc.1 id lane = false
  | [], acc, h => Or.inl (by simpa [outLoop] using h)
  | none :: ss, acc, h => by simp only [outLoop] at h ⊢; exact outLoop_strict ins ss acc h
  | some s :: ss, acc, h => by
    simp only [outLoop] at h ⊢
    rcases outLoop_strict ins ss _ h with h1 | ⟨id, lane, h1, h2⟩
    · simp only [Bool.or_eq_true] at h1
      rcases h1 with h1 | h1
      · left; exact h1
      · right
        obtain ⟨id, lane, h3, h4⟩ := update_strict _ _ h1
        exact ⟨id, lane, outLoop_mono ins id lane ss _ h3, h4⟩
    · right
      refine ⟨id, lane, h1, ?_⟩
      cases hs : mem acc.1 id lane with
      | false => rfl
      | true => simp only at h2; rw [update_mono _ _ _ _ hs] at h2; cases h2

/-! ### Facts -/

def holds (st : LState) (f : Fact) : Bool :=
  if f.2.1 then mem (getMS st.outs f.1) f.2.2.1 f.2.2.2 else mem (getMS st.ins f.1) f.2.2.1 f.2.2.2

def MonoSt (st st' : LState) : Prop := ∀ f, holds st f = true → holds st' f = true

theorem visit_mono (P : LProg) (st : LState) (i : Nat) : MonoSt st (visit P st i).1 := by
  intro f hf
  rcases f with ⟨j, b, id, lane⟩
  unfold holds at hf ⊢
  unfold visit
  cases b with
  | true =>
    simp only [if_true] at hf ⊢
    rw [getMS_set]
    split
    · rename_i hc; rw [hc.1] at hf
      exact outLoop_mono _ _ _ _ _ hf
    · exact hf
  | false =>
    simp only [Bool.false_eq_true, if_false] at hf ⊢
    rw [getMS_set]
    split
    · rename_i hc; rw [hc.1] at hf
      exact update_mono _ _ _ _ hf
    · exact hf

theorem visit_strict (P : LProg) (st : LState) (i : Nat) (h1 : i < st.ins.size) (h2 : i < st.outs.size)
    (h : (visit P st i).2 = true) : ∃ f, holds st f = false ∧ holds (visit P st i).1 f = true := by
  unfold visit at h
  simp only [Bool.or_eq_true] at h
  rcases h with h | h
  · rcases outLoop_strict _ _ _ h with h' | ⟨id, lane, ha, hb⟩
    · cases h'
    · refine ⟨(i, true, id, lane), ?_, ?_⟩
      · unfold holds; simpa using hb
      · unfold holds visit; simp only [if_true]
        rw [getMS_set, if_pos ⟨rfl, h2⟩]; exact ha
  · obtain ⟨id, lane, ha, hb⟩ := update_strict _ _ h
    refine ⟨(i, false, id, lane), ?_, ?_⟩
    · unfold holds; simpa using hb
    · unfold holds visit; simp only [Bool.false_eq_true, if_false]
      rw [getMS_set, if_pos ⟨rfl, h1⟩]; exact ha

theorem sweep_mono (P : LProg) : ∀ (is : List Nat) (st : LState), MonoSt st (sweep P is st).1
  | [], _ => fun _ h => h
  | i :: is, st => fun f hf => sweep_mono P is _ f (visit_mono P st i f hf)

theorem sweep_strict (P : LProg) : ∀ (is : List Nat) (st : LState), (∀ i ∈ is, i < P.size) → Sized P st →
    (sweep P is st).2 = true → ∃ f, holds st f = false ∧ holds (sweep P is st).1 f = true
  | [], _, _, _, h => by simp [sweep] at h
  | i :: is, st, hlt, hsz, h => by
    simp only [sweep, Bool.or_eq_true] at h ⊢
    have hi := hlt i List.mem_cons_self
    rcases h with h | h
    · obtain ⟨f, ha, hb⟩ := visit_strict P st i (by rw [hsz.1]; exact hi) (by rw [hsz.2]; exact hi) h
      exact ⟨f, ha, sweep_mono P is _ f hb⟩
    · obtain ⟨f, ha, hb⟩ := sweep_strict P is _ (fun j hj => hlt j (List.mem_cons_of_mem _ hj)) (visit_sized P st i hsz) h
      refine ⟨f, ?_, hb⟩
      cases hs : holds st f with
      | false => rfl
      | true => rw [visit_mono P st i f hs] at ha; cases ha

/-! ### Counting -/

theorem filter_length_lt {α} (U : List α) (p q : α → Bool) (hpq : ∀ x, p x = true → q x = true)
    (x : α) (hx : x ∈ U) (hp : p x = false) (hq : q x = true) :
    (U.filter p).length < (U.filter q).length := by
  induction U with
  | nil => cases hx
  | cons y ys ih =>
    simp only [List.filter_cons]
    have hle : (ys.filter p).length ≤ (ys.filter q).length := by
      clear ih hx
      induction ys with
      | nil => simp
      | cons z zs ihz =>
        simp only [List.filter_cons]
        cases hpz : p z with
        | true => simp [hpq z hpz]; exact ihz
        | false => cases q z <;> simp <;> omega
    rcases List.mem_cons.mp hx with rfl | hx
    · simp [hp, hq]; omega
    · have := ih hx
      cases hpy : p y with
      | true => simp [hpq y hpy]; exact this
      | false => cases q y <;> simp <;> omega

def count (U : List Fact) (st : LState) : Nat := (U.filter (holds st)).length

theorem testBit_lt' (m l : Nat) (h : m.testBit l = true) : l < m + 1 := by
  have h1 := Nat.ge_two_pow_of_testBit h
  have h2 : l < 2 ^ l := Nat.lt_two_pow_self
  omega

theorem liveIn_has_use (Q : LiveBool.Prog) (i : Nat) (h : LiveIn Q i) : ∃ j, Q.use j = true := by
  induction h with
  | here hu => exact ⟨_, hu⟩
  | step _ _ _ ih => exact ih

theorem use_in_useLocs (P : LProg) (id lane j : Nat) (h : (progAt P id lane).use j = true) :
    (id, lane) ∈ useLocs P := by
  simp only [progAt, List.any_eq_true, covers, Bool.and_eq_true, beq_iff_eq] at h
  obtain ⟨r, hr, hid, hbit⟩ := h
  have hj : j < P.size := by
    apply Classical.byContradiction; intro hn
    have : P.getD j default = default := by
      simp [Array.getD_eq_getD_getElem?, Array.getElem?_eq_none (Nat.le_of_not_lt hn)]
    rw [this] at hr; cases hr
  have hmem : P.getD j default ∈ P.toList := by
    have : P.getD j default = P[j] := by simp [Array.getD_eq_getD_getElem?, hj]
    rw [this]; exact Array.mem_toList_iff.mpr (Array.getElem_mem hj)
  unfold useLocs
  refine List.mem_flatMap.mpr ⟨_, hmem, List.mem_flatMap.mpr ⟨r, hr, ?_⟩⟩
  refine List.mem_map.mpr ⟨lane, List.mem_filter.mpr ⟨List.mem_range.mpr (testBit_lt' _ _ hbit), hbit⟩, by rw [hid]⟩

theorem fact_in_factUniverse (P : LProg) (st : LState) (hsz : Sized P st)
    (hs : ∀ id lane, Sound (progAt P id lane) (proj st id lane)) (f : Fact) (h : holds st f = true) :
    f ∈ factUniverse P := by
  rcases f with ⟨i, b, id, lane⟩
  have hi : i < P.size := by
    apply Classical.byContradiction; intro hn
    have hge : P.size ≤ i := Nat.le_of_not_lt hn
    unfold holds getMS at h
    cases b with
    | true =>
      have : st.outs.getD i [] = [] := by simp [Array.getD_eq_getD_getElem?, Array.getElem?_eq_none (by rw [hsz.2]; exact hge)]
      simp [this, mem_nil] at h
    | false =>
      have : st.ins.getD i [] = [] := by simp [Array.getD_eq_getD_getElem?, Array.getElem?_eq_none (by rw [hsz.1]; exact hge)]
      simp [this, mem_nil] at h
  have hloc : (id, lane) ∈ useLocs P := by
    cases b with
    | true =>
      have : (proj st id lane).outS i = true := by simpa [holds, proj] using h
      obtain ⟨s, _, hl⟩ := ((hs id lane) i).2 this
      obtain ⟨j, hj⟩ := liveIn_has_use _ _ hl
      exact use_in_useLocs P id lane j hj
    | false =>
      have : (proj st id lane).inS i = true := by simpa [holds, proj] using h
      obtain ⟨j, hj⟩ := liveIn_has_use _ _ (((hs id lane) i).1 this)
      exact use_in_useLocs P id lane j hj
  unfold factUniverse
  refine List.mem_flatMap.mpr ⟨i, List.mem_range.mpr hi, List.mem_flatMap.mpr ⟨b, by cases b <;> simp, ?_⟩⟩
  exact List.mem_map.mpr ⟨(id, lane), hloc, rfl⟩

/-- If the fuel runs out, every one of the `fuel` sweeps added a fact. -/
theorem iter_count (P : LProg) (order : List Nat) (hlt : ∀ i ∈ order, i < P.size) :
    ∀ (fuel : Nat) (st : LState), Sized P st → (∀ id lane, Sound (progAt P id lane) (proj st id lane)) →
      (iter P order fuel st).2 = true →
      count (factUniverse P) st + fuel ≤ (factUniverse P).length
  | 0, st, _, _, _ => by simp [count]; exact List.length_filter_le _ _
  | fuel + 1, st, hsz, hs, h => by
    simp only [iter] at h
    by_cases hc : (sweep P order st).2 = true
    · simp only [hc, if_true] at h
      have hsz' := sweep_sized P order st hsz
      have hs' : ∀ id lane, Sound (progAt P id lane) (proj (sweep P order st).1 id lane) :=
        fun id lane => sweep_sound P id lane order st hlt hsz (hs id lane)
      have ih := iter_count P order hlt fuel _ hsz' hs' h
      obtain ⟨f, ha, hb⟩ := sweep_strict P order st hlt hsz hc
      have hfu := fact_in_factUniverse P _ hsz' hs' f hb
      have hlt' := filter_length_lt (factUniverse P) (holds st) (holds (sweep P order st).1)
        (sweep_mono P order st) f hfu ha hb
      unfold count at ih ⊢
      omega
    · simp [hc] at h

/-- **C02 (termination).** With fuel exceeding the number of facts the analysis
reaches a quiet sweep: `pass.Liveness` terminates on every function. -/
theorem liveness_terminates (P : LProg) :
    (liveness P (fuelBound P)).2 = false := by
  have hlt : ∀ j ∈ order P, j < P.size := fun j hj => (mem_order P j).mp hj
  have hsz : Sized P (initState P) := by simp [Sized, initState]
  have hs0 : ∀ id lane, Sound (progAt P id lane) (proj (initState P) id lane) := by
    intro id lane; rw [proj_init]; intro j; exact ⟨fun h => LiveIn.here h, fun h => by cases h⟩
  cases hf : (liveness P (fuelBound P)).2 with
  | false => rfl
  | true =>
    have := iter_count P (order P) hlt _ _ hsz hs0 hf
    unfold fuelBound at this
    omega

/-- **C02, unconditional.** Combining termination with exactness. -/
theorem liveness_exact_total (P : LProg) (hwf : WF P) (i : Nat) (hi : i < P.size) (id lane : Nat) :
    mem (getMS (liveness P (fuelBound P)).1.ins i) id lane = true ↔ LiveInSpec P i id lane :=
  liveness_exact P hwf _ (liveness_terminates P) i hi id lane

/-- **C02 (live-out), unconditional.** -/
theorem liveout_exact_total (P : LProg) (hwf : WF P) (i : Nat) (hi : i < P.size) (id lane : Nat) :
    mem (getMS (liveness P (fuelBound P)).1.outs i) id lane = true ↔ LiveOutSpec P i id lane :=
  liveout_exact P hwf _ (liveness_terminates P) i hi id lane

/-- Any fuel that lets the analysis stop gives the result of the bound `fuelBound`:
what the driver computes (with `fuelBound`) is what `pass.Liveness` computes when it stops. -/
theorem liveness_fuel_irrelevant (P : LProg) (hwf : WF P) (fuel : Nat) (hstop : (liveness P fuel).2 = false)
    (i : Nat) (hi : i < P.size) (id lane : Nat) :
    mem (getMS (liveness P fuel).1.ins i) id lane =
    mem (getMS (liveness P (fuelBound P)).1.ins i) id lane := by
  have h1 := liveness_exact P hwf fuel hstop i hi id lane
  have h2 := liveness_exact_total P hwf i hi id lane
  cases ha : mem (getMS (liveness P fuel).1.ins i) id lane <;>
  cases hb : mem (getMS (liveness P (fuelBound P)).1.ins i) id lane <;> try rfl
  · exact absurd (h1.mpr (h2.mp hb)) (by simp [ha])
  · exact absurd (h2.mpr (h1.mp ha)) (by simp [hb])

/-- Non-vacuity of the `_total` theorems: a loop with a backward branch, run
with the proved bound `fuelBound` (here 21): well-formed, terminates, `r1`
(id 257) is live around the loop, lane 0 of id 513 is dead before its definition. -/
example :
    let P : LProg := #[⟨[⟨257, 15⟩], [⟨513, 15⟩], [some 1]⟩, ⟨[⟨513, 1⟩], [], [some 0, none]⟩]
    fuelBound P = 21 ∧ (liveness P (fuelBound P)).2 = false ∧
      mem (getMS (liveness P (fuelBound P)).1.outs 1) 257 3 = true ∧
      mem (getMS (liveness P (fuelBound P)).1.ins 0) 513 0 = false := by
  decide +kernel

/-- The hypothesis `WF` of the `_total` theorems holds for that program. -/
example : WF (#[⟨[⟨257, 15⟩], [⟨513, 15⟩], [some 1]⟩, ⟨[⟨513, 1⟩], [], [some 0, none]⟩] : LProg) := by
  intro i hi s hs
  have hi' : i < 2 := hi
  match i, hi' with
  | 0, _ => simp at hs; subst hs; decide
  | 1, _ => simp at hs; subst hs; decide

end Avo.Live
