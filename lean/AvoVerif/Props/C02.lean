/-
C02 — Liveness is exactly the set of register bytes that can still be read.
Statements and property theorems about `Model/Live.lean`.
-/
import AvoVerif.Lemmas.LiveProj
namespace Avo.Live
open Avo.Reg Avo.MaskSet Avo.LiveBool

/-- **Specification.** Byte lane `lane` of register `id` is live before
instruction `i`: some control-flow path from `i` reaches an instruction reading
it with no instruction on the way (strictly before the read) overwriting it. -/
def LiveInSpec (P : LProg) (i id lane : Nat) : Prop := LiveIn (progAt P id lane) i

/-- Live after `i`: live before some successor of `i`. -/
def LiveOutSpec (P : LProg) (i id lane : Nat) : Prop := LiveOut (progAt P id lane) i

/-- The CFG only points at instructions of the function (guaranteed by the CFG
pass, see C09). -/
def WF (P : LProg) : Prop := ∀ i, i < P.size → ∀ s, some s ∈ (P.getD i default).succ → s < P.size

def Sized (P : LProg) (st : LState) : Prop := st.ins.size = P.size ∧ st.outs.size = P.size

theorem visit_sized (P st i) (h : Sized P st) : Sized P (visit P st i).1 := by
  have := visit_size P st i; unfold Sized at *; omega

theorem sweep_sized (P) : ∀ (is : List Nat) (st : LState), Sized P st → Sized P (sweep P is st).1
  | [], _, h => h
  | i :: is, st, h => by simp only [sweep]; exact sweep_sized P is _ (visit_sized P st i h)

theorem sweep_sound (P : LProg) (id lane : Nat) : ∀ (is : List Nat) (st : LState),
    (∀ i ∈ is, i < P.size) → Sized P st →
    Sound (progAt P id lane) (proj st id lane) → Sound (progAt P id lane) (proj (sweep P is st).1 id lane)
  | [], _, _, _, h => h
  | i :: is, st, hlt, hsz, h => by
    simp only [sweep]
    have hi : i < P.size := hlt i List.mem_cons_self
    apply sweep_sound P id lane is _ (fun j hj => hlt j (List.mem_cons_of_mem _ hj)) (visit_sized P st i hsz)
    rw [visit_proj P st i (by rw [hsz.1]; exact hi) (by rw [hsz.2]; exact hi)]
    exact visit_sound _ _ _ h

theorem sweep_infl (P : LProg) (id lane : Nat) : ∀ (is : List Nat) (st : LState),
    (∀ i ∈ is, i < P.size) → Sized P st →
    Infl (progAt P id lane) (proj st id lane) → Infl (progAt P id lane) (proj (sweep P is st).1 id lane)
  | [], _, _, _, h => h
  | i :: is, st, hlt, hsz, h => by
    simp only [sweep]
    have hi : i < P.size := hlt i List.mem_cons_self
    apply sweep_infl P id lane is _ (fun j hj => hlt j (List.mem_cons_of_mem _ hj)) (visit_sized P st i hsz)
    rw [visit_proj P st i (by rw [hsz.1]; exact hi) (by rw [hsz.2]; exact hi)]
    exact visit_infl _ _ _ h

/-- A quiet sweep changes nothing and certifies a fixed point at every visited instruction. -/
theorem sweep_quiet (P : LProg) : ∀ (is : List Nat) (st : LState), (sweep P is st).2 = false →
    (sweep P is st).1 = st ∧ ∀ i ∈ is, ∀ id lane, FixAt (progAt P id lane) (proj st id lane) i
  | [], st, _ => ⟨rfl, by intro i hi; cases hi⟩
  | i :: is, st, h => by
    simp only [sweep, Bool.or_eq_false_iff] at h
    obtain ⟨h1, h2⟩ := h
    obtain ⟨e, f⟩ := visit_quiet P st i h1
    rw [e] at h2
    obtain ⟨g1, g2⟩ := sweep_quiet P is st h2
    simp only [sweep, e]
    refine ⟨g1, ?_⟩
    intro j hj
    rcases List.mem_cons.mp hj with hj | hj
    · subst hj; exact f
    · exact g2 j hj

/-- Invariants carried through the whole iteration, and the fixed point at exit. -/
theorem iter_result (P : LProg) (order : List Nat) (hlt : ∀ i ∈ order, i < P.size) :
    ∀ (fuel : Nat) (st : LState), Sized P st →
      (∀ id lane, Sound (progAt P id lane) (proj st id lane)) →
      (∀ id lane, Infl (progAt P id lane) (proj st id lane)) →
      (iter P order fuel st).2 = false →
      (∀ id lane, Sound (progAt P id lane) (proj (iter P order fuel st).1 id lane)) ∧
      (∀ id lane, Infl (progAt P id lane) (proj (iter P order fuel st).1 id lane)) ∧
      (∀ i ∈ order, ∀ id lane, FixAt (progAt P id lane) (proj (iter P order fuel st).1 id lane) i)
  | 0, st, _, _, _, h => by simp [iter] at h
  | fuel + 1, st, hsz, hs, hi, h => by
    simp only [iter] at h ⊢
    by_cases hc : (sweep P order st).2 = true
    · simp only [hc, if_true] at h ⊢
      exact iter_result P order hlt fuel _ (sweep_sized P order st hsz)
        (fun id lane => sweep_sound P id lane order st hlt hsz (hs id lane))
        (fun id lane => sweep_infl P id lane order st hlt hsz (hi id lane)) h
    · have hc' : (sweep P order st).2 = false := by simpa using hc
      simp only [hc', Bool.false_eq_true, if_false]
      obtain ⟨e, f⟩ := sweep_quiet P order st hc'
      rw [e]
      exact ⟨hs, hi, f⟩

theorem proj_init (P : LProg) (id lane : Nat) :
    proj (initState P) id lane = { inS := (progAt P id lane).use, outS := fun _ => false } := by
  unfold proj initState getMS
  simp only [LiveBool.St.mk.injEq]
  constructor
  · funext i
    simp only [progAt, Array.getD_eq_getD_getElem?, Array.getElem?_map]
    cases h : P[i]? with
    | none =>
      have : (default : LInstr).uses = [] := rfl
      simp [mem_nil, this]
    | some I => simp [mem_ofRegs]; rfl
  · funext i
    simp only [Array.getD_eq_getD_getElem?, Array.getElem?_map]
    cases h : P[i]? <;> simp [mem_nil]

theorem closed_of_wf (P : LProg) (h : WF P) (id lane : Nat) :
    Closed (progAt P id lane) (· < P.size) := by
  intro i hi s hs
  simp only [progAt, List.mem_filterMap] at hs
  obtain ⟨x, hx, rfl⟩ := hs
  exact h i hi s hx

theorem mem_order (P : LProg) (i : Nat) : i ∈ order P ↔ i < P.size := by simp [order]

/-- **C02 (live-in).** When the analysis terminates, a register byte is
reported live before an instruction **iff** some path from there reaches a read
of it with no intervening overwrite. Holds for every CFG (loops, unreachable
code, fall-off-the-end) and every mask combination. -/
theorem liveness_exact (P : LProg) (hwf : WF P) (fuel : Nat) (hstop : (liveness P fuel).2 = false)
    (i : Nat) (hi : i < P.size) (id lane : Nat) :
    mem (getMS (liveness P fuel).1.ins i) id lane = true ↔ LiveInSpec P i id lane := by
  have hlt : ∀ j ∈ order P, j < P.size := fun j hj => (mem_order P j).mp hj
  have hsz : Sized P (initState P) := by simp [Sized, initState]
  have hs0 : ∀ id lane, Sound (progAt P id lane) (proj (initState P) id lane) := by
    intro id lane; rw [proj_init]; intro j; exact ⟨fun h => LiveIn.here h, fun h => by cases h⟩
  have hi0 : ∀ id lane, Infl (progAt P id lane) (proj (initState P) id lane) := by
    intro id lane; rw [proj_init]; intro j hj; exact hj
  obtain ⟨hs, hinf, hfix⟩ := iter_result P (order P) hlt fuel _ hsz hs0 hi0 hstop
  constructor
  · exact ((hs id lane) i).1
  · intro hl
    exact complete_of_fix (progAt P id lane) (· < P.size) _ (closed_of_wf P hwf id lane) (hinf id lane)
      (fun j hj => hfix j ((mem_order P j).mpr hj) id lane) i hl hi

/-- **C02 (live-out).** -/
theorem liveout_exact (P : LProg) (hwf : WF P) (fuel : Nat) (hstop : (liveness P fuel).2 = false)
    (i : Nat) (hi : i < P.size) (id lane : Nat) :
    mem (getMS (liveness P fuel).1.outs i) id lane = true ↔ LiveOutSpec P i id lane := by
  have hlt : ∀ j ∈ order P, j < P.size := fun j hj => (mem_order P j).mp hj
  have hsz : Sized P (initState P) := by simp [Sized, initState]
  have hs0 : ∀ id lane, Sound (progAt P id lane) (proj (initState P) id lane) := by
    intro id lane; rw [proj_init]; intro j; exact ⟨fun h => LiveIn.here h, fun h => by cases h⟩
  have hi0 : ∀ id lane, Infl (progAt P id lane) (proj (initState P) id lane) := by
    intro id lane; rw [proj_init]; intro j hj; exact hj
  obtain ⟨hs, hinf, hfix⟩ := iter_result P (order P) hlt fuel _ hsz hs0 hi0 hstop
  constructor
  · exact ((hs id lane) i).2
  · intro hl
    exact liveOut_of_fix (progAt P id lane) (· < P.size) _ (closed_of_wf P hwf id lane) (hinf id lane)
      (fun j hj => hfix j ((mem_order P j).mpr hj) id lane) i hi hl

/-- **C02 (order independence).** The result does not depend on the order in
which instructions are visited (any order covering all instructions), hence not
on how the analysis schedules its sweeps. -/
theorem liveness_order_irrelevant (P : LProg) (hwf : WF P) (o1 o2 : List Nat)
    (h1 : ∀ i, i ∈ o1 ↔ i < P.size) (h2 : ∀ i, i ∈ o2 ↔ i < P.size) (f1 f2 : Nat)
    (s1 : (iter P o1 f1 (initState P)).2 = false) (s2 : (iter P o2 f2 (initState P)).2 = false)
    (i : Nat) (hi : i < P.size) (id lane : Nat) :
    mem (getMS (iter P o1 f1 (initState P)).1.ins i) id lane =
    mem (getMS (iter P o2 f2 (initState P)).1.ins i) id lane := by
  have hsz : Sized P (initState P) := by simp [Sized, initState]
  have hs0 : ∀ id lane, Sound (progAt P id lane) (proj (initState P) id lane) := by
    intro id lane; rw [proj_init]; intro j; exact ⟨fun h => LiveIn.here h, fun h => by cases h⟩
  have hi0 : ∀ id lane, Infl (progAt P id lane) (proj (initState P) id lane) := by
    intro id lane; rw [proj_init]; intro j hj; exact hj
  obtain ⟨hsa, hia, hfa⟩ := iter_result P o1 (fun j hj => (h1 j).mp hj) f1 _ hsz hs0 hi0 s1
  obtain ⟨hsb, hib, hfb⟩ := iter_result P o2 (fun j hj => (h2 j).mp hj) f2 _ hsz hs0 hi0 s2
  have ca := complete_of_fix (progAt P id lane) (· < P.size) _ (closed_of_wf P hwf id lane) (hia id lane)
      (fun j hj => hfa j ((h1 j).mpr hj) id lane) i
  have cb := complete_of_fix (progAt P id lane) (· < P.size) _ (closed_of_wf P hwf id lane) (hib id lane)
      (fun j hj => hfb j ((h2 j).mpr hj) id lane) i
  have sa := ((hsa id lane) i).1
  have sb := ((hsb id lane) i).1
  cases ha : mem (getMS (iter P o1 f1 (initState P)).1.ins i) id lane <;>
  cases hb : mem (getMS (iter P o2 f2 (initState P)).1.ins i) id lane <;> try rfl
  · exact absurd (ca (sb hb) hi) (by simp [proj, ha])
  · exact absurd (cb (sa ha) hi) (by simp [proj, hb])

/-- Non-vacuity: a two-instruction loop; `r1` (id 257, low 8 bytes) is read by
instruction 0, written by nothing, so it is live everywhere; the analysis
terminates within the fuel. -/
example :
    let P : LProg := #[⟨[⟨257, 15⟩], [⟨513, 15⟩], [some 1]⟩, ⟨[⟨513, 1⟩], [], [some 0, none]⟩]
    (liveness P 10).2 = false ∧ mem (getMS (liveness P 10).1.outs 1) 257 3 = true ∧
      mem (getMS (liveness P 10).1.ins 0) 513 0 = false := by
  decide +kernel

end Avo.Live
