import AvoVerif.Props.C04Rows
import AvoVerif.Gen.FormActions_05
namespace Avo.FormActions.Tables
open Avo.FormActions Avo.Gen
/-- every row of shard 5 of the regenerated form table passes every structural check -/
theorem shard_05 : formActions_05.all rowOK = true := by decide +kernel
end Avo.FormActions.Tables
