/-
C19 — Attribute flags print to an expression with the same numeric value.
Statements and property theorems only.
-/
import AvoVerif.Model.Attr
namespace Avo.Attr

/-- Every flag name avo may print is a macro of the header with the value of
the bit avo prints it for (decidable; instantiated on the regenerated tables in
`Props/C19Tables.lean`). -/
def Consistent (names : List (Nat × String)) (hdr : List (String × Nat)) : Prop :=
  ∀ i, i < 16 → ∀ n, lookupName names (2 ^ i) = some n → hdrValue hdr n = some (2 ^ i)

instance (names hdr) : Decidable (Consistent names hdr) := by
  unfold Consistent; exact inferInstanceAs (Decidable (∀ i, i < 16 → ∀ n, _ → _))

/-- OR of the bit positions in `is`. -/
def maskOf : List Nat → BitVec 16
  | [] => 0#16
  | i :: is => (1#16 <<< i) ||| maskOf is

theorem and_bit_set (a : BitVec 16) (i : Nat) (h : a.getLsbD i = true) :
    a &&& (1#16 <<< i) = 1#16 <<< i := by
  apply BitVec.eq_of_getLsbD_eq
  intro j hj
  simp only [BitVec.getLsbD_and, BitVec.getLsbD_shiftLeft, BitVec.getLsbD_one]
  by_cases hji : j = i
  · subst hji; simp [h, hj]
  · have : ¬ (j - i = 0 ∧ ¬ j < i) := by omega
    by_cases hlt : j < i <;> simp [hlt] <;> omega

theorem and_bit_clear (a : BitVec 16) (i : Nat) (h : a.getLsbD i = false) :
    a &&& (1#16 <<< i) = 0#16 := by
  apply BitVec.eq_of_getLsbD_eq
  intro j hj
  simp only [BitVec.getLsbD_and, BitVec.getLsbD_shiftLeft, BitVec.getLsbD_one]
  by_cases hji : j = i
  · subst hji; simp [h]
  · by_cases hlt : j < i <;> simp [hlt] <;> omega

theorem ofNat_two_pow (i : Nat) : BitVec.ofNat 16 (2 ^ i) = 1#16 <<< i := by
  apply BitVec.eq_of_toNat_eq
  simp [BitVec.toNat_shiftLeft, Nat.shiftLeft_eq]

/-- Value of the split result when printed as tokens and evaluated. -/
def evalSplit (hdr : List (String × Nat)) (r : List String × BitVec 16) : Option (BitVec 16) :=
  match evalToks hdr (r.1.map Tok.name) with
  | some v => some (v ||| r.2)
  | none => none

theorem evalSplit_splitBits (names hdr) (a : BitVec 16) (is : List Nat)
    (hc : Consistent names hdr) (hlt : ∀ i ∈ is, i < 16) :
    evalSplit hdr (splitBits names a is) = some (a &&& maskOf is) := by
  induction is with
  | nil => simp [splitBits, evalSplit, evalToks, maskOf]
  | cons i is ih =>
    have ih := ih (fun j hj => hlt j (List.mem_cons_of_mem _ hj))
    have hi : i < 16 := hlt i List.mem_cons_self
    simp only [splitBits, maskOf]
    by_cases hb : a.getLsbD i = true
    · simp only [hb, if_true]
      cases hn : lookupName names (2 ^ i) with
      | some n =>
        have hv := hc i hi n hn
        simp only [evalSplit, List.map_cons, evalToks, hv] at ih ⊢
        cases he : evalToks hdr (List.map Tok.name (splitBits names a is).1) with
        | none => simp [he] at ih
        | some v =>
          simp only [he] at ih ⊢
          injection ih with ih
          simp only [ofNat_two_pow, BitVec.and_or_distrib_left, and_bit_set a i hb, ← ih, BitVec.or_assoc]
      | none =>
        simp only [evalSplit] at ih ⊢
        cases he : evalToks hdr (List.map Tok.name (splitBits names a is).1) with
        | none => simp [he] at ih
        | some v =>
          simp only [he] at ih ⊢
          injection ih with ih
          simp only [BitVec.and_or_distrib_left, and_bit_set a i hb, ← ih]
          ac_rfl
    · have hb' : a.getLsbD i = false := by simpa using hb
      simp only [hb', Bool.false_eq_true, if_false]
      rw [ih]
      simp [BitVec.and_or_distrib_left, and_bit_clear a i hb']

theorem maskOf_range16 : maskOf (List.range 16) = 0xFFFF#16 := by decide

theorem evalToks_append_num (hdr) (ns : List String) (v : Nat) :
    evalToks hdr (ns.map Tok.name ++ [Tok.num v]) =
      (evalToks hdr (ns.map Tok.name)).map (· ||| BitVec.ofNat 16 v) := by
  induction ns with
  | nil => simp [evalToks]
  | cons n ns ih =>
    simp only [List.map_cons, List.cons_append, evalToks, ih]
    cases hdrValue hdr n <;> cases evalToks hdr (List.map Tok.name ns) <;> simp [BitVec.or_assoc]

/-- **C19 (value).** For every attribute bit pattern the printed expression,
evaluated with the header's macro values, is exactly that bit pattern. -/
theorem attr_value (names hdr) (hc : Consistent names hdr) (a : BitVec 16) :
    evalToks hdr (asmToks names a) = some a := by
  have h := evalSplit_splitBits names hdr a (List.range 16) hc
    (fun i hi => List.mem_range.mp hi)
  rw [maskOf_range16] at h
  have ha : a &&& 0xFFFF#16 = a := by
    have : (0xFFFF#16) = BitVec.allOnes 16 := by decide
    rw [this, BitVec.and_allOnes]
  rw [ha] at h
  unfold asmToks split
  simp only [evalSplit] at h
  generalize splitBits names a (List.range 16) = r at h ⊢
  rcases r with ⟨fl, rest⟩
  simp only at h ⊢
  cases he : evalToks hdr (List.map Tok.name fl) with
  | none => simp [he] at h
  | some v =>
    simp only [he] at h; injection h with h
    by_cases hcond : (fl.isEmpty || rest != 0#16) = true
    · simp only [hcond, if_true, evalToks_append_num, he, Option.map]
      simp [h]
    · have hz : rest = 0#16 := by
        simp at hcond; exact hcond.2
      have hv : v = a := by simpa [hz] using h
      simp [hcond, he, hv]

/-- **C19 (TEXT directive).** The clause is omitted exactly for the zero
pattern (whose value is then the assembler's default 0). -/
theorem text_clause_value (names hdr) (hc : Consistent names hdr) (a : BitVec 16) :
    (match textClause names a with
     | none => some 0#16
     | some ts => evalToks hdr ts) = some a := by
  unfold textClause
  by_cases h : a = 0#16
  · simp [h]
  · simp [h, attr_value names hdr hc a]

/-- **C19 (include).** The printed expression uses a macro name iff
`ContainsTextFlags` reports so. -/
theorem attr_include (names) (a : BitVec 16) :
    usesMacro (asmToks names a) = containsTextFlags names a := by
  unfold usesMacro asmToks containsTextFlags
  generalize split names a = r
  rcases r with ⟨fl, rest⟩
  cases fl with
  | nil => simp
  | cons n ns => by_cases h : rest != 0#16 <;> simp [h]

/-- **C19 (pass).** After `IncludeTextFlagHeader` the header is included iff
it already was or some section's printed attribute uses a macro name; and the
pass never adds a second copy. -/
theorem include_pass (names) (incl : List String) (secs : List (BitVec 16)) :
    (textflagHeader ∈ includeTextFlagHeader names incl secs ↔
      (textflagHeader ∈ incl ∨ ∃ a ∈ secs, usesMacro (asmToks names a) = true)) ∧
    (includeTextFlagHeader names incl secs).count textflagHeader ≤ max 1 (incl.count textflagHeader) := by
  unfold includeTextFlagHeader
  by_cases h1 : incl.contains textflagHeader = true
  · have hm : textflagHeader ∈ incl := by simpa using h1
    simp [hm]
  · have hm : textflagHeader ∉ incl := by simpa using h1
    simp only [h1]
    by_cases h2 : secs.any (containsTextFlags names) = true
    · have : ∃ a ∈ secs, usesMacro (asmToks names a) = true := by
        simpa [attr_include] using h2
      simp [h2, hm, this, List.count_eq_zero_of_not_mem hm]
    · have : ¬ ∃ a ∈ secs, usesMacro (asmToks names a) = true := by
        simpa [attr_include] using h2
      simp [h2, hm, this, List.count_eq_zero_of_not_mem hm]

/-- Non-vacuity: a concrete consistent table and a mixed bit pattern. -/
example : Consistent [(4, "NOSPLIT"), (8, "RODATA")] [("NOSPLIT", 4), ("RODATA", 8)] := by decide
example : asmToks [(4, "NOSPLIT"), (8, "RODATA")] 0x8d#16 = [.name "NOSPLIT", .name "RODATA", .num 129] := by decide

end Avo.Attr
