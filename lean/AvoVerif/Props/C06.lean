/-
C06 — all instruction entry points accept exactly the documented forms and agree.

Generic part (all operand lists, all tables): properties of `build`
(first match), of `addinstruction`, of argument forwarding, of the streaming
join used to judge the regenerated tables, and the bridge from "the
documentation rows are the admitted forms" to "accepted iff some documented
form matches".  The instantiation on the regenerated tables is in
Props/C06Tables.lean.
-/
import AvoVerif.Model.Instr
namespace Avo.Instr

/-! ## `build`: accepted iff some form matches; built from the first match -/

/-- **Acceptance.** `build` succeeds exactly when some form of the list matches. -/
theorem build_isSome_iff (M : Meta) (forms : List Form) (s : Sfx) (ops : List Operand) :
    (build M forms s ops).isSome = true ↔ ∃ f ∈ forms, f.matches M s ops = true := by
  unfold build
  cases h : forms.find? (fun f => f.matches M s ops) with
  | none =>
    simp only [Option.isSome_none, Bool.false_eq_true, false_iff]
    rintro ⟨f, hf, hm⟩
    have := List.find?_eq_none.mp h f hf
    simp [hm] at this
  | some f =>
    simp only [Option.isSome_some, true_iff]
    exact ⟨f, List.mem_of_find?_eq_some h, by simpa using List.find?_some h⟩

/-- **Rejection.** `build` fails exactly when no form matches. -/
theorem build_eq_none_iff (M : Meta) (forms : List Form) (s : Sfx) (ops : List Operand) :
    build M forms s ops = none ↔ ∀ f ∈ forms, f.matches M s ops = false := by
  unfold build
  cases h : forms.find? (fun f => f.matches M s ops) with
  | none =>
    simp only [true_iff]
    intro f hf
    have := List.find?_eq_none.mp h f hf
    simpa using this
  | some f =>
    simp only [reduceCtorEq, false_iff]
    intro hall
    have h1 := hall f (List.mem_of_find?_eq_some h)
    have h2 : f.matches M s ops = true := by simpa using List.find?_some h
    rw [h1] at h2; cases h2

/-- **First match.** The instruction is built from the first matching form. -/
theorem build_first (M : Meta) (forms : List Form) (s : Sfx) (ops : List Operand) (i : Instr)
    (h : build M forms s ops = some i) :
    ∃ pre f post, forms = pre ++ f :: post ∧ (∀ g ∈ pre, g.matches M s ops = false) ∧
      f.matches M s ops = true ∧ i = f.instr M s ops := by
  unfold build at h
  cases hf : forms.find? (fun f => f.matches M s ops) with
  | none => rw [hf] at h; cases h
  | some f =>
    rw [hf] at h
    obtain ⟨hp, pre, post, hsplit, hpre⟩ := List.find?_eq_some_iff_append.mp hf
    refine ⟨pre, f, post, hsplit, ?_, by simpa using hp, ?_⟩
    · intro g hg; simpa using hpre g hg
    · cases h; rfl

/-- The built instruction carries the requested opcode's code, the requested
suffixes and the operands in the given order; flags and ISA come from the form. -/
theorem instr_fields (M : Meta) (f : Form) (s : Sfx) (ops : List Operand) :
    (f.instr M s ops).opc = f.opc ∧ (f.instr M s ops).sfx = s ∧ (f.instr M s ops).operands = ops ∧
    (f.instr M s ops).isa = f.isa := by
  simp [Form.instr]

/-- **Operands in the given order.** -/
theorem build_operands (M : Meta) (forms : List Form) (s : Sfx) (ops : List Operand) (i : Instr)
    (h : build M forms s ops = some i) :
    i.operands = ops ∧ i.sfx = s ∧ ∃ f ∈ forms, i.opc = f.opc ∧ f.matches M s ops = true := by
  obtain ⟨pre, f, post, hsplit, _, hm, hi⟩ := build_first M forms s ops i h
  subst hi
  refine ⟨(instr_fields M f s ops).2.2.1, (instr_fields M f s ops).2.1, f, ?_, (instr_fields M f s ops).1, hm⟩
  rw [hsplit]; simp

example : ∃ M forms s ops i, build M forms s ops = some i ∧ i.operands = ops ∧ ops ≠ [] :=
  ⟨{ (default : Meta) with oprndTypes := [(0, OpClass.rel32.checker)], sffxsClsSets := [[(0, 0)]] },
   [⟨1, 1, 0, 1, 1, [⟨1, false, 0⟩]⟩], (0, 0), [.rel 5], _, rfl, rfl, by simp⟩

/-! ## Branch / terminal attributes -/

/-- The statement behind `attrsOK`, declaratively: an instruction is terminal
exactly when its mnemonic is `RET`, a branch exactly when the mnemonic starts
with `J`, and conditional exactly when it is such a jump other than `JMP`. -/
def AttrSpec (k : Nat) (terminal branch conditional : Bool) : Prop :=
  (terminal = true ↔ k = kRET) ∧ (branch = true ↔ firstByte k = 0x4A) ∧
  (conditional = true ↔ (firstByte k = 0x4A ∧ k ≠ kJMP))

/-- **Soundness of the attribute acceptor** (`accept-attrs` lines). -/
theorem attrsOK_sound (k : Nat) (t b c : Bool) (h : attrsOK k t b c = true) : AttrSpec k t b c := by
  unfold attrsOK specFeat at h
  simp only [Bool.and_eq_true, beq_iff_eq] at h
  obtain ⟨⟨ht, hb⟩, hc⟩ := h
  subst ht; subst hb; subst hc
  refine ⟨by simp, by simp, by simp⟩

/-- and completeness: the acceptor rejects nothing that satisfies the statement -/
theorem attrsOK_complete (k : Nat) (t b c : Bool) (h : AttrSpec k t b c) : attrsOK k t b c = true := by
  obtain ⟨ht, hb, hc⟩ := h
  unfold attrsOK specFeat
  cases t <;> cases b <;> cases c <;> simp_all

example : AttrSpec kJMP false true false := attrsOK_sound _ _ _ _ (by decide)
example : AttrSpec kRET true false false := attrsOK_sound _ _ _ _ (by decide)
example : attrsOK kJMP false false false = false := by decide

/-- **Attributes of a built instruction.** If every form of the list carries
the features of its mnemonic, so does every instruction `build` returns:
terminal / branch / conditional are what the mnemonic says, whichever form
matched (an indirect `JMP` is a branch like a relative one). -/
theorem build_attrs (M : Meta) (forms : List Form) (s : Sfx) (ops : List Operand) (i : Instr)
    (h : build M forms s ops = some i) (hf : ∀ f ∈ forms, f.featOK M = true) :
    AttrSpec (Name.key (opcString M i.opc)) i.isTerminal i.isBranch i.isConditional := by
  obtain ⟨pre, f, post, hsplit, _, _, hi⟩ := build_first M forms s ops i h
  subst hi
  have hmem : f ∈ forms := by rw [hsplit]; simp
  have := hf f hmem
  unfold Form.featOK at this
  exact attrsOK_sound _ _ _ _ (by simpa [Form.instr] using this)

/-! ## No panic: a matched well-formed form always builds -/

theorem io_no_panic (M : Meta) : ∀ (specs : List FOp) (ops : List Operand),
    (∀ s ∈ specs, s.impl = true → (implReg M s.ty).isSome = true) →
    specs.countP (fun s => !s.impl) ≤ ops.length → (io M specs ops).2.2 = false := by
  intro specs
  induction specs with
  | nil => intro ops _ _; simp [io]
  | cons sp specs ih =>
    intro ops himpl hcnt
    unfold io
    by_cases hty : (sp.ty == 0) = true
    · simp [hty]
    · simp only [hty, Bool.false_eq_true, if_false]
      have himpl' : ∀ s ∈ specs, s.impl = true → (implReg M s.ty).isSome = true :=
        fun s hs => himpl s (List.mem_cons_of_mem _ hs)
      cases hi : sp.impl with
      | true =>
        have hsome := himpl sp (List.mem_cons_self) hi
        have hc : specs.countP (fun s => !s.impl) ≤ ops.length := by
          simpa [List.countP_cons, hi] using hcnt
        cases hr : implReg M sp.ty with
        | none => rw [hr] at hsome; cases hsome
        | some r =>
          simp only [if_true, Option.map_some]
          have := ih ops himpl' hc
          simp only [this]
      | false =>
        cases ops with
        | nil => simp [hi] at hcnt
        | cons o os =>
          have hc : specs.countP (fun s => !s.impl) ≤ os.length := by
            simp [hi] at hcnt; omega
          simp only [Bool.false_eq_true, if_false]
          have := ih os himpl' hc
          simp only [this]

/-- **A matching well-formed form never panics** in `form.build`: every
implicit code names a register and there are exactly as many explicit entries
as operands. -/
theorem instr_no_panic (M : Meta) (f : Form) (s : Sfx) (ops : List Operand)
    (hwf : f.wf M = true) (hm : f.matches M s ops = true) : (f.instr M s ops).panics = false := by
  unfold Form.wf at hwf
  simp only [Bool.and_eq_true, List.all_eq_true, decide_eq_true_eq, Bool.not_eq_true'] at hwf
  obtain ⟨⟨⟨⟨⟨harity, _⟩, htake⟩, hdrop⟩, _⟩, _⟩ := hwf
  unfold Form.matches at hm
  simp only [Bool.and_eq_true, beq_iff_eq] at hm
  obtain ⟨⟨_, hlen⟩, _⟩ := hm
  have hsplit : f.ops = f.ops.take f.arity ++ f.ops.drop f.arity := (List.take_append_drop _ _).symm
  show (io M f.ops ops).2.2 = false
  apply io_no_panic
  · intro sp hsp himpl
    rw [hsplit] at hsp
    rcases List.mem_append.mp hsp with h | h
    · have := (htake sp h).1.1; rw [himpl] at this; cases this
    · exact (hdrop sp h).1.2
  · rw [hsplit, List.countP_append]
    have h1 : (f.ops.take f.arity).countP (fun s => !s.impl) ≤ f.arity := by
      calc _ ≤ (f.ops.take f.arity).length := List.countP_le_length
        _ ≤ f.arity := by simp [List.length_take]; omega
    have h2 : (f.ops.drop f.arity).countP (fun s => !s.impl) = 0 := by
      apply List.countP_eq_zero.mpr
      intro sp hsp
      have := (hdrop sp hsp).1.1
      simp [this]
    omega

theorem build_no_panic (M : Meta) (forms : List Form) (s : Sfx) (ops : List Operand) (i : Instr)
    (h : build M forms s ops = some i) (hwf : ∀ f ∈ forms, f.wf M = true) : i.panics = false := by
  obtain ⟨pre, f, post, hsplit, _, hm, hi⟩ := build_first M forms s ops i h
  subst hi
  exact instr_no_panic M f s ops (hwf f (by rw [hsplit]; simp)) hm

/-! ## `addinstruction` -/

/-- On success exactly one node is appended and the error count is unchanged. -/
theorem addinstruction_ok (c : Ctx) (i : Instr) :
    (addinstruction c (some i)).nodes = c.nodes ++ [i] ∧ (addinstruction c (some i)).errs = c.errs := by
  simp [addinstruction]

/-- On error the node list is unchanged and the error count grows by one. -/
theorem addinstruction_err (c : Ctx) :
    (addinstruction c none).nodes = c.nodes ∧ (addinstruction c none).errs = c.errs + 1 := by
  simp [addinstruction]

/-! ## Argument forwarding -/

/-- Evaluate a list of argument identifiers in the environment that binds the
parameters (in declaration order) to the actual arguments. -/
def bindArgs {α} (params : List Nat) (actuals : List α) (args : List Nat) : Option (List α) :=
  allSome (args.map (fun a => (params.zip actuals).lookup a))

/-- The slice a wrapper passes on, given its parameter list, the identifiers it
forwards and the actual arguments of the call (`none`: ill-formed call). -/
def callArgs {α} (params : List Nat) (variadic : Bool) (args : List Nat) (whole : Bool)
    (actuals : List α) : Option (List α) :=
  if variadic then
    match params, args with
    | [p], [a] => if whole && a == p then some actuals else none
    | _, _ => none
  else if whole then none
  else if params.length != actuals.length then none
  else bindArgs params actuals args

theorem allSome_map_some {α} (xs : List α) : allSome (xs.map some) = some xs := by
  induction xs with
  | nil => rfl
  | cons x xs ih => simp [allSome, ih]

theorem bindArgs_self {α} : ∀ (params : List Nat) (actuals : List α), params.Nodup →
    params.length = actuals.length → bindArgs params actuals params = some actuals := by
  intro params
  induction params with
  | nil => intro actuals _ hl; cases actuals <;> simp_all [bindArgs, allSome]
  | cons p ps ih =>
    intro actuals hn hl
    cases actuals with
    | nil => simp at hl
    | cons x xs =>
      have hn' := List.nodup_cons.mp hn
      have hl' : ps.length = xs.length := by simpa using hl
      have ih' := ih xs hn'.2 hl'
      unfold bindArgs at ih' ⊢
      simp only [List.zip_cons_cons, List.map_cons, List.lookup_cons_self]
      have hmap : ps.map (fun a => List.lookup a ((p, x) :: ps.zip xs)) = ps.map (fun a => List.lookup a (ps.zip xs)) := by
        apply List.map_congr_left
        intro a ha
        have hne : (a == p) = false := by
          have : a ≠ p := fun h => hn'.1 (h ▸ ha)
          simpa using this
        simp [List.lookup_cons, hne]
      rw [hmap]
      simp [allSome, ih']

/-- **Operands are forwarded in the given order.** A wrapper whose body passes
its parameters in declaration order (or its variadic slice) hands over exactly
the caller's operand list. -/
theorem callArgs_forward {α} (params : List Nat) (variadic : Bool) (args : List Nat) (whole : Bool)
    (actuals : List α) (h : forwardsInOrder params variadic args whole = true)
    (hl : variadic = true ∨ params.length = actuals.length) :
    callArgs params variadic args whole actuals = some actuals := by
  unfold forwardsInOrder at h
  unfold callArgs
  cases variadic with
  | true =>
    simp only [if_true, Bool.and_eq_true, beq_iff_eq] at h ⊢
    obtain ⟨⟨hw, hlen⟩, hargs⟩ := h
    match params, hlen, hargs with
    | [p], _, hargs => subst hargs; simp [hw]
  | false =>
    simp only [Bool.false_eq_true, if_false, Bool.and_eq_true, Bool.not_eq_true', beq_iff_eq,
      decide_eq_true_eq] at h ⊢
    obtain ⟨⟨hw, hargs⟩, hnd⟩ := h
    have hlen : params.length = actuals.length := by
      cases hl with
      | inl h => cases h
      | inr h => exact h
    subst hargs
    simp [hw, hlen, bindArgs_self args actuals hnd hlen]

example : callArgs [7, 9] false [7, 9] false [Operand.rel 1, Operand.rel 2] = some [.rel 1, .rel 2] := by decide
example : callArgs [7, 9] false [9, 7] false [Operand.rel 1, Operand.rel 2] = some [.rel 2, .rel 1] := by decide

/-! ## The three layers -/

/-- The x86 constructor of row `c` over the forms `grp` of its opcode. -/
def ctorCall (M : Meta) (grp : List Form) (c : CtorRow) (actuals : List Operand) : Option (Option Instr) :=
  match sfxOf M c.sfxConsts, callArgs c.params c.variadic c.args c.argsIsSlice actuals with
  | some s, some xs => some (build M grp s xs)
  | _, _ => none

/-- `func (c *Context) X(params) { c.addinstruction(x86.X(args)) }` -/
def methodCall (ctor : List Operand → Option (Option Instr)) (w : WrapRow) (ctx : Ctx)
    (actuals : List Operand) : Option Ctx :=
  (callArgs w.params w.variadic w.args w.spread actuals).bind (fun xs => (ctor xs).map (addinstruction ctx))

/-- `func X(params) { ctx.X(args) }` on the global context `g` -/
def globalCall (method : Ctx → List Operand → Option Ctx) (w : WrapRow) (g : Ctx)
    (actuals : List Operand) : Option Ctx :=
  (callArgs w.params w.variadic w.args w.spread actuals).bind (method g)

/-- **The three layers agree.** When the rows have the recognised shapes, the
constructor returns `build grp s actuals`, and the Context method and the
package-level function both apply `addinstruction` to that same result. -/
theorem layers_agree (M : Meta) (k : Nat) (e : OpcEntry) (grp : List Form) (c : CtorRow) (m g : WrapRow)
    (hc : ctorOK M k e grp c = true) (hm : m.methodOK = true) (hg : g.globalOK = true)
    (hmp : m.params.length = c.params.length) (hgp : g.params.length = c.params.length)
    (hmv : m.variadic = c.variadic) (hgv : g.variadic = c.variadic)
    (actuals : List Operand) (hl : c.variadic = true ∨ c.params.length = actuals.length) (ctx : Ctx) :
    ∃ s, sfxOf M c.sfxConsts = some s ∧
      ctorCall M grp c actuals = some (build M grp s actuals) ∧
      methodCall (ctorCall M grp c) m ctx actuals = some (addinstruction ctx (build M grp s actuals)) ∧
      globalCall (methodCall (ctorCall M grp c) m) g ctx actuals = some (addinstruction ctx (build M grp s actuals)) := by
  unfold ctorOK at hc
  simp only [Bool.and_eq_true] at hc
  obtain ⟨⟨_, hfwd⟩, hrest⟩ := hc
  cases hs : sfxOf M c.sfxConsts with
  | none => rw [hs] at hrest; cases hrest
  | some s =>
    have hca := callArgs_forward c.params c.variadic c.args c.argsIsSlice actuals hfwd hl
    have hctor : ctorCall M grp c actuals = some (build M grp s actuals) := by
      unfold ctorCall; rw [hs, hca]
    unfold WrapRow.methodOK at hm
    unfold WrapRow.globalOK at hg
    simp only [Bool.and_eq_true] at hm hg
    have hma := callArgs_forward m.params m.variadic m.args m.spread actuals hm.2 (by rw [hmv, hmp]; exact hl)
    have hga := callArgs_forward g.params g.variadic g.args g.spread actuals hg.2 (by rw [hgv, hgp]; exact hl)
    have hmeth : methodCall (ctorCall M grp c) m ctx actuals = some (addinstruction ctx (build M grp s actuals)) := by
      unfold methodCall; rw [hma]; simp [hctor]
    refine ⟨s, rfl, hctor, hmeth, ?_⟩
    unfold globalCall; rw [hga]; simpa using hmeth

/-! ## Documentation rows ↔ matching forms -/

theorem ofDoc_doc : ∀ c : OpClass, OpClass.ofDoc c.doc = some c := by
  intro c; cases c <;> decide

theorem allSome_eq_some {α} : ∀ (xs : List (Option α)) (ys : List α), allSome xs = some ys → xs = ys.map some := by
  intro xs
  induction xs with
  | nil => intro ys h; simp [allSome] at h; subst h; rfl
  | cons x xs ih =>
    intro ys h
    cases x with
    | none => simp [allSome] at h
    | some a =>
      simp only [allSome, Option.map_eq_some_iff] at h
      obtain ⟨zs, hz, rfl⟩ := h
      rw [ih zs hz]; rfl

theorem allSome_ofDoc_doc (cs : List OpClass) : allSome ((cs.map OpClass.doc).map OpClass.ofDoc) = some cs := by
  induction cs with
  | nil => rfl
  | cons c cs ih => simp only [List.map_cons, ofDoc_doc, allSome]; simp at ih; simp [ih]

/-- a matching code and the class it denotes -/
theorem matchCode_of_specClass (M : Meta) (sp : FOp) (c : OpClass) (o : Operand)
    (h : specClass M sp = some c) : matchCode M sp.ty o = c.holds o := by
  unfold specClass at h
  unfold matchCode
  cases ht : sp.ty with
  | zero => rw [ht] at h; cases h
  | succ t =>
    rw [ht] at h
    simp only at h ⊢
    cases hq : M.oprndTypes[t]? with
    | none => rw [hq] at h; cases h
    | some pr => rw [hq] at h; simp only at h ⊢; rw [h]

theorem tuple_matches_specs (M : Meta) : ∀ (specs : List FOp) (cls : List OpClass) (ops : List Operand),
    allSome (specs.map (specClass M)) = some cls →
    tupleMatches cls ops = ((ops.length == specs.length) && matchAll M specs ops) := by
  intro specs
  induction specs with
  | nil =>
    intro cls ops h
    simp [allSome] at h; subst h
    cases ops <;> simp [tupleMatches, matchAll]
  | cons sp specs ih =>
    intro cls ops h
    simp only [List.map_cons] at h
    cases hc : specClass M sp with
    | none => rw [hc] at h; simp [allSome] at h
    | some c =>
      rw [hc] at h
      simp only [allSome, Option.map_eq_some_iff] at h
      obtain ⟨cs, hcs, rfl⟩ := h
      cases ops with
      | nil => simp [tupleMatches, matchAll]
      | cons o os =>
        simp only [tupleMatches, matchAll, List.length_cons, ih cs os hcs, matchCode_of_specClass M sp c o hc]
        cases c.holds o <;> simp

theorem matchAll_take (M : Meta) : ∀ (specs : List FOp) (ops : List Operand),
    matchAll M specs ops = matchAll M (specs.take ops.length) ops := by
  intro specs
  induction specs with
  | nil => intro ops; simp
  | cons sp specs ih =>
    intro ops
    cases ops with
    | nil => simp [matchAll]
    | cons o os => simp only [matchAll, List.length_cons, List.take_succ_cons, ← ih os]

/-- For a well-formed form whose explicit operand classes are `cls`, the
operand test of `form.match` is the tuple test on `cls`. -/
theorem tuple_matches_form (M : Meta) (f : Form) (cls : List OpClass) (ops : List Operand)
    (hwf : f.arity ≤ f.ops.length) (hc : f.classList M = some cls) :
    tupleMatches cls ops = ((ops.length == f.arity) && matchAll M f.ops ops) := by
  unfold Form.classList at hc
  have h1 := tuple_matches_specs M (f.ops.take f.arity) cls ops hc
  have hlen : (f.ops.take f.arity).length = f.arity := by simp [List.length_take]; omega
  rw [h1, hlen]
  by_cases hl : ops.length = f.arity
  · rw [matchAll_take M f.ops ops, hl]
  · have : (ops.length == f.arity) = false := by simpa using hl
    simp [this]

/-- **Accepted iff documented.** If the documentation rows of a function with
mnemonic key `mn` and suffixes `s` are (a permutation of) the forms of `grp`
admitted under `s`, then some form of `grp` matches the operands under `s`
exactly when some documentation row, read as a tuple of operand classes,
matches them. -/
theorem documented_iff_matches (M : Meta) (mn : Nat) (s : Sfx) (grp : List Form) (doc : List (List Nat))
    (hwf : ∀ f ∈ grp, f.arity ≤ f.ops.length)
    (hdoc : docOK M mn s grp doc = true) (ops : List Operand) :
    (∃ f ∈ grp, f.matches M s ops = true) ↔
    (∃ row ∈ doc, ∃ cls, parseDoc row = some (mn, cls) ∧ tupleMatches cls ops = true) := by
  unfold docOK at hdoc
  simp only [Bool.and_eq_true, List.all_eq_true] at hdoc
  obtain ⟨⟨hsome, hmn⟩, hperm⟩ := hdoc
  have hperm' := List.isPerm_iff.mp hperm
  constructor
  · rintro ⟨f, hf, hm⟩
    unfold Form.matches at hm
    simp only [Bool.and_eq_true] at hm
    obtain ⟨⟨hadm, hlen⟩, hall⟩ := hm
    have hmem : f.docWords M ∈ expectedRows M s grp := by
      unfold expectedRows
      exact List.mem_map.mpr ⟨f, List.mem_filter.mpr ⟨hf, hadm⟩, rfl⟩
    have hs := hsome _ hmem
    cases hw : f.docWords M with
    | none => rw [hw] at hs; cases hs
    | some ws =>
      unfold Form.docWords at hw
      cases hcl : f.classList M with
      | none => rw [hcl] at hw; cases hw
      | some cls =>
        rw [hcl] at hw
        simp only [Option.map_some, Option.some.injEq] at hw
        have hmem2 : some ws ∈ doc.map (fun r => some r.tail) := by
          apply (hperm'.mem_iff).mpr
          have : f.docWords M = some ws := by unfold Form.docWords; rw [hcl]; simp [hw]
          rw [← this]; exact hmem
        obtain ⟨row, hrow, htail⟩ := List.mem_map.mp hmem2
        have hhead := hmn row hrow
        cases row with
        | nil => simp at hhead
        | cons m ts =>
          simp only [beq_iff_eq] at hhead
          simp only [List.tail_cons, Option.some.injEq] at htail
          refine ⟨m :: ts, hrow, cls, ?_, ?_⟩
          · unfold parseDoc
            simp only
            rw [htail, ← hw, allSome_ofDoc_doc, hhead]; rfl
          · rw [tuple_matches_form M f cls ops (hwf f hf) hcl, hlen, hall]; rfl
  · rintro ⟨row, hrow, cls, hparse, htm⟩
    cases row with
    | nil => simp [parseDoc] at hparse
    | cons m ts =>
      unfold parseDoc at hparse
      simp only [Option.map_eq_some_iff, Prod.mk.injEq] at hparse
      obtain ⟨cls', hall, _, rfl⟩ := hparse
      have hmem2 : some ts ∈ doc.map (fun r => some r.tail) := List.mem_map.mpr ⟨m :: ts, hrow, rfl⟩
      have hmem : some ts ∈ expectedRows M s grp := (hperm'.mem_iff).mp hmem2
      unfold expectedRows at hmem
      obtain ⟨f, hf, hfw⟩ := List.mem_map.mp hmem
      obtain ⟨hfg, hadm⟩ := List.mem_filter.mp hf
      unfold Form.docWords at hfw
      cases hcl : f.classList M with
      | none => rw [hcl] at hfw; cases hfw
      | some cls2 =>
        rw [hcl] at hfw
        simp only [Option.map_some, Option.some.injEq] at hfw
        have heq : cls2 = cls' := by
          have := allSome_ofDoc_doc cls2
          rw [hfw, hall] at this
          exact (Option.some.inj this).symm
        subst heq
        refine ⟨f, hfg, ?_⟩
        have := tuple_matches_form M f cls2 ops (hwf f hfg) hcl
        rw [htm] at this
        unfold Form.matches
        simp only [Bool.and_eq_true]
        have h2 : (ops.length == f.arity) = true ∧ matchAll M f.ops ops = true := by
          simpa using this.symm
        exact ⟨⟨hadm, h2.1⟩, h2.2⟩

/-! ## Soundness of the streaming join -/

theorem mem_takeWhile_imp' {α} {p : α → Bool} {l : List α} {a : α} (h : a ∈ l.takeWhile p) : p a = true :=
  List.all_eq_true.mp List.all_takeWhile a h

theorem filter_takeWhile_self {α} (p : α → Bool) (l : List α) : (l.takeWhile p).filter p = l.takeWhile p := by
  apply List.filter_eq_self.mpr
  intro a ha
  exact mem_takeWhile_imp' ha

/-- What `ctorPass` establishes: every remaining form has an opcode code in
range, every constructor row is judged by `P` against the entry of its opcode
constant and *all* forms with that opcode code, and every entry's
`opcformstable` range is exactly the block of forms with its code. -/
theorem ctorPass_sound (P : Nat → OpcEntry → List Form → CtorRow → Bool) :
    ∀ (es : List OpcEntry) (k pos : Nat) (fs : List Form) (cs : List CtorRow),
    ctorPass P k pos es fs cs = true →
    (∀ f ∈ fs, k ≤ f.opc ∧ f.opc < k + es.length) ∧
    (∀ c ∈ cs, ∃ i e, es[i]? = some e ∧ c.opcConst = e.ident ∧
        P (k + i) e (fs.filter (fun f => f.opc == k + i)) c = true) ∧
    (∀ i e, es[i]? = some e → ∀ pre : List Form, pre.length = pos →
        ((pre ++ fs).drop e.lo).take (e.hi - e.lo) = fs.filter (fun f => f.opc == k + i)) := by
  intro es
  induction es with
  | nil =>
    intro k pos fs cs h
    simp only [ctorPass, Bool.and_eq_true, List.isEmpty_iff] at h
    obtain ⟨rfl, rfl⟩ := h
    simp
  | cons e es ih =>
    intro k pos fs cs h
    simp only [ctorPass, Bool.and_eq_true, beq_iff_eq, List.all_eq_true] at h
    obtain ⟨⟨hlo, hhi⟩, hmine, hrec⟩ := h
    obtain ⟨iha, ihb, ihc⟩ := ih (k+1) _ _ _ hrec
    -- abbreviations
    have hfs : fs.takeWhile (fun f => f.opc == k) ++ fs.dropWhile (fun f => f.opc == k) = fs :=
      List.takeWhile_append_dropWhile
    have hcs : cs.takeWhile (fun c => c.opcConst == e.ident) ++ cs.dropWhile (fun c => c.opcConst == e.ident) = cs :=
      List.takeWhile_append_dropWhile
    have hgrp : ∀ f ∈ fs.takeWhile (fun f => f.opc == k), f.opc = k := by
      intro f hf; simpa using mem_takeWhile_imp' hf
    -- L1: the block with code k is the taken prefix
    have L1 : fs.filter (fun f => f.opc == k) = fs.takeWhile (fun f => f.opc == k) := by
      conv => lhs; rw [← hfs]
      rw [List.filter_append, filter_takeWhile_self]
      have : (fs.dropWhile (fun f => f.opc == k)).filter (fun f => f.opc == k) = [] := by
        apply List.filter_eq_nil_iff.mpr
        intro f hf
        have := (iha f hf).1
        simp; omega
      rw [this, List.append_nil]
    -- L2: later blocks lie entirely in the rest
    have L2 : ∀ j, fs.filter (fun f => f.opc == k + (j + 1)) =
        (fs.dropWhile (fun f => f.opc == k)).filter (fun f => f.opc == k + 1 + j) := by
      intro j
      conv => lhs; rw [← hfs]
      rw [List.filter_append]
      have : (fs.takeWhile (fun f => f.opc == k)).filter (fun f => f.opc == k + (j + 1)) = [] := by
        apply List.filter_eq_nil_iff.mpr
        intro f hf
        have := hgrp f hf
        simp; omega
      rw [this, List.nil_append]
      congr 1
      funext f
      have : k + (j + 1) = k + 1 + j := by omega
      rw [this]
    refine ⟨?_, ?_, ?_⟩
    · intro f hf
      rw [← hfs] at hf
      rcases List.mem_append.mp hf with hf | hf
      · have := hgrp f hf; simp only [List.length_cons]; omega
      · have := iha f hf; simp only [List.length_cons]; omega
    · intro c hc
      rw [← hcs] at hc
      rcases List.mem_append.mp hc with hc | hc
      · refine ⟨0, e, rfl, ?_, ?_⟩
        · simpa using mem_takeWhile_imp' hc
        · simp only [Nat.add_zero]; rw [L1]; exact hmine c hc
      · obtain ⟨i, e', he', hid, hP⟩ := ihb c hc
        refine ⟨i + 1, e', by simpa using he', hid, ?_⟩
        rw [L2 i]
        have : k + (i + 1) = k + 1 + i := by omega
        rw [this]; exact hP
    · intro i e' he' pre hpre
      cases i with
      | zero =>
        simp only [List.getElem?_cons_zero, Option.some.injEq] at he'
        subst he'
        simp only [Nat.add_zero]
        rw [L1, hlo, hhi, ← hpre]
        have : pre.length + (fs.takeWhile (fun f => f.opc == k)).length - pre.length =
            (fs.takeWhile (fun f => f.opc == k)).length := by omega
        rw [this, List.drop_left' rfl]
        conv => lhs; arg 2; rw [← hfs]
        rw [List.take_left' rfl]
      | succ i =>
        simp only [List.getElem?_cons_succ] at he'
        have := ihc i e' he' (pre ++ fs.takeWhile (fun f => f.opc == k)) (by simp [hpre])
        rw [List.append_assoc, hfs] at this
        rw [L2 i]; exact this

end Instr
end Avo
