/-
C19, file level: "... and the header is included whenever the text uses a macro
name", stated over ALL prior include lists and all files, and joined with the
value clause: in the macro environment of the file's OWN include lines (user
headers + what the include pass added) every TEXT / GLOBL attribute clause
evaluates to exactly the section's bit pattern.

An include path counts as the toolchain header only by its exact spelling:
whatever else is in the list ("mytextflag.h", "x/textflag.h", "TEXTFLAG.H",
"textflag.h " ...) the pass must still add "textflag.h" when a section needs
it (`include_pass_exact_spelling`), and that is NECESSARY for the printed text
to mean anything (`header_necessary`).
-/
import AvoVerif.Props.C19
import AvoVerif.Model.AttrFile
namespace Avo.Attr

/-! ### the include pass on arbitrary prior include lists -/

/-- The pass returns the list unchanged or with the header appended, and it
appends only when the header was not in the list. -/
theorem include_pass_shape (names) (incl : List String) (secs : List (BitVec 16)) :
    includeTextFlagHeader names incl secs = incl ∨
    (textflagHeader ∉ incl ∧ includeTextFlagHeader names incl secs = incl ++ [textflagHeader]) := by
  unfold includeTextFlagHeader
  by_cases h1 : incl.contains textflagHeader = true
  · have hm : textflagHeader ∈ incl := by simpa using h1
    left; simp [hm]
  · have hm : textflagHeader ∉ incl := by simpa using h1
    by_cases h2 : secs.any (containsTextFlags names) = true
    · right; simp [h2, hm]
    · left; simp [h2, hm]

/-- Every previous include is kept, in order, in front of anything added. -/
theorem include_pass_keeps (names) (incl : List String) (secs : List (BitVec 16)) :
    incl <+: includeTextFlagHeader names incl secs := by
  rcases include_pass_shape names incl secs with h | ⟨_, h⟩ <;> rw [h]
  · exact List.prefix_refl _
  · exact List.prefix_append _ _

/-- Nothing but the header is ever added. -/
theorem include_pass_adds_only (names) (incl : List String) (secs : List (BitVec 16)) :
    ∀ p ∈ includeTextFlagHeader names incl secs, p ∈ incl ∨ p = textflagHeader := by
  intro p hp
  rcases include_pass_shape names incl secs with h | ⟨_, h⟩ <;> rw [h] at hp
  · exact Or.inl hp
  · rcases List.mem_append.mp hp with h' | h'
    · exact Or.inl h'
    · exact Or.inr (by simpa using h')

/-- Running the pass again changes nothing (pass.Compile may be executed twice
on one file). -/
theorem include_pass_idem (names) (incl : List String) (secs : List (BitVec 16)) :
    includeTextFlagHeader names (includeTextFlagHeader names incl secs) secs =
      includeTextFlagHeader names incl secs := by
  rcases include_pass_shape names incl secs with h | ⟨_, h⟩
  · rw [h]; exact h
  · rw [h]; unfold includeTextFlagHeader; simp

/-- **Exact spelling.**  Whatever else the user's include list holds — near
misses of the header's name included — the header is appended as soon as it is
not itself in the list and a section's printed attribute uses a macro name. -/
theorem include_pass_exact_spelling (names) (incl : List String) (secs : List (BitVec 16))
    (hm : textflagHeader ∉ incl) (hu : ∃ a ∈ secs, usesMacro (asmToks names a) = true) :
    includeTextFlagHeader names incl secs = incl ++ [textflagHeader] := by
  rcases include_pass_shape names incl secs with h | ⟨_, h⟩
  · have := ((include_pass names incl secs).1).mpr (Or.inr hu)
    rw [h] at this; exact absurd this hm
  · exact h

/-- The header is added only when a section needs it. -/
theorem include_pass_needed_only (names) (incl : List String) (secs : List (BitVec 16))
    (hne : includeTextFlagHeader names incl secs ≠ incl) :
    ∃ a ∈ secs, usesMacro (asmToks names a) = true := by
  rcases include_pass_shape names incl secs with h | ⟨hm, h⟩
  · exact absurd h hne
  · have hin : textflagHeader ∈ includeTextFlagHeader names incl secs := by rw [h]; simp
    rcases ((include_pass names incl secs).1).mp hin with h' | h'
    · exact absurd h' hm
    · exact h'

/-! ### the macro environment of a file -/

theorem hdrValue_append (l1 l2 : List (String × Nat)) (n : String) :
    hdrValue (l1 ++ l2) n = (hdrValue l1 n).or (hdrValue l2 n) := by
  unfold hdrValue
  rw [List.find?_append]
  cases List.find? (fun p => p.1 == n) l1 <;> simp

/-- In a file whose other includes do not define `n`, `n` has the toolchain
header's value if "textflag.h" (exactly) is among the includes, and no value at
all otherwise. -/
theorem hdrValue_macroEnv (env : String → List (String × Nat)) (n : String) (incl : List String)
    (hu : ∀ p ∈ incl, p ≠ textflagHeader → hdrValue (env p) n = none) :
    hdrValue (macroEnv env incl) n =
      if textflagHeader ∈ incl then hdrValue (env textflagHeader) n else none := by
  induction incl with
  | nil => simp [macroEnv, hdrValue]
  | cons p ps ih =>
    have ih := ih (fun q hq => hu q (List.mem_cons_of_mem _ hq))
    have hcons : macroEnv env (p :: ps) = env p ++ macroEnv env ps := by simp [macroEnv]
    rw [hcons, hdrValue_append]
    unfold macroEnv at ih ⊢
    rw [ih]
    by_cases hp : p = textflagHeader
    · subst hp
      by_cases hps : textflagHeader ∈ ps
      · simp [hps]
      · simp [hps]
    · have hnone := hu p List.mem_cons_self hp
      have hiff : (textflagHeader ∈ p :: ps) ↔ textflagHeader ∈ ps := by
        constructor
        · intro h
          rcases List.mem_cons.mp h with h | h
          · exact absurd h.symm hp
          · exact h
        · exact List.mem_cons_of_mem _
      rw [hnone]
      by_cases hps : textflagHeader ∈ ps
      · simp [hps]
      · have : textflagHeader ∉ p :: ps := fun h => hps (hiff.mp h)
        simp [hps, this]

/-- Evaluation looks at the header only through the names the text mentions. -/
theorem evalToks_congr (h1 h2 : List (String × Nat)) (ts : List Tok)
    (h : ∀ n, Tok.name n ∈ ts → hdrValue h1 n = hdrValue h2 n) :
    evalToks h1 ts = evalToks h2 ts := by
  induction ts with
  | nil => rfl
  | cons t ts ih =>
    have ih := ih (fun n hn => h n (List.mem_cons_of_mem _ hn))
    cases t with
    | name n => simp only [evalToks, ih, h n List.mem_cons_self]
    | num v => simp only [evalToks, ih]

/-- A macro name without a definition makes the whole expression undefined. -/
theorem evalToks_undefined (hdr : List (String × Nat)) (ts : List Tok) (n : String)
    (hn : Tok.name n ∈ ts) (hv : hdrValue hdr n = none) : evalToks hdr ts = none := by
  induction ts with
  | nil => cases hn
  | cons t ts ih =>
    rcases List.mem_cons.mp hn with h | h
    · subst h; simp [evalToks, hv]
    · have := ih h
      cases t with
      | name m => simp only [evalToks, this]; cases hdrValue hdr m <;> rfl
      | num v => simp only [evalToks, this]

theorem mem_splitBits (names) (a : BitVec 16) (n : String) (is : List Nat)
    (h : n ∈ (splitBits names a is).1) : ∃ i ∈ is, lookupName names (2 ^ i) = some n := by
  induction is with
  | nil => simp [splitBits] at h
  | cons i is ih =>
    simp only [splitBits] at h
    by_cases hb : a.getLsbD i = true
    · simp only [hb, if_true] at h
      cases hl : lookupName names (2 ^ i) with
      | none =>
        simp only [hl] at h
        obtain ⟨j, hj, hjl⟩ := ih h
        exact ⟨j, List.mem_cons_of_mem _ hj, hjl⟩
      | some m =>
        simp only [hl] at h
        rcases List.mem_cons.mp h with h | h
        · exact ⟨i, List.mem_cons_self, by rw [hl, h]⟩
        · obtain ⟨j, hj, hjl⟩ := ih h
          exact ⟨j, List.mem_cons_of_mem _ hj, hjl⟩
    · simp only [hb] at h
      obtain ⟨j, hj, hjl⟩ := ih h
      exact ⟨j, List.mem_cons_of_mem _ hj, hjl⟩

/-- Every macro name avo prints is the name of one of the 16 bits. -/
theorem name_mem_asmToks (names) (a : BitVec 16) (n : String) (h : Tok.name n ∈ asmToks names a) :
    ∃ i, i < 16 ∧ lookupName names (2 ^ i) = some n := by
  unfold asmToks at h
  rcases List.mem_append.mp h with h | h
  · obtain ⟨m, hm, hmn⟩ := List.mem_map.mp h
    injection hmn with hmn
    subst hmn
    obtain ⟨i, hi, hl⟩ := mem_splitBits names a m (List.range 16) hm
    exact ⟨i, List.mem_range.mp hi, hl⟩
  · split at h <;> simp at h

theorem usesMacro_iff (ts : List Tok) : usesMacro ts = true ↔ ∃ n, Tok.name n ∈ ts := by
  unfold usesMacro
  rw [List.any_eq_true]
  constructor
  · rintro ⟨t, ht, h⟩
    cases t with
    | name n => exact ⟨n, ht⟩
    | num v => simp at h
  · rintro ⟨n, hn⟩
    exact ⟨Tok.name n, hn, rfl⟩

/-! ### the statement about a printed file -/

/-- What C19 assumes of the world outside avo: `#include "textflag.h"` resolves
to a header consistent with avo's names, and no OTHER included file defines one
of the flag names avo prints. -/
structure World (names : List (Nat × String)) (hdr : List (String × Nat))
    (env : String → List (String × Nat)) : Prop where
  toolchain : env textflagHeader = hdr
  user : ∀ p, p ≠ textflagHeader → ∀ i, i < 16 → ∀ n, lookupName names (2 ^ i) = some n →
    hdrValue (env p) n = none

/-- **The file statement.**  Every section's printed clause evaluates, in the
macro environment of the file's own include lines, to the section's value. -/
def FileOK (env : String → List (String × Nat)) (incl : List String)
    (secs : List (BitVec 16 × Option (List Tok))) : Prop :=
  ∀ s ∈ secs, clauseValue (macroEnv env incl) s.2 = some s.1

theorem acceptFile_sound (env incl secs) : acceptFile env incl secs = true ↔ FileOK env incl secs := by
  unfold acceptFile FileOK
  simp [List.all_eq_true]

/-- **C19 (file, value).**  After the include pass, for EVERY prior include
list and every list of sections, each section's printed attribute expression
evaluates in the file's own macro environment to exactly its bit pattern. -/
theorem file_value (names hdr env) (hc : Consistent names hdr) (hw : World names hdr env)
    (incl : List String) (secs : List (BitVec 16)) :
    ∀ a ∈ secs, evalToks (macroEnv env (includeTextFlagHeader names incl secs)) (asmToks names a) = some a := by
  intro a ha
  rw [← attr_value names hdr hc a]
  apply evalToks_congr
  intro n hn
  obtain ⟨i, hi, hl⟩ := name_mem_asmToks names a n hn
  rw [hdrValue_macroEnv env n _ (fun p _ hp => hw.user p hp i hi n hl)]
  have hin : textflagHeader ∈ includeTextFlagHeader names incl secs :=
    ((include_pass names incl secs).1).mpr (Or.inr ⟨a, ha, (usesMacro_iff _).mpr ⟨n, hn⟩⟩)
  simp [hin, hw.toolchain]

/-- The clause as the printer writes it: TEXT omits it for 0, GLOBL never. -/
def printedClause (names : List (Nat × String)) (isText : Bool) (a : BitVec 16) : Option (List Tok) :=
  if isText then textClause names a else some (asmToks names a)

/-- **C19 (file).**  The model's printed file — any prior includes, any mix of
functions (`true`) and globals (`false`) — satisfies the file statement. -/
theorem printed_file_ok (names hdr env) (hc : Consistent names hdr) (hw : World names hdr env)
    (incl : List String) (secs : List (Bool × BitVec 16)) :
    FileOK env (includeTextFlagHeader names incl (secs.map (·.2)))
      (secs.map (fun s => (s.2, printedClause names s.1 s.2))) := by
  intro s hs
  obtain ⟨⟨isText, a⟩, hmem, rfl⟩ := List.mem_map.mp hs
  have ha : a ∈ secs.map (·.2) := List.mem_map.mpr ⟨(isText, a), hmem, rfl⟩
  have hv := file_value names hdr env hc hw incl (secs.map (·.2)) a ha
  simp only [printedClause]
  cases isText with
  | false => simpa [clauseValue] using hv
  | true =>
    simp only [if_true, textClause]
    by_cases hz : a = 0#16
    · simp [hz, clauseValue]
    · simpa [hz, clauseValue] using hv

/-- **The header is necessary.**  In a world where only "textflag.h" defines
the flag names, a file whose include list lacks exactly that path gives NO
value to any clause that uses a macro name — however similar its other include
paths look. -/
theorem header_necessary (names hdr env) (hw : World names hdr env) (incl : List String)
    (hm : textflagHeader ∉ incl) (a : BitVec 16) (hu : usesMacro (asmToks names a) = true) :
    evalToks (macroEnv env incl) (asmToks names a) = none := by
  obtain ⟨n, hn⟩ := (usesMacro_iff _).mp hu
  obtain ⟨i, hi, hl⟩ := name_mem_asmToks names a n hn
  apply evalToks_undefined _ _ n hn
  rw [hdrValue_macroEnv env n _ (fun p _ hp => hw.user p hp i hi n hl)]
  simp [hm]

/-- The environment of the generated files is such a world. -/
theorem stdEnv_world (names hdr) : World names hdr (stdEnv hdr) where
  toolchain := by simp [stdEnv]
  user := by
    intro p hp i _ n _
    have : (p == textflagHeader) = false := by simpa using hp
    simp [stdEnv, this, hdrValue]

/-! ### non-vacuity -/

/-- near misses of every kind in front of a function that needs the header -/
example : includeTextFlagHeader [(4, "NOSPLIT"), (8, "RODATA")]
    ["mytextflag.h", "x/textflag.h", "TEXTFLAG.H", "textflag.h ", "textflag.hh", "extflag.h", ""] [0#16, 0x84#16]
    = ["mytextflag.h", "x/textflag.h", "TEXTFLAG.H", "textflag.h ", "textflag.hh", "extflag.h", "", "textflag.h"] := by
  decide

/-- ... and nothing is added when only unnamed bits are set -/
example : includeTextFlagHeader [(4, "NOSPLIT"), (8, "RODATA")] ["mytextflag.h"] [0#16, 0x80#16] = ["mytextflag.h"] := by
  decide

example : acceptFile (stdEnv [("NOSPLIT", 4), ("RODATA", 8)]) ["mytextflag.h", "textflag.h"]
    [(0x84#16, some [.name "NOSPLIT", .num 128]), (0#16, none)] = true := by decide

/-- the file a suffix-matching pass would produce is rejected -/
example : acceptFile (stdEnv [("NOSPLIT", 4), ("RODATA", 8)]) ["mytextflag.h"]
    [(0x84#16, some [.name "NOSPLIT", .num 128])] = false := by decide

end Avo.Attr
