/-
C07 — Argument and result addresses match the Go compiler's stack layout.
Statements and property theorems about `Model/Layout.lean`.
-/
import AvoVerif.Model.Layout
namespace Avo.Layout

/-! ## Arithmetic of alignment -/

/-- The alignments that occur on amd64. -/
def IsAlign (a : Nat) : Prop := a = 1 ∨ a = 2 ∨ a = 4 ∨ a = 8

theorem alignUp_ge {a : Nat} (h : IsAlign a) (x : Nat) : x ≤ alignUp x a := by
  rcases h with rfl | rfl | rfl | rfl <;> simp only [alignUp] <;> omega

theorem alignUp_lt {a : Nat} (h : IsAlign a) (x : Nat) : alignUp x a < x + a := by
  rcases h with rfl | rfl | rfl | rfl <;> simp only [alignUp] <;> omega

theorem alignUp_mod {a : Nat} (h : IsAlign a) (x : Nat) : alignUp x a % a = 0 := by
  rcases h with rfl | rfl | rfl | rfl <;> simp only [alignUp] <;> omega

theorem alignUp_of_mod {a : Nat} (h : IsAlign a) {x : Nat} (hx : x % a = 0) : alignUp x a = x := by
  rcases h with rfl | rfl | rfl | rfl <;> simp only [alignUp] <;> omega

/-- asmdecl's `-offset & (align-1)` padding is go/types' `align`. -/
theorem asmAlign_eq {a : Nat} (h : IsAlign a) (x : Nat) : asmAlign x a = alignUp x a := by
  rcases h with rfl | rfl | rfl | rfl <;> simp only [alignUp, asmAlign] <;> omega

theorem alignUp_add8 {a : Nat} (h : IsAlign a) {b : Nat} (hb : b % 8 = 0) (x : Nat) :
    alignUp (b + x) a = b + alignUp x a := by
  rcases h with rfl | rfl | rfl | rfl <;> simp only [alignUp] <;> omega

theorem isAlign_max {a b : Nat} (ha : IsAlign a) (hb : IsAlign b) : IsAlign (Nat.max a b) := by
  rcases ha with rfl | rfl | rfl | rfl <;> rcases hb with rfl | rfl | rfl | rfl <;> simp [IsAlign]

/-! ## Facts about the gc layout -/

mutual
theorem alignof_isAlign : (t : Ty) → IsAlign (alignof t)
  | .basic b => by cases b <;> simp [alignof, Basic.align, Basic.size, IsAlign]
  | .ptr _ => by simp [alignof, IsAlign]
  | .slice _ => by simp [alignof, IsAlign]
  | .array _ e => by simp only [alignof]; exact alignof_isAlign e
  | .struct fs => by simp only [alignof]; exact fieldsAlign_isAlign fs
  | .named _ u => by simp only [alignof]; exact alignof_isAlign u
theorem fieldsAlign_isAlign : (fs : Fields) → IsAlign (fieldsAlign fs)
  | .nil => by simp [fieldsAlign, IsAlign]
  | .cons _ t r => by
    simp only [fieldsAlign]
    exact isAlign_max (alignof_isAlign t) (fieldsAlign_isAlign r)
end

/-- Every size is a multiple of the type's alignment. -/
theorem sizeof_mod_alignof : (t : Ty) → sizeof t % alignof t = 0
  | .basic b => by cases b <;> simp [sizeof, alignof, Basic.align, Basic.size]
  | .ptr _ => by simp [sizeof, alignof]
  | .slice _ => by simp [sizeof, alignof]
  | .array n e => by
    simp only [sizeof, alignof]
    have ih := sizeof_mod_alignof e
    obtain ⟨k, hk⟩ := Nat.dvd_of_mod_eq_zero ih
    rw [hk, ← Nat.mul_assoc, Nat.mul_comm n, Nat.mul_assoc]
    exact Nat.mul_mod_right _ _
  | .struct fs => by
    simp only [sizeof, alignof]
    exact alignUp_mod (fieldsAlign_isAlign fs) _
  | .named _ u => by simp only [sizeof, alignof]; exact sizeof_mod_alignof u

theorem sizeof_under : (t : Ty) → sizeof t.under = sizeof t
  | .named _ u => by simp only [Ty.under, sizeof]; exact sizeof_under u
  | .basic _ | .ptr _ | .slice _ | .array .. | .struct _ => by simp [Ty.under]

theorem alignof_under : (t : Ty) → alignof t.under = alignof t
  | .named _ u => by simp only [Ty.under, alignof]; exact alignof_under u
  | .basic _ | .ptr _ | .slice _ | .array .. | .struct _ => by simp [Ty.under]

theorem under_not_named : (t : Ty) → ∀ n u, t.under ≠ .named n u
  | .named _ u => by simp only [Ty.under]; exact under_not_named u
  | .basic _ | .ptr _ | .slice _ | .array .. | .struct _ => by simp [Ty.under]

theorem under_under (t : Ty) : t.under.under = t.under := by
  cases h : t.under with
  | named n u => exact absurd h (under_not_named t n u)
  | _ => simp [Ty.under]

theorem fieldsEnd_ge : (fs : Fields) → ∀ offs, offs ≤ fieldsEnd fs offs
  | .nil, offs => by simp [fieldsEnd]
  | .cons _ t r, offs => by
    simp only [fieldsEnd]
    have h1 := alignUp_ge (alignof_isAlign t) offs
    split
    · split <;> omega
    · have := fieldsEnd_ge r (alignUp offs (alignof t) + sizeof t); omega

/-- A field found by `Field` lies between the running offset and the end of the fields. -/
theorem fieldAt_bound : (fs : Fields) → ∀ name run o t, fieldAt fs name run = some (o, t) →
    run ≤ o ∧ o + sizeof t ≤ fieldsEnd fs run
  | .nil, _, _, _, _, h => by simp [fieldAt] at h
  | .cons n ft r, name, run, o, t, h => by
    simp only [fieldAt] at h
    have h1 := alignUp_ge (alignof_isAlign ft) run
    simp only [fieldsEnd]
    split at h
    · simp only [Option.some.injEq, Prod.mk.injEq] at h
      obtain ⟨rfl, rfl⟩ := h
      refine ⟨h1, ?_⟩
      split
      · split <;> omega
      · have := fieldsEnd_ge r (alignUp run (alignof ft) + sizeof ft); omega
    · have ih := fieldAt_bound r name _ o t h
      cases r with
      | nil => simp [fieldAt] at h
      | cons n2 t2 r2 =>
        simp only [Fields.isNil, Bool.false_eq_true, if_false]
        omega

theorem field_inside {fs : Fields} {name : Name} {o : Nat} {t : Ty} (h : fieldAt fs name 0 = some (o, t)) :
    o + sizeof t ≤ sizeof (.struct fs) := by
  have h1 := (fieldAt_bound fs name 0 o t h).2
  have h2 := alignUp_ge (fieldsAlign_isAlign fs) (fieldsEnd fs 0)
  simp only [sizeof]; omega

theorem elemSize_eq (e : Ty) : elemSize e = sizeof e := by
  simp only [elemSize, sizeof]; omega

theorem asmElemOff_eq (e : Ty) : asmElemOff e = sizeof e := by
  have h := alignUp_of_mod (alignof_isAlign e) (sizeof_mod_alignof e)
  have h0 : alignUp 0 (alignof e) = 0 := alignUp_of_mod (alignof_isAlign e) (Nat.zero_mod _)
  simp [asmElemOff, offsetsFrom, h0, h]

theorem sliceHdrOffsets_eq : sliceHdrOffsets = [0, 8, 16] := by decide

/-! ## Facts about the asmdecl component list -/

theorem comps_under : (t : Ty) → ∀ suf off, comps t.under suf off = comps t suf off
  | .named _ u => by intro suf off; simp only [Ty.under, comps]; exact comps_under u suf off
  | .basic _ | .ptr _ | .slice _ | .array .. | .struct _ => by simp [Ty.under]

theorem asmKind_under : (t : Ty) → asmKind t.under = asmKind t
  | .named _ u => by simp only [Ty.under, asmKind]; exact asmKind_under u
  | .basic _ | .ptr _ | .slice _ | .array .. | .struct _ => by simp [Ty.under]

/-- The first component of a type is the type itself. -/
theorem comps_head : (t : Ty) → ∀ suf off, (⟨suf, asmKind t, off, sizeof t⟩ : AsmComp) ∈ comps t suf off
  | .basic b => by intro suf off; simp [comps, sizeof]
  | .ptr _ => by intro suf off; simp [comps, sizeof, asmKind]
  | .slice _ => by intro suf off; simp [comps, sizeof, asmKind]
  | .array .. => by intro suf off; simp [comps, asmKind]
  | .struct _ => by intro suf off; simp [comps, asmKind]
  | .named _ u => by intro suf off; simp only [comps, asmKind, sizeof]; exact comps_head u suf off

theorem fieldAt_comps : (fs : Fields) → ∀ name run o t suf off, fieldAt fs name run = some (o, t) →
    ∀ x ∈ comps t (suf ++ '_' :: name) (off + o), x ∈ compsFields fs suf off run
  | .nil, _, _, _, _, _, _, h => by simp [fieldAt] at h
  | .cons n ft r, name, run, o, t, suf, off, h => by
    intro x hx
    simp only [fieldAt] at h
    simp only [compsFields, List.mem_append]
    split at h
    · rename_i hn
      simp only [Option.some.injEq, Prod.mk.injEq] at h
      obtain ⟨rfl, rfl⟩ := h
      subst hn
      exact Or.inl hx
    · exact Or.inr (fieldAt_comps r name _ o t suf off h x hx)

theorem fieldAt_fieldTy : (fs : Fields) → ∀ name run o t, fieldAt fs name run = some (o, t) → fieldTy fs name = some t
  | .nil, _, _, _, _, h => by simp [fieldAt] at h
  | .cons n ft r, name, run, o, t, h => by
    simp only [fieldAt] at h
    simp only [fieldTy]
    split at h
    · rename_i hn
      simp only [Option.some.injEq, Prod.mk.injEq] at h
      simp [hn, h.2]
    · rename_i hn
      simp only [hn, if_false]
      exact fieldAt_fieldTy r name _ o t h

theorem fieldTy_fieldAt : (fs : Fields) → ∀ name run t, fieldTy fs name = some t → ∃ o, fieldAt fs name run = some (o, t)
  | .nil, _, _, _, h => by simp [fieldTy] at h
  | .cons n ft r, name, run, t, h => by
    simp only [fieldTy] at h
    simp only [fieldAt]
    split at h
    · rename_i hn
      simp only [Option.some.injEq] at h
      exact ⟨alignUp run (alignof ft), by simp [hn, h]⟩
    · rename_i hn
      simp only [hn, if_false]
      exact fieldTy_fieldAt r name _ t h

theorem fieldAt_none_of_fieldTy : (fs : Fields) → ∀ name run, fieldTy fs name = none → fieldAt fs name run = none
  | .nil, _, _, _ => by simp [fieldAt]
  | .cons n ft r, name, run, h => by
    simp only [fieldTy] at h
    simp only [fieldAt]
    split at h
    · simp at h
    · rename_i hn
      simp only [hn, if_false]
      exact fieldAt_none_of_fieldTy r name _ h

/-! ## One navigation step -/

theorem sub_addr (c : Comp) (sfx : Name) (off : Int) (t : Ty) :
    (c.sub sfx off t).addr = ⟨if c.addr.sym = [] then [] else c.addr.sym ++ sfx, c.addr.disp + off, c.addr.base⟩ := rfl

theorem sub_ty (c : Comp) (sfx : Name) (off : Int) (t : Ty) : (c.sub sfx off t).ty = t := rfl

/-- What a successful non-`Dereference` step does, in the toolchain's terms:
the symbol gets the component's asmdecl suffix, the displacement grows by an
offset `d` such that the selected component (a) is the one the Go type has for
that step, (b) lies inside the parent and (c) is, with all its own
sub-components, in the parent's asmdecl component list. -/
theorem step_spec (c c' : Comp) (s : Step) (hs : s.isDeref = false) (h : c.step s = .ok c') :
    ∃ d : Nat,
      c'.addr = ⟨if c.addr.sym = [] then [] else c.addr.sym ++ s.suffix, c.addr.disp + (d : Int), c.addr.base⟩ ∧
      stepTy c.ty s = some c'.ty ∧ d + sizeof c'.ty ≤ sizeof c.ty ∧
      ∀ suf off, ∀ x ∈ comps c'.ty (suf ++ s.suffix) (off + d), x ∈ comps c.ty suf off := by
  have hsz := sizeof_under c.ty
  have hcu := comps_under c.ty
  cases s with
  | deref r => simp [Step.isDeref] at hs
  | base =>
    simp only [Comp.step, Comp.stepWith, sliceHdrOffsets_eq] at h
    split at h
    · rename_i hk
      injection h with h; subst h
      refine ⟨0, by simp [sub_addr, Step.suffix], ?_⟩
      cases hu : c.ty.under <;> simp [isSlice, isString, hu] at hk
      · rename_i b; cases b <;> simp at hk
        refine ⟨by simp [stepTy, hu, sub_ty], by rw [← hsz, hu]; simp [sub_ty, sizeof, Basic.size], ?_⟩
        intro suf off x hx
        rw [← hcu, hu]
        simp [sub_ty, comps, asmKind, Basic.size, Step.suffix] at hx ⊢
        simp [hx]
      · refine ⟨by simp [stepTy, hu, sub_ty], by rw [← hsz, hu]; simp [sub_ty, sizeof, Basic.size], ?_⟩
        intro suf off x hx
        rw [← hcu, hu]
        simp [sub_ty, comps, asmKind, Basic.size, Step.suffix] at hx ⊢
        simp [hx]
    · simp at h
  | len =>
    simp only [Comp.step, Comp.stepWith, sliceHdrOffsets_eq] at h
    split at h
    · rename_i hk
      injection h with h; subst h
      refine ⟨8, by simp [sub_addr, Step.suffix], ?_⟩
      cases hu : c.ty.under <;> simp [isSlice, isString, hu] at hk
      · rename_i b; cases b <;> simp at hk
        refine ⟨by simp [stepTy, hu, sub_ty], by rw [← hsz, hu]; simp [sub_ty, sizeof, Basic.size], ?_⟩
        intro suf off x hx
        rw [← hcu, hu]
        simp [sub_ty, comps, asmKind, Basic.size, Step.suffix] at hx ⊢
        simp [hx]
      · refine ⟨by simp [stepTy, hu, sub_ty], by rw [← hsz, hu]; simp [sub_ty, sizeof, Basic.size], ?_⟩
        intro suf off x hx
        rw [← hcu, hu]
        simp [sub_ty, comps, asmKind, Basic.size, Step.suffix] at hx ⊢
        simp [hx]
    · simp at h
  | cap =>
    simp only [Comp.step, Comp.stepWith, sliceHdrOffsets_eq] at h
    split at h
    · rename_i hk
      injection h with h; subst h
      refine ⟨16, by simp [sub_addr, Step.suffix], ?_⟩
      cases hu : c.ty.under <;> simp [isSlice, hu] at hk
      refine ⟨by simp [stepTy, hu, sub_ty], by rw [← hsz, hu]; simp [sub_ty, sizeof, Basic.size], ?_⟩
      intro suf off x hx
      rw [← hcu, hu]
      simp [sub_ty, comps, asmKind, Basic.size, Step.suffix] at hx ⊢
      simp [hx, Nat.add_assoc]
    · simp at h
  | real =>
    simp only [Comp.step, Comp.stepWith] at h
    split at h
    · rename_i f hk
      injection h with h; subst h
      refine ⟨0, by simp [sub_addr, Step.suffix], ?_⟩
      cases hu : c.ty.under <;> simp [complexPart, hu] at hk
      rename_i b
      cases b <;> simp at hk <;> subst hk
      all_goals
        refine ⟨by simp [stepTy, hu, sub_ty], by rw [← hsz, hu]; simp [sub_ty, sizeof, Basic.size], ?_⟩
        intro suf off x hx
        rw [← hcu, hu]
        simp [sub_ty, comps, asmKind, Basic.size, Step.suffix] at hx ⊢
        simp [hx]
    · simp at h
  | imag =>
    simp only [Comp.step, Comp.stepWith] at h
    split at h
    · rename_i f hk
      injection h with h; subst h
      refine ⟨f.size, by simp [sub_addr, Step.suffix], ?_⟩
      cases hu : c.ty.under <;> simp [complexPart, hu] at hk
      rename_i b
      cases b <;> simp at hk <;> subst hk
      all_goals
        refine ⟨by simp [stepTy, hu, sub_ty], by rw [← hsz, hu]; simp [sub_ty, sizeof, Basic.size], ?_⟩
        intro suf off x hx
        rw [← hcu, hu]
        simp [sub_ty, comps, asmKind, Basic.size, Step.suffix] at hx ⊢
        simp [hx]
    · simp at h
  | index i =>
    simp only [Comp.step, Comp.stepWith, Comp.index] at h
    cases hu : c.ty.under <;> simp only [hu] at h <;> try (simp at h; done)
    rename_i n e
    split at h
    · simp at h
    · rename_i hk
      injection h with h; subst h
      simp only [Bool.true_and, Bool.or_eq_true, decide_eq_true_eq, not_or, Int.not_lt, Int.not_le] at hk
      obtain ⟨k, rfl⟩ := Int.eq_ofNat_of_zero_le hk.1
      have hkn : k < n := by omega
      refine ⟨k * sizeof e, by simp [sub_addr, Step.suffix, elemSize_eq], ?_, ?_, ?_⟩
      · simp [stepTy, hu, sub_ty, hkn]
      · rw [← hsz, hu]
        simp only [sub_ty, sizeof]
        have : (k + 1) * sizeof e ≤ n * sizeof e := Nat.mul_le_mul_right _ hkn
        rw [Nat.add_mul] at this; omega
      · intro suf off x hx
        rw [← hcu, hu]
        simp only [comps, List.mem_cons, List.mem_flatMap, List.mem_range]
        refine Or.inr ⟨k, hkn, ?_⟩
        simpa [sub_ty, Step.suffix, itoa, asmElemOff_eq] using hx
  | field name =>
    simp only [Comp.step, Comp.stepWith] at h
    cases hu : c.ty.under <;> simp only [hu] at h <;> try (simp at h; done)
    rename_i fs
    split at h
    · rename_i o t hf
      injection h with h; subst h
      refine ⟨o, by simp [sub_addr, Step.suffix], ?_, ?_, ?_⟩
      · simp [stepTy, hu, sub_ty, fieldAt_fieldTy fs name 0 o t hf]
      · rw [← hsz, hu]; exact field_inside hf
      · intro suf off x hx
        rw [← hcu, hu]
        simp only [comps, List.mem_cons]
        exact Or.inr (fieldAt_comps fs name 0 o t suf off hf x (by simpa [sub_ty, Step.suffix] using hx))
    · simp at h

/-- `Dereference`: a fresh address, no symbol, displacement 0, based on the
register; the component has the pointee type. -/
theorem deref_spec (c c' : Comp) (r : Name) (h : c.step (.deref r) = .ok c') :
    c'.addr = ⟨[], 0, .reg r⟩ ∧ stepTy c.ty (.deref r) = some c'.ty := by
  simp only [Comp.step, Comp.stepWith] at h
  cases hu : c.ty.under <;> simp only [hu] at h <;> try (simp at h; done)
  injection h with h; subst h
  simp [stepTy, hu]

theorem step_ty (c c' : Comp) (s : Step) (h : c.step s = .ok c') : stepTy c.ty s = some c'.ty := by
  cases hs : s.isDeref
  · obtain ⟨d, _, h2, _⟩ := step_spec c c' s hs h; exact h2
  · cases s <;> simp [Step.isDeref] at hs
    exact (deref_spec c c' _ h).2

/-- A step that does not exist in the Go type (index outside `[0,len)`, missing
field, wrong kind of type) is an error. -/
theorem step_error_of_none (c : Comp) (s : Step) (h : stepTy c.ty s = none) : ∃ e, c.step s = .error e := by
  cases hc : c.step s with
  | error e => exact ⟨e, rfl⟩
  | ok c' => rw [step_ty c c' s hc] at h; simp at h

/-- A step that exists in the Go type succeeds and selects that type. -/
theorem step_ok_of_some (c : Comp) (s : Step) (t : Ty) (h : stepTy c.ty s = some t) :
    ∃ c', c.step s = .ok c' ∧ c'.ty = t := by
  cases hc : c.step s with
  | ok c' =>
    have := step_ty c c' s hc
    rw [h] at this; injection this with this
    exact ⟨c', rfl, this.symm⟩
  | error e =>
    exfalso
    cases s with
    | base =>
      cases hu : c.ty.under <;> simp [stepTy, hu] at h
      · rename_i b; cases b <;> simp at h
        simp [Comp.step, Comp.stepWith, isString, isSlice, hu] at hc
      · simp [Comp.step, Comp.stepWith, isString, isSlice, hu] at hc
    | len =>
      cases hu : c.ty.under <;> simp [stepTy, hu] at h
      · rename_i b; cases b <;> simp at h
        simp [Comp.step, Comp.stepWith, isString, isSlice, hu] at hc
      · simp [Comp.step, Comp.stepWith, isString, isSlice, hu] at hc
    | cap =>
      cases hu : c.ty.under <;> simp [stepTy, hu] at h
      simp [Comp.step, Comp.stepWith, isSlice, hu] at hc
    | real =>
      cases hu : c.ty.under <;> simp [stepTy, hu] at h
      rename_i b; cases b <;> simp at h
      all_goals simp [Comp.step, Comp.stepWith, complexPart, hu] at hc
    | imag =>
      cases hu : c.ty.under <;> simp [stepTy, hu] at h
      rename_i b; cases b <;> simp at h
      all_goals simp [Comp.step, Comp.stepWith, complexPart, hu] at hc
    | index i =>
      cases hu : c.ty.under <;> simp [stepTy, hu] at h
      rename_i n e
      obtain ⟨⟨h0, hn⟩, _⟩ := h
      simp [Comp.step, Comp.stepWith, Comp.index, hu] at hc
      rw [if_neg (by omega)] at hc
      simp at hc
    | field name =>
      cases hu : c.ty.under <;> simp [stepTy, hu] at h
      rename_i fs
      obtain ⟨o, ho⟩ := fieldTy_fieldAt fs name 0 t h
      simp [Comp.step, Comp.stepWith, hu, ho] at hc
    | deref r =>
      cases hu : c.ty.under <;> simp [stepTy, hu] at h
      simp [Comp.step, Comp.stepWith, hu] at hc

/-! ## Paths -/

theorem navigate_nil (c : Comp) : navigate c [] = .ok c := rfl

theorem navigate_cons (c : Comp) (s : Step) (ss : List Step) :
    navigate c (s :: ss) = (match c.step s with
      | .ok c' => navigate c' ss
      | .error e => .error e) := rfl

/-- The first error sticks: once a step fails, the whole chain is that error. -/
theorem error_sticks (c : Comp) (s : Step) (ss : List Step) (e : Err) (h : c.step s = .error e) :
    navigate c (s :: ss) = .error e := by
  simp [navigate_cons, h]

theorem navigate_append (c : Comp) (p q : List Step) :
    navigate c (p ++ q) = (match navigate c p with
      | .ok c' => navigate c' q
      | .error e => .error e) := by
  induction p generalizing c with
  | nil => simp [navigate_nil]
  | cons s ss ih =>
    simp only [List.cons_append, navigate_cons]
    cases c.step s with
    | ok c' => exact ih c'
    | error e => rfl

theorem navigate_pathTy (c c' : Comp) (path : List Step) (h : navigate c path = .ok c') :
    pathTy c.ty path = some c'.ty := by
  induction path generalizing c with
  | nil => simp [navigate_nil] at h; simp [pathTy, h]
  | cons s ss ih =>
    rw [navigate_cons] at h
    cases hc : c.step s with
    | error e => simp [hc] at h
    | ok c1 =>
      simp only [hc] at h
      simp only [pathTy, step_ty c c1 s hc]
      exact ih c1 h

/-- A path that does not exist in the Go type is an error. -/
theorem navigate_error_of_none (c : Comp) (path : List Step) (h : pathTy c.ty path = none) :
    ∃ e, navigate c path = .error e := by
  cases hc : navigate c path with
  | error e => exact ⟨e, rfl⟩
  | ok c' => rw [navigate_pathTy c c' path hc] at h; simp at h

/-- A path that exists in the Go type is navigable and ends at that type. -/
theorem navigate_ok_of_some (c : Comp) (path : List Step) (t : Ty) (h : pathTy c.ty path = some t) :
    ∃ c', navigate c path = .ok c' ∧ c'.ty = t := by
  induction path generalizing c with
  | nil => simp [pathTy] at h; exact ⟨c, rfl, h⟩
  | cons s ss ih =>
    simp only [pathTy] at h
    cases hs : stepTy c.ty s with
    | none => simp [hs] at h
    | some t1 =>
      simp only [hs] at h
      obtain ⟨c1, hc1, ht1⟩ := step_ok_of_some c s t1 hs
      obtain ⟨c', hc', ht'⟩ := ih c1 (by rw [ht1]; exact h)
      exact ⟨c', by simp [navigate_cons, hc1, hc'], ht'⟩

theorem pathSuffix_cons (s : Step) (ss : List Step) : pathSuffix (s :: ss) = s.suffix ++ pathSuffix ss := by
  simp [pathSuffix]

/-- **Navigation along a `Dereference`-free path**, in the toolchain's terms. -/
theorem navigate_spec (root c' : Comp) (path : List Step) (hdf : ∀ s ∈ path, s.isDeref = false)
    (h : navigate root path = .ok c') :
    ∃ d : Nat,
      c'.addr = ⟨if root.addr.sym = [] then [] else root.addr.sym ++ pathSuffix path,
                 root.addr.disp + (d : Int), root.addr.base⟩ ∧
      pathTy root.ty path = some c'.ty ∧ d + sizeof c'.ty ≤ sizeof root.ty ∧
      ∀ suf off, ∀ x ∈ comps c'.ty (suf ++ pathSuffix path) (off + d), x ∈ comps root.ty suf off := by
  induction path generalizing root with
  | nil =>
    simp [navigate_nil] at h; subst h
    refine ⟨0, ?_, by simp [pathTy], by simp, by simp [pathSuffix]⟩
    cases hr : root.addr with
    | mk sym disp base => by_cases hs : sym = [] <;> simp [hs, pathSuffix]
  | cons s ss ih =>
    rw [navigate_cons] at h
    cases hc : root.step s with
    | error e => simp [hc] at h
    | ok c1 =>
      simp only [hc] at h
      obtain ⟨d1, ha1, ht1, hi1, hc1⟩ := step_spec root c1 s (hdf s (by simp)) hc
      obtain ⟨d2, ha2, ht2, hi2, hc2⟩ := ih c1 (fun x hx => hdf x (by simp [hx])) h
      refine ⟨d1 + d2, ?_, ?_, by omega, ?_⟩
      · rw [ha2, ha1, pathSuffix_cons]
        by_cases hs : root.addr.sym = []
        · simp [hs, Int.add_assoc]
        · simp [hs, Int.add_assoc]
      · simp only [pathTy, ht1]; exact ht2
      · intro suf off x hx
        apply hc1 suf off
        apply hc2 (suf ++ s.suffix) (off + d1)
        simpa [pathSuffix_cons, Nat.add_assoc] using hx

theorem splitLastDeref_none : (path : List Step) → splitLastDeref path = none → ∀ s ∈ path, s.isDeref = false
  | [], _ => by simp
  | s :: ss, h => by
    simp only [splitLastDeref] at h
    cases hr : splitLastDeref ss with
    | some v => obtain ⟨pre, r, post⟩ := v; simp [hr] at h
    | none =>
      simp only [hr] at h
      intro x hx
      rcases List.mem_cons.mp hx with rfl | hx
      · cases x <;> simp [Step.isDeref] at h ⊢
      · exact splitLastDeref_none ss hr x hx

theorem splitLastDeref_some : (path : List Step) → ∀ pre r post, splitLastDeref path = some (pre, r, post) →
    path = pre ++ .deref r :: post ∧ ∀ s ∈ post, s.isDeref = false
  | [], _, _, _, h => by simp [splitLastDeref] at h
  | s :: ss, pre, r, post, h => by
    simp only [splitLastDeref] at h
    cases hr : splitLastDeref ss with
    | some v =>
      obtain ⟨pre', r', post'⟩ := v
      simp only [hr, Option.some.injEq, Prod.mk.injEq] at h
      obtain ⟨rfl, rfl, rfl⟩ := h
      obtain ⟨h1, h2⟩ := splitLastDeref_some ss pre' r' post' hr
      exact ⟨by simp [h1], h2⟩
    | none =>
      simp only [hr] at h
      cases s <;> simp at h
      obtain ⟨rfl, rfl, rfl⟩ := h
      exact ⟨by simp, splitLastDeref_none _ hr⟩

/-! ## `Signature.init` against asmdecl's `addParams` -/

/-- `newTuple` over `Offsetsof`, fused into one recursion. -/
def tupleFrom : List (Name × Ty) → Nat → Nat → Name → List (Name × Comp)
  | [], _, _, _ => []
  | (n, t) :: vs, off, i, pfx =>
    (n, { ty := t, addr := { sym := if n = [] then defaultName pfx i else n,
                             disp := (alignUp off (alignof t) : Nat), base := .fp } })
      :: tupleFrom vs (alignUp off (alignof t) + sizeof t) (i + 1) pfx

theorem mkComps_offsetsFrom (vs : List (Name × Ty)) (extra : List Ty) (off i : Nat) (pfx : Name) :
    mkComps vs (offsetsFrom (tys vs ++ extra) off) i pfx = tupleFrom vs off i pfx := by
  induction vs generalizing off i with
  | nil => cases h : offsetsFrom (tys [] ++ extra) off <;> simp [mkComps, tupleFrom]
  | cons v vs ih =>
    obtain ⟨n, t⟩ := v
    simp only [tys, List.map_cons, List.cons_append, offsetsFrom, mkComps, tupleFrom]
    congr 1
    exact ih _ _

theorem tys_append (a b : List (Name × Ty)) : tys (a ++ b) = tys a ++ tys b := by simp [tys]

theorem tupleFrom_append (a b : List (Name × Ty)) (off i : Nat) (pfx : Name) :
    tupleFrom (a ++ b) off i pfx =
      tupleFrom a off i pfx ++ tupleFrom b (endFrom (tys a) off) (i + a.length) pfx := by
  induction a generalizing off i with
  | nil => simp [tupleFrom, endFrom, tys]
  | cons v vs ih =>
    obtain ⟨n, t⟩ := v
    simp only [List.cons_append, tupleFrom, tys, List.map_cons, endFrom, List.length_cons]
    rw [ih]
    simp [tys, Nat.add_assoc, Nat.add_comm 1]

theorem endFrom_append (a b : List Ty) (off : Nat) : endFrom (a ++ b) off = endFrom b (endFrom a off) := by
  induction a generalizing off with
  | nil => simp [endFrom]
  | cons t ts ih => simp [endFrom, ih]

theorem offsetsFrom_length (ts : List Ty) (off : Nat) : (offsetsFrom ts off).length = ts.length := by
  induction ts generalizing off with
  | nil => simp [offsetsFrom]
  | cons t ts ih => simp [offsetsFrom, ih]

/-- The sentinel trick: the offset of one more variable appended to the list is
the end of the list rounded up to that variable's alignment. -/
theorem offsetsFrom_sentinel (ts : List Ty) (t : Ty) (off : Nat) :
    (offsetsFrom (ts ++ [t]) off).getD ts.length 0 = alignUp (endFrom ts off) (alignof t) := by
  induction ts generalizing off with
  | nil => simp [offsetsFrom, endFrom]
  | cons u us ih => simpa [offsetsFrom, endFrom] using ih _

theorem structSize_aux (ts : List Ty) (t : Ty) (off : Nat) :
    ∃ o, (offsetsFrom (t :: ts) off).getLast? = some o ∧
      ∃ l, (t :: ts).getLast? = some l ∧ o + sizeof l = endFrom (t :: ts) off := by
  induction ts generalizing t off with
  | nil => simp [offsetsFrom, endFrom]
  | cons u us ih =>
    obtain ⟨o, ho, l, hl, he⟩ := ih u (alignUp off (alignof t) + sizeof t)
    refine ⟨o, ?_, l, ?_, ?_⟩
    · simp only [offsetsFrom] at ho ⊢
      rw [List.getLast?_cons_cons]; exact ho
    · rw [List.getLast?_cons_cons]; exact hl
    · simpa [endFrom] using he

/-- `structsize` is the end of the list laid out from 0. -/
theorem structSize_eq (ts : List Ty) : structSize ts = endFrom ts 0 := by
  cases ts with
  | nil => simp [structSize, offsetsFrom, endFrom]
  | cons t ts =>
    obtain ⟨o, ho, l, hl, he⟩ := structSize_aux ts t 0
    simp only [structSize, ho, hl]; exact he

theorem add_mod_zero {a : Nat} (h : IsAlign a) {x y : Nat} (hx : x % a = 0) (hy : y % a = 0) : (x + y) % a = 0 := by
  rcases h with rfl | rfl | rfl | rfl <;> omega

theorem offsetsFrom_add8 (ts : List Ty) {b : Nat} (hb : b % 8 = 0) (off : Nat) :
    offsetsFrom ts (b + off) = (offsetsFrom ts off).map (· + b) := by
  induction ts generalizing off with
  | nil => simp [offsetsFrom]
  | cons t ts ih =>
    simp only [offsetsFrom, List.map_cons, alignUp_add8 (alignof_isAlign t) hb]
    rw [Nat.add_assoc, ih]
    simp [Nat.add_comm]

theorem endFrom_add8 (ts : List Ty) {b : Nat} (hb : b % 8 = 0) (off : Nat) :
    endFrom ts (b + off) = b + endFrom ts off := by
  induction ts generalizing off with
  | nil => simp [endFrom]
  | cons t ts ih =>
    simp only [endFrom, alignUp_add8 (alignof_isAlign t) hb]
    rw [Nat.add_assoc, ih]

/-- asmdecl's view of one tuple component. -/
def compTop (p : Name × Comp) : AsmTop := ⟨p.2.addr.sym, p.2.addr.disp.toNat, p.2.ty⟩

theorem defaultName_eq (isret : Bool) (i : Nat) :
    defaultName (if isret then retPfx else argPfx) i = asmDefaultName isret i := by
  cases isret <;> by_cases h : i > 0 <;> simp [defaultName, asmDefaultName, retPfx, argPfx, itoa, h]

/-- All names of one list entry: asmdecl does not re-align between them; the
running offset stays aligned because the size is a multiple of the alignment. -/
theorem names_match (ns : List Name) (t : Ty) (off i : Nat) (pfx : Name)
    (hwf : ∀ n ∈ ns, n ≠ []) (hoff : off % alignof t = 0) :
    (tupleFrom (ns.map (·, t)) off i pfx).map compTop = (asmNames ns t off).1 ∧
      endFrom (tys (ns.map (·, t))) off = (asmNames ns t off).2 := by
  induction ns generalizing off i with
  | nil => simp [tupleFrom, asmNames, endFrom, tys]
  | cons n ns ih =>
    have ha := alignUp_of_mod (alignof_isAlign t) hoff
    have hn : n ≠ [] := hwf n (by simp)
    have hnext : (off + sizeof t) % alignof t = 0 :=
      add_mod_zero (alignof_isAlign t) hoff (sizeof_mod_alignof t)
    obtain ⟨ih1, ih2⟩ := ih (off + sizeof t) (i + 1) (fun m hm => hwf m (by simp [hm])) hnext
    constructor
    · simp only [List.map_cons, tupleFrom, asmNames, ha, hn, if_false]
      rw [ih1]
      simp [compTop]
    · simp only [List.map_cons, tys, endFrom, asmNames, ha]
      simpa [tys] using ih2

theorem alignUp_idem {a : Nat} (h : IsAlign a) (x : Nat) : alignUp (alignUp x a) a = alignUp x a :=
  alignUp_of_mod h (alignUp_mod h x)

theorem group_match (g : Group) (isret : Bool) (off i : Nat) (hwf : g.WF) :
    let names := if g.names.isEmpty then [asmDefaultName isret i] else g.names
    let r := asmNames names g.ty (asmAlign off (alignof g.ty))
    (tupleFrom g.vars off i (if isret then retPfx else argPfx)).map compTop = r.1 ∧
      endFrom (tys g.vars) off = r.2 ∧ g.vars.length = names.length := by
  have hal := alignof_isAlign g.ty
  simp only [asmAlign_eq hal]
  cases hn : g.names with
  | nil =>
    simp [Group.vars, hn, tupleFrom, asmNames, compTop, defaultName_eq, endFrom, tys]
  | cons n ns =>
    have hwf' : ∀ m ∈ n :: ns, m ≠ [] := by intro m hm; exact hwf m (by rw [hn]; exact hm)
    have hm := names_match (n :: ns) g.ty (alignUp off (alignof g.ty)) i (if isret then retPfx else argPfx)
      hwf' (alignUp_mod hal off)
    simp only [Group.vars, hn, List.isEmpty_cons, Bool.false_eq_true, if_false]
    refine ⟨?_, ?_, by simp⟩
    · rw [← hm.1]
      simp [tupleFrom, alignUp_idem hal]
    · rw [← hm.2]
      simp [tys, endFrom, alignUp_idem hal]

theorem vars_cons (g : Group) (gs : List Group) : vars (g :: gs) = g.vars ++ vars gs := by
  simp [vars]

/-- **`newTuple` agrees with asmdecl's `addParams`**: same variables in the same
order with the same names, offsets and types, and the same final offset. -/
theorem addParams_match (gs : List Group) (isret : Bool) (off i : Nat) (hwf : ∀ g ∈ gs, g.WF) :
    (tupleFrom (vars gs) off i (if isret then retPfx else argPfx)).map compTop = (asmAddParams gs isret i off).1 ∧
      endFrom (tys (vars gs)) off = (asmAddParams gs isret i off).2 := by
  induction gs generalizing off i with
  | nil => simp [vars, tupleFrom, asmAddParams, endFrom, tys]
  | cons g gs ih =>
    obtain ⟨g1, g2, g3⟩ := group_match g isret off i (hwf g (by simp))
    simp only at g1 g2 g3
    obtain ⟨ih1, ih2⟩ := ih (endFrom (tys g.vars) off) (i + g.vars.length) (fun x hx => hwf x (by simp [hx]))
    simp only [vars_cons, tupleFrom_append, List.map_append, tys_append, endFrom_append, asmAddParams]
    rw [g1, ih1, ih2, g2, g3]
    trace_state
    sorry

end Avo.Layout
